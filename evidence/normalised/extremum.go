package gogu

import "golang.org/x/exp/constraints"

// keyed lifts an ordering of the keys to an ordering of the elements the keys are computed from.
func keyed[T any, K any](key func(T) K, ord func(a, b K) bool) func(a, b T) bool {
	return func(a, b T) bool {
		return ord(key(a), key(b))
	}
}

// notLess is the ordering used when searching for a maximum: the opposite of Less.
func notLess[T constraints.Ordered](a, b T) bool {
	return !Less(a, b)
}
