package gogu

import (
	"math/rand"
)

// Shuffle implements the Fisher-Yates shuffle algorithm applied to a slice.
func Shuffle[T any](src []T) []T {
	dst := make([]T, len(src))
	copy(dst, src)

	for i := len(src) - 1; i >= 0; i-- {
		j := rand.Int() % (i + 1)
		swap(&dst[i], &dst[j])
	}
	return dst
}

// swapValues swaps the two items.
func swap[T any](a, b *T) {
	tmp := *a
	*a = *b
	*b = tmp
}
