// Package btree provides an implementation of the B-tree data structure,
// which is a self-balancing tree data structure maintaining its values
// in sorted order and allowing each node to have more than two children,
// compared to the standard BST where each node has only two leaves.
// The implementation is an adapted version of https://algs4.cs.princeton.edu/62btree/BTree.java.
//
// This package is NOT thread-safe.
// For data consistency some sort of concurrency safe mechanism should be implemented on the client side.
package btree

import (
	"github.com/esimov/gogu"
	"golang.org/x/exp/constraints"
)

// Max children per binary tree. Must be even or greater than 2.
const maxChildren = 4

// entry is the inner component of a node, which holds the node value and a pointer to the next node.
type entry[K constraints.Ordered, V any] struct {
	key       K
	value     V
	next      *node[K, V]
	isRemoved bool
}

// node is a data structure which defines how many children (leaves) each node has.
type node[K constraints.Ordered, V any] struct {
	children [maxChildren]entry[K, V]
	m        int
}

// newNode instantiates a new node with no leaves.
func newNode[K constraints.Ordered, V any](m int) *node[K, V] {
	return &node[K, V]{
		m: m,
	}
}

// BTree defines a data structure with one node, which is the root node.
type BTree[K constraints.Ordered, V any] struct {
	root   *node[K, V]
	n      int
	height int
}

// New creates a new B-tree.
func New[K constraints.Ordered, V any]() *BTree[K, V] {
	return &BTree[K, V]{
		root: newNode[K, V](0),
	}
}

// Size returns the B-tree size (the number of elements).
func (t *BTree[K, V]) Size() int {
	return t.n
}

// IsEmpty checks if a B-tree is empty or not.
func (t *BTree[K, V]) IsEmpty() bool {
	return t.Size() == 0
}

// Height returns the B-tree size (how many levels it has).
func (t *BTree[K, V]) Height() int {
	return t.height
}

// Get searches for a key and in case it's found it returns the key's value
// together with a boolean flag signaling the key existence in the tree data structure.
func (t *BTree[K, V]) Get(key K) (V, bool) {
	if e := t.root.find(key, t.height); e != nil {
		return e.value, true
	}

	var v V
	return v, false
}

// find is a private method which descends to the external node responsible for the key
// and returns the entry holding it, or nil in case the tree does not contain the key.
// It is shared by the Get, Put and Remove methods.
func (n *node[K, V]) find(key K, height int) *entry[K, V] {
	// external node
	if height == 0 {
		for i := 0; i < n.m; i++ {
			if gogu.Equal(key, n.children[i].key) && !n.children[i].isRemoved {
				return &n.children[i]
			}
		}
	} else {
		// internal node
		for i := 0; i < n.m; i++ {
			if i+1 == n.m || gogu.Less(key, n.children[i+1].key) {
				return n.children[i].next.find(key, height-1)
			}
		}
	}

	return nil
}

// Put inserts a new value into the B-tree.
func (t *BTree[K, V]) Put(key K, val V) {
	// If the value already exists in the B-tree this will be overwritten.
	if e := t.root.find(key, t.height); e != nil {
		e.value = val
		return
	}
	t.n++

	u := t.root.insert(t, key, val, t.height)
	if u == nil {
		return
	}
	// split the root
	n := newNode[K, V](2)
	n.children[0] = entry[K, V]{
		key:  t.root.children[0].key,
		next: t.root,
	}
	n.children[1] = entry[K, V]{
		key:  u.children[0].key,
		next: u,
	}

	t.root = n
	t.height++
}

// insert is a private method which is invoked by the Put method for the keys not yet present in the tree.
func (n *node[K, V]) insert(t *BTree[K, V], key K, val V, height int) *node[K, V] {
	entry := entry[K, V]{
		key:   key,
		value: val,
		next:  nil,
	}

	var j int
	// external node
	if height == 0 {
		for j = 0; j < n.m; j++ {
			if gogu.Less(key, n.children[j].key) {
				break
			}
		}
	} else {
		// internal node
		for j = 0; j < n.m; j++ {
			if j+1 == n.m || gogu.Less(key, n.children[j+1].key) {
				node := n.children[j].next.insert(t, key, val, height-1)
				if node == nil {
					return nil
				}
				j++
				entry.key = node.children[0].key
				entry.next = node
				break
			}
		}
	}
	for i := n.m; i > j; i-- {
		n.children[i] = n.children[i-1]
	}

	n.children[j] = entry
	n.m++
	if n.m < maxChildren {
		return nil
	} else {
		return t.split(n)
	}
}

func (t *BTree[K, V]) split(n *node[K, V]) *node[K, V] {
	h := newNode[K, V](maxChildren / 2)
	n.m = maxChildren / 2

	for i := 0; i < n.m; i++ {
		h.children[i] = n.children[n.m+i]
	}
	return h
}

// Remove deletes a node from the B-tree.
func (t *BTree[K, V]) Remove(key K) {
	e := t.root.find(key, t.height)
	if e == nil {
		return
	}
	// The entry is only flagged as removed, this way the tree does not have to be rebalanced.
	e.isRemoved = true
	t.n--
}

// Traverse iterates over the tree nodes and invokes the callback function provided as argument.
func (t *BTree[K, V]) Traverse(fn func(key K, val V)) {
	t.traverse(t.root, t.height, fn)
}

func (t *BTree[K, V]) traverse(n *node[K, V], depth int, fn func(K, V)) {
	// external node
	if depth == 0 {
		for i := 0; i < n.m; i++ {
			l := n.children[i]
			if l.isRemoved {
				continue
			}
			fn(l.key, l.value)
		}
	} else {
		// internal node
		for i := 0; i < n.m; i++ {
			t.traverse(n.children[i].next, depth-1, fn)
		}
	}
}

// search is a private method which is invoked by the Get method.
func (n *node[K, V]) search(t *BTree[K, V], key K, height int) (V, bool) {
	// external node
	if height == 0 {
		for i := 0; i < n.m; i++ {
			if gogu.Equal(key, n.children[i].key) && !n.children[i].isRemoved {
				return n.children[i].value, true
			}
		}
	} else {
		// internal node
		for i := 0; i < n.m; i++ {
			if i+1 == n.m || gogu.Less(key, n.children[i+1].key) {
				return n.children[i].next.search(t, key, height-1)
			}
		}
	}

	var v V
	return v, false
}
