package gogu

import (
	"sync"
	"unicode/utf8"
	"unsafe"
)

// strBuf is a small append-only byte buffer used by the string helpers which
// assemble their result out of several fragments. The buffers are recycled
// through a pool in order to avoid one allocation per call for the backing
// array and another one for the conversion of the result to a string.
type strBuf struct {
	b []byte
}

// maxPooledBuf is the capacity above which a buffer is not returned to the
// pool anymore, otherwise a single huge string would pin the memory forever.
const maxPooledBuf = 1 << 12

var strBufPool = sync.Pool{
	New: func() any {
		return &strBuf{b: make([]byte, 0, 64)}
	},
}

// WriteString appends the string to the buffer.
func (sb *strBuf) WriteString(s string) {
	sb.b = append(sb.b, s...)
}

// WriteRune appends the UTF-8 encoding of the rune to the buffer.
func (sb *strBuf) WriteRune(r rune) {
	sb.b = utf8.AppendRune(sb.b, r)
}

// Len returns the number of the accumulated bytes.
func (sb *strBuf) Len() int {
	return len(sb.b)
}

// String returns the accumulated string. Like strings.Builder
// it does not copy the content of the underlying byte slice.
func (sb *strBuf) String() string {
	return *(*string)(unsafe.Pointer(&sb.b))
}

// Release hands the buffer back to the pool.
// The buffer should not be written after this call.
func (sb *strBuf) Release() {
	if cap(sb.b) > maxPooledBuf {
		return
	}
	strBufPool.Put(sb)
}
