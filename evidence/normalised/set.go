package gogu

// smallSetSize is the number of values up to which an orderedSet is searched linearly.
// For a handful of values a linear scan over a contiguous slice is considerably
// faster than hashing them and it does not need any extra allocation.
const smallSetSize = 16

// orderedSet is a collection of distinct values which remembers the order they have been inserted in.
// It is the building block of the slice functions dealing with unique values (Unique, Without, Difference).
//
// A small set consists only of the values slice. As soon as it outgrows smallSetSize
// a lookup table is built, and from there on the membership checks are served from the table.
type orderedSet[T comparable] struct {
	values []T
	lookup map[T]struct{}
}

// newOrderedSet creates an empty set with room for the provided number of values.
func newOrderedSet[T comparable](size int) *orderedSet[T] {
	return &orderedSet[T]{
		values: make([]T, 0, size),
	}
}

// orderedSetOf creates a set holding the distinct values of the slice.
func orderedSetOf[T comparable](slice []T) *orderedSet[T] {
	var inl2_v0 *orderedSet[T]
	{
		var size int = 0
		_ = size
		inl2_v0 = &orderedSet[T]{
			values: make([]T, 0, size),
		}
	}
	set := inl2_v0
	for _, v := range slice {
		set.Add(v)
	}
	return set
}

// Has reports whether the value is part of the set.
func (s *orderedSet[T]) Has(val T) bool {
	if s.lookup != nil {
		_, ok := s.lookup[val]
		return ok
	}
	for _, v := range s.values {
		if v == val {
			return true
		}
	}
	return false
}

// Add inserts the value into the set, unless it is already part of it.
// It returns true in case the value has been inserted.
func (s *orderedSet[T]) Add(val T) bool {
	if s.Has(val) {
		return false
	}

	if s.lookup != nil {
		s.lookup[val] = struct{}{}
	} else if len(s.values) == smallSetSize {
		// The set is no longer small, switch over to the lookup table.
		{
			var s *orderedSet[T] = s
			_ = s
			s.lookup = make(map[T]struct{}, 2*len(s.values))
			for _, v := range s.values {
				s.lookup[v] = struct{}{}
			}
		}

	}
	s.values = append(s.values, val)

	return true
}

// Len returns the number of values of the set.
func (s *orderedSet[T]) Len() int {
	return len(s.values)
}

// Values returns the values of the set in the order they have been inserted.
func (s *orderedSet[T]) Values() []T {
	return s.values
}
