// Package list provides an implementation of the linked list value structure.
// It comes with two version: singly and doubly linked list.
// The singly linked list version has a value element storing the node value
// and a pointer to the next element of the list.
// The doubly linked list version has an additional pointer to previous node.
package list

import (
	"fmt"
)

// DoubleNode holds an additional prev pointer to the node before.
type DoubleNode[T comparable] struct {
	Value T
	next  *DoubleNode[T]
	prev  *DoubleNode[T]
}

// DList contains the node elements of the doubly linked list.
type DList[T comparable] struct {
	DoubleNode[T]

	// tail caches the last node of the list, so that Append and Last
	// do not have to walk the whole list on each call.
	// It is nil when the last node is not known and has to be looked up.
	tail *DoubleNode[T]
}

// newDNode creates a new doubly linked list node element.
func newDNode[T comparable](value T) *DoubleNode[T] {
	return &DoubleNode[T]{
		Value: value,
		next:  nil,
		prev:  nil,
	}
}

// InitDList initializes a doubly linked list with one node.
// Because this is the only node in the list, its next and prev pointers are nil.
func InitDList[T comparable](value T) *DList[T] {
	return &DList[T]{
		DoubleNode: *newDNode(value),
	}
}

// Unshift inserts a new node at the beginning of the doubly linked list.
func (l *DList[T]) Unshift(value T) {
	newNode := newDNode(value)
	head := l.DoubleNode

	newNode.next = &head
	l.prev = newNode

	// Move the pointer to the new node.
	l.DoubleNode = *newNode
	// The former head has been moved, it might have been the last node too.
	l.tail = nil
}

// Append inserts a new node at the end of the doubly linked list.
func (l *DList[T]) Append(value T) {
	newNode := newDNode(value)
	var inl1_v0 *DoubleNode[T]
inl1done:
	switch {
	default:
		var l *DList[T] = l
		_ = l
		if l.tail != nil {
			{
				inl1_v0 = l.tail
				break inl1done
			}
		}
		n := &l.DoubleNode
		for n.next != nil {
			n = n.next
		}
		{
			inl1_v0 = n
			break inl1done
		}
	}
	last := inl1_v0

	newNode.next = last.next
	last.next = newNode
	newNode.prev = last

	l.tail = newNode
}

// InsertBefore inserts a new node before the current node.
// It returns an error in case the requested node does not exists.
func (l *DList[T]) InsertBefore(node *DoubleNode[T], value T) error {
	head := l.DoubleNode
	if node == nil {
		return fmt.Errorf("the previous node does not exists")
	}

	if _, found := l.Find(node.Value); !found {
		return fmt.Errorf("the node to be deleted does not exists")
	}
	newNode := newDNode(value)

	newNode.prev = node.prev
	node.prev = newNode
	newNode.next = node

	if newNode.prev != nil {
		newNode.prev.next = newNode
	} else {
		newNode.next = &head
		// Move the pointer to the new node.
		l.DoubleNode = *newNode
		l.tail = nil
	}

	return nil
}

// InsertAfter inserts a new node after the existing node.
// It returns an error in case the requested node does not exists.
func (l *DList[T]) InsertAfter(node *DoubleNode[T], value T) error {
	if node == nil {
		return fmt.Errorf("the previous node does not exists")
	}

	if _, found := l.Find(node.Value); !found {
		return fmt.Errorf("the node to be deleted does not exists")
	}

	newNode := newDNode(value)
	newNode.next = node.next
	node.next = newNode
	newNode.prev = node

	if newNode.next != nil {
		newNode.next.prev = newNode
	} else {
		l.tail = newNode
	}

	return nil
}

// Replace replaces a node's value with the new one.
// It returns an error in case the requested node does not exist.
func (l *DList[T]) Replace(oldVal, newVal T) error {
	head := &l.DoubleNode

	// Go through the list until the requested node is reached.
	for {
		if head.next == nil {
			if head.Value == oldVal {
				head.Value = newVal
				break
			}
			return fmt.Errorf("requested node does not exists")
		}
		if head.Value == oldVal {
			head.Value = newVal
			break
		}
		head = head.next
	}

	return nil
}

// Delete removes the specified node from the list.
func (l *DList[T]) Delete(node *DoubleNode[T]) error {
	head := &l.DoubleNode

	if _, found := l.Find(node.Value); !found {
		return fmt.Errorf("the node to be deleted does not exists")
	}

	if head.next == nil && head.prev == nil {
		return fmt.Errorf("cannot delete the node if there is only one element in the list")
	}

	// Check if the node to be deleted is the head node.
	if head.Value == node.Value {
		l.DoubleNode = *head.next
		l.tail = nil
		return nil
	}

	// Replace the next pointer of the node to be deleted
	// only if it's not the last element of the list.
	if node.next != nil {
		node.next.prev = node.prev
	}

	// Replace the prev pointer of the node to be deleted
	// only if it's not the first element of the list.
	if node.prev != nil {
		node.prev.next = node.next
	}
	l.tail = nil

	return nil
}

// Shift retrieves and removes the first node from the list.
func (l *DList[T]) Shift() *DoubleNode[T] {
	head := &l.DoubleNode
	node := l.DoubleNode

	if head.next == nil {
		var value T
		head.next = nil
		head.prev = nil
		head.Value = value

		l.DoubleNode = *head
	} else {
		head = head.next
		l.DoubleNode = *head
	}
	l.tail = nil

	return &node
}

// Pop removes the last node from the list.
func (l *DList[T]) Pop() *DoubleNode[T] {
	head := &l.DoubleNode
	node := DoubleNode[T]{}

	if head.next == nil {
		head = nil
	} else {
		tmp := head
		node = *tmp
		for tmp.next.next != nil {
			tmp = tmp.next
			node = *tmp
		}
		tmp.next = nil
		// The node before the removed one is the last one from now on.
		l.tail = &node
	}
	return &node
}

// Find searches for a node element in the linked list.
// It returns the node in case the element is found otherwise nil.
func (l *DList[T]) Find(val T) (*DoubleNode[T], bool) {
	for n := &l.DoubleNode; n != nil; n = n.next {
		if n.Value == val {
			return n, true
		}
	}

	return nil, false
}

// First retrieves the first element of the doubly linked list.
func (l *DList[T]) First() T {
	head := l.DoubleNode

	return head.Value
}

// Last retrieves the last element of the doubly linked list.
func (l *DList[T]) Last() T {
	var inl2_v0 *DoubleNode[T]
inl2done:
	switch {
	default:
		var l *DList[T] = l
		_ = l
		if l.tail != nil {
			{
				inl2_v0 = l.tail
				break inl2done
			}
		}
		n := &l.DoubleNode
		for n.next != nil {
			n = n.next
		}
		{
			inl2_v0 = n
			break inl2done
		}
	}
	return inl2_v0.Value
}

// Each iterates over the elements of the linked list and invokes
// the callback function having as parameter the nodes' value.
func (l *DList[T]) Each(fn func(value T)) {
	head := &l.DoubleNode
	node := l.DoubleNode
	for {
		fn(l.Value)
		if head.next == nil {
			break
		}
		l.DoubleNode = *head.next
	}
	// Move the pointer back to the first node.
	l.DoubleNode = node
}

// Val retrieves the node value.
func (l *DList[T]) Val(node *DoubleNode[T]) T {
	return node.Value
}

// Clear deletes all the nodes from the list.
func (l *DList[T]) Clear() {
	head := &l.DoubleNode
	head.next = nil
	head.prev = nil
	l.tail = nil
}
