package stack

import "sync"

// Stack implements the LIFO Stack.
type Stack[T comparable] struct {
	mu    sync.RWMutex
	items []T
	// count holds the number of occurrences of each value currently
	// on the stack, so Search does not have to scan the whole slice.
	count map[T]int
}

// New creates a new LIFO stack where the items are stored in a plain slice.
func New[T comparable]() *Stack[T] {
	return &Stack[T]{
		mu:    sync.RWMutex{},
		count: make(map[T]int),
	}
}

// Push inserts a new element at the end of the stack.
func (s *Stack[T]) Push(item T) {
	s.mu.Lock()
	s.items = append(s.items, item)
	s.count[item]++
	s.mu.Unlock()
}

// Pop retrieves and removes the last element pushed into the stack.
// The stack size will be decreased by one.
func (s *Stack[T]) Pop() (item T) {
	s.mu.Lock()
	defer s.mu.Unlock()

	if n := s.size(); n > 0 {
		item = s.items[n-1]
		s.items = s.items[:n-1]
	}
	{
		var s *Stack[T] = s
		_ = s
		var item T = item
		_ = item
		if s.count[item]--; s.count[item] == 0 {
			delete(s.count, item)
		}
	}

	return
}

// Peek returns the last element of the stack without removing it.
func (s *Stack[T]) Peek() (item T) {
	s.mu.RLock()
	defer s.mu.RUnlock()

	len := s.size()
	if len == 0 {
		return
	}
	return s.items[len-1]
}

// Search searches for an element in the stack.
func (s *Stack[T]) Search(item T) bool {
	s.mu.RLock()
	defer s.mu.RUnlock()

	return s.count[item] > 0
}

// Size returns the LIFO stack size.
func (s *Stack[T]) Size() int {
	s.mu.RLock()
	defer s.mu.RUnlock()

	return s.size()
}

// size has a local scope only to avoid blocking the thread when trying to acquire the lock.
func (s *Stack[T]) size() int {
	return len(s.items)
}
