package stack

import "sync"

// minShrinkCap is the smallest backing array Pop bothers to shrink;
// below this size the copy costs more than the memory it gives back.
const minShrinkCap = 256

// Stack implements the LIFO Stack.
type Stack[T comparable] struct {
	mu    sync.RWMutex
	items []T
}

// New creates a new LIFO stack where the items are stored in a plain slice.
func New[T comparable]() *Stack[T] {
	return &Stack[T]{
		mu: sync.RWMutex{},
	}
}

// Push inserts a new element at the end of the stack.
func (s *Stack[T]) Push(item T) {
	s.mu.Lock()
	s.items = append(s.items, item)
	s.mu.Unlock()
}

// Pop retrieves and removes the last element pushed into the stack.
// The stack size will be decreased by one.
func (s *Stack[T]) Pop() (item T) {
	s.mu.Lock()
	defer s.mu.Unlock()

	n := s.size()
	if n == 0 {
		return
	}

	item = s.items[n-1]
	s.items = s.items[:n-1]

	// A stack that has been drained to a quarter of its backing array is
	// unlikely to need all of it again soon: hand half of it back to the GC.
	if c := cap(s.items); c >= minShrinkCap && n <= c/4 {
		{
			var s *Stack[T] = s
			_ = s
			var n int = n
			_ = n
			var c int = c / 2
			_ = c
			items := make([]T, n, c)
			copy(items, s.items[:n])
			s.items = items
		}

	}

	return
}

// Peek returns the last element of the stack without removing it.
func (s *Stack[T]) Peek() (item T) {
	s.mu.RLock()
	defer s.mu.RUnlock()

	len := s.size()
	if len == 0 {
		return
	}
	return s.items[len-1]
}

// Search searches for an element in the stack.
func (s *Stack[T]) Search(item T) bool {
	s.mu.RLock()
	defer s.mu.RUnlock()

	for i := 0; i < s.size(); i++ {
		if s.items[i] == item {
			return true
		}
	}

	return false
}

// Size returns the LIFO stack size.
func (s *Stack[T]) Size() int {
	s.mu.RLock()
	defer s.mu.RUnlock()

	return s.size()
}

// size has a local scope only to avoid blocking the thread when trying to acquire the lock.
func (s *Stack[T]) size() int {
	return len(s.items)
}
