package gogu

import ()

// WithJitter returns a copy of the receiver having the randomization factor set to f.
// A factor outside the [0, 1] interval is clamped to the closest bound.
//
//	rt := RType[string]{Input: "service"}.WithJitter(0.25)
//	rt.RetryWithDelay(5, 100*time.Millisecond, fn)
func (v RType[T]) WithJitter(f float64) RType[T] {
	switch {
	case f < 0:
		f = 0
	case f > 1:
		f = 1
	}
	v.Jitter = f

	return v
}
