package gogu

import (
	"fmt"
	"sync"
	"time"

	"github.com/esimov/gogu/cache"
	"golang.org/x/exp/constraints"
)

// Flip creates a function that invokes fn with arguments reversed.
func Flip[T any](fn func(args ...T) []T) func(args ...T) []T {
	return func(args ...T) []T {
		return Reverse(fn(args...))
	}
}

// Delay invokes the callback function with a predefined delay.
func Delay(delay time.Duration, fn func()) *time.Timer {
	t := time.AfterFunc(delay, fn)
	return t
}

// After creates a function wrapper that does nothing at first.
// From the nth call onwards, it starts actually invoking the callback function.
// Useful for grouping responses, where you need to be sure that all
// the calls have finished just before proceeding to the actual job.
func After[V constraints.Signed](n *V, fn func()) {
	if *n < 1 {
		fn()
	}
	*n-- // decrease the n as pointer receiver
}

// Before creates a function wrapper that memoizes its return value.
// From the nth call onwards, the memoized result of the last invocation is returned immediately
// instead of invoking function again. So the wrapper will invoke function at most n-1 times.
func Before[S ~string, T any, V constraints.Signed](n *V, c *cache.Cache[S, T], fn func() T) T {
	*n-- // decrease the n as pointer receiver
	if *n > 0 {
		return fn()
	}
	// The last allowed invocation is memoized, the subsequent calls are served from the cache.
	{
		var c *cache.Cache[S, T] = c
		_ = c
		var fn func() T = fn
		_ = fn
		if memo, _ := c.Get("func"); memo != nil {
			return memo.Val()
		}
		val := fn()
		c.Set("func", val, cache.DefaultExpiration)
		return val
	}
}

// Once is like Before, but it's invoked only once.
// Repeated calls to the modified function will have no effect
// and the function invocation is returned from the cache.
func Once[S ~string, T comparable, V constraints.Signed](c *cache.Cache[S, T], fn func() T) T {
	{
		var c *cache.Cache[S, T] = c
		_ = c
		var fn func() T = fn
		_ = fn
		if memo, _ := c.Get("func"); memo != nil {
			return memo.Val()
		}
		val := fn()
		c.Set("func", val, cache.DefaultExpiration)
		return val
	}
}

// RType is a generic struct type used as method receiver on retry operations.
type RType[T any] struct {
	Input T
}

// Retry tries to invoke the callback function `n` times.
// It runs until the number of attempts is reached or the returned value of the callback function is nil.
func (v RType[T]) Retry(n int, fn func(T) error) (int, error) {
	var (
		err     error
		attempt int
	)

	if n < 0 {
		return attempt, fmt.Errorf("the number of attempts should be a positive number, got %v", n)
	}

	for attempt < n {
		if err = fn(v.Input); err == nil {
			return attempt, nil
		}
		attempt++
	}

	return attempt, err
}

// RetryWithDelay tries to invoke the callback function `n` times, but with a delay between each call.
// It runs until the number of attempts is reached or the error return value of the callback function is nil.
func (v RType[T]) RetryWithDelay(n int, delay time.Duration, fn func(time.Duration, T) error) (time.Duration, int, error) {
	var (
		err     error
		attempt int
	)

	start := time.Now()
	for attempt < n {
		err = fn(time.Since(start), v.Input)
		if err == nil {
			return time.Since(start), attempt, nil
		}
		<-time.After(delay)
		attempt++
	}

	return time.Since(start), attempt, err
}

type debouncer struct {
	mu       sync.Mutex
	timer    *time.Timer
	duration time.Duration
}

// NewDebounce creates a new debounced version of the invoked function which
// postpone the execution with a time delay passed in as a function argument.
// It returns a callback function which will be invoked after the predefined delay and
// also a cancel method which should be invoked to cancel a scheduled debounce.
func NewDebounce(wait time.Duration) (func(f func()), func()) {
	d := &debouncer{duration: wait}
	return func(f func()) {
		d.add(f)
	}, d.cancel
}

// add method schedules the execution of the passed in function after a predefined delay.
func (d *debouncer) add(f func()) {
	d.mu.Lock()
	defer d.mu.Unlock()

	if d.timer != nil {
		d.timer.Stop()
	}

	d.timer = time.AfterFunc(d.duration, f)
}

// cancel the execution of a scheduled debounce function.
func (d *debouncer) cancel() {
	d.mu.Lock()
	defer d.mu.Unlock()

	if d.timer != nil {
		d.timer.Stop()
		d.timer = nil
	}
}

// The throttle implementation is based on this package: https://github.com/boz/go-throttle.
type throttler struct {
	last     time.Time
	cond     *sync.Cond
	duration time.Duration
	waiting  bool
	trailing bool
	stop     bool
}

// NewThrottle creates a throttled function in order to limit the frequency rate at which the passed in function is invoked.
// The throttled function comes with a cancel method for canceling delayed function invocation.
// If the trailing parameter is true, the function is invoked right after the throttled code
// has been started, but at the trailing edge of the timeout.
// In this case the code will be executed one more time at the beginning of the next period.
//
// This function is useful for rate-limiting events that occur faster than you can keep up with.
func NewThrottle(wait time.Duration, trailing bool) *throttler {
	t := &throttler{
		cond: &sync.Cond{
			L: new(sync.Mutex),
		},
		duration: wait,
		trailing: trailing,
	}
	return t
}

// Call schedules the execution of the passed in function after the predefined delay.
func (t *throttler) Call() {
	t.cond.L.Lock()
	defer t.cond.L.Unlock()

	if !t.waiting && !t.stop {
		delta := time.Since(t.last)
		if delta > t.duration {
			t.waiting = true
			t.cond.Broadcast()
		} else if t.trailing {
			t.waiting = true
			time.AfterFunc(t.duration-delta, t.cond.Broadcast)
		}
	}
}

// Next returns true at most once per time period. It runs until the throttled function is not canceled.
func (t *throttler) Next() bool {
	t.cond.L.Lock()
	defer t.cond.L.Unlock()

	for !t.waiting && !t.stop {
		t.cond.Wait()
	}

	if !t.stop {
		t.waiting = false
		t.last = time.Now()
	}

	return !t.stop
}

// Cancel cancels the execution of a scheduled throttle function.
func (t *throttler) Cancel() {
	t.cond.L.Lock()
	defer t.cond.L.Unlock()

	t.stop = true
	t.cond.Broadcast()
}
