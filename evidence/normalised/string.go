package gogu

import (
	"math"
	"regexp"
	"strings"
	"unicode"
)

func Null[T any]() T {
	var t T
	return t
}

// Substr returns the portion of string specified by the offset and length.
//
// If offset is non-negative, the returned string will start
// at the offset'th position in string, counting from zero.
//
// If offset is negative, the returned string will start at
// the offset'th character from the end of string.
//
// If string is less than offset characters long, an empty string will be returned.
//
// If length is negative, then that many characters will be omitted
// from the end of string starting from the offset position.
func Substr[T ~string](str T, offset, length int) T {
	var end int

	if offset < 0 {
		offset = len(str) + offset
		if Abs(offset) > len(str) {
			return Null[T]()
		}
	}
	if length < 0 {
		newLength := len(str) + length
		if Abs(newLength) > len(str) || newLength < offset {
			return Null[T]()
		}
		end = newLength
	} else {
		end = offset + length
	}

	if end > len(str) {
		end = len(str)
	}

	if !InRange(offset, 0, len(str)) || !InRange(end, 0, len(str)) {
		return Null[T]()
	}

	return str[offset:end]
}

// ToLower converts a string to Lowercase.
func ToLower[T ~string](str T) T {
	result := make([]rune, 0, len(str))

	for _, val := range str {
		result = append(result, unicode.ToLower(rune(val)))
	}

	return T(result)
}

// ToUpper converts a string to Uppercase.
func ToUpper[T ~string](str T) T {
	result := make([]rune, 0, len(str))

	for _, val := range str {
		result = append(result, unicode.ToUpper(rune(val)))
	}

	return T(result)
}

// Capitalize converts the first letter of the string
// to uppercase and the remaining letters to lowercase.
func Capitalize[T ~string](str T) T {
	result := make([]rune, 0, len(str))

	for i, val := range str {
		if i == 0 {
			result = append(result, unicode.ToUpper(rune(val)))
		} else {
			result = append(result, unicode.ToLower(rune(val)))
		}
	}

	return T(result)
}

// CamelCase converts a string to camelCase (https://en.wikipedia.org/wiki/CamelCase).
func CamelCase[T ~string](str T) T {
	newstr := strings.TrimSpace(string(str))

	r, _ := regexp.Compile("[-_&]+")
	newstr = r.ReplaceAllString(newstr, " ")

	var sb strings.Builder
	sb.Grow(len(newstr))

	var idx int
	for i, s := range strings.Split(newstr, " ") {
		r := []rune(s)

		if len(r) == 0 {
			idx++
			continue
		}

		if i == 0 || i == idx {
			frag := ToLower(s)
			sb.WriteString(frag)
			continue
		}
		sb.WriteString(Capitalize(s))
	}
	result := sb.String()

	return T(result)
}

// SnakeCase converts a string to snake_case (https://en.wikipedia.org/wiki/Snake_case).
func SnakeCase[T ~string](str T) T {
	return splitStringWithDelimiter(str, "_")
}

// KebabCase converts a string to kebab-case (https://en.wikipedia.org/wiki/Letter_case#Kebab_case).
func KebabCase[T ~string](str T) T {
	return splitStringWithDelimiter(str, "-")
}

// splitStringWithDelimiter splits a string to lower case with the provided delimiter.
func splitStringWithDelimiter[T ~string](str T, delimiter string) T {
	var sb strings.Builder
	newstr := strings.TrimSpace(string(str))

	rx, _ := regexp.Compile("[-_&]+")
	newstr = rx.ReplaceAllString(newstr, " ")

	var idx int
	chars := strings.Split(newstr, " ")
	for i, str := range chars {
		r := []rune(str)

		if len(r) == 0 {
			idx++
			continue
		}
		rx, _ = regexp.Compile("[a-zö][A-ZÖ]+")
		strIdx := rx.FindAllStringIndex(str, -1)

		if len(strIdx) > 0 {
			s := Substr(str, 0, strIdx[0][0]+1)
			sb.WriteString(ToLower(s))
			sb.WriteString(delimiter)

			for i := 0; i < len(strIdx); i++ {
				var s string
				if i < len(strIdx)-1 {
					subStrLen := strIdx[i+1][0] - strIdx[i][0]
					s = Substr(str, strIdx[i][0]+1, subStrLen)

					sb.WriteString(ToLower(s))
					sb.WriteString(delimiter)
				} else {
					s = Substr(str, strIdx[i][0]+1, len(str)-strIdx[i][0]+1)
					sb.WriteString(ToLower(s))
				}
			}

			if len(chars) > 1 && i != len(chars)-1 {
				sb.WriteString(delimiter)
			}
		} else {
			frag := ToLower(str)
			sb.WriteString(frag)

			if len(chars) > 1 && i != len(chars)-1 {
				sb.WriteString(delimiter)
			}
		}
	}
	result := sb.String()

	return T(result)
}

// PadLeft pads string on the left side if it's shorter than length.
// Padding characters are truncated if they exceed length.
func PadLeft[T ~string](str T, size int, token string) T {
	var tokenStr = token

	strLen := len(str)
	tokenLen := len(token)

	if size <= strLen {
		return T(str)
	}

	if tokenLen <= size-strLen {
		tokenStr = strings.Repeat(token, size-strLen)
	}

	tokenStr = tokenStr[:size-strLen]

	return T(tokenStr) + T(str)
}

// PadRight pads string on the right side if it's shorter than length.
// Padding characters are truncated if they exceed length.
func PadRight[T ~string](str T, size int, token string) T {
	var tokenStr = token

	strLen := len(str)
	tokenLen := len(token)

	if size <= strLen {
		return T(str)
	}

	if tokenLen <= size-strLen {
		tokenStr = strings.Repeat(token, size-strLen)
	}

	tokenStr = tokenStr[:size-strLen]

	return T(str) + T(tokenStr)
}

// Pad pads string on the left and right sides if it's shorter than length.
// Padding characters are truncated if they can't be evenly divided by length.
func Pad[T ~string](str T, size int, token string) T {
	var (
		leftTokenStr  = token
		rightTokenStr = token
	)

	strLen := len(str)
	tokenLen := len(token)

	if size <= strLen {
		return T(str)
	}
	split := float64(size-strLen) / 2
	left := int(math.Floor(split))
	right := int(math.Ceil(split))

	if tokenLen <= int(split) {
		leftTokenStr = strings.Repeat(token, left)
		rightTokenStr = strings.Repeat(token, right)
	}

	leftTokenStr = leftTokenStr[:left]
	rightTokenStr = rightTokenStr[:right]

	return T(leftTokenStr) + str + T(rightTokenStr)
}

// SplitAtIndex split the string at the specified index and
// returns a slice with the resulted two substrings.
func SplitAtIndex[T ~string](str T, index int) []T {
	if index < 0 {
		return []T{"", str}
	}

	if index > len(str)-1 {
		return []T{str, ""}
	}

	return []T{str[:index+1], str[index+1:]}
}

// Wrap a string with the specified token.
func Wrap[T ~string](str T, token string) T {
	var inl1_v0 *strBuf
	{
		var n int = len(str) + 2*len(token)
		_ = n
		sb := strBufPool.Get().(*strBuf)
		if cap(sb.b) < n {
			sb.b = make([]byte, 0, n)
		}
		sb.b = sb.b[:0]
		inl1_v0 = sb
	}
	s := inl1_v0
	defer s.Release()

	s.WriteString(token)
	s.WriteString(string(str))
	s.WriteString(token)

	return T(s.String())
}

// Unwrap a string with the specified token.
func Unwrap[T ~string](str T, token string) T {
	if len(str) >= 2*len(token) &&
		strings.HasPrefix(string(str), token) && strings.HasSuffix(string(str), token) {
		str = str[len(token) : len(str)-len(token)]
	}

	return str
}

// WrapAllRune is like Wrap, only that it's applied over runes instead of strings.
func WrapAllRune[T ~string](str T, token string) T {
	var inl2_v0 *strBuf
	{
		var n int = len(str) * (1 + 2*len(token))
		_ = n
		sb := strBufPool.Get().(*strBuf)
		if cap(sb.b) < n {
			sb.b = make([]byte, 0, n)
		}
		sb.b = sb.b[:0]
		inl2_v0 = sb
	}
	s := inl2_v0
	defer s.Release()

	for _, st := range str {
		s.WriteString(token)
		s.WriteRune(st)
		s.WriteString(token)
	}

	return T(s.String())
}

// ReverseStr returns a new string with the characters in reverse order.
func ReverseStr[T ~string](str T) T {
	res := []rune(str)

	for i, j := 0, len(res)-1; i < j; i, j = i+1, j-1 {
		res[i], res[j] = res[j], res[i]
	}

	return T(res)
}
