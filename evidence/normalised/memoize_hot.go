package gogu

import (
	"sync/atomic"

	"github.com/esimov/gogu/cache"
)

// hotEntry remembers the key and the cache item served by the most recent cache hit.
//
// A memoized function is typically asked for the same key over and over again. Serving
// these repeated lookups from the hot entry avoids taking the cache lock (and bouncing
// its reader count between cores) on every call. The entry is only a shortcut in front
// of the cache: it never outlives the item it points to, because an expired item is
// not served from it.
type hotEntry[T ~string, V any] struct {
	key  atomic.Value // holds a T
	item atomic.Pointer[cache.Item[V]]
}
