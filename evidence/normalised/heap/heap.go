// Package heap provides a thread-safe implementation of the binary heap data structure.
// A common implementation of the heap is the binary tree, where each node of the subtree
// satisfies the heap property:
//
// each node of the subtree is greater or equal then the parent node in case of min heap,
// and less or equal than the parent node in case of max heap.
// The conditional operator used on the heap initialization defines the heap type.

package heap

import (
	"fmt"
	"sync"

	"github.com/esimov/gogu"
)

type Heap[T comparable] struct {
	mu   *sync.RWMutex
	comp gogu.CompFn[T]
	data []T
}

// NewHeap creates a new heap data structure having two components:
// a data slice holding the concrete values and a comparison function.
// The sign of the comparison function defines if we are dealing with a min or max heap.
func NewHeap[T comparable](comp gogu.CompFn[T]) *Heap[T] {
	return &Heap[T]{
		mu:   new(sync.RWMutex),
		data: make([]T, 0),
		comp: comp,
	}
}

// Size returns the heap size.
func (h *Heap[T]) Size() int {
	h.mu.RLock()
	defer h.mu.RUnlock()

	return h.size()
}

// size has a local scope only to avoid blocking the thread when trying to acquire the lock.
func (h *Heap[T]) size() int {
	return len(h.data)
}

// IsEmpty checks if the heap is empty or not.
func (h *Heap[T]) IsEmpty() bool {
	h.mu.RLock()
	defer h.mu.RUnlock()

	return h.size() == 0
}

// Clear removes all the elements from the heap.
func (h *Heap[T]) Clear() {
	if h.Size() == 0 {
		return
	}

	h.mu.Lock()
	h.data = h.data[:0]
	h.mu.Unlock()
}

// Peek returns the first element of the heap.
// This can be the minimum or maximum value depending on the heap type.
func (h *Heap[T]) Peek() T {
	h.mu.RLock()
	defer h.mu.RUnlock()

	return h.peek()
}

// peek has a local scope only to avoid blocking the thread when trying to acquire the lock.
func (h *Heap[T]) peek() T {
	if h.size() == 0 {
		var t T
		return t
	}

	return h.data[0]
}

// GetValues returns the heap values.
func (h *Heap[T]) GetValues() []T {
	h.mu.RLock()
	defer h.mu.RUnlock()

	values := make([]T, len(h.data))
	copy(values, h.data)

	return values
}

// Push inserts new elements at the end of the heap and calls the heapify algorithm to reorder
// the existing elements in ascending or descending order, depending on the heap type.
func (h *Heap[T]) Push(val ...T) {
	for _, v := range val {
		h.mu.Lock()
		h.data = append(h.data, v)

		h.moveUp(h.size() - 1)
		h.mu.Unlock()
	}
}

// Pop removes the first element from the heap and reorder the existing elements.
// The removed element is the minimum or maximum depending on the heap type.
func (h *Heap[T]) Pop() T {
	h.mu.Lock()
	defer h.mu.Unlock()

	var val T
	if h.size() == 0 {
		return val
	}
	val = h.peek()

	h.data[0] = h.data[h.size()-1]
	h.data = h.data[:h.size()-1]
	h.moveDown(h.size(), 0)

	return val
}

// Delete removes an element from the heap. It returns false in case the element does not exists.
// After removal, it reorders the heap structure based on the heap-specific rules.
func (h *Heap[T]) Delete(val T) (bool, error) {
	h.mu.Lock()
	defer h.mu.Unlock()

	len := h.size()
	if len == 0 {
		return false, fmt.Errorf("heap empty")
	}

	idx, ok := h.getIndex(h.data, val)
	if !ok {
		return false, fmt.Errorf("value not found in the heap: %v", val)
	}

	swap(h.data, idx, len-1)
	h.data = h.data[:len-1]

	h.moveDown(len-1, 0)

	return true, nil
}

// Convert converts a min heap to max heap and vice versa.
func (h *Heap[T]) Convert(comp gogu.CompFn[T]) {
	h.mu.Lock()
	defer h.mu.Unlock()
	h.comp = comp

	{
		var h *Heap[T] = h
		_ = h
		for i := (h.size() - 2) / 2; i >= 0; i-- {
			h.moveDown(h.size(), i)
		}
	}

}

// FromSlice imports the slice elements into a new heap using the comparator function.
func FromSlice[T comparable](data []T, comp gogu.CompFn[T]) *Heap[T] {
	mu := &sync.RWMutex{}
	for i := len(data)/2 - 1; i >= 0; i-- {
		for {
			l, r := 2*i+1, 2*i+2
			if l >= len(data) || l < 0 {
				break
			}

			current := l
			if r < len(data) && comp(data[r], data[l]) {
				current = r
			}

			if !comp(data[current], data[i]) {
				break
			}

			mu.Lock()
			swap(data, i, current)
			mu.Unlock()

			i = current
		}
	}

	return &Heap[T]{
		mu:   mu,
		data: data,
		comp: comp,
	}
}

// Merge joins two heaps into a new one preserving the original ones.
func (h *Heap[T]) Merge(h2 *Heap[T]) *Heap[T] {
	h.mu.RLock()
	newHeap := NewHeap(h.comp)

	h2.mu.RLock()
	newHeap.data = gogu.Merge(h.data, h2.data)
	h2.mu.RUnlock()
	h.mu.RUnlock()

	// Building the heap bottom-up is linear, pushing the elements one by one is not.
	{
		var h *Heap[T] = newHeap
		_ = h
		for i := (h.size() - 2) / 2; i >= 0; i-- {
			h.moveDown(h.size(), i)
		}
	}

	return newHeap
}

// Meld merge two heaps into a new one containing all the
// elements of both and destroying the original ones.
func (h *Heap[T]) Meld(h2 *Heap[T]) *Heap[T] {
	h.mu.Lock()
	newHeap := NewHeap(h.comp)

	for i := 0; i < h.size(); i++ {
		newHeap.Push(h.data[i])
	}
	h.data = nil
	h.mu.Unlock()

	h2.mu.Lock()
	for i := 0; i < h2.size(); i++ {
		newHeap.Push(h2.data[i])
	}
	h2.data = nil
	h2.mu.Unlock()

	return newHeap
}

// moveDown moves the element at the position i down to its
// correct position in the heap following the heap rules.
func (h *Heap[T]) moveDown(n, i int) {
	left := h.leftChild(i)
	right := h.rightChild(i)

	current := i

	if left < n && h.comp(h.data[left], h.data[current]) {
		current = left
	}

	if right < n && h.comp(h.data[right], h.data[current]) {
		current = right
	}

	if current != i {
		swap(h.data, i, current)
		h.moveDown(n, current)
		return
	}
}

// moveUp moves the element from index i up to its
// correct position in the heap following the heap rules.
func (h *Heap[T]) moveUp(i int) {
	for {
		if !h.comp(h.data[i], h.data[h.parent(i)]) {
			break
		}

		swap(h.data, i, h.parent(i))
		i = h.parent(i)
	}
}

// leftChild returns the index of the left child of node at index i.
func (h *Heap[T]) leftChild(i int) int {
	return 2*i + 1
}

// rightChild returns the index of the right child of node at index i.
func (h *Heap[T]) rightChild(i int) int {
	return 2*i + 2
}

// parent returns the index of the child node parent at index i.
func (h *Heap[T]) parent(i int) int {
	return (i - 1) / 2
}

// swap swaps the position of elements at index i and j.
func swap[T any](data []T, i, j int) {
	data[i], data[j] = data[j], data[i]
}

// getIndex has a local scope only, the caller holds the lock.
func (h *Heap[T]) getIndex(slice []T, val T) (int, bool) {
	for i := 0; i < len(slice); i++ {
		if slice[i] == val {
			return i, true
		}
	}

	return -1, false
}
