package gogu

import ()

// MapParallelThreshold is the length of the collection from which Map spreads the invocations
// of the transformation function over the available CPU cores. For short collections the
// cost of starting the goroutines outweighs the gain. Set it to 0 to always map sequentially.
var MapParallelThreshold = 512
