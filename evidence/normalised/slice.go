package gogu

import (
	"errors"
	"fmt"
	"sort"
)

// Sum returns the sum of the slice items. These have to satisfy the type constraints declared as Number.
func Sum[T Number](slice []T) T {
	var acc T
	for _, v := range slice {
		acc += v
	}
	return acc
}

// SumBy is like Sum except it accept a callback function which is invoked
// for each element in the slice to generate the value to be summed.
func SumBy[T1 any, T2 Number](slice []T1, fn func(T1) T2) T2 {
	var acc T2
	for _, v := range slice {
		acc += fn(v)
	}
	return acc
}

// Mean computes the mean value of the slice elements.
func Mean[T Number](slice []T) T {
	var result T
	for i := 0; i < len(slice); i++ {
		result += slice[i]
	}
	return result / T(len(slice))
}

// IndexOf returns the index of the firs occurrence of a value
// in the slice, or -1 if value is not present in the slice.
func IndexOf[T comparable](s []T, val T) int {
	for k, v := range s {
		if v == val {
			return k
		}
	}

	return -1
}

// LastIndexOf returns the index of the last occurrence of a value.
func LastIndexOf[T comparable](s []T, val T) int {
	for i, j := len(s)-1, 0; i >= 0; i, j = i-1, j+1 {
		if s[i] == val {
			return i
		}
	}
	return -1
}

// Map produces a new slice of values by mapping each value in the list through a transformation function.
func Map[T1, T2 any](slice []T1, fn func(T1) T2) []T2 {
	result := make([]T2, len(slice))

	for idx, v := range slice {
		result[idx] = fn(v)
	}
	return result
}

// ForEach iterates over the elements of a collection and invokes the callback fn function on each element.
func ForEach[T any](slice []T, fn func(T)) {
	for _, v := range slice {
		fn(v)
	}
}

// ForEachRight is the same as ForEach, but starts the iteration from the last element.
func ForEachRight[T any](slice []T, fn func(T)) {
	for i := len(slice) - 1; i >= 0; i-- {
		fn(slice[i])
	}
}

// Reduce reduces the collection to a value which is the accumulated result of running
// each element in the collection through the callback function yielding a single value.
func Reduce[T1, T2 any](slice []T1, fn func(T1, T2) T2, initVal T2) T2 {
	actual := initVal

	for _, v := range slice {
		actual = fn(v, actual)
	}

	return actual
}

// Reverse reverses the order of elements, so that the first element becomes the last,
// the second element becomes the second to last, and so on.
func Reverse[T any](sl []T) []T {
	for i, j := 0, len(sl)-1; i < j; i, j = i+1, j-1 {
		sl[i], sl[j] = sl[j], sl[i]
	}

	return sl
}

// Unique returns the collection unique values.
func Unique[T comparable](slice []T) []T {
	keys := make(map[T]bool)
	result := []T{}

	for _, v := range slice {
		if _, ok := keys[v]; !ok {
			keys[v] = true
			result = append(result, v)
		}
	}

	return result
}

// UniqueBy is like Unique except that it accept a callback function which is invoked on each
// element of the slice applying the criteria by which the uniqueness is computed.
func UniqueBy[T comparable](slice []T, fn func(T) T) []T {
	keys := make(map[T]bool)
	result := []T{}

	for _, v := range slice {
		if _, ok := keys[fn(v)]; !ok {
			keys[fn(v)] = true
			result = append(result, v)
		}
	}

	return result
}

// Every returns true if all the elements of a slice satisfies the criteria of the callback function.
func Every[T any](slice []T, fn func(T) bool) bool {
	for _, v := range slice {
		if !fn(v) {
			return false
		}
	}
	return true
}

// Some returns true if some elements of a slice satisfies the criteria of the callback function.
func Some[T any](slice []T, fn func(T) bool) bool {
	for _, v := range slice {
		if fn(v) {
			return true
		}
	}
	return false
}

// Partition splits the collection elements into two, the ones which satisfies the condition
// expressed in the callback function (fn) and those which does not satisfy the condition.
func Partition[T comparable](slice []T, fn func(T) bool) [2][]T {
	var result = [2][]T{}

	for _, v := range slice {
		if fn(v) {
			result[0] = append(result[0], v)
		} else {
			result[1] = append(result[1], v)
		}
	}

	return result
}

// Contains returns true if the value is present in the collection.
func Contains[T comparable](slice []T, value T) bool {
	for _, v := range slice {
		if v == value {
			return true
		}
	}
	return false
}

// Duplicate returns the duplicated values of a collection.
func Duplicate[T comparable](slice []T) []T {
	keyCount := make(map[T]int)
	result := make([]T, 0, len(slice))

	// Count how many times a value is showing up in the provided collection.
	for _, v := range slice {
		if _, ok := keyCount[v]; !ok {
			keyCount[v] = 1
		} else {
			keyCount[v]++
		}
	}

	// Include only the values which count frequency is greater than 1 into the resulting slice.
	for k, v := range keyCount {
		if v > 1 {
			result = append(result, k)
		}
	}
	return result
}

// DuplicateWithIndex puts the duplicated values of a collection into a map as a key value pair,
// where the key is the collection element and the value is its position.
func DuplicateWithIndex[T comparable](slice []T) map[T]int {
	var count int
	kvMap := make(map[T][]int)
	result := make(map[T]int)

	// Count how many times a value is showing up in the provided collection.
	for idx, v := range slice {
		if _, ok := kvMap[v]; !ok {
			// Create a slice with a dimension of 2, which first element contains the position (the index)
			// of the first found duplicate value and the second indicates the number of appearance.
			kvMap[v] = make([]int, 2)
			count = 1
			kvMap[v][0] = idx
			kvMap[v][1] = count
		} else {
			count++
			kvMap[v][1] = count
		}
	}

	// Include into the resulting slice only the values which frequency is greater than 1.
	for k, v := range kvMap {
		if v[1] > 1 {
			result[k] = v[0]
		}
	}
	return result
}

// Merge merges the first slice with the other slices defined as variadic parameter.
func Merge[T any](s []T, params ...[]T) []T {
	merged := make([]T, 0, len(s))
	merged = append(merged, s...)

	for i := 0; i < len(params); i++ {
		merged = append(merged, params[i]...)
	}

	return merged
}

// Flatten flattens the slice all the way down to the deepest nesting level.
func Flatten[T any](slice any) ([]T, error) {
	return baseFlatten([]T{}, slice)
}

func baseFlatten[T any](acc []T, slice any) ([]T, error) {
	var err error

	switch v := any(slice).(type) {
	case T:
		acc = append(acc, v)
	case []T:
		acc = append(acc, v...)
	case []any:
		for _, sv := range v {
			acc, err = baseFlatten(acc, sv)
			if err != nil {
				return nil, errors.New("flattening error")
			}
		}
	default:
		return nil, errors.New("flattening error")
	}

	return acc, nil
}

// Union computes the union of the passed\-in slice and returns an
// ordered list of unique items that are present in one or more of the slices.
func Union[T comparable](slice any) ([]T, error) {
	flatten, err := baseFlatten([]T{}, slice)
	if err != nil {
		return nil, err
	}
	return Unique(flatten), nil
}

// Intersection computes the list of values that are the intersection of all the slices.
// Each value in the result should be present in each of the provided slices.
func Intersection[T comparable](params ...[]T) []T {
	result := []T{}
	var inl1_v0 [][]T
	{
		var slices [][]T = params[1:]
		_ = slices
		sort.SliceStable(slices, func(i, j int) bool {
			return len(slices[i]) < len(slices[j])
		})
		inl1_v0 = slices
	}
	rest := inl1_v0

	for i := 0; i < len(params[0]); i++ {
		item := params[0][i]
		if Contains(result, item) {
			continue
		}
		var j int
		for j = 0; j < len(rest); j++ {
			if !Contains(rest[j], item) {
				break
			}
		}

		if j == len(rest) {
			result = append(result, item)
		}
	}

	return result
}

// IntersectionBy is like Intersection, except that it accepts and callback function which is invoked on each element of the collection.
func IntersectionBy[T comparable](fn func(T) T, params ...[]T) []T {
	result := []T{}
	var inl2_v0 [][]T
	{
		var slices [][]T = params[1:]
		_ = slices
		sort.SliceStable(slices, func(i, j int) bool {
			return len(slices[i]) < len(slices[j])
		})
		inl2_v0 = slices
	}
	rest := inl2_v0

	for i := 0; i < len(params[0]); i++ {
		item := params[0][i]
		if Contains(result, item) {
			continue
		}
		var j int
		for j = 0; j < len(rest); j++ {
			has := func() bool {
				for _, v := range rest[j] {
					if fn(v) == fn(item) {
						return true
					}
				}
				return false
			}
			if !has() {
				break
			}
		}

		if j == len(rest) {
			result = append(result, item)
		}
	}

	return result
}

// Without returns a copy of the slice with all the values defined in the variadic parameter removed.
func Without[T1 comparable, T2 any](slice []T1, values ...T1) []T1 {
	keys := make(map[T1]bool)
	uni := make([]T1, 0, len(slice))
loop:
	for _, v := range slice {
		for _, val := range values {
			if v == val {
				continue loop
			}
		}
		if _, ok := keys[v]; !ok {
			keys[v] = true
			uni = append(uni, v)
		}
	}

	return uni
}

// Difference is similar to Without, but returns the values from
// the first slice that are not present in the second slice.
func Difference[T comparable](s1, s2 []T) []T {
	keys := make(map[T]bool)
	unique := []T{}
loop:
	for _, v := range s1 {
		for _, val := range s2 {
			if v == val {
				continue loop
			}
		}
		if _, ok := keys[v]; !ok {
			keys[v] = true
			unique = append(unique, v)
		}
	}

	return unique
}

// DifferenceBy is like Difference, except that invokes a callback function on each
// element of the slice, applying the criteria by which the difference is computed.
func DifferenceBy[T comparable](s1, s2 []T, fn func(T) T) []T {
	keys := make(map[T]bool)
	unique := []T{}
loop:
	for _, v := range s1 {
		for _, val := range s2 {
			if fn(v) == fn(val) {
				continue loop
			}
		}
		if _, ok := keys[v]; !ok {
			keys[v] = true
			unique = append(unique, v)
		}
	}

	return unique
}

// Chunk split the slice into groups of slices each having the length of size.
// In case the source slice cannot be distributed equally, the last slice will contain fewer elements.
func Chunk[T comparable](slice []T, size int) [][]T {
	var result = make([][]T, 0, len(slice)/2+1)

	if size <= 0 {
		panic("Chunk size should be greater than zero.")
	}
	for i := 0; i < len(slice); i++ {
		if i%size == 0 {
			if i+size < len(slice) {
				result = append(result, slice[i:i+size])
			} else {
				result = append(result, slice[i:])
			}
		}
	}
	return result
}

// Drop creates a new slice with n elements dropped from the beginning.
// If n < 0 the elements will be dropped from the back of the collection.
func Drop[T any](slice []T, n int) []T {
	if Abs(n) < len(slice) {
		if n > 0 {
			return slice[n:]
		} else {
			return slice[:len(slice)-Abs(n)]
		}
	}
	return []T{}
}

// DropWhile creates a new slice excluding the elements dropped from the beginning.
// Elements are dropped by applying the condition invoked in the callback function.
func DropWhile[T any](slice []T, fn func(T) bool) []T {
	result := make([]T, 0, len(slice))

	for _, v := range slice {
		if !fn(v) {
			result = append(result, v)
		}
	}

	return result
}

// DropRightWhile creates a new slice excluding the elements dropped from the end.
// Elements are dropped by applying the condition invoked in the callback function.
func DropRightWhile[T any](slice []T, fn func(T) bool) []T {
	result := make([]T, 0, len(slice))

	for i := len(slice) - 1; i >= 0; i-- {
		if !fn(slice[i]) {
			result = append(result, slice[i])
		}
	}

	return result
}

// MapByIndex
func mapByIndex[T1 comparable, T2 any](origSlice []T2, mapSlice []T1) map[T1][]T2 {
	result := make(map[T1][]T2)

	for idx, v := range mapSlice {
		if _, ok := result[v]; !ok {
			result[v] = make([]T2, 0, len(mapSlice))
		}
		result[v] = append(result[v], origSlice[idx])
	}

	return result
}

// GroupBy splits a collection into a key-value set, grouped by the result of running each value through the callback function fn.
// The return value is a map where the key is the conditional logic of the callback function
// and the values are the callback function returned values.
func GroupBy[T1, T2 comparable](slice []T1, fn func(T1) T2) map[T2][]T1 {
	return mapByIndex(slice, Map(slice, fn))
}

// Zip iteratively merges together the values of the slice parameters with the values at the corresponding position.
func Zip[T any](slices ...[]T) [][]T {
	var result = make([][]T, len(slices))
	var sliceLen int

	if len(slices) > 0 {
		sliceLen = len(slices[0])
	}

	if sliceLen != len(slices) {
		panic(fmt.Sprintf("the number of slice parameters (%d) does not match with the slice length (%d)", len(slices), sliceLen))
	}

	for idx, sl := range slices {
		if sliceLen != len(sl) {
			panic("the slice parameters should have identical length")
		}
		result[idx] = make([]T, len(sl))
	}

	for x := 0; x < sliceLen; x++ {
		for i := 0; i < len(slices); i++ {
			result[i][x] = slices[x][i]
		}
	}
	return result
}

// Unzip is the opposite of Zip: given a slice of slices it returns a series of new slices,
// the first of which contains all the first elements in the input slices,
// the second of which contains all the second elements, and so on.
func Unzip[T any](slices ...[]T) [][]T {
	var result = make([][]T, len(slices))
	var sliceLen int

	if len(slices) > 0 {
		sliceLen = len(slices[0])
	}

	if sliceLen != len(slices) {
		panic(fmt.Sprintf("the number of slice parameters (%d) does not match with the slice length (%d)", len(slices), sliceLen))
	}

	for idx, sl := range slices {
		if sliceLen != len(sl) {
			panic("the slice parameters should have identical length")
		}
		result[idx] = make([]T, len(sl))
	}

	for x := 0; x < sliceLen; x++ {
		for i := 0; i < len(slices); i++ {
			result[x][i] = slices[i][x]
		}
	}
	return result
}

// ToSlice returns the function arguments as a slice.
func ToSlice[T any](args ...T) []T {
	slice := make([]T, 0, len(args))
	slice = append(slice, args...)

	return slice
}
