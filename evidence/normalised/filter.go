package gogu

// Filter returns all the elements from the collection which satisfies the conditional logic of the callback function.
func Filter[T any](slice []T, fn func(T) bool) []T {
	res := make([]T, 0)

	for _, v := range slice {
		if fn(v) {
			res = append(res, v)
		}
	}

	return res
}

// Reject is the opposite of Filter.
// It returns the values from the collection without the elements for which the callback function returns true.
func Reject[T any](slice []T, fn func(val T) bool) []T {
	// TODO considering to create a new slice and append the values resulted
	// from the callback function, even if this imply a new allocation.
	for i := 0; i < len(slice); i++ {
		if fn(slice[i]) {
			slice = append(slice[:i], slice[i+1:]...)
			i--
		}
	}

	return slice
}

// FilterMap iterates over the elements of a collection and returns a new collection
// representing all the items which satisfies the criteria formulated in the callback function.
func FilterMap[K comparable, V any](m map[K]V, fn func(V) bool) map[K]V {
	filtered := map[K]V{}

	for k, v := range m {
		if fn(v) {
			filtered[k] = v
		}
	}

	return filtered
}

// FilterMapCollection filter out a one dimensional collection of map items
// by applying the conditional logic of the callback function.
func FilterMapCollection[K comparable, V any](collection []map[K]V, fn func(V) bool) []map[K]V {
	filtered := []map[K]V{}

	for _, item := range collection {
		var inl1_v0 bool
	inl1done:
		switch {
		default:
			var m map[K]V = item
			_ = m
			var fn func(V) bool = fn
			_ = fn
			for _, v := range m {
				if fn(v) {
					{
						inl1_v0 = true
						break inl1done
					}
				}
			}
			{
				inl1_v0 = false
				break inl1done
			}
		}
		if inl1_v0 {
			filtered = append(filtered, item)
		}
	}

	return filtered
}

// Filter2DMapCollection filter out a two-dimensional collection of map items
// by applying the conditional logic of the callback function.
func Filter2DMapCollection[K comparable, V any](collection []map[K]map[K]V, fn func(map[K]V) bool) []map[K]map[K]V {
	filtered := []map[K]map[K]V{}

	for _, item := range collection {
		for _, v := range item {
			if fn(v) {
				filtered = append(filtered, item)
				break
			}
		}
	}

	return filtered
}
