package gogu

import (
	"errors"
	"fmt"

	"golang.org/x/exp/constraints"
)

// FindIndex returns the index of the first found element.
func FindIndex[T any](s []T, fn func(T) bool) int {
	for k, v := range s {
		if fn(v) {
			return k
		}
	}
	return -1
}

// FindLastIndex is like FindIndex, only that returns the index of last found element.
func FindLastIndex[T any](s []T, fn func(T) bool) int {
	for i, j := len(s)-1, 0; i >= 0; i, j = i-1, j+1 {
		if fn(s[i]) {
			return i
		}
	}
	return -1
}

// FindAll is like FindIndex, but returns into a map all the values
// which satisfies the conditional logic of the callback function.
// The map key represents the position of the found value and the value is the item itself.
func FindAll[T any](s []T, fn func(T) bool) map[int]T {
	m := make(map[int]T, len(s))

	for k, v := range s {
		if fn(v) {
			m[k] = v
		}
	}

	return m
}

// FindMin finds the minimum value of a slice.
func FindMin[T constraints.Ordered](s []T) T {
	{
		var s []T = s
		_ = s
		var better func(elem T, cand T) bool = Less[T]
		_ = better
		var best T
		if len(s) == 0 {
			return best
		}
		best = s[0]
		for i := 1; i < len(s); i++ {
			if better(s[i], best) {
				best = s[i]
			}
		}
		return best
	}
}

// FindMinBy is like FindMin except that it accept a callback function
// and the conditional logic is applied over the resulted value.
// If there are more than one identical values resulted
// from the callback function the first one is used.
func FindMinBy[T constraints.Ordered](s []T, fn func(val T) T) T {
	{
		var s []T = s
		_ = s
		var better func(elem T, cand T) bool = keyed(fn, Less[T])
		_ = better
		var best T
		if len(s) == 0 {
			return best
		}
		best = s[0]
		for i := 1; i < len(s); i++ {
			if better(s[i], best) {
				best = s[i]
			}
		}
		return best
	}
}

// FindMinByKey finds the minimum value from a map by using some existing key as a parameter.
func FindMinByKey[K comparable, T constraints.Ordered](mapSlice []map[K]T, key K) (T, error) {
	var min T
	if len(mapSlice) == 0 {
		return min, nil
	}

	if _, ok := mapSlice[0][key]; !ok {
		return min, errors.New("key not found")
	}
	min = mapSlice[0][key]

	for _, m := range mapSlice {
		mapped := FindByKey(m, func(k K) bool {
			return k == key
		})
		if _, ok := mapped[key]; ok {
			if mapped[key] < min {
				min = mapped[key]
			}
		}
	}

	return min, nil
}

// FindMax finds the maximum value of a slice.
func FindMax[T constraints.Ordered](s []T) T {
	{
		var s []T = s
		_ = s
		var better func(elem T, cand T) bool = notLess[T]
		_ = better
		var best T
		if len(s) == 0 {
			return best
		}
		best = s[0]
		for i := 1; i < len(s); i++ {
			if better(s[i], best) {
				best = s[i]
			}
		}
		return best
	}
}

// FindMaxBy is like FindMax except that it accept a callback function
// and the conditional logic is applied over the resulted value.
// If there are more than one identical values resulted
// from the callback function the first one is returned.
func FindMaxBy[T constraints.Ordered](s []T, fn func(val T) T) T {
	{
		var s []T = s
		_ = s
		var better func(elem T, cand T) bool = keyed(fn, notLess[T])
		_ = better
		var best T
		if len(s) == 0 {
			return best
		}
		best = s[0]
		for i := 1; i < len(s); i++ {
			if better(s[i], best) {
				best = s[i]
			}
		}
		return best
	}
}

// FindMaxByKey finds the maximum value from a map by using some existing key as a parameter.
func FindMaxByKey[K comparable, T constraints.Ordered](mapSlice []map[K]T, key K) (T, error) {
	var max T
	if len(mapSlice) == 0 {
		return max, nil
	}

	if _, ok := mapSlice[0][key]; !ok {
		return max, errors.New("key not found")
	}
	max = mapSlice[0][key]

	for _, m := range mapSlice {
		mapped := FindByKey(m, func(k K) bool {
			return k == key
		})
		if _, ok := mapped[key]; ok {
			if mapped[key] > max {
				max = mapped[key]
			}
		}
	}

	return max, nil
}

// Nth returns the nth element of the collection.
// In case of negative value the nth element is returned from the end of the collection.
// In case nth is out of bounds an error is returned.
func Nth[T any](slice []T, nth int) (T, error) {
	bounds := Bound[int]{0, len(slice)}

	if (nth > 0 && nth > bounds.Max-1) ||
		(nth < 0 && bounds.Max-Abs(nth) < 0) {

		var t T
		return t, fmt.Errorf("%d out of slice bounds %d", nth, bounds.Max)
	}

	if bounds.Enclose(nth) {
		if nth >= 0 {
			return slice[nth], nil
		}
	}
	return slice[len(slice)-Abs(nth)], nil
}

type Bound[T constraints.Signed] struct {
	Min, Max T
}

// Enclose checks if an element is inside the bounds.
func (b Bound[T]) Enclose(nth T) bool {
	if Abs(nth) >= b.Min && Abs(nth) <= b.Max {
		return true
	}

	return false
}
