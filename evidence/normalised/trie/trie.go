// Package trie provides a concurrent safe implementation of the ternary search tree data structure.
// Trie is similar to binary search tree, but it has up to three children rather than two as of BST.
// Tries are used for locating specific keys from within a set or
// for quick lookup searches within a text like auto-completion or spell checking.
package trie

import (
	"fmt"
	"sync"
)

var ErrorNotFound = fmt.Errorf("trie node not found")

// Queuer exposes the basic interface methods for querying the trie data structure
// both for searching and for retrieving the existing keys. These are generic methods
// having the same signature as the corresponding concrete methods from the queue package.
// Because both the plain array and the linked listed version of the queue package
// has the same method signature, each of them could be plugged in on the method invocation.
type Queuer[K ~string] interface {
	Enqueue(K)
	Dequeue() (K, error)
	Size() int
	Clear()
}

type node[K ~string, V any] struct {
	Item[K, V]
	left    *node[K, V]
	mid     *node[K, V]
	right   *node[K, V]
	c       byte
	isValid bool
}

// Item is a key-value struct pair used for storing the node values.
type Item[K ~string, V any] struct {
	key K
	val V
}

// newNode creates a new node.
func newNode[K ~string, V any](key K, val V) *node[K, V] {
	return &node[K, V]{
		Item: Item[K, V]{
			key: key,
			val: val,
		},
	}
}

// Trie is a lock-free tree data structure having the root as the first node.
// It's guarded with a mutex for concurrent-safe data access.
type Trie[K ~string, V any] struct {
	q    Queuer[K]
	root *node[K, V]
	mu   sync.RWMutex
	n    int
}

// New initializes a new Trie data structure.
func New[K ~string, V any](q Queuer[K]) *Trie[K, V] {
	return &Trie[K, V]{
		mu: sync.RWMutex{},
		q:  q,
	}
}

// Size returns the trie size.
func (t *Trie[K, V]) Size() int {
	t.mu.RLock()
	defer t.mu.RUnlock()

	return t.n
}

// Contains checks if a key exists in the symbol table.
func (t *Trie[K, V]) Contains(key K) bool {
	if len(key) == 0 {
		return false
	}
	_, ok := t.Get(key)
	return ok
}

// Put inserts a new node into the symbol table, overwriting the old value
// with the new one if the key is already in the symbol table.
func (t *Trie[K, V]) Put(key K, val V) {
	t.mu.Lock()
	defer t.mu.Unlock()

	if x, err := t.root.get(key, 0); x == nil || err != nil || !x.isValid {
		t.n++
	}
	t.root = t.root.put(t, key, val, 0, true)
}

func (n *node[K, V]) put(t *Trie[K, V], key K, val V, d int, isValid bool) *node[K, V] {
	c := key[d]
	if n == nil {
		n = newNode(key, val)
		n.c = c
	}

	if c < n.c {
		n.left = n.left.put(t, key, val, d, isValid)
	} else if c > n.c {
		n.right = n.right.put(t, key, val, d, isValid)
	} else if d < len(key)-1 {
		n.mid = n.mid.put(t, key, val, d+1, isValid)
	} else {
		n.isValid = isValid
		n.val = val
	}
	return n
}

// Get retrieves a node's value based on the key.
// If the key does not exist it returns false.
func (t *Trie[K, V]) Get(key K) (v V, ok bool) {
	t.mu.RLock()
	defer t.mu.RUnlock()

	if len(key) == 0 {
		return v, false
	}
	x, err := t.root.get(key, 0)
	if x == nil || err != nil || !x.isValid {
		return v, false
	}

	return x.val, true
}

func (n *node[K, V]) get(key K, d int) (*node[K, V], error) {
	if n == nil {
		return nil, ErrorNotFound
	}
	if len(key) == 0 {
		return nil, fmt.Errorf("key for the get() method should not be empty")
	}
	c := key[d]

	if c < n.c {
		return n.left.get(key, d)
	} else if c > n.c {
		return n.right.get(key, d)
	} else if d < len(key)-1 {
		return n.mid.get(key, d+1)
	}
	return n, nil
}

// LongestPrefix returns the longest prefix of query in the symbol table or empty if such string does not exist.
func (t *Trie[K, V]) LongestPrefix(query K) (K, error) {
	t.mu.RLock()
	defer t.mu.RUnlock()

	if len(query) == 0 {
		var k K
		return k, fmt.Errorf("query for the LongestPrefix() method should not be empty")
	}

	length := 0
	x := t.root
	i := 0
	for x != nil && i < len(query) {
		c := query[i]
		if c < x.c {
			x = x.left
		} else if c > x.c {
			x = x.right
		} else {
			i++
			if x.isValid {
				length = i
			}
			x = x.mid
		}
	}
	return query[:length], nil
}

// StartsWith returns all the keys in the set that start with prefix.
func (t *Trie[K, V]) StartsWith(prefix K) (Queuer[K], error) {
	t.mu.RLock()
	defer t.mu.RUnlock()

	t.q.Clear()

	if len(prefix) == 0 {
		return t.q, fmt.Errorf("prefix for the StartsWith() method should not be empty")
	}

	x, err := t.root.get(prefix, 0)
	if x == nil || err != nil {
		return t.q, nil
	}
	if x.isValid {
		t.q.Enqueue(prefix)
	}
	x.mid.collect(t, prefix)

	return t.q, nil
}

// Keys collects all the existing keys in the set.
func (t *Trie[K, V]) Keys() (Queuer[K], error) {
	t.mu.RLock()
	defer t.mu.RUnlock()

	t.q.Clear()

	var err error
	t.root.collect(t, "")
	return t.q, err
}

func (n *node[K, V]) collect(t *Trie[K, V], prefix K) (Queuer[K], error) {
	if n == nil {
		return t.q, ErrorNotFound
	}

	n.left.collect(t, prefix)
	if n.isValid {
		t.q.Enqueue(prefix + K([]byte{n.c}))
	}
	n.mid.collect(t, prefix+K([]byte{n.c}))

	return n.right.collect(t, prefix)
}
