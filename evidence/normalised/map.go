package gogu

import (
	"errors"
	"sort"
	"sync"

	"golang.org/x/exp/constraints"
)

// Number is a custom type set of constraints extending the Float and Integer
// type set from the experimental constraints package.
type Number interface {
	constraints.Float | constraints.Integer
}

// Keys retrieve all the existing keys of a map.
func Keys[K comparable, V any](m map[K]V) []K {
	keys := make([]K, len(m))

	idx := 0
	for k := range m {
		keys[idx] = k
		idx++
	}

	return keys
}

// Values retrieve all the existing values of a map.
func Values[K comparable, V any](m map[K]V) []V {
	values := make([]V, len(m))

	idx := 0
	for _, v := range m {
		values[idx] = v
		idx++
	}

	return values
}

// MapValues creates a new map with the same number of elements as the original one,
// but running each map value through a callback function (fn).
func MapValues[K comparable, V, R any](m map[K]V, fn func(V) R) map[K]R {
	newMap := map[K]R{}

	for k, v := range m {
		newMap[k] = fn(v)
	}

	return newMap
}

// MapKeys is the opposite of MapValues. It creates a new map with the same number of elements
// as the original one, but this time the callback function (fn) is invoked over the map keys.
func MapKeys[K comparable, V any, R comparable](m map[K]V, fn func(K, V) R) map[R]V {
	newMap := map[R]V{}

	for k, v := range m {
		newMap[fn(k, v)] = v
	}

	return newMap
}

// MapEvery returns true if all the elements of a map satisfies the criteria of the callback function.
func MapEvery[K comparable, V any](m map[K]V, fn func(V) bool) bool {
	for _, v := range m {
		if !fn(v) {
			return false
		}
	}

	return true
}

// MapSome returns true if some elements of a map satisfies the criteria of the callback function.
func MapSome[K comparable, V any](m map[K]V, fn func(V) bool) bool {
	for _, v := range m {
		if fn(v) {
			return true
		}
	}

	return false
}

// MapContains returns true if the value is present in the list otherwise false.
func MapContains[K, V comparable](m map[K]V, value V) bool {
	for _, v := range m {
		if v == value {
			return true
		}
	}
	return false
}

// MapUnique removes the duplicate values from a map.
func MapUnique[K, V comparable](m map[K]V) map[K]V {
	result := make(map[K]V, len(m))
	ref := make(map[V]bool, len(m))

	for k, v := range m {
		if _, ok := ref[v]; !ok {
			ref[v] = true
			result[k] = v
		}
	}

	return result
}

// MapCollection is like the Map method, but applied to maps.
// It runs each element of the map over an iteratee function and
// saves the resulted values into a new map.
func MapCollection[K comparable, V any](m map[K]V, fn func(V) V) []V {
	result := make([]V, len(m))

	idx := 0
	for _, v := range m {
		result[idx] = fn(v)
		idx++
	}
	return result
}

// keyScratch recycles the slices used by Find for sorting the map keys. Lookups are
// typically issued in bursts over maps of the same type, so the sorted key slice
// does not have to be allocated again on every call.
var keyScratch sync.Pool

// releaseKeys hands the slice back for reuse by a later call.
func releaseKeys[K any](keys []K) {
	keyScratch.Put(&keys)
}

// Find iterates over the elements of a map and returns the first item for which the callback function returns true.
func Find[K constraints.Ordered, V any](m map[K]V, fn func(V) bool) map[K]V {
	var inl1_v0 []K
inl1done:
	switch {
	default:
		var n int = len(m)
		_ = n
		if s, ok := keyScratch.Get().(*[]K); ok && len(*s) >= n {
			{
				inl1_v0 = *s
				break inl1done
			}
		}
		{
			inl1_v0 = make([]K, n)
			break inl1done
		}
	}
	var (
		result = make(map[K]V)
		keys   = inl1_v0
	)
	defer releaseKeys(keys)
	var i = 0

	// When iterating over a map with a range loop, the order is not guaranteed
	// to be preserved from one iteration to the next.
	// We have to store the keys in a separate data structure like a slice
	// which will be sorted before checking the existence of a value in the map.
	// This way we ensure, that on duplicate values always the first one is returned.
	for k := range m {
		keys[i] = k
		i++
	}
	sort.Slice(keys, func(i, j int) bool { return keys[i] < keys[j] })
	for _, k := range keys {
		if fn(m[k]) {
			result[k] = m[k]
			break
		}
	}
	return result
}

// FindKey is like Find, but returns the first item key position for which the callback function returns true.
func FindKey[K comparable, V any](m map[K]V, fn func(V) bool) K {
	var result K
	for k, v := range m {
		if fn(v) {
			result = k
			break
		}
	}
	return result
}

// FindByKey is like Find, but returns the first item for which the callback function returns true.
func FindByKey[K comparable, V any](m map[K]V, fn func(K) bool) map[K]V {
	var result = make(map[K]V)
	for k, v := range m {
		if fn(k) {
			result[k] = v
			break
		}
	}
	return result
}

// Invert returns a copy of the map where the keys become the values and the values the keys.
// For this to work, all of your map's values should be unique.
func Invert[K, V comparable](m map[K]V) map[V]K {
	inverted := map[V]K{}
	keys := Keys(m)

	for i := 0; i < len(keys); i++ {
		inverted[m[keys[i]]] = keys[i]
	}

	return inverted
}

// Pluck extracts all the values of a map by the key definition.
func Pluck[K comparable, V any](mapSlice []map[K]V, key K) []V {
	var result = []V{}

	for _, m := range mapSlice {
		mapped := FindByKey(m, func(k K) bool {
			return k == key
		})
		if _, ok := mapped[key]; ok {
			result = append(result, mapped[key])
		}
	}

	return result
}

// Pick extracts the elements from the map which have the key defined in the allowed keys.
func Pick[K comparable, V any](collection map[K]V, keys ...K) (map[K]V, error) {
	var result = make(map[K]V)
	if len(keys) == 0 {
		return result, errors.New("no map keys provided for the Pick function")
	}

	for k := range collection {
		if Contains(keys, k) {
			result[k] = collection[k]
		}
	}

	return result, nil
}

// PickBy extracts all the map elements for which the callback function returns truthy.
func PickBy[K comparable, V any](collection map[K]V, fn func(key K, val V) bool) map[K]V {
	var result = make(map[K]V)

	for k, v := range collection {
		if fn(k, v) {
			result[k] = collection[k]
		}
	}

	return result
}

// Omit is the opposite of Pick, it extracts all the map elements which keys are not omitted.
func Omit[K comparable, V any](collection map[K]V, keys ...K) map[K]V {
	for k := range collection {
		if Contains(keys, k) {
			delete(collection, k)
		}
	}

	return collection
}

// OmitBy is the opposite of PickBy, it removes all the map elements for which the callback function returns true.
func OmitBy[K comparable, V any](collection map[K]V, fn func(key K, val V) bool) map[K]V {
	for k, v := range collection {
		if fn(k, v) {
			delete(collection, k)
		}
	}

	return collection
}

// PartitionMap split the collection into two arrays, the one whose elements satisfy the condition
// expressed in the callback function (fn) and one whose elements don't satisfy the condition.
func PartitionMap[K comparable, V any](mapSlice []map[K]V, fn func(map[K]V) bool) [2][]map[K]V {
	var result = [2][]map[K]V{}

	for _, m := range mapSlice {
		for k, v := range m {
			m[k] = v
			if fn(m) {
				result[0] = append(result[0], m)
				break
			} else {
				result[1] = append(result[1], m)
				break
			}
		}
	}

	return result
}

// SliceToMap converts a slice to a map. It panics in case the parameter slices length are not identical.
// The map keys will be the items from the first slice and the values the items from the second slice.
func SliceToMap[K comparable, T any](s1 []K, s2 []T) map[K]T {
	var result = make(map[K]T)

	if len(s1) != len(s2) {
		panic("the paremeter slices should have identical length")
	}

	for i := 0; i < len(s1); i++ {
		result[s1[i]] = s2[i]
	}

	return result
}
