// Package queue implements a concurrent safe FIFO (First-In-First-Out)
// data structure where the first element added to the queue is processed first.
// It's implemented in two versions:
//
// 1.) where the storage system is a resizing array,
//
// 2.) where the storage system is a doubly linked list.
package queue

import (
	"fmt"
	"sync"
)

// Queue implements a FIFO Queue data structure.
type Queue[T comparable] struct {
	mu    sync.RWMutex
	items []T
}

// New creates a new FIFO queue where the items are stored in a plain slice.
func New[T comparable]() *Queue[T] {
	return &Queue[T]{
		mu: sync.RWMutex{},
	}
}

// Enqueue inserts a new element at the end of the queue.
func (q *Queue[T]) Enqueue(item T) {
	q.mu.Lock()
	q.items = append(q.items, item)
	q.mu.Unlock()
}

// Dequeue retrieves and removes the first element from the queue.
// The queue size will be decreased by one.
func (q *Queue[T]) Dequeue() (item T, err error) {
	q.mu.Lock()
	defer q.mu.Unlock()

	if q.size() == 0 {
		return item, fmt.Errorf("queue is empty")
	}

	item = q.items[0]
	q.items = q.items[1:]

	return
}

// Peek returns the first element of the queue without removing it.
func (q *Queue[T]) Peek() (item T) {
	q.mu.RLock()
	defer q.mu.RUnlock()

	if q.size() == 0 {
		return
	}

	return q.items[0]
}

// Search searches for an element in the queue.
func (q *Queue[T]) Search(item T) bool {
	q.mu.RLock()
	defer q.mu.RUnlock()

	for i := 0; i < q.size(); i++ {
		if q.items[i] == item {
			return true
		}
	}

	return false
}

// Reversed lists the queued elements, newest first.
func (q *Queue[T]) Reversed() []T {
	q.mu.Lock()
	defer q.mu.Unlock()
	var inl1_v0 []T
	{
		var s []T = q.items
		_ = s
		for i, j := 0, len(s)-1; i < j; i, j = i+1, j-1 {
			s[i], s[j] = s[j], s[i]
		}
		inl1_v0 = s
	}
	return append([]T(nil), inl1_v0...)
}

// Size returns the FIFO queue size.
func (q *Queue[T]) Size() int {
	q.mu.RLock()
	defer q.mu.RUnlock()

	return q.size()
}

// size has a local scope only to avoid blocking the thread when trying to acquire the lock.
func (q *Queue[T]) size() int {
	return len(q.items)
}

// Clear erase all the items from the queue.
func (q *Queue[T]) Clear() {
	q.mu.Lock()
	q.items = nil
	q.mu.Unlock()
}
