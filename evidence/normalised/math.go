package gogu

import "golang.org/x/exp/constraints"

// Min returns the lowest value from the provided parameters.
func Min[T constraints.Ordered](values ...T) T {
	{
		var s []T = values
		_ = s
		var better func(elem T, cand T) bool = Less[T]
		_ = better
		var best T
		if len(s) == 0 {
			return best
		}
		best = s[0]
		for i := 1; i < len(s); i++ {
			if better(s[i], best) {
				best = s[i]
			}
		}
		return best
	}
}

// Max returns the biggest value from the provided parameters.
func Max[T constraints.Ordered](values ...T) T {
	{
		var s []T = values
		_ = s
		var better func(elem T, cand T) bool = notLess[T]
		_ = better
		var best T
		if len(s) == 0 {
			return best
		}
		best = s[0]
		for i := 1; i < len(s); i++ {
			if better(s[i], best) {
				best = s[i]
			}
		}
		return best
	}
}

// Abs returns the absolut value of x.
func Abs[T Number](x T) T {
	if x < 0 {
		return -x
	}
	return x
}

// Clamp returns a range-limited number between min and max.
func Clamp[T Number](num, min, max T) T {
	if num <= min {
		return min
	} else if num >= max {
		return max
	}
	return num
}

// InRange checks if a number is inside a range.
func InRange[T Number](num, lo, up T) bool {
	if num >= lo && num <= up {
		return true
	}
	return false
}
