package gogu

import (
	"errors"
	"fmt"
	"reflect"
	"strconv"
)

// Range creates a slice of integers progressing from start up to, but not including end.
// This method can accept 1, 2 or 3 arguments.
// Depending on the number of provided parameters, `start`, `step` and `end` has the following meaning:
//
// [start=0]: The start of the range. If omitted it defaults to 0.
//
// [step=1]: The value to increment or decrement by.
//
// end: The end of the range.
//
// In case you'd like negative values, use a negative step.
func Range[T Number](args ...T) ([]T, error) {
	var result []T

	if len(args) > 3 {
		return nil, errors.New("the method require maximum 3 paramenters")
	}

	var start, step, end T

	switch len(args) {
	case 1:
		step = 1
		end = args[0]
	case 2:
		start = args[0]
		step = 1
		end = args[1]
	case 3:
		// The direction of the progression is given by the end value,
		// the loops below only need the magnitude of the increment.
		start, step, end = args[0], Abs(args[1]), args[2]

		{
			var inl1_v0 error
		inl1done:
			switch {
			default:
				var start T = start
				_ = start
				var step T = step
				_ = step
				var end T = end
				_ = end
				if start > end && end > 0 {
					{
						inl1_v0 = errors.New("the end value should be greater than start value")
						break inl1done
					}
				}
				if step == 0 {
					{
						inl1_v0 = errors.New("step value should not be zero")
						break inl1done
					}
				}
				if step < 0 && end > start {
					{
						inl1_v0 = errors.New("the end value should be less than the start value in case you are using a negative increment")
						break inl1done
					}
				}
				{
					inl1_v0 = nil
					break inl1done
				}
			}
			err := inl1_v0
			if err != nil {
				return nil, err
			}
		}
	}

	if end > 0 {
		for i := start; i < end; i += step {
			n, _ := N[T](NumToString(i))
			result = append(result, T(n))
		}
	} else {
		for i := start; end < i; i -= step {
			n, _ := N[T](NumToString(i))
			result = append(result, T(n))
		}
	}

	return result, nil
}

// RangeRight is like Range, only that it populates the slice in descending order.
func RangeRight[T Number](params ...T) ([]T, error) {
	ran, err := Range(params...)
	if err != nil {
		return nil, err
	}
	return Reverse(ran), nil
}

// N converts a string to a generic number.
func N[T Number](s string) (T, error) {
	var val T
	typ := reflect.TypeOf(val)
	switch typ.Kind() {
	case reflect.Float32, reflect.Float64:
		t, err := strconv.ParseFloat(s, typ.Bits())
		if err != nil {
			return val, err
		}
		return T(t), nil
	case reflect.Int, reflect.Int8, reflect.Int16, reflect.Int32, reflect.Int64:
		t, err := strconv.ParseInt(s, 10, typ.Bits())
		if err != nil {
			return val, err
		}
		return T(t), nil
	case reflect.Uint, reflect.Uint8, reflect.Uint16, reflect.Uint32, reflect.Uint64, reflect.Uintptr:
		t, err := strconv.ParseUint(s, 10, typ.Bits())
		if err != nil {
			return val, err
		}
		return T(t), nil
	default:
		return val, fmt.Errorf("unsupported type")
	}
}

// NumToString converts a number to a string.
// In case of a number of type float (float32|float64) this will be rounded to 2 decimal places.
func NumToString[T Number](n T) string {
	if reflect.TypeOf(n).Kind() == reflect.Float32 ||
		reflect.TypeOf(n).Kind() == reflect.Float64 {

		return fmt.Sprintf("%.2f", float64(n))
	}

	return fmt.Sprintf("%v", n)
}
