package cache

import (
	"errors"
)

// node is the entity used for storing elements in the cache.
// It acts both as a wrapper for elements in a map
// as well is part of an implementation of a double linked list.
type node[K comparable, V any] struct {
	next, prev *node[K, V]
	list       *lruList[K, V]

	key   K
	value V
}

// lruList holds the doubly linked list node elements and the length.
type lruList[K comparable, V any] struct {
	root node[K, V] // root element in the list. It should not be removed or changed
	len  int
}

// newLRUList initializes a new double linked list with the root element with an initial size of 0.
func newLRUList[K comparable, V any]() *lruList[K, V] {
	// initialize the root element
	lst := lruList[K, V]{root: node[K, V]{}, len: 0}
	lst.root.prev = &lst.root
	lst.root.next = &lst.root

	return &lst
}

// moveAfter moves nd node after the current node.
func (l *lruList[K, V]) moveAfter(current *node[K, V], nd *node[K, V]) {
	if current == nd {
		return
	}

	{
		var l *lruList[K, V] = l
		_ = l
		var nd *node[K, V] = nd
		_ = nd
		nd.prev.next = nd.next
		nd.next.prev = nd.prev
	}

	{
		var l *lruList[K, V] = l
		_ = l
		var at *node[K, V] = current
		_ = at
		var nd *node[K, V] = nd
		_ = nd
		nd.prev = at
		nd.next = at.next
		at.next = nd
	}

}

// moveFront moves nd at the front of the list (after the root element).
func (l *lruList[K, V]) moveFront(nd *node[K, V]) {
	l.moveAfter(&l.root, nd)
}

// length returns the number of elements in the list.
func (l *lruList[K, V]) length() int {
	return l.len
}

// addAfter adds a new element after the current node.
func (l *lruList[K, V]) addAfter(current *node[K, V], key K, value V) *node[K, V] {
	newNode := node[K, V]{
		prev:  current,
		next:  current.next,
		list:  l,
		key:   key,
		value: value,
	}
	current.next.prev = &newNode
	current.next = &newNode
	l.len++
	return &newNode
}

// addFront adds a new element to the front of the list (after the root node).
func (l *lruList[K, V]) addFront(key K, value V) *node[K, V] {
	x := l.addAfter(&l.root, key, value)
	return x
}

// last returns the last node from the list.
func (l *lruList[K, V]) last() *node[K, V] {
	return l.root.prev
}

// first returns the first node from the list.
func (l *lruList[K, V]) first() *node[K, V] {
	return l.root.next
}

// remove removes the nd node form the list.
func (l *lruList[K, V]) remove(node *node[K, V]) bool {
	if node != &l.root {
		next := node.next
		prev := node.prev
		next.prev = prev
		prev.next = next

		l.len--
		return true
	}
	return false
}

// removeLast removes the last node from the list.
func (l *lruList[K, V]) removeLast() bool {
	return l.remove(l.last())
}

// LRUCache implements a fixed size LRU cache using a map and a double linked list.
type LRUCache[K comparable, V any] struct {
	items     map[K]*node[K, V]
	evictList *lruList[K, V]
	size      int
}

// NewLRU initializes a new LRU cache.
func NewLRU[K comparable, V any](size int) (*LRUCache[K, V], error) {
	if size <= 0 {
		return nil, errors.New("size must be a positive value")
	}

	lru := &LRUCache[K, V]{
		items:     make(map[K]*node[K, V]),
		evictList: newLRUList[K, V](),
		size:      size,
	}

	return lru, nil
}

// Add adds a value to the cache. If the oldest value is evicted, this value and they key for it is returned.
func (c *LRUCache[K, V]) Add(key K, value V) (oldestKey K, oldestValue V, removed bool) {
	// If the element is in the cache, move it to the front and return
	if item, ok := c.items[key]; ok {
		c.evictList.moveFront(item)
		item.value = value
		return
	}

	// Since this is a new element, put this to the front
	item := c.evictList.addFront(key, value)
	c.items[key] = item

	// Remove the oldest element if the cache is full
	if c.Count() > c.size {
		return c.RemoveOldest()
	}
	return
}

// Count return the number of the current values from the cache. It should be LE then the initial size of the cache.
func (c *LRUCache[K, V]) Count() int {
	return c.evictList.len
}

// GetOldest returns the oldest key/value pair from the cache if the cache has any values.
func (c *LRUCache[K, V]) GetOldest() (key K, value V, available bool) {
	if item := c.evictList.last(); item != &c.evictList.root {
		// Since the oldest was touched, it is not the oldest anymore so move it to the front
		c.evictList.moveFront(item)
		return item.key, item.value, true
	}
	return
}

// Get return the element for the key if the element is present in the cache.
func (c *LRUCache[K, V]) Get(key K) (value V, available bool) {
	if item, ok := c.items[key]; ok {
		// The item was touched, move it to the front in the list
		c.evictList.moveFront(item)
		return item.value, true
	}
	return
}

// GetYoungest returns the youngest key/value pair from the cache if the cache has any values.
func (c *LRUCache[K, V]) GetYoungest() (key K, value V, available bool) {
	if item := c.evictList.first(); item != &c.evictList.root {
		return item.key, item.value, true
	}
	return
}

// RemoveOldest removes the oldest value from the cache. It returns he key/value pair which was removed.
func (c *LRUCache[K, V]) RemoveOldest() (key K, value V, removed bool) {
	if item := c.evictList.last(); item != &c.evictList.root {
		delete(c.items, item.key)
		return item.key, item.value, c.evictList.removeLast()
	}
	return
}

// Remove removes an element form the cache denoted by the key. The value removed is returned.
func (c *LRUCache[K, V]) Remove(key K) (value V, removed bool) {
	if item, ok := c.items[key]; ok {
		// The item was touched, move it to the front in the list
		delete(c.items, item.key)
		c.evictList.remove(item)
		return item.value, true
	}
	return
}

// RemoveYoungest removes the youngest value from the cache. The key/value pair removed is returned.
func (c *LRUCache[K, V]) RemoveYoungest() (key K, value V, removed bool) {
	if item := c.evictList.first(); item != &c.evictList.root {
		delete(c.items, item.key)
		return item.key, item.value, c.evictList.remove(item)
	}
	return
}

// Flush clears all values from the cache.
func (c *LRUCache[K, V]) Flush() {
	c.items = make(map[K]*node[K, V])
	c.evictList = newLRUList[K, V]()
}
