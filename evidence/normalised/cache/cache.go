// Package cache implements a basic in memory key-value storage system using map as storing mechanism.
// The cache and the cache items also have an expiration time. The cache will be invalidated
// once the expiration time is reached. On cache initialization a cleanup interval is also required.
// The scope of the cleanup method is to run at a predefined interval and to remove all the expired cache items.
package cache

import (
	"errors"
	"fmt"
	"runtime"
	"sync"
	"time"
)

const (
	NoExpiration      time.Duration = -1
	DefaultExpiration time.Duration = 0
)

// Item holds the cache object (which could be of any type) and an expiration time.
// The expiration time defines the object lifetime.
type Item[V any] struct {
	object     V
	expiration int64
}

type cache[K ~string, V any] struct {
	mu         sync.RWMutex
	items      map[K]*Item[V]
	done       chan struct{}
	expTime    time.Duration
	cleanupInt time.Duration
}

// Cache is a publicly available struct type, which incorporates the
// unexported cache struct type holding the cache components.
type Cache[K ~string, V any] struct {
	*cache[K, V]
}

// newCache has a local scope only. `New` will be used for the cache instantiation outside this package.
func newCache[K ~string, V any](expTime, cleanupInt time.Duration, item map[K]*Item[V]) *cache[K, V] {
	c := &cache[K, V]{
		mu:         sync.RWMutex{},
		items:      item,
		expTime:    expTime,
		cleanupInt: cleanupInt,
		done:       make(chan struct{}),
	}
	return c
}

// New instantiates a cache struct which requires an expiration time and a cleanup interval.
// The cache will be invalidated once the expiration time is reached.
// If the expiration time is less than zero (or NoExpiration) the cache items will never expire and should be deleted manually.
// A cleanup method is running in the background and removes the expired caches at a predefined interval.
func New[K ~string, V any](expTime, cleanupTime time.Duration) *Cache[K, V] {
	items := make(map[K]*Item[V])
	c := newCache(expTime, cleanupTime, items)

	if cleanupTime > 0 {
		go c.cleanup()
		// We need to make sure that the goroutine responsible for the cache eviction stops after the cleanup.
		// This is the reason why runtime.SetFinalizer is used.
		// This method is invoked when the garbage collector finds an unreachable block ready to be collected.
		runtime.SetFinalizer(c, stopCleanup[K, V])
	}

	return &Cache[K, V]{c}
}

// Set inserts a new item into the cache, but first verifies if an item with the same key already exists in the cache.
// In case an item with the specified key already exists in the cache it will return an error.
func (c *Cache[K, V]) Set(key K, val V, d time.Duration) error {
	c.mu.Lock()
	defer c.mu.Unlock()

	item, err := c.get(key)
	if item != nil && err == nil {
		return fmt.Errorf("item with key '%v' already exists. Use the Update method", key)
	}
	return c.put(key, val, d)
}

// SetDefault adds a new item into the cache with the default expiration time.
func (c *Cache[K, V]) SetDefault(key K, val V) error {
	return c.Set(key, val, DefaultExpiration)
}

// add inserts a new item into the cache together with an expiration time.
// If the duration is 0 (or DefaultExpiration) the cache default expiration time is used.
// If the duration is < 0 (or NoExpiration), the item never expires and should be removed manually.
func (c *Cache[K, V]) add(key K, val V, d time.Duration) error {
	c.mu.Lock()
	defer c.mu.Unlock()

	return c.put(key, val, d)
}

// put has a local scope only, the caller holds the write lock.
func (c *Cache[K, V]) put(key K, val V, d time.Duration) error {
	var exp int64

	if d == DefaultExpiration {
		d = c.expTime
	}
	if d > 0 {
		exp = time.Now().Add(d).UnixNano()
	} else if d < 0 {
		exp = int64(NoExpiration)
	}

	item, err := c.get(key)
	if item != nil && err != nil {
		return fmt.Errorf("item with key '%v' already exists", key)
	}

	switch any(val).(type) {
	case string:
		if len(any(val).(string)) == 0 {
			return fmt.Errorf("value of type string cannot be empty")
		}
	}

	c.items[key] = &Item[V]{
		object:     val,
		expiration: exp,
	}

	return nil
}

// Get returns a cache item defined by its key. If the item is expired an error is returned.
// If an item is expired it's considered as nonexistent, it will be evicted from the cache
// when the purge method is invoked at the predefined interval.
func (c *Cache[K, V]) Get(key K) (*Item[V], error) {
	c.mu.RLock()
	defer c.mu.RUnlock()

	item, err := c.get(key)
	if err != nil {
		return nil, err
	}
	return item, nil
}

// get has a local scope only, the caller holds the lock.
// For an expired item, which has not been evicted yet, the stale item is returned together
// with the error: this is how the callers can tell an expired item from a missing one.
func (c *Cache[K, V]) get(key K) (*Item[V], error) {
	item, ok := c.items[key]
	if !ok {
		return nil, fmt.Errorf("item with key '%v' not found", key)
	}
	var inl1_v0 bool
	{
		var it *Item[V] = item
		_ = it
		var now int64 = time.Now().UnixNano()
		_ = now
		inl1_v0 = it.expiration > 0 && now > it.expiration
	}
	if inl1_v0 {
		return item, fmt.Errorf("item with key '%v' expired", key)
	}
	return item, nil
}

// Val returns the effective value of the cache item.
func (it *Item[V]) Val() V {
	var v V
	if it != nil {
		return it.object
	}
	return v
}

// Update replaces a cache item with the new value.
func (c *Cache[K, V]) Update(key K, val V, d time.Duration) error {
	item, err := c.Get(key)
	if item != nil && err != nil {
		return err
	}
	return c.add(key, val, d)
}

// Delete removes a cache item.
func (c *Cache[K, V]) Delete(key K) error {
	c.mu.Lock()
	defer c.mu.Unlock()

	return c.delete(key)
}

// delete has a local scope only.
func (c *cache[K, V]) delete(key K) error {
	if _, ok := c.items[key]; ok {
		delete(c.items, key)

		return nil
	}

	return fmt.Errorf("item with key '%v' does not exists", key)
}

// DeleteExpired removes all the expired items from the cache.
func (c *cache[K, V]) DeleteExpired() error {
	var err error

	now := time.Now().UnixNano()

	c.mu.Lock()
	for k, item := range c.items {
		var inl2_v0 bool
		{
			var it *Item[V] = item
			_ = it
			var now int64 = now
			_ = now
			inl2_v0 = it.expiration > 0 && now > it.expiration
		}
		if inl2_v0 {
			if e := c.delete(k); e != nil {
				err = errors.Join(err, e)
			}
		}

	}
	c.mu.Unlock()

	return err
}

// Flush removes all the existing items in the cache.
func (c *Cache[K, V]) Flush() {
	c.mu.Lock()
	c.items = make(map[K]*Item[V])
	c.mu.Unlock()
}

// List returns the cache items which are not expired.
func (c *Cache[K, V]) List() map[K]*Item[V] {
	c.mu.RLock()
	defer c.mu.RUnlock()

	items := make(map[K]*Item[V], len(c.items))
	for k, item := range c.items {
		items[k] = item
	}

	return items
}

// Count returns the number of existing items in the cache.
func (c *Cache[K, V]) Count() int {
	c.mu.RLock()
	n := len(c.items)
	c.mu.RUnlock()

	return n
}

// MapToCache transfers the map values into the cache.
func (c *Cache[K, V]) MapToCache(m map[K]V, d time.Duration) error {
	var err error

	for k, v := range m {
		e := c.Set(k, v, d)
		err = errors.Join(err, e)
	}

	return err
}

// IsExpired checks if a cache item is expired.
func (c *Cache[K, V]) IsExpired(key K) bool {
	c.mu.RLock()
	defer c.mu.RUnlock()

	item, err := c.get(key)

	return item != nil && err != nil
}

// cleanup runs the cache cleanup function at the specified time interval an removes all the expired cache items.
func (c *cache[K, V]) cleanup() {
	tick := time.NewTicker(c.cleanupInt)

	for {
		select {
		case <-tick.C:
			c.DeleteExpired()
		case <-c.done:
			tick.Stop()
			return
		}
	}
}

// stopCleanup stops the cleanup process once the cache item goes out of scope and became unreachable.
func stopCleanup[K ~string, V any](c *cache[K, V]) {
	c.done <- struct{}{}
}
