package gogu

import (
	"time"

	"github.com/esimov/gogu/cache"
	"golang.org/x/sync/singleflight"
)

// Memoizer is a two component struct type used to memoize the results of a function execution.
// It holds an exported Cache storage and a singleflight group which is used
// to guarantee that only one function execution is in flight for a given key.
type Memoizer[T ~string, V any] struct {
	Cache *cache.Cache[T, V]
	group *singleflight.Group
	hot   *hotEntry[T, V]
}

// NewMemoizer instantiates a new Memoizer.
func NewMemoizer[T ~string, V any](expiration, cleanup time.Duration) *Memoizer[T, V] {
	return &Memoizer[T, V]{
		Cache: cache.New[T, V](expiration, cleanup),
		group: &singleflight.Group{},
		hot:   &hotEntry[T, V]{},
	}
}

// Memoize returns the item under a specific key instantly in case the key exists,
// otherwise returns the results of the given function, making sure that only one execution
// is in-flight for a given key at a time.
//
// This method is useful for caching the result of a time-consuming operation when is more important
// to return a slightly outdated result, than to wait for an operation to complete before serving it.
func (m Memoizer[T, V]) Memoize(key T, fn func() (*cache.Item[V], error)) (*cache.Item[V], error) {
	{
		var inl1_v0 *cache.Item[V]
	inl1done:
		switch {
		default:
			var h *hotEntry[T, V] = m.hot
			_ = h
			var key T = key
			_ = key
			if h == nil {
				{
					inl1_v0 = nil
					break inl1done
				}
			}
			if k, ok := h.key.Load().(T); !ok || k != key {
				{
					inl1_v0 = nil
					break inl1done
				}
			}
			if item := h.item.Load(); item != nil && !item.Expired() {
				{
					inl1_v0 = item
					break inl1done
				}
			}
			{
				inl1_v0 = nil
				break inl1done
			}
		}
		item := inl1_v0
		if item != nil {
			return item, nil
		}
	}

	item, _ := m.Cache.Get(key)
	if item != nil {
	inl2done:
		switch {
		default:
			var h *hotEntry[T, V] = m.hot
			_ = h
			var key T = key
			_ = key
			var item *cache.Item[V] = item
			_ = item
			if h == nil {
				break inl2done

			}
			h.key.Store(key)
			h.item.Store(item)
		}

		return item, nil
	}

	data, err, _ := m.group.Do(string(key), func() (any, error) {
		item, err := fn()
		if err == nil {
			m.Cache.SetDefault(key, item.Val())
		}
		return item, err
	})

	return data.(*cache.Item[V]), err
}
