// Package bstree provides an implementation of the Binary Search Tree (BST)
// data structure algorithm, where each node has at most two child nodes and
// the key of its internal node is greater than all the keys in the respective
// node's left subtree and less than the ones in the right subtree.
package bstree

import (
	"fmt"
	"sync"

	"github.com/esimov/gogu"
	"golang.org/x/exp/constraints"
)

var ErrorNotFound = fmt.Errorf("BST node not found")

// Item contains the node's data as a key-value pair data structure.
type Item[K constraints.Ordered, V any] struct {
	Key K
	Val V
}

// Node represents the BST internal Node, having as components the Node item defined
// as a key-value pair and two separate pointers to the left and right child nodes.
type Node[K constraints.Ordered, V any] struct {
	Left  *Node[K, V]
	Right *Node[K, V]
	Item[K, V]
}

// NewNode creates a new node.
func NewNode[K constraints.Ordered, V any](key K, val V) *Node[K, V] {
	return &Node[K, V]{
		Item: Item[K, V]{
			Key: key,
			Val: val,
		},
	}
}

// BsTree is the basic component for the BST data structure initialization.
// It incorporates a thread safe mechanism using `sync.Mutex` to guarantee
// the data consistency on concurrent read and write operation.
type BsTree[K constraints.Ordered, V any] struct {
	mu   sync.RWMutex
	comp gogu.CompFn[K]
	root *Node[K, V]
	size int
	// free holds the nodes unlinked by Delete. They are chained through
	// the Right pointer and are handed out again on the next insertions.
	free *Node[K, V]
}

// New initializes a new BST data structure together with a comparison operator.
// Depending on the comparator it sorts the tree in ascending or descending order.
func New[K constraints.Ordered, V any](comp gogu.CompFn[K]) *BsTree[K, V] {
	return &BsTree[K, V]{
		mu:   sync.RWMutex{},
		comp: comp,
	}
}

// Size returns the size of the tree.
func (b *BsTree[K, V]) Size() int {
	b.mu.RLock()
	defer b.mu.RUnlock()

	return b.size
}

// Get retrieves the node item and an error in case the requested node does not exists.
func (b *BsTree[K, V]) Get(key K) (Item[K, V], error) {
	b.mu.RLock()
	defer b.mu.RUnlock()

	return b.root.get(b, key)
}

func (n *Node[K, V]) get(b *BsTree[K, V], key K) (Item[K, V], error) {
	if n == nil {
		var it Item[K, V]
		return it, ErrorNotFound
	}

	if gogu.Compare(key, n.Key, b.comp) == 1 {
		return n.Left.get(b, key)
	} else if gogu.Compare(key, n.Key, b.comp) == -1 {
		return n.Right.get(b, key)
	}

	return n.Item, nil
}

// Upsert insert a new node or update an existing node in case the key is found in the tree list.
func (b *BsTree[K, V]) Upsert(key K, val V) {
	b.mu.Lock()
	defer b.mu.Unlock()

	if b.root == nil {
		var inl1_v0 *Node[K, V]
	inl1done:
		switch {
		default:
			var b *BsTree[K, V] = b
			_ = b
			var key K = key
			_ = key
			var val V = val
			_ = val
			if b.free == nil {
				{
					inl1_v0 = NewNode(key, val)
					break inl1done
				}
			}
			n := b.free
			b.free, n.Right = n.Right, nil
			n.Key, n.Val = key, val
			{
				inl1_v0 = n
				break inl1done
			}
		}
		b.root = inl1_v0
		b.size++
	} else {
		b.root.upsert(b, key, val)
	}

}

func (n *Node[K, V]) upsert(b *BsTree[K, V], key K, val V) {
	if gogu.Compare(key, n.Key, b.comp) == 1 {
		if n.Left == nil {
			var inl2_v0 *Node[K, V]
		inl2done:
			switch {
			default:
				var b *BsTree[K, V] = b
				_ = b
				var key K = key
				_ = key
				var val V = val
				_ = val
				if b.free == nil {
					{
						inl2_v0 = NewNode(key, val)
						break inl2done
					}
				}
				n := b.free
				b.free, n.Right = n.Right, nil
				n.Key, n.Val = key, val
				{
					inl2_v0 = n
					break inl2done
				}
			}
			n.Left = inl2_v0
			b.size++
		} else {
			n.Left.upsert(b, key, val)
		}
	} else if gogu.Compare(key, n.Key, b.comp) == -1 {
		if n.Right == nil {
			var inl3_v0 *Node[K, V]
		inl3done:
			switch {
			default:
				var b *BsTree[K, V] = b
				_ = b
				var key K = key
				_ = key
				var val V = val
				_ = val
				if b.free == nil {
					{
						inl3_v0 = NewNode(key, val)
						break inl3done
					}
				}
				n := b.free
				b.free, n.Right = n.Right, nil
				n.Key, n.Val = key, val
				{
					inl3_v0 = n
					break inl3done
				}
			}
			n.Right = inl3_v0
			b.size++
		} else {
			n.Right.upsert(b, key, val)
		}
	} else {
		n.Val = val
	}
}

// min searches for the latest node on the left branch, but considering that BST
// is an ordered tree data structure it happens that it holds also the smallest value.
func (n *Node[K, V]) min() *Node[K, V] {
	for ; n.Left != nil; n = n.Left {
	}
	return n
}

// Delete removes a node defined by its key from the tree structure.
func (b *BsTree[K, V]) Delete(key K) error {
	var err error
	b.mu.Lock()
	b.root, err = b.root.delete(b, key)
	b.size--
	b.mu.Unlock()

	return err
}

func (n *Node[K, V]) delete(b *BsTree[K, V], key K) (*Node[K, V], error) {
	var err error
	if n == nil {
		return nil, ErrorNotFound
	}

	if gogu.Compare(key, n.Key, b.comp) == 1 {
		n.Left, err = n.Left.delete(b, key)
		return n, err
	} else if gogu.Compare(key, n.Key, b.comp) == -1 {
		n.Right, err = n.Right.delete(b, key)
		return n, err
	} else {
		// case 1: node has no child
		if n.Left == nil && n.Right == nil {
			{
				var b *BsTree[K, V] = b
				_ = b
				var n *Node[K, V] = n
				_ = n
				n.Item = Item[K, V]{}
				n.Right = b.free
				b.free = n
			}

			return nil, nil
		}
		// case 2a: node has left child only
		if n.Left != nil && n.Right == nil {
			child := n.Left
			{
				var b *BsTree[K, V] = b
				_ = b
				var n *Node[K, V] = n
				_ = n
				n.Item = Item[K, V]{}
				n.Right = b.free
				b.free = n
			}

			return child, nil
		}
		// case 2b: node has right child only
		if n.Left == nil && n.Right != nil {
			child := n.Right
			{
				var b *BsTree[K, V] = b
				_ = b
				var n *Node[K, V] = n
				_ = n
				n.Item = Item[K, V]{}
				n.Right = b.free
				b.free = n
			}

			return child, nil
		}
		// case 3: node with two children
		// Get the latest value on the left branch, which,
		// following the BST rules, should have the smallest value.
		min := n.Right.min()
		n.Key = min.Key
		n.Val = min.Val
		// Delete the inorder successor.
		n.Right, err = n.Right.delete(b, min.Key)

		return n, err
	}
}

// Traverse iterates over the tree structure and invokes the callback function provided as a parameter.
func (b *BsTree[K, V]) Traverse(fn func(Item[K, V])) {
	ch := make(chan Item[K, V])
	go func() {
		b.mu.RLock()
		b.root.traverse(b, ch)
		b.mu.RUnlock()

		close(ch)
	}()

	for item := range ch {
		fn(item)
	}
}

func (n *Node[K, V]) traverse(b *BsTree[K, V], ch chan<- Item[K, V]) {
	if n == nil {
		return
	}
	n.Left.traverse(b, ch)
	ch <- Item[K, V]{
		Key: n.Key,
		Val: n.Val,
	}
	n.Right.traverse(b, ch)
}
