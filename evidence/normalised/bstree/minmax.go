package bstree

// Min returns the first item of the tree in comparator order,
// or ErrorNotFound in case the tree is empty.
func (b *BsTree[K, V]) Min() (Item[K, V], error) {
	b.mu.RLock()
	defer b.mu.RUnlock()

	if b.root == nil {
		var it Item[K, V]
		return it, ErrorNotFound
	}
	return b.root.min().Item, nil
}

// Max returns the last item of the tree in comparator order,
// or ErrorNotFound in case the tree is empty.
func (b *BsTree[K, V]) Max() (Item[K, V], error) {
	b.mu.RLock()
	defer b.mu.RUnlock()

	if b.root == nil {
		var it Item[K, V]
		return it, ErrorNotFound
	}
	var inl1_v0 *Node[K, V]
	{
		var n *Node[K, V] = b.root
		_ = n
		for ; n.Right != nil; n = n.Right {
		}
		inl1_v0 = n
	}
	return inl1_v0.Item, nil
}

// PopMin removes the first item of the tree (in comparator order) and returns it.
// It comes in handy when the tree is used as a priority queue. Because the node
// is reached by walking down the left branch there is no need to search for its key.
func (b *BsTree[K, V]) PopMin() (Item[K, V], error) {
	b.mu.Lock()
	defer b.mu.Unlock()

	if b.root == nil {
		var it Item[K, V]
		return it, ErrorNotFound
	}

	var parent *Node[K, V]
	n := b.root
	for n.Left != nil {
		parent, n = n, n.Left
	}

	// The leftmost node has no left child, so its right
	// subtree (if any) simply takes over its place.
	if parent == nil {
		b.root = n.Right
	} else {
		parent.Left = n.Right
	}
	b.size--

	return n.Item, nil
}

// PopMax removes the last item of the tree (in comparator order) and returns it.
func (b *BsTree[K, V]) PopMax() (Item[K, V], error) {
	b.mu.Lock()
	defer b.mu.Unlock()

	if b.root == nil {
		var it Item[K, V]
		return it, ErrorNotFound
	}

	var parent *Node[K, V]
	n := b.root
	for n.Right != nil {
		parent, n = n, n.Right
	}

	// The rightmost node has no right child, so its left
	// subtree (if any) simply takes over its place.
	if parent == nil {
		b.root = n.Left
	} else {
		parent.Right = n.Right
	}
	b.size--

	return n.Item, nil
}
