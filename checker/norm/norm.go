// Package norm brings a changed tree back to the function inventory the rules
// were confirmed against, without changing what the program does.
//
// The rules of this checker are anchored in named functions ("the sift loop of
// heap.(*Heap).moveDown", "the closure handed to singleflight in Memoize").  Two
// common behaviour-preserving edits move code away from those anchors while the
// properties still hold:
//
//   - extract-method: part of a known function moves into a new unexported helper
//     that is called from one or a few places;
//   - rename of an unexported helper.
//
// Both are undone here, on syntax, before the analysis proper:
//
//   - an unexported function that is NOT in the inventory of the confirmed tree,
//     is not recursive and is only ever called directly, is inlined at each call
//     site (parameters bound to typed locals, result delivered through typed
//     temporaries, early returns turned into a labelled break) and its
//     declaration is dropped;
//   - an unknown unexported function whose receiver and signature coincide with
//     exactly one inventory function that has disappeared is given that name back.
//
// On a tree whose functions are all in the inventory (the unchanged tree, and every
// change that adds no function) this pass is the identity.  Every step is
// re-type-checked; a step that does not type-check is rolled back and the function
// is left as it is (the rules then see it as written).
package norm

import (
	"bytes"
	"fmt"
	"go/ast"
	"go/format"
	"go/parser"
	"go/printer"
	"go/token"
	"go/types"
	"os"
	"path/filepath"
	"sort"
	"strings"

	"golang.org/x/tools/go/ast/astutil"
	"golang.org/x/tools/go/packages"
)

// Result of a normalisation.
type Result struct {
	Overlay map[string][]byte // input overlay plus rewritten files
	Notes   []string          // one line per step taken or declined
	Changed []string          // absolute names of rewritten files
}

type state struct {
	tpSubst map[types.Object]string // set by sameTypeParams for the call being inlined
	dir     string
	fset    *token.FileSet
	pkgs    []*packages.Package
	src     map[string][]byte
}

type funcInfo struct {
	name string
	obj  *types.Func
	decl *ast.FuncDecl
	file *ast.File
	pkg  *packages.Package
}

type edit struct {
	file       string
	start, end int
	text       string
}

func load(dir string, overlay map[string][]byte) (*state, error) {
	fset := token.NewFileSet()
	env := append(os.Environ(),
		"GOPROXY=off", "GOSUMDB=off", "GOTOOLCHAIN=local", "GOWORK=off",
		"GOFLAGS=-mod=readonly", "CGO_ENABLED=0")
	cfg := &packages.Config{
		Mode:    packages.LoadSyntax,
		Dir:     dir,
		Fset:    fset,
		Env:     env,
		Overlay: overlay,
	}
	pkgs, err := packages.Load(cfg, "./...")
	if err != nil {
		return nil, err
	}
	var errs []string
	for _, p := range pkgs {
		for _, e := range p.Errors {
			errs = append(errs, e.Error())
		}
	}
	if len(errs) > 0 {
		return nil, fmt.Errorf("%s", strings.Join(errs, "; "))
	}
	sort.Slice(pkgs, func(i, j int) bool { return pkgs[i].PkgPath < pkgs[j].PkgPath })
	st := &state{dir: dir, fset: fset, pkgs: pkgs, src: map[string][]byte{}}
	for _, p := range pkgs {
		for _, f := range p.Syntax {
			name := fset.File(f.Pos()).Name()
			if b, ok := overlay[name]; ok {
				st.src[name] = b
			} else if b, err := os.ReadFile(name); err == nil {
				st.src[name] = b
			} else {
				return nil, err
			}
		}
	}
	return st, nil
}

// NameOf gives the checker's stable name of a declared function
// ("heap.(*Heap).moveUp", "gogu.Find").
func NameOf(fn *types.Func) string {
	pkg := "?"
	if fn.Pkg() != nil {
		pkg = fn.Pkg().Name()
	}
	sig := fn.Type().(*types.Signature)
	if r := sig.Recv(); r != nil {
		t := r.Type()
		ptr := false
		if pt, ok := t.(*types.Pointer); ok {
			ptr = true
			t = pt.Elem()
		}
		tn := "?"
		if n, ok := t.(*types.Named); ok {
			tn = n.Obj().Name()
		}
		if ptr {
			return fmt.Sprintf("%s.(*%s).%s", pkg, tn, fn.Name())
		}
		return fmt.Sprintf("%s.(%s).%s", pkg, tn, fn.Name())
	}
	return pkg + "." + fn.Name()
}

// SigKey is the name-free shape of a declared function: receiver, parameter and
// result types (parameter names do not matter).
func SigKey(fn *types.Func) string {
	sig := fn.Type().(*types.Signature)
	q := func(p *types.Package) string { return p.Name() }
	var b strings.Builder
	if r := sig.Recv(); r != nil {
		b.WriteString(types.TypeString(r.Type(), q))
	}
	b.WriteString("|")
	if tp := sig.TypeParams(); tp != nil {
		for i := 0; i < tp.Len(); i++ {
			b.WriteString(tp.At(i).Obj().Name() + " " + types.TypeString(tp.At(i).Constraint(), q) + ",")
		}
	}
	b.WriteString("|")
	for i := 0; i < sig.Params().Len(); i++ {
		b.WriteString(types.TypeString(sig.Params().At(i).Type(), q) + ",")
	}
	if sig.Variadic() {
		b.WriteString("...")
	}
	b.WriteString("|")
	for i := 0; i < sig.Results().Len(); i++ {
		b.WriteString(types.TypeString(sig.Results().At(i).Type(), q) + ",")
	}
	return b.String()
}

const nameSep = " # "

// declNames: the receiver name (or "") followed by the parameter names of a declaration.
func declNames(fd *ast.FuncDecl) []string {
	out := []string{""}
	if fd.Recv != nil && len(fd.Recv.List) == 1 && len(fd.Recv.List[0].Names) == 1 {
		out[0] = fd.Recv.List[0].Names[0].Name
	}
	for _, f := range fd.Type.Params.List {
		if len(f.Names) == 0 {
			out = append(out, "_")
		}
		for _, n := range f.Names {
			out = append(out, n.Name)
		}
	}
	return out
}

func splitInv(v string) (sig string, names []string) {
	i := strings.Index(v, nameSep)
	if i < 0 {
		return v, nil
	}
	return v[:i], strings.Split(v[i+len(nameSep):], ",")
}

// Inventory lists the declared functions of the tree at dir: stable name -> SigKey.
func Inventory(dir string) (map[string]string, error) {
	st, err := load(dir, nil)
	if err != nil {
		return nil, err
	}
	inv := map[string]string{}
	for _, fi := range st.funcs() {
		inv[fi.name] = SigKey(fi.obj) + nameSep + strings.Join(declNames(fi.decl), ",")
	}
	return inv, nil
}

// Files lists the home file (relative to the module root) of every function declared in
// the tree at dir.
func Files(dir string) (map[string]string, error) {
	st, err := load(dir, nil)
	if err != nil {
		return nil, err
	}
	out := map[string]string{}
	for _, fi := range st.funcs() {
		rel, _ := filepath.Rel(dir, st.fileName(fi.decl.Pos()))
		if strings.HasSuffix(rel, "_test.go") {
			continue
		}
		out[fi.name] = rel
	}
	return out, nil
}

// Edges lists, for every function declared in the tree at dir, the functions of the same
// package it calls directly (stable names; closures belong to their enclosing function).
func Edges(dir string) (map[string][]string, error) {
	st, err := load(dir, nil)
	if err != nil {
		return nil, err
	}
	out := map[string][]string{}
	for _, fi := range st.funcs() {
		if fi.decl.Body == nil || strings.HasSuffix(st.fileName(fi.decl.Pos()), "_test.go") {
			continue
		}
		set := map[string]bool{}
		for _, c := range st.samePkgCalls(fi) {
			set[c.name] = true
		}
		var names []string
		for n := range set {
			names = append(names, n)
		}
		sort.Strings(names)
		out[fi.name] = names
	}
	return out, nil
}

type pkgCall struct {
	name string
	obj  *types.Func
	call *ast.CallExpr
}

// samePkgCalls: the direct calls in fi's body whose callee is a function or method
// declared in fi's own package.
func (st *state) samePkgCalls(fi *funcInfo) []pkgCall {
	var out []pkgCall
	info := fi.pkg.TypesInfo
	ast.Inspect(fi.decl.Body, func(n ast.Node) bool {
		call, ok := n.(*ast.CallExpr)
		if !ok {
			return true
		}
		var id *ast.Ident
		switch f := ast.Unparen(call.Fun).(type) {
		case *ast.Ident:
			id = f
		case *ast.SelectorExpr:
			id = f.Sel
		case *ast.IndexExpr:
			switch g := f.X.(type) {
			case *ast.Ident:
				id = g
			case *ast.SelectorExpr:
				id = g.Sel
			}
		case *ast.IndexListExpr:
			switch g := f.X.(type) {
			case *ast.Ident:
				id = g
			case *ast.SelectorExpr:
				id = g.Sel
			}
		}
		if id == nil {
			return true
		}
		fn, ok := info.Uses[id].(*types.Func)
		if !ok || fn.Pkg() == nil || fn.Pkg() != fi.pkg.Types {
			return true
		}
		fn = fn.Origin()
		out = append(out, pkgCall{NameOf(fn), fn, call})
		return true
	})
	return out
}

// StructField is one field of a confirmed struct type.
type StructField struct {
	Name string `json:"name"`
	Type string `json:"type"`
}

// Structs lists the struct types declared in the tree at dir: "pkg.Type" -> fields in order.
func Structs(dir string) (map[string][]StructField, error) {
	st, err := load(dir, nil)
	if err != nil {
		return nil, err
	}
	out := map[string][]StructField{}
	for _, si := range st.structs() {
		out[si.name] = si.fields
	}
	return out, nil
}

type structInfo struct {
	tname  *ast.Ident
	name   string
	fields []StructField
	vars   []*types.Var
	idents []*ast.Ident
	pkg    *packages.Package
}

func (st *state) structs() []*structInfo {
	var out []*structInfo
	for _, p := range st.pkgs {
		q := func(o *types.Package) string { return o.Name() }
		for _, f := range p.Syntax {
			if strings.HasSuffix(st.fileName(f.Pos()), "_test.go") {
				continue
			}
			for _, d := range f.Decls {
				gd, ok := d.(*ast.GenDecl)
				if !ok || gd.Tok != token.TYPE {
					continue
				}
				for _, sp := range gd.Specs {
					ts := sp.(*ast.TypeSpec)
					stt, ok := ts.Type.(*ast.StructType)
					if !ok {
						continue
					}
					si := &structInfo{name: p.Types.Name() + "." + ts.Name.Name, pkg: p, tname: ts.Name}
					for _, fl := range stt.Fields.List {
						if len(fl.Names) == 0 {
							// embedded: the type name is the field name
							var id *ast.Ident
							ast.Inspect(fl.Type, func(n ast.Node) bool {
								if x, ok := n.(*ast.Ident); ok && id == nil {
									id = x
								}
								if se, ok := n.(*ast.SelectorExpr); ok {
									id = se.Sel
									return false
								}
								return id == nil
							})
							if id != nil {
								si.fields = append(si.fields, StructField{Name: id.Name, Type: "embedded " + types.ExprString(fl.Type)})
								si.vars = append(si.vars, nil)
								si.idents = append(si.idents, nil)
							}
							continue
						}
						for _, n := range fl.Names {
							v, _ := p.TypesInfo.Defs[n].(*types.Var)
							ty := ""
							if v != nil {
								ty = types.TypeString(v.Type(), q)
							}
							si.fields = append(si.fields, StructField{Name: n.Name, Type: ty})
							si.vars = append(si.vars, v)
							si.idents = append(si.idents, n)
						}
					}
					out = append(out, si)
				}
			}
		}
	}
	sort.Slice(out, func(i, j int) bool { return out[i].name < out[j].name })
	return out
}

// fieldEdits gives the unexported fields of si whose names differ from the confirmed
// ones (same position, same type) their confirmed names back.
func (st *state) fieldEdits(si *structInfo, want []StructField) ([]edit, string, error) {
	if len(want) != len(si.fields) {
		return nil, "", fmt.Errorf("field count differs")
	}
	// fields may have been reordered as well: names present on both sides stay; the
	// remaining current fields are matched with the remaining confirmed ones by type,
	// which must be unambiguous
	wantByName := map[string]StructField{}
	for _, w := range want {
		wantByName[w.Name] = w
	}
	haveName := map[string]bool{}
	for _, f := range si.fields {
		haveName[f.Name] = true
	}
	var missing []StructField
	for _, w := range want {
		if !haveName[w.Name] {
			missing = append(missing, w)
		}
	}
	target := map[*types.Var]string{}
	var desc []string
	used := map[string]bool{}
	for i, f := range si.fields {
		if _, ok := wantByName[f.Name]; ok {
			continue
		}
		var cands []StructField
		for _, m := range missing {
			if m.Type == f.Type && !used[m.Name] {
				cands = append(cands, m)
			}
		}
		// same type more than once: fall back on the position
		if len(cands) > 1 && i < len(want) && want[i].Type == f.Type && !haveName[want[i].Name] && !used[want[i].Name] {
			cands = []StructField{want[i]}
		}
		if len(cands) != 1 {
			return nil, "", fmt.Errorf("field %s cannot be matched with a confirmed field", f.Name)
		}
		if si.vars[i] == nil || ast.IsExported(f.Name) || ast.IsExported(cands[0].Name) {
			return nil, "", fmt.Errorf("field %s is embedded or exported", f.Name)
		}
		used[cands[0].Name] = true
		target[si.vars[i]] = cands[0].Name
		desc = append(desc, f.Name+" -> "+cands[0].Name)
	}
	if len(target) == 0 {
		return nil, "", fmt.Errorf("nothing to do")
	}
	// the wanted names must be free among the fields and methods of the type
	for _, nn := range target {
		for i, f := range si.fields {
			if f.Name == nn && target[si.vars[i]] == "" {
				return nil, "", fmt.Errorf("the name %s is taken by another field", nn)
			}
		}
		if obj := si.pkg.Types.Scope().Lookup(si.name[strings.Index(si.name, ".")+1:]); obj != nil {
			if named, ok := obj.Type().(*types.Named); ok {
				for i := 0; i < named.NumMethods(); i++ {
					if named.Method(i).Name() == nn {
						return nil, "", fmt.Errorf("the name %s is taken by a method", nn)
					}
				}
			}
		}
	}
	var es []edit
	for _, p := range st.pkgs {
		visit := func(id *ast.Ident, obj types.Object) {
			v, ok := obj.(*types.Var)
			if !ok || !v.IsField() {
				return
			}
			if nn, ok := target[v.Origin()]; ok {
				es = append(es, edit{st.fileName(id.Pos()), st.offset(id.Pos()), st.offset(id.End()), nn})
			}
		}
		for id, obj := range p.TypesInfo.Defs {
			if obj != nil {
				visit(id, obj)
			}
		}
		for id, obj := range p.TypesInfo.Uses {
			visit(id, obj)
		}
	}
	// de-duplicate (an identifier can be both)
	seen := map[[2]int]bool{}
	var uniq []edit
	for _, e := range es {
		k := [2]int{e.start, e.end}
		key := e.file
		_ = key
		if seen[k] && false {
			continue
		}
		seen[k] = true
		uniq = append(uniq, e)
	}
	sort.Slice(uniq, func(i, j int) bool {
		if uniq[i].file != uniq[j].file {
			return uniq[i].file < uniq[j].file
		}
		return uniq[i].start < uniq[j].start
	})
	var out []edit
	for i, e := range uniq {
		if i > 0 && uniq[i-1].file == e.file && uniq[i-1].start == e.start {
			continue
		}
		out = append(out, e)
	}
	return out, strings.Join(desc, ", "), nil
}

// Source is the confirmed declaration of an unexported function: the file it lives in
// (relative to the module root) and its text, doc comment included.
type Source struct {
	File string `json:"file"`
	Text string `json:"text"`
}

// Sources lists the declarations of the unexported functions of the tree at dir.
func Sources(dir string) (map[string]Source, error) {
	st, err := load(dir, nil)
	if err != nil {
		return nil, err
	}
	out := map[string]Source{}
	for _, fi := range st.funcs() {
		if ast.IsExported(fi.obj.Name()) || fi.obj.Name() == "init" || fi.obj.Name() == "main" {
			continue
		}
		fname := st.fileName(fi.decl.Pos())
		if strings.HasSuffix(fname, "_test.go") {
			continue
		}
		start := fi.decl.Pos()
		if fi.decl.Doc != nil {
			start = fi.decl.Doc.Pos()
		}
		rel, _ := filepath.Rel(dir, fname)
		out[fi.name] = Source{File: rel, Text: string(st.src[fname][st.offset(start):st.offset(fi.decl.End())])}
	}
	return out, nil
}

func (st *state) funcs() []*funcInfo {
	var out []*funcInfo
	for _, p := range st.pkgs {
		for _, f := range p.Syntax {
			for _, d := range f.Decls {
				fd, ok := d.(*ast.FuncDecl)
				if !ok {
					continue
				}
				obj, _ := p.TypesInfo.Defs[fd.Name].(*types.Func)
				if obj == nil {
					continue
				}
				out = append(out, &funcInfo{name: NameOf(obj), obj: obj, decl: fd, file: f, pkg: p})
			}
		}
	}
	sort.Slice(out, func(i, j int) bool { return out[i].name < out[j].name })
	return out
}

// Normalise runs the pass.  inv is the inventory of the confirmed tree.
func Normalise(dir string, overlay map[string][]byte, inv map[string]string, srcs map[string]Source, structs map[string][]StructField, edges map[string][]string) (*Result, error) {
	res := &Result{Overlay: map[string][]byte{}}
	for k, v := range overlay {
		res.Overlay[k] = v
	}
	if !hasUnknown(dir, res.Overlay, inv, srcs, structs, edges) {
		return res, nil
	}
	allowed := map[string]map[string]bool{} // call edges the pass itself introduced
	skip := map[string]string{}
	changed := map[string]bool{}
	label := 0
	for round := 0; round < 40; round++ {
		st, err := load(dir, res.Overlay)
		if err != nil {
			if round == 0 {
				// let the main loader report it
				return res, nil
			}
			return nil, fmt.Errorf("normalised tree does not load: %v", err)
		}
		fis := st.funcs()
		present := map[string]bool{}
		for _, fi := range fis {
			present[fi.name] = true
		}
		var unknown []*funcInfo
		for _, fi := range fis {
			if _, ok := inv[fi.name]; ok {
				continue
			}
			if ast.IsExported(fi.obj.Name()) || fi.obj.Name() == "init" || fi.obj.Name() == "main" || fi.decl.Body == nil {
				continue
			}
			if strings.HasSuffix(st.fset.File(fi.decl.Pos()).Name(), "_test.go") {
				continue
			}
			unknown = append(unknown, fi)
		}
		var edits []edit
		var note string
		var subject string
		// unexported struct types: a confirmed type that is gone and exactly one unknown
		// type of the same package with the same fields (its own name aside) - a rename
		{
			cur := st.structs()
			have := map[string]bool{}
			for _, si := range cur {
				have[si.name] = true
			}
			selfless := func(fs []StructField, own string) string {
				var b strings.Builder
				for _, f := range fs {
					t := f.Type
					// the type's own (package-qualified or bare) name inside field types
					t = strings.ReplaceAll(t, "."+own+"[", ".\x00[")
					t = strings.ReplaceAll(t, "."+own+" ", ".\x00 ")
					if strings.HasSuffix(t, "."+own) {
						t = strings.TrimSuffix(t, own) + "\x00"
					}
					// by type only: the fields may have been renamed in the same commit
					// (the field step that follows gives them their names back)
					b.WriteString(t + ";")
				}
				return b.String()
			}
			for _, si := range cur {
				if edits != nil {
					break
				}
				if _, known := structs[si.name]; known || skip["type:"+si.name] != "" {
					continue
				}
				own := si.name[strings.Index(si.name, ".")+1:]
				if ast.IsExported(own) {
					continue
				}
				var cands []string
				for cname, cf := range structs {
					if have[cname] || pkgOf(cname) != pkgOf(si.name) {
						continue
					}
					cown := cname[strings.Index(cname, ".")+1:]
					if selfless(cf, cown) == selfless(si.fields, own) {
						cands = append(cands, cname)
					}
				}
				if len(cands) != 1 {
					continue
				}
				// no other unknown type may claim it
				claim := 0
				cown := cands[0][strings.Index(cands[0], ".")+1:]
				for _, o := range cur {
					if _, known := structs[o.name]; known || pkgOf(o.name) != pkgOf(si.name) {
						continue
					}
					oown := o.name[strings.Index(o.name, ".")+1:]
					if selfless(structs[cands[0]], cown) == selfless(o.fields, oown) {
						claim++
					}
				}
				if claim != 1 {
					continue
				}
				obj := si.pkg.TypesInfo.Defs[si.tname]
				if obj == nil || si.pkg.Types.Scope().Lookup(cown) != nil {
					skip["type:"+si.name] = "name taken"
					continue
				}
				var es []edit
				for _, p := range st.pkgs {
					for id, o := range p.TypesInfo.Defs {
						if o == obj {
							es = append(es, edit{st.fileName(id.Pos()), st.offset(id.Pos()), st.offset(id.End()), cown})
						}
					}
					for id, o := range p.TypesInfo.Uses {
						if o == obj {
							es = append(es, edit{st.fileName(id.Pos()), st.offset(id.Pos()), st.offset(id.End()), cown})
						}
					}
				}
				edits = es
				note = fmt.Sprintf("renamed the type %s back to %s (same package, same fields; %s is gone)", si.name, cown, cands[0])
				subject = "type:" + si.name
			}
		}
		// unexported struct fields: back to the confirmed names
		for _, si := range st.structs() {
			if edits != nil {
				break
			}
			want, ok := structs[si.name]
			if !ok || skip["fields:"+si.name] != "" {
				continue
			}
			same := len(want) == len(si.fields)
			if same {
				names := map[string]bool{}
				for _, w := range want {
					names[w.Name] = true
				}
				for _, f := range si.fields {
					if !names[f.Name] {
						same = false
					}
				}
			}
			if same {
				continue // same field names (possibly reordered)
			}
			es, desc, err := st.fieldEdits(si, want)
			if err != nil {
				skip["fields:"+si.name] = err.Error()
				if err.Error() != "field count differs" {
					res.Notes = append(res.Notes, fmt.Sprintf("left the field names of %s as written: %v", si.name, err))
				}
				continue
			}
			edits = es
			note = fmt.Sprintf("gave the fields of %s their confirmed names back (%s)", si.name, desc)
			subject = "fields:" + si.name
			break
		}
		// parameter / receiver names of known functions: back to the confirmed names
		for _, fi := range fis {
			if edits != nil {
				break
			}
			full, ok := inv[fi.name]
			if !ok || skip["params:"+fi.name] != "" {
				continue
			}
			key, names := splitInv(full)
			if names == nil || key != SigKey(fi.obj) {
				continue
			}
			cur := declNames(fi.decl)
			if len(cur) != len(names) || strings.Join(cur, ",") == strings.Join(names, ",") {
				continue
			}
			es, err := st.paramEdits(fi, cur, names)
			if err != nil {
				skip["params:"+fi.name] = err.Error()
				res.Notes = append(res.Notes, fmt.Sprintf("left the parameter names of %s as written: %v", fi.name, err))
				continue
			}
			edits = es
			note = fmt.Sprintf("gave the parameters of %s their confirmed names back (%s -> %s)", fi.name, strings.Join(cur, ","), strings.Join(names, ","))
			subject = "params:" + fi.name
			break
		}
		missing := false
		for name := range srcs {
			if !present[name] && skip["gone:"+name] == "" {
				missing = true
			}
		}
		if edits != nil {
			missing = true
		}
		_ = missing
		// renames first
		for _, u := range unknown {
			if edits != nil {
				break
			}
			if skip[u.name] != "" {
				continue
			}
			var cands []string
			for name, full := range inv {
				key, _ := splitInv(full)
				if present[name] || key != SigKey(u.obj) {
					continue
				}
				if pkgOf(name) != pkgOf(u.name) || recvOf(name) != recvOf(u.name) {
					continue
				}
				cands = append(cands, name)
			}
			if len(cands) != 1 {
				continue
			}
			// no other unknown function may claim the same old name
			claim := 0
			for _, v := range unknown {
				if ck, _ := splitInv(inv[cands[0]]); SigKey(v.obj) == ck && pkgOf(v.name) == pkgOf(cands[0]) && recvOf(v.name) == recvOf(cands[0]) {
					claim++
				}
			}
			if claim != 1 {
				continue
			}
			old := cands[0][strings.LastIndex(cands[0], ".")+1:]
			edits = st.renameEdits(u, old)
			note = fmt.Sprintf("renamed %s back to %s (same receiver and signature; %s is gone)", u.name, old, cands[0])
			subject = u.name
			break
		}
		if edits == nil {
			for _, u := range unknown {
				if skip[u.name] != "" {
					continue
				}
				label++
				e, n, err := st.inlineOne(u, label)
				if err != nil {
					skip[u.name] = err.Error()
					res.Notes = append(res.Notes, fmt.Sprintf("left %s as written: %v", u.name, err))
					continue
				}
				edits, note, subject = e, n, u.name
				break
			}
		}
		if edits == nil {
			// a confirmed unexported helper that has disappeared (a maintainer inlined
			// it into its callers): put its confirmed declaration back, unused. Rules
			// that name it find it again; what its former callers now do in its place
			// is judged by the rules about them.
			var gone []string
			for name := range srcs {
				if !present[name] && skip["gone:"+name] == "" {
					gone = append(gone, name)
				}
			}
			sort.Strings(gone)
			for _, name := range gone {
				src := srcs[name]
				target := filepath.Join(dir, src.File)
				if _, ok := st.src[target]; !ok {
					skip["gone:"+name] = "file gone"
					res.Notes = append(res.Notes, fmt.Sprintf("the confirmed helper %s is gone and so is its file %s", name, src.File))
					continue
				}
				at := len(st.src[target])
				edits = []edit{{target, at, at, "\n" + src.Text + "\n"}}
				note = fmt.Sprintf("the confirmed helper %s is no longer declared (inlined into its callers?): its confirmed declaration was put back, unused, so that rules naming it resolve", name)
				subject = "gone:" + name
				break
			}
		}
		if edits == nil && len(edges) > 0 {
			// a confirmed function that now calls a confirmed helper of its package it did
			// not call before (a hand-written loop replaced by the module's own Contains,
			// Keys, Min, ...): the helper's current body is inlined at that call, so the
			// rules about the caller see the loop again; the helper itself stays and is
			// judged by its own rules
			byName := map[string]*funcInfo{}
			for _, fi := range fis {
				byName[fi.name] = fi
			}
			for _, fi := range fis {
				if edits != nil {
					break
				}
				conf, ok := edges[fi.name]
				if !ok || fi.decl.Body == nil {
					continue
				}
				// everything the function could already reach in the confirmed tree (a call
				// of remove() where removeLast() - which calls remove() - stood is not new)
				was := map[string]bool{}
				var reach func(n string)
				reach = func(n string) {
					if was[n] {
						return
					}
					was[n] = true
					for _, m := range edges[n] {
						reach(m)
					}
				}
				for _, n := range conf {
					reach(n)
				}
				for _, c := range st.samePkgCalls(fi) {
					h := byName[c.name]
					if h == nil || was[c.name] || allowed[fi.name][c.name] || c.name == fi.name {
						continue
					}
					if _, confirmedHelper := inv[c.name]; !confirmedHelper {
						continue
					}
					// only helpers that change nothing outside themselves: a new call of a
					// state-changing primitive (put, remove, moveAfter ...) must stay a call,
					// the who-may-call rules are about exactly those edges
					if why := st.impure(h, byName, map[string]bool{}); why != "" {
						skip["edge:"+fi.name+">"+c.name] = why
						continue
					}
					key := "edge:" + fi.name + ">" + c.name
					if skip[key] != "" {
						continue
					}
					// not recursive (directly)
					rec := false
					for _, hc := range st.samePkgCalls(h) {
						if hc.name == c.name {
							rec = true
						}
					}
					if rec {
						skip[key] = "recursive helper"
						continue
					}
					var file *ast.File
					for _, f := range fi.pkg.Syntax {
						if f.Pos() <= c.call.Pos() && c.call.Pos() < f.End() {
							file = f
						}
					}
					path, _ := astutil.PathEnclosingInterval(file, c.call.Pos(), c.call.End())
					for len(path) > 0 && path[0] != ast.Node(c.call) {
						path = path[1:]
					}
					label++
					es, err := st.inlineCall(h, c.call, path, file, fi.pkg, label)
					if err != nil {
						skip[key] = err.Error()
						res.Notes = append(res.Notes, fmt.Sprintf("left the new call of %s in %s as written: %v", c.name, fi.name, err))
						continue
					}
					edits = es
					note = fmt.Sprintf("%s now calls %s, which it did not in the confirmed tree: the helper's body was inlined at that call (the helper itself stays)", fi.name, c.name)
					subject = key
					if allowed[fi.name] == nil {
						allowed[fi.name] = map[string]bool{}
					}
					for _, n := range edges[c.name] {
						allowed[fi.name][n] = true
					}
					break
				}
			}
		}
		if edits == nil {
			break
		}
		next, files, err := st.apply(edits)
		if err == nil {
			trial := map[string][]byte{}
			for k, v := range res.Overlay {
				trial[k] = v
			}
			for k, v := range next {
				trial[k] = v
			}
			if _, lerr := load(dir, trial); lerr != nil {
				err = fmt.Errorf("result does not type-check: %v", lerr)
			} else {
				res.Overlay = trial
				for _, f := range files {
					changed[f] = true
				}
				res.Notes = append(res.Notes, note)
			}
		}
		if err != nil {
			skip[subject] = err.Error()
			res.Notes = append(res.Notes, fmt.Sprintf("left %s as written: %v", subject, err))
		}
	}
	for f := range changed {
		res.Changed = append(res.Changed, f)
	}
	sort.Strings(res.Changed)
	return res, nil
}

func pkgOf(name string) string { return name[:strings.Index(name, ".")] }
func recvOf(name string) string {
	i := strings.Index(name, ".(")
	if i < 0 {
		return ""
	}
	j := strings.Index(name[i:], ")")
	return name[i+1 : i+j+1]
}

func (st *state) offset(pos token.Pos) int { return st.fset.Position(pos).Offset }
func (st *state) fileName(pos token.Pos) string {
	return st.fset.File(pos).Name()
}
func (st *state) text(n ast.Node) string {
	return string(st.src[st.fileName(n.Pos())][st.offset(n.Pos()):st.offset(n.End())])
}

func (st *state) apply(edits []edit) (map[string][]byte, []string, error) {
	by := map[string][]edit{}
	for _, e := range edits {
		by[e.file] = append(by[e.file], e)
	}
	out := map[string][]byte{}
	var files []string
	for f, es := range by {
		sort.Slice(es, func(i, j int) bool { return es[i].start > es[j].start })
		b := append([]byte(nil), st.src[f]...)
		last := len(b) + 1
		for _, e := range es {
			if e.end > last {
				return nil, nil, fmt.Errorf("overlapping edits in %s", f)
			}
			b = append(b[:e.start:e.start], append([]byte(e.text), b[e.end:]...)...)
			last = e.start
		}
		fb, err := format.Source(b)
		if err != nil {
			return nil, nil, fmt.Errorf("rewritten %s does not parse: %v", filepath.Base(f), err)
		}
		out[f] = fb
		files = append(files, f)
	}
	return out, files, nil
}

// refs lists every identifier that resolves to fn (its generic origin).
func (st *state) refs(fn *types.Func) (uses []*ast.Ident, pkgs []*packages.Package) {
	for _, p := range st.pkgs {
		for id, o := range p.TypesInfo.Uses {
			if f, ok := o.(*types.Func); ok && f.Origin() == fn {
				uses = append(uses, id)
				pkgs = append(pkgs, p)
			}
		}
	}
	// deterministic order
	idx := make([]int, len(uses))
	for i := range idx {
		idx[i] = i
	}
	sort.Slice(idx, func(a, b int) bool {
		pa, pb := st.fset.Position(uses[idx[a]].Pos()), st.fset.Position(uses[idx[b]].Pos())
		if pa.Filename != pb.Filename {
			return pa.Filename < pb.Filename
		}
		return pa.Offset < pb.Offset
	})
	u2 := make([]*ast.Ident, len(uses))
	p2 := make([]*packages.Package, len(uses))
	for i, k := range idx {
		u2[i], p2[i] = uses[k], pkgs[k]
	}
	return u2, p2
}

func (st *state) renameEdits(u *funcInfo, old string) []edit {
	var es []edit
	add := func(id *ast.Ident) {
		es = append(es, edit{st.fileName(id.Pos()), st.offset(id.Pos()), st.offset(id.End()), old})
	}
	add(u.decl.Name)
	uses, _ := st.refs(u.obj)
	for _, id := range uses {
		add(id)
	}
	return es
}

// ---------------------------------------------------------------------------

func (st *state) inlineOne(u *funcInfo, label int) ([]edit, string, error) {
	uses, upkgs := st.refs(u.obj)
	if len(uses) == 0 {
		return nil, "", fmt.Errorf("never referenced")
	}
	// every reference must be the function position of a direct call outside u
	type site struct {
		call *ast.CallExpr
		path []ast.Node
		file *ast.File
		pkg  *packages.Package
	}
	var sites []site
	for i, id := range uses {
		p := upkgs[i]
		var file *ast.File
		for _, f := range p.Syntax {
			if f.Pos() <= id.Pos() && id.Pos() < f.End() {
				file = f
			}
		}
		if file == nil {
			return nil, "", fmt.Errorf("reference outside the loaded syntax")
		}
		if strings.HasSuffix(st.fileName(file.Pos()), "_test.go") {
			return nil, "", fmt.Errorf("referenced from a test file")
		}
		path, _ := astutil.PathEnclosingInterval(file, id.Pos(), id.End())
		// climb through selector / index (explicit instantiation) / parens to the call
		k := 0
		var fun ast.Expr = id
		for k+1 < len(path) {
			switch n := path[k+1].(type) {
			case *ast.SelectorExpr:
				if n.Sel == id {
					fun = n
					k++
					continue
				}
			case *ast.IndexExpr:
				if n.X == fun {
					fun = n
					k++
					continue
				}
			case *ast.IndexListExpr:
				if n.X == fun {
					fun = n
					k++
					continue
				}
			case *ast.ParenExpr:
				fun = n
				k++
				continue
			}
			break
		}
		call, ok := path[k+1].(*ast.CallExpr)
		if k+1 >= len(path) || !ok || call.Fun != fun {
			return nil, "", fmt.Errorf("used as a value at %s", st.fset.Position(id.Pos()))
		}
		if u.decl.Pos() <= id.Pos() && id.Pos() < u.decl.End() {
			return nil, "", fmt.Errorf("recursive")
		}
		sites = append(sites, site{call, path[k+1:], file, p})
	}
	s := sites[0]
	es, err := st.inlineCall(u, s.call, s.path, s.file, s.pkg, label)
	if err != nil {
		return nil, "", err
	}
	where := st.fset.Position(s.call.Pos())
	rel, _ := filepath.Rel(st.dir, where.Filename)
	note := fmt.Sprintf("inlined the new helper %s at its call site %s:%d", u.name, rel, where.Line)
	if len(sites) == 1 {
		// drop the declaration
		start := u.decl.Pos()
		if u.decl.Doc != nil {
			start = u.decl.Doc.Pos()
		}
		es = append(es, edit{st.fileName(u.decl.Pos()), st.offset(start), st.offset(u.decl.End()), ""})
		if u.file != s.file {
			es = append(es, st.unusedImports(u)...)
		}
		note += " and dropped its declaration"
	}
	return es, note, nil
}

// unusedImports removes the imports of u's file that only u's body used.
func (st *state) unusedImports(u *funcInfo) []edit {
	info := u.pkg.TypesInfo
	inside := map[*types.PkgName]int{}
	outside := map[*types.PkgName]int{}
	ast.Inspect(u.file, func(n ast.Node) bool {
		id, ok := n.(*ast.Ident)
		if !ok {
			return true
		}
		if pn, ok := info.Uses[id].(*types.PkgName); ok {
			if u.decl.Pos() <= id.Pos() && id.Pos() < u.decl.End() {
				inside[pn]++
			} else {
				outside[pn]++
			}
		}
		return true
	})
	var es []edit
	for _, d := range u.file.Decls {
		gd, ok := d.(*ast.GenDecl)
		if !ok || gd.Tok != token.IMPORT {
			continue
		}
		for _, sp := range gd.Specs {
			is := sp.(*ast.ImportSpec)
			var pn *types.PkgName
			if is.Name != nil {
				pn, _ = info.Defs[is.Name].(*types.PkgName)
			} else {
				pn, _ = info.Implicits[is].(*types.PkgName)
			}
			if pn == nil || inside[pn] == 0 || outside[pn] > 0 {
				continue
			}
			if !gd.Lparen.IsValid() {
				es = append(es, edit{st.fileName(gd.Pos()), st.offset(gd.Pos()), st.offset(gd.End()), ""})
			} else {
				es = append(es, edit{st.fileName(is.Pos()), st.offset(is.Pos()), st.offset(is.End()), ""})
			}
		}
	}
	return es
}

func isBuiltinOrConv(info *types.Info, c *ast.CallExpr) bool {
	if tv, ok := info.Types[c.Fun]; ok && tv.IsType() {
		return true
	}
	var id *ast.Ident
	switch f := c.Fun.(type) {
	case *ast.Ident:
		id = f
	case *ast.ParenExpr:
		id, _ = f.X.(*ast.Ident)
	}
	if id != nil {
		if _, ok := info.Uses[id].(*types.Builtin); ok {
			return true
		}
	}
	return false
}

func (st *state) inlineCall(u *funcInfo, call *ast.CallExpr, path []ast.Node, file *ast.File, pkg *packages.Package, label int) ([]edit, error) {
	info := pkg.TypesInfo
	cinfo := u.pkg.TypesInfo
	sig := u.obj.Type().(*types.Signature)
	if sig.Variadic() {
		return nil, fmt.Errorf("variadic")
	}
	if call.Ellipsis.IsValid() {
		return nil, fmt.Errorf("variadic call")
	}
	// --- the callee body must be free of constructs whose meaning depends on the frame
	var bad string
	ast.Inspect(u.decl.Body, func(n ast.Node) bool {
		switch n := n.(type) {
		case *ast.FuncLit:
			return false
		case *ast.DeferStmt:
			bad = "defer in the helper"
		case *ast.LabeledStmt:
			bad = "label in the helper"
		case *ast.CallExpr:
			if id, ok := n.Fun.(*ast.Ident); ok && id.Name == "recover" {
				bad = "recover in the helper"
			}
		}
		return true
	})
	if bad != "" {
		return nil, fmt.Errorf("%s", bad)
	}
	// --- enclosing function of the call (FuncLit or FuncDecl) and the statement in a list
	var encl ast.Node
	var stmt ast.Stmt
	stmtIdx := -1
	for i, n := range path {
		if s, ok := n.(ast.Stmt); ok && stmt == nil && i+1 < len(path) {
			switch path[i+1].(type) {
			case *ast.BlockStmt, *ast.CaseClause, *ast.CommClause:
				stmt, stmtIdx = s, i
			}
		}
		if encl == nil {
			switch n.(type) {
			case *ast.FuncLit, *ast.FuncDecl:
				encl = n
			}
		}
		if stmt == nil {
			if _, ok := n.(*ast.FuncLit); ok {
				return nil, fmt.Errorf("call is the body of an expression-level function literal")
			}
		}
	}
	if stmt == nil || encl == nil {
		return nil, fmt.Errorf("call is not inside a statement list")
	}
	if _, ok := path[stmtIdx+1].(*ast.CommClause); ok {
		// fine: statement inside a select case body
	}
	// --- type parameters must carry the same names on both sides
	if err := st.sameTypeParams(u, call, info); err != nil {
		return nil, err
	}
	// --- free identifiers of the helper must mean the same at the call site
	scope := pkg.Types.Scope().Innermost(call.Pos())
	if scope == nil {
		return nil, fmt.Errorf("no scope at the call")
	}
	var needImports []*types.PkgName
	var ferr error
	declared := map[string]bool{} // names declared inside the helper (params, results, locals)
	selNames := map[*ast.Ident]bool{}
	ast.Inspect(u.decl, func(n ast.Node) bool {
		if se, ok := n.(*ast.SelectorExpr); ok {
			selNames[se.Sel] = true
		}
		return true
	})
	ast.Inspect(u.decl, func(n ast.Node) bool {
		id, ok := n.(*ast.Ident)
		if ok && selNames[id] {
			return true
		}
		if !ok {
			return true
		}
		if o := cinfo.Defs[id]; o != nil {
			declared[id.Name] = true
			return true
		}
		o := cinfo.Uses[id]
		if o == nil {
			return true
		}
		switch {
		case o.Parent() == types.Universe:
			if _, got := scope.LookupParent(id.Name, call.Pos()); got != o {
				ferr = fmt.Errorf("%s is shadowed at the call site", id.Name)
			}
		case o.Pkg() != nil && o.Parent() == o.Pkg().Scope():
			if _, got := scope.LookupParent(id.Name, call.Pos()); got != o {
				ferr = fmt.Errorf("%s is shadowed at the call site", id.Name)
			}
		default:
			if pn, ok := o.(*types.PkgName); ok {
				_, got := scope.LookupParent(id.Name, call.Pos())
				if gpn, ok := got.(*types.PkgName); ok && gpn.Imported() == pn.Imported() {
					return true
				}
				if got != nil {
					ferr = fmt.Errorf("%s means something else at the call site", id.Name)
					return true
				}
				needImports = append(needImports, pn)
			}
		}
		return true
	})
	if ferr != nil {
		return nil, ferr
	}
	q := func(p *types.Package) string {
		if p == pkg.Types {
			return ""
		}
		return p.Name()
	}
	// packages named in printed types must be importable by name at the call site
	var typeErr error
	checkType := func(t types.Type) string {
		s := types.TypeString(t, q)
		var walk func(t types.Type, seen map[types.Type]bool)
		walk = func(t types.Type, seen map[types.Type]bool) {
			if seen[t] {
				return
			}
			seen[t] = true
			switch t := t.(type) {
			case *types.Named:
				if o := t.Obj(); o.Pkg() != nil && o.Pkg() != pkg.Types {
					_, got := scope.LookupParent(o.Pkg().Name(), call.Pos())
					if gpn, ok := got.(*types.PkgName); !ok || gpn.Imported() != o.Pkg() {
						typeErr = fmt.Errorf("type %s needs an import the call site lacks", s)
					}
				} else if o.Pkg() == pkg.Types && o.Parent() != pkg.Types.Scope() {
					if _, got := scope.LookupParent(o.Name(), call.Pos()); got != o {
						typeErr = fmt.Errorf("local type %s not visible at the call site", s)
					}
				}
				for i := 0; i < t.TypeArgs().Len(); i++ {
					walk(t.TypeArgs().At(i), seen)
				}
			case *types.Pointer:
				walk(t.Elem(), seen)
			case *types.Slice:
				walk(t.Elem(), seen)
			case *types.Array:
				walk(t.Elem(), seen)
			case *types.Chan:
				walk(t.Elem(), seen)
			case *types.Map:
				walk(t.Key(), seen)
				walk(t.Elem(), seen)
			case *types.Signature:
				for i := 0; i < t.Params().Len(); i++ {
					walk(t.Params().At(i).Type(), seen)
				}
				for i := 0; i < t.Results().Len(); i++ {
					walk(t.Results().At(i).Type(), seen)
				}
			case *types.Struct:
				for i := 0; i < t.NumFields(); i++ {
					walk(t.Field(i).Type(), seen)
				}
			}
		}
		walk(t, map[types.Type]bool{})
		return s
	}

	// --- instantiated signature at the call
	isig, _ := info.TypeOf(call.Fun).(*types.Signature)
	if isig == nil {
		return nil, fmt.Errorf("call has no signature")
	}
	if len(call.Args) != isig.Params().Len() {
		return nil, fmt.Errorf("multi-value argument")
	}
	pfx := fmt.Sprintf("inl%d", label)
	var pre strings.Builder // statements before the block (temporaries)
	var bind strings.Builder

	// receiver
	if u.decl.Recv != nil && len(u.decl.Recv.List) == 1 {
		sel, ok := ast.Unparen(call.Fun).(*ast.SelectorExpr)
		if !ok {
			return nil, fmt.Errorf("method called without a selector")
		}
		selInfo := info.Selections[sel]
		if selInfo == nil || len(selInfo.Index()) != 1 {
			return nil, fmt.Errorf("method reached through an embedded field")
		}
		rt := info.TypeOf(sel.X)
		// the instantiated receiver type
		want := selInfo.Obj().(*types.Func).Type().(*types.Signature).Recv().Type()
		rx := st.text(sel.X)
		_, wantPtr := want.(*types.Pointer)
		_, havePtr := rt.(*types.Pointer)
		switch {
		case wantPtr && !havePtr:
			rx = "&(" + rx + ")"
		case !wantPtr && havePtr:
			rx = "*(" + rx + ")"
		}
		names := u.decl.Recv.List[0].Names
		if len(names) == 1 && names[0].Name != "_" {
			fmt.Fprintf(&bind, "var %s %s = %s\n_ = %s\n", names[0].Name, checkType(want), rx, names[0].Name)
		} else {
			fmt.Fprintf(&bind, "_ = %s\n", rx)
		}
	}
	// parameters: evaluate every argument into a temporary first when a later
	// argument mentions the name of an earlier parameter
	var pnames []string
	for _, f := range u.decl.Type.Params.List {
		if len(f.Names) == 0 {
			pnames = append(pnames, "_")
		}
		for _, n := range f.Names {
			pnames = append(pnames, n.Name)
		}
	}
	if len(pnames) != len(call.Args) {
		return nil, fmt.Errorf("parameter count mismatch")
	}
	twoPhase := false
	for j, a := range call.Args {
		ast.Inspect(a, func(n ast.Node) bool {
			if id, ok := n.(*ast.Ident); ok {
				for i := 0; i < len(pnames); i++ {
					if i != j && pnames[i] == id.Name {
						twoPhase = true
					}
				}
				if u.decl.Recv != nil && len(u.decl.Recv.List) == 1 && len(u.decl.Recv.List[0].Names) == 1 && u.decl.Recv.List[0].Names[0].Name == id.Name {
					twoPhase = true
				}
			}
			return true
		})
	}
	for j, a := range call.Args {
		pt := checkType(isig.Params().At(j).Type())
		at := st.text(a)
		if twoPhase {
			fmt.Fprintf(&pre, "var %s_a%d %s = %s\n_ = %s_a%d\n", pfx, j, pt, at, pfx, j)
			at = fmt.Sprintf("%s_a%d", pfx, j)
		}
		if pnames[j] == "_" {
			fmt.Fprintf(&bind, "_ = %s\n", at)
		} else {
			fmt.Fprintf(&bind, "var %s %s = %s\n_ = %s\n", pnames[j], pt, at, pnames[j])
		}
	}
	// named results
	var rnames []string
	named := false
	if u.decl.Type.Results != nil {
		for _, f := range u.decl.Type.Results.List {
			if len(f.Names) == 0 {
				rnames = append(rnames, "")
			}
			for _, n := range f.Names {
				rnames = append(rnames, n.Name)
				named = true
			}
		}
	}
	nres := isig.Results().Len()
	if named {
		for i, n := range rnames {
			if n == "_" || n == "" {
				rnames[i] = fmt.Sprintf("%s_r%d", pfx, i)
			}
			fmt.Fprintf(&bind, "var %s %s\n_ = %s\n", rnames[i], checkType(isig.Results().At(i).Type()), rnames[i])
		}
	}
	if typeErr != nil {
		return nil, typeErr
	}

	// --- which shape?
	tail := false
	if rs, ok := stmt.(*ast.ReturnStmt); ok && len(rs.Results) == 1 && ast.Unparen(rs.Results[0]) == call {
		var ft *types.Signature
		switch e := encl.(type) {
		case *ast.FuncLit:
			ft, _ = info.TypeOf(e).(*types.Signature)
		case *ast.FuncDecl:
			if o, ok := info.Defs[e.Name].(*types.Func); ok {
				ft = o.Type().(*types.Signature)
			}
		}
		if ft != nil && ft.Results().Len() == nres {
			tail = true
			for i := 0; i < nres; i++ {
				if !types.Identical(ft.Results().At(i).Type(), isig.Results().At(i).Type()) {
					tail = false
				}
			}
		}
	}

	body := u.decl.Body
	lab := pfx + "done"
	var temps []string
	for i := 0; i < nres; i++ {
		temps = append(temps, fmt.Sprintf("%s_v%d", pfx, i))
	}
	// names the statement keeps using must not be captured by the helper's locals
	// (the statement is printed outside the block, so only the temporaries matter)
	for _, t := range temps {
		if declared[t] {
			return nil, fmt.Errorf("temporary name clash")
		}
	}

	// single exit: at most one return, and it is the last top-level statement
	nret := 0
	ast.Inspect(body, func(n ast.Node) bool {
		switch n.(type) {
		case *ast.FuncLit:
			return false
		case *ast.ReturnStmt:
			nret++
		}
		return true
	})
	lastIsRet := false
	if len(body.List) > 0 {
		_, lastIsRet = body.List[len(body.List)-1].(*ast.ReturnStmt)
	}
	singleExit := nret == 0 || (nret == 1 && lastIsRet)

	mkIdent := func(s string) ast.Expr { return &ast.Ident{Name: s} }
	// rewrite the returns
	rewrite := func(rs *ast.ReturnStmt, withBreak bool) ast.Stmt {
		var out []ast.Stmt
		res := rs.Results
		if len(res) == 0 && named {
			for _, n := range rnames {
				res = append(res, mkIdent(n))
			}
		}
		if tail {
			return &ast.ReturnStmt{Results: res}
		}
		if nres > 0 {
			var lhs []ast.Expr
			for _, t := range temps {
				lhs = append(lhs, mkIdent(t))
			}
			out = append(out, &ast.AssignStmt{Lhs: lhs, Tok: token.ASSIGN, Rhs: res})
		}
		if withBreak {
			out = append(out, &ast.BranchStmt{Tok: token.BREAK, Label: &ast.Ident{Name: lab}})
		}
		if len(out) == 1 {
			return out[0]
		}
		return &ast.BlockStmt{List: out}
	}
	needLabel := !tail && !singleExit
	if len(st.tpSubst) > 0 {
		// type parameters of the helper that carry another name (or a concrete type) here
		body = astutil.Apply(body, nil, func(c *astutil.Cursor) bool {
			if id, ok := c.Node().(*ast.Ident); ok {
				if nn, ok := st.tpSubst[cinfo.Uses[id]]; ok && cinfo.Uses[id] != nil {
					c.Replace(&ast.Ident{NamePos: id.NamePos, Name: nn})
				}
			}
			return true
		}).(*ast.BlockStmt)
	}
	newBody := astutil.Apply(body, func(c *astutil.Cursor) bool {
		if _, ok := c.Node().(*ast.FuncLit); ok {
			return false
		}
		return true
	}, func(c *astutil.Cursor) bool {
		if rs, ok := c.Node().(*ast.ReturnStmt); ok {
			c.Replace(rewrite(rs, needLabel))
		}
		return true
	}).(*ast.BlockStmt)
	if nres > 0 && !tail && nret == 0 {
		return nil, fmt.Errorf("helper with results never returns")
	}
	var bodyText bytes.Buffer
	for _, s := range newBody.List {
		if es, ok := s.(*ast.EmptyStmt); ok && es.Implicit {
			continue
		}
		if err := (&printer.Config{Mode: printer.UseSpaces | printer.TabIndent, Tabwidth: 8}).Fprint(&bodyText, st.fset, s); err != nil {
			return nil, fmt.Errorf("cannot print the helper body: %v", err)
		}
		bodyText.WriteString("\n")
	}

	var out strings.Builder
	fname := st.fileName(stmt.Pos())
	stmtStart, stmtEnd := st.offset(stmt.Pos()), st.offset(stmt.End())
	if tail {
		out.WriteString("{\n" + pre.String() + bind.String() + bodyText.String() + "}")
	} else {
		// the call must be the first effect of the statement
		var region ast.Node
		var after string // the statement with the call replaced
		callStart, callEnd := st.offset(call.Pos()), st.offset(call.End())
		src := st.src[fname]
		repl := strings.Join(temps, ", ")
		splice := func(from, to int) string {
			return string(src[from:callStart]) + repl + string(src[callEnd:to])
		}
		wrap := false
		switch s := stmt.(type) {
		case *ast.ExprStmt:
			region = s.X
			if ast.Unparen(s.X) == call {
				after = ""
				if nres > 0 {
					after = "_ = " + repl
					if nres > 1 {
						after = strings.Repeat("_, ", nres-1) + "_ = " + repl
					}
				}
			} else {
				after = splice(stmtStart, stmtEnd)
			}
		case *ast.AssignStmt:
			region = s
			after = splice(stmtStart, stmtEnd)
			for _, l := range s.Lhs {
				if call.Pos() >= l.Pos() && call.End() <= l.End() {
					return nil, fmt.Errorf("call on the left of an assignment")
				}
			}
		case *ast.ReturnStmt:
			region = s
			after = splice(stmtStart, stmtEnd)
		case *ast.IfStmt:
			switch {
			case s.Init == nil && inside(call, s.Cond):
				region = s.Cond
				after = splice(stmtStart, stmtEnd)
			case s.Init != nil && inside(call, s.Init):
				region = s.Init
				wrap = true
				after = splice(st.offset(s.Init.Pos()), st.offset(s.Init.End())) + "\nif " + string(src[st.offset(s.Cond.Pos()):stmtEnd])
			default:
				return nil, fmt.Errorf("call inside an if statement, not in its first evaluated part")
			}
		case *ast.RangeStmt:
			if !inside(call, s.X) {
				return nil, fmt.Errorf("call inside a range statement, not in the ranged expression")
			}
			region = s.X
			after = splice(stmtStart, stmtEnd)
		case *ast.SwitchStmt:
			if s.Init != nil || s.Tag == nil || !inside(call, s.Tag) {
				return nil, fmt.Errorf("call inside a switch statement, not in its tag")
			}
			region = s.Tag
			after = splice(stmtStart, stmtEnd)
		case *ast.SendStmt:
			region = s
			after = splice(stmtStart, stmtEnd)
		case *ast.DeclStmt:
			region = s
			after = splice(stmtStart, stmtEnd)
		default:
			return nil, fmt.Errorf("call inside a %T", stmt)
		}
		// no other effect may be evaluated before the call within the region
		var oerr error
		var anc []ast.Node
		for _, n := range path {
			anc = append(anc, n)
			if n == stmt {
				break
			}
		}
		isAnc := func(n ast.Node) bool {
			for _, a := range anc {
				if a == n {
					return true
				}
			}
			return false
		}
		ast.Inspect(region, func(n ast.Node) bool {
			if n == nil {
				return true
			}
			if n == ast.Node(call) {
				return false // its own arguments move with it
			}
			switch x := n.(type) {
			case *ast.FuncLit:
				return false
			case *ast.CallExpr:
				if x.Pos() < call.Pos() && !isAnc(x) && !isBuiltinOrConv(info, x) {
					oerr = fmt.Errorf("another call is evaluated before it in the same statement")
				}
			case *ast.UnaryExpr:
				if x.Op == token.ARROW && x.Pos() < call.Pos() && !isAnc(x) {
					oerr = fmt.Errorf("a receive is evaluated before it in the same statement")
				}
			case *ast.BinaryExpr:
				if (x.Op == token.LAND || x.Op == token.LOR) && inside(call, x.Y) {
					oerr = fmt.Errorf("call is evaluated conditionally (right of && or ||)")
				}
			}
			return true
		})
		if oerr != nil {
			return nil, oerr
		}
		if wrap {
			out.WriteString("{\n")
		}
		out.WriteString(pre.String())
		for i, t := range temps {
			fmt.Fprintf(&out, "var %s %s\n", t, checkType(isig.Results().At(i).Type()))
		}
		if typeErr != nil {
			return nil, typeErr
		}
		if needLabel {
			out.WriteString(lab + ":\nswitch {\ndefault:\n" + bind.String() + bodyText.String() + "}\n")
		} else {
			out.WriteString("{\n" + bind.String() + bodyText.String() + "}\n")
		}
		out.WriteString(after)
		if wrap {
			out.WriteString("\n}")
		}
	}
	es := []edit{{fname, stmtStart, stmtEnd, out.String()}}
	// imports the call site's file lacks
	seen := map[string]bool{}
	for _, pn := range needImports {
		path := pn.Imported().Path()
		if seen[path] {
			continue
		}
		seen[path] = true
		spec := fmt.Sprintf("\nimport %q\n", path)
		if pn.Name() != pn.Imported().Name() {
			spec = fmt.Sprintf("\nimport %s %q\n", pn.Name(), path)
		}
		at := st.offset(file.Name.End())
		es = append(es, edit{st.fileName(file.Pos()), at, at, spec})
	}
	return es, nil
}

func inside(n, outer ast.Node) bool {
	return outer != nil && outer.Pos() <= n.Pos() && n.End() <= outer.End()
}

// sameTypeParams requires every type parameter of the helper (its own and its
// receiver's) to be instantiated, at the call, with a type parameter of the same
// name: only then does the helper's source text mean the same thing at the call site.
func (st *state) sameTypeParams(u *funcInfo, call *ast.CallExpr, info *types.Info) error {
	sig := u.obj.Type().(*types.Signature)
	st.tpSubst = map[types.Object]string{}
	q := func(p *types.Package) string {
		if p == u.pkg.Types {
			return ""
		}
		return p.Name()
	}
	check := func(tp *types.TypeParam, arg types.Type) error {
		a, ok := arg.(*types.TypeParam)
		if !ok || a.Obj().Name() != tp.Obj().Name() {
			// the helper's text names its type parameter; at the call site it stands for
			// arg: occurrences in the inlined body are rewritten (same package only, so
			// the printed type means the same thing there)
			st.tpSubst[tp.Obj()] = types.TypeString(arg, q)
		}
		return nil
	}
	if tps := sig.TypeParams(); tps != nil && tps.Len() > 0 {
		var id *ast.Ident
		switch f := ast.Unparen(call.Fun).(type) {
		case *ast.Ident:
			id = f
		case *ast.IndexExpr:
			id, _ = f.X.(*ast.Ident)
		case *ast.IndexListExpr:
			id, _ = f.X.(*ast.Ident)
		case *ast.SelectorExpr:
			id = f.Sel
		}
		if id == nil {
			return fmt.Errorf("generic call of an unrecognised form")
		}
		inst, ok := info.Instances[id]
		if !ok || inst.TypeArgs.Len() != tps.Len() {
			return fmt.Errorf("no instantiation recorded for the call")
		}
		for i := 0; i < tps.Len(); i++ {
			if err := check(tps.At(i), inst.TypeArgs.At(i)); err != nil {
				return err
			}
		}
	}
	if rtps := sig.RecvTypeParams(); rtps != nil && rtps.Len() > 0 {
		sel, ok := ast.Unparen(call.Fun).(*ast.SelectorExpr)
		if !ok {
			return fmt.Errorf("method called without a selector")
		}
		t := info.TypeOf(sel.X)
		if p, ok := t.(*types.Pointer); ok {
			t = p.Elem()
		}
		n, ok := t.(*types.Named)
		if !ok || n.TypeArgs().Len() != rtps.Len() {
			return fmt.Errorf("receiver is not an instantiation of the helper's type")
		}
		for i := 0; i < rtps.Len(); i++ {
			if err := check(rtps.At(i), n.TypeArgs().At(i)); err != nil {
				return err
			}
		}
	}
	return nil
}

// hasUnknown parses (only) the module's non-test files and reports whether an
// unexported function outside the inventory is declared; false lets the pass return
// at once, which is the case on the unchanged tree.
func hasUnknown(dir string, overlay map[string][]byte, inv map[string]string, srcs map[string]Source, structs map[string][]StructField, edges map[string][]string) bool {
	found := false
	seenNames := map[string]bool{}
	// bare names of the confirmed functions and methods, per package
	pkgFuncNames := map[string]bool{}
	for n := range inv {
		pkgFuncNames[pkgOf(n)+"."+n[strings.LastIndex(n, ".")+1:]] = true
	}
	fset := token.NewFileSet()
	filepath.WalkDir(dir, func(path string, d os.DirEntry, err error) error {
		if err != nil {
			return nil
		}
		if d.IsDir() {
			n := d.Name()
			if path != dir && (strings.HasPrefix(n, ".") || strings.HasPrefix(n, "_") || n == "testdata" || n == "vendor") {
				return filepath.SkipDir
			}
			return nil
		}
		if !strings.HasSuffix(path, ".go") || strings.HasSuffix(path, "_test.go") {
			return nil
		}
		var src any
		if b, ok := overlay[path]; ok {
			src = b
		}
		f, err := parser.ParseFile(fset, path, src, parser.SkipObjectResolution)
		if err != nil {
			found = true // let the typed pass (or the loader) speak
			return nil
		}
		for _, dcl := range f.Decls {
			if gd, ok := dcl.(*ast.GenDecl); ok && gd.Tok == token.TYPE {
				for _, sp := range gd.Specs {
					ts := sp.(*ast.TypeSpec)
					stt, ok := ts.Type.(*ast.StructType)
					if !ok {
						continue
					}
					want, ok := structs[f.Name.Name+"."+ts.Name.Name]
					if !ok {
						if !ast.IsExported(ts.Name.Name) && len(structs) > 0 {
							found = true // perhaps a renamed type: let the typed pass look
						}
						continue
					}
					var names []string
					for _, fl := range stt.Fields.List {
						if len(fl.Names) == 0 {
							names = append(names, "")
						}
						for _, n := range fl.Names {
							names = append(names, n.Name)
						}
					}
					if len(names) == len(want) {
						ws := map[string]bool{}
						for _, w := range want {
							ws[w.Name] = true
						}
						for i := range names {
							if names[i] != "" && !ws[names[i]] {
								found = true
							}
						}
					}
				}
			}
			fd, ok := dcl.(*ast.FuncDecl)
			if !ok || fd.Name.Name == "init" || fd.Name.Name == "main" {
				continue
			}
			exported := ast.IsExported(fd.Name.Name)
			name := f.Name.Name + "." + fd.Name.Name
			if fd.Recv != nil && len(fd.Recv.List) == 1 {
				t := fd.Recv.List[0].Type
				ptr := false
				if s, ok := t.(*ast.StarExpr); ok {
					ptr = true
					t = s.X
				}
				switch x := t.(type) {
				case *ast.IndexExpr:
					t = x.X
				case *ast.IndexListExpr:
					t = x.X
				}
				tn := "?"
				if id, ok := t.(*ast.Ident); ok {
					tn = id.Name
				}
				if ptr {
					name = fmt.Sprintf("%s.(*%s).%s", f.Name.Name, tn, fd.Name.Name)
				} else {
					name = fmt.Sprintf("%s.(%s).%s", f.Name.Name, tn, fd.Name.Name)
				}
			}
			seenNames[name] = true
			full, ok := inv[name]
			if !ok {
				if !exported {
					found = true
				}
				continue
			}
			// a call of a confirmed function of the package that this function did not
			// call before (by bare name; the typed pass decides)
			if conf, ok := edges[name]; ok && fd.Body != nil {
				bare := map[string]bool{}
				for _, c := range conf {
					bare[c[strings.LastIndex(c, ".")+1:]] = true
				}
				ast.Inspect(fd.Body, func(n ast.Node) bool {
					call, ok := n.(*ast.CallExpr)
					if !ok {
						return true
					}
					var nm string
					switch f := call.Fun.(type) {
					case *ast.Ident:
						nm = f.Name
					case *ast.SelectorExpr:
						nm = f.Sel.Name
					case *ast.IndexExpr:
						if id, ok := f.X.(*ast.Ident); ok {
							nm = id.Name
						}
					}
					if nm != "" && !bare[nm] && pkgFuncNames[f.Name.Name+"."+nm] {
						found = true
					}
					return true
				})
			}
			if _, names := splitInv(full); names != nil {
				cur := declNames(fd)
				if len(cur) == len(names) && strings.Join(cur, ",") != strings.Join(names, ",") {
					found = true
				}
			}
		}
		return nil
	})
	// a confirmed unexported helper that is gone (inlined into its callers, or renamed)
	for name := range srcs {
		if !seenNames[name] {
			found = true
		}
	}
	return found
}

// paramEdits renames the receiver and parameters of fi from cur to want (position by
// position); it refuses when a wanted name is already used for something else inside
// the declaration.
func (st *state) paramEdits(fi *funcInfo, cur, want []string) ([]edit, error) {
	info := fi.pkg.TypesInfo
	var idents []*ast.Ident
	if fi.decl.Recv != nil && len(fi.decl.Recv.List) == 1 && len(fi.decl.Recv.List[0].Names) == 1 {
		idents = append(idents, fi.decl.Recv.List[0].Names[0])
	} else {
		idents = append(idents, nil)
	}
	for _, f := range fi.decl.Type.Params.List {
		if len(f.Names) == 0 {
			idents = append(idents, nil)
		}
		for _, n := range f.Names {
			idents = append(idents, n)
		}
	}
	if len(idents) != len(cur) {
		return nil, fmt.Errorf("parameter list not understood")
	}
	target := map[types.Object]string{}
	for i, id := range idents {
		if cur[i] == want[i] {
			continue
		}
		if id == nil || cur[i] == "_" || cur[i] == "" || want[i] == "_" || want[i] == "" {
			return nil, fmt.Errorf("blank or missing name at position %d", i)
		}
		obj := info.Defs[id]
		if obj == nil {
			return nil, fmt.Errorf("parameter %s has no object", id.Name)
		}
		target[obj] = want[i]
	}
	wanted := map[string]bool{}
	for _, n := range target {
		wanted[n] = true
	}
	var es []edit
	var clash error
	ast.Inspect(fi.decl, func(n ast.Node) bool {
		id, ok := n.(*ast.Ident)
		if !ok {
			return true
		}
		obj := info.Defs[id]
		if obj == nil {
			obj = info.Uses[id]
		}
		if nn, ok := target[obj]; ok && obj != nil {
			es = append(es, edit{st.fileName(id.Pos()), st.offset(id.Pos()), st.offset(id.End()), nn})
			return true
		}
		if wanted[id.Name] && obj != nil {
			// a field or method selector with that name is harmless
			if _, isVar := obj.(*types.Var); isVar && obj.(*types.Var).IsField() {
				return true
			}
			if _, isFn := obj.(*types.Func); isFn && obj.Parent() == nil {
				return true
			}
			clash = fmt.Errorf("the name %s is used for something else in the function", id.Name)
		}
		return true
	})
	if clash != nil {
		return nil, clash
	}
	return es, nil
}

// impure explains why the confirmed helper h may change state outside itself ("" when it
// cannot): it assigns only to its own locals (and to elements of slices/maps it created
// itself), starts nothing, defers nothing, and calls only builtins, conversions, function
// values it was given, read-only standard library functions and helpers of the module
// that are pure in the same sense.
func (st *state) impure(h *funcInfo, byName map[string]*funcInfo, seen map[string]bool) string {
	if seen[h.name] {
		return ""
	}
	seen[h.name] = true
	if h.decl.Body == nil {
		return "no body"
	}
	info := h.pkg.TypesInfo
	params := map[types.Object]bool{}
	addFields := func(fl *ast.FieldList) {
		if fl == nil {
			return
		}
		for _, f := range fl.List {
			for _, n := range f.Names {
				if o := info.Defs[n]; o != nil {
					params[o] = true
				}
			}
		}
	}
	addFields(h.decl.Recv)
	addFields(h.decl.Type.Params)
	isLocal := func(id *ast.Ident) bool {
		o := info.Uses[id]
		if o == nil {
			o = info.Defs[id]
		}
		if o == nil {
			return id.Name == "_"
		}
		if params[o] {
			return false
		}
		v, ok := o.(*types.Var)
		return ok && !v.IsField() && v.Pkg() == h.pkg.Types && v.Parent() != h.pkg.Types.Scope() && h.decl.Pos() <= v.Pos() && v.Pos() < h.decl.End()
	}
	// locals that were given fresh storage (make, composite literal, nil/zero value)
	why := ""
	lhsOK := func(e ast.Expr) bool {
		switch x := ast.Unparen(e).(type) {
		case *ast.Ident:
			return isLocal(x) || x.Name == "_"
		case *ast.IndexExpr:
			if id, ok := ast.Unparen(x.X).(*ast.Ident); ok && isLocal(id) {
				return true
			}
		}
		return false
	}
	roPkgs := map[string]bool{"strings": true, "unicode": true, "unicode/utf8": true, "math": true, "errors": true, "strconv": true, "reflect": true, "fmt": true, "golang.org/x/exp/constraints": true}
	ast.Inspect(h.decl.Body, func(n ast.Node) bool {
		if why != "" {
			return false
		}
		switch x := n.(type) {
		case *ast.AssignStmt:
			for _, l := range x.Lhs {
				if !lhsOK(l) {
					why = "assigns to something that is not its own local"
				}
			}
		case *ast.IncDecStmt:
			if !lhsOK(x.X) {
				why = "changes something that is not its own local"
			}
		case *ast.GoStmt, *ast.DeferStmt, *ast.SendStmt:
			why = "starts, defers or sends"
		case *ast.UnaryExpr:
			if x.Op == token.ARROW {
				why = "receives from a channel"
			}
		case *ast.CallExpr:
			if tv, ok := info.Types[x.Fun]; ok && tv.IsType() {
				return true
			}
			var id *ast.Ident
			switch f := ast.Unparen(x.Fun).(type) {
			case *ast.Ident:
				id = f
			case *ast.SelectorExpr:
				id = f.Sel
			case *ast.IndexExpr:
				switch g := f.X.(type) {
				case *ast.Ident:
					id = g
				case *ast.SelectorExpr:
					id = g.Sel
				}
			case *ast.IndexListExpr:
				switch g := f.X.(type) {
				case *ast.Ident:
					id = g
				case *ast.SelectorExpr:
					id = g.Sel
				}
			}
			if id == nil {
				why = "calls something that cannot be resolved"
				return false
			}
			switch o := info.Uses[id].(type) {
			case *types.Builtin:
				switch o.Name() {
				case "delete", "clear", "close", "copy", "print", "println":
					why = "uses the builtin " + o.Name()
				case "append":
					// appending onto something that is not its own local may fill the
					// caller's spare capacity
					if len(x.Args) > 0 {
						if a, ok := ast.Unparen(x.Args[0]).(*ast.Ident); !ok || !isLocal(a) {
							if _, isLit := ast.Unparen(x.Args[0]).(*ast.CompositeLit); !isLit {
								why = "appends onto something that is not its own local"
							}
						}
					}
				}
			case *types.Var:
				// a function value: a parameter or local (the caller's callback)
				if o.IsField() {
					why = "calls a function stored in a field"
				}
			case *types.Func:
				fn := o.Origin()
				if fn.Pkg() == nil {
					return true
				}
				if g := byName[NameOf(fn)]; g != nil {
					if w := st.impure(g, byName, seen); w != "" {
						why = "calls " + NameOf(fn) + ", which " + w
					}
					return true
				}
				if roPkgs[fn.Pkg().Path()] {
					return true
				}
				if fn.Pkg().Path() == "sort" && len(x.Args) > 0 {
					if a, ok := ast.Unparen(x.Args[0]).(*ast.Ident); ok && isLocal(a) {
						return true
					}
				}
				why = "calls " + fn.Pkg().Path() + "." + fn.Name()
			default:
				why = "calls something that cannot be resolved"
			}
		}
		return true
	})
	return why
}
