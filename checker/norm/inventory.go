package norm

import (
	_ "embed"
	"encoding/json"
)

//go:embed inventory.json
var inventoryJSON []byte

// Confirmed is the function inventory (stable name -> signature shape) of the tree
// the rules were confirmed against by reading.  Regenerate with
// `gogucheck -mkinventory` only after re-reading a changed tree.
func Confirmed() map[string]string {
	m := map[string]string{}
	if err := json.Unmarshal(inventoryJSON, &m); err != nil {
		panic(err)
	}
	return m
}
