package norm

import (
	_ "embed"
	"encoding/json"
)

//go:embed inventory.json
var inventoryJSON []byte

type confirmed struct {
	Inventory map[string]string        `json:"inventory"`
	Sources   map[string]Source        `json:"sources"`
	Files     map[string]string        `json:"files"`
	Structs   map[string][]StructField `json:"structs"`
	Edges     map[string][]string      `json:"edges"`
}

func loadConfirmed() confirmed {
	var c confirmed
	if err := json.Unmarshal(inventoryJSON, &c); err != nil {
		panic(err)
	}
	if c.Inventory == nil {
		c.Inventory = map[string]string{}
	}
	if c.Sources == nil {
		c.Sources = map[string]Source{}
	}
	return c
}

// Confirmed is the function inventory (stable name -> signature shape and parameter
// names) of the tree the rules were confirmed against by reading.  Regenerate with
// `gogucheck -mkinventory` only after re-reading a changed tree.
func Confirmed() map[string]string { return loadConfirmed().Inventory }

// ConfirmedSources holds the declarations of the unexported functions of that tree.
func ConfirmedSources() map[string]Source { return loadConfirmed().Sources }

// ConfirmedFiles: the file each function of that tree was declared in. File-scoped
// rules ("every function of heap/heap.go") follow the function, not the file: a
// function moved to another file keeps its scope, and a function that is new belongs
// to the scopes of the package it appears in.
func ConfirmedFiles() map[string]string {
	c := loadConfirmed()
	if c.Files == nil {
		return map[string]string{}
	}
	return c.Files
}

// ConfirmedStructs: the struct types of that tree with their fields in order.
func ConfirmedStructs() map[string][]StructField {
	c := loadConfirmed()
	if c.Structs == nil {
		return map[string][]StructField{}
	}
	return c.Structs
}

// ConfirmedEdges: for every function of that tree, the functions of its own package it calls.
func ConfirmedEdges() map[string][]string {
	c := loadConfirmed()
	if c.Edges == nil {
		return map[string][]string{}
	}
	return c.Edges
}
