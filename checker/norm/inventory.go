package norm

import (
	_ "embed"
	"encoding/json"
)

//go:embed inventory.json
var inventoryJSON []byte

type confirmed struct {
	Inventory map[string]string `json:"inventory"`
	Sources   map[string]Source `json:"sources"`
}

func loadConfirmed() confirmed {
	var c confirmed
	if err := json.Unmarshal(inventoryJSON, &c); err != nil {
		panic(err)
	}
	if c.Inventory == nil {
		c.Inventory = map[string]string{}
	}
	if c.Sources == nil {
		c.Sources = map[string]Source{}
	}
	return c
}

// Confirmed is the function inventory (stable name -> signature shape and parameter
// names) of the tree the rules were confirmed against by reading.  Regenerate with
// `gogucheck -mkinventory` only after re-reading a changed tree.
func Confirmed() map[string]string { return loadConfirmed().Inventory }

// ConfirmedSources holds the declarations of the unexported functions of that tree.
func ConfirmedSources() map[string]Source { return loadConfirmed().Sources }
