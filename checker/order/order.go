// Package order is engine E6: finite order abstraction. Code that touches values
// only through comparisons distinguishes finitely many situations (the weak
// orderings of the compared quantities), so its decisions can be tabulated without
// running anything: OD1 tabulates every decision that reads a deadline field over
// the abstract points {-1, 0, 0<e<now, e=now, e>now}; OD2 evaluates comparison-only
// functions as decision trees over all weak orderings of their parameters.
package order

import (
	"go/token"

	"golang.org/x/tools/go/ssa"

	"gogucheck/path"
)

// Point is one abstract value of a deadline field relative to the clock.
type Point int

const (
	Neg1  Point = iota // the "no expiration" constant -1
	Zero               // 0 (zero or negative default: no expiry)
	PosLT              // a positive deadline before the clock reading
	PosEQ              // a positive deadline equal to the clock reading
	PosGT              // a positive deadline after the clock reading
)

var Points = []Point{Neg1, Zero, PosLT, PosEQ, PosGT}

func (p Point) String() string {
	return [...]string{"exp=-1", "exp=0", "0<exp<now", "exp=now", "exp>now"}[p]
}

// Classifier says which SSA values denote the deadline field and the clock.
type Classifier struct {
	IsField func(v ssa.Value) bool
	IsClock func(v ssa.Value) bool
}

type operand struct {
	kind int // 0 unknown, 1 field, 2 clock, 3 const
	c    int64
}

func (cl *Classifier) classify(v ssa.Value) operand {
	v = path.Strip(v)
	if cv, ok := v.(*ssa.Convert); ok {
		v = path.Strip(cv.X)
	}
	if c, ok := path.IntConst(v); ok {
		return operand{kind: 3, c: c}
	}
	if cl.IsField(v) {
		return operand{kind: 1}
	}
	if cl.IsClock(v) {
		return operand{kind: 2}
	}
	return operand{}
}

// cmp returns the sign of a-b at point pt, or known=false.
func cmp(a, b operand, pt Point) (int, bool) {
	switch {
	case a.kind == 3 && b.kind == 3:
		switch {
		case a.c < b.c:
			return -1, true
		case a.c > b.c:
			return 1, true
		}
		return 0, true
	case a.kind == 1 && b.kind == 2:
		switch pt {
		case Neg1, Zero, PosLT:
			return -1, true
		case PosEQ:
			return 0, true
		default:
			return 1, true
		}
	case a.kind == 1 && b.kind == 3:
		switch pt {
		case Neg1:
			return cmp(operand{kind: 3, c: -1}, b, pt)
		case Zero:
			return cmp(operand{kind: 3, c: 0}, b, pt)
		default:
			if b.c <= 0 {
				return 1, true
			}
			return 0, false
		}
	case a.kind == 2 && b.kind == 3:
		if b.c <= 0 {
			return 1, true
		}
		return 0, false
	case a.kind == 1 && b.kind == 1, a.kind == 2 && b.kind == 2:
		return 0, true
	case (a.kind == 2 && b.kind == 1) || (a.kind == 3 && b.kind == 1) || (a.kind == 3 && b.kind == 2):
		s, ok := cmp(b, a, pt)
		return -s, ok
	}
	return 0, false
}

// Eval evaluates a boolean SSA value at point pt.
func (cl *Classifier) Eval(v ssa.Value, pt Point) (bool, bool) {
	if u, ok := v.(*ssa.UnOp); ok && u.Op == token.NOT {
		b, known := cl.Eval(u.X, pt)
		return !b, known
	}
	if b, ok := path.BoolConst(v); ok {
		return b, true
	}
	bo, ok := v.(*ssa.BinOp)
	if !ok {
		return false, false
	}
	s, known := cmp(cl.classify(bo.X), cl.classify(bo.Y), pt)
	if !known {
		return false, false
	}
	switch bo.Op {
	case token.EQL:
		return s == 0, true
	case token.NEQ:
		return s != 0, true
	case token.LSS:
		return s < 0, true
	case token.LEQ:
		return s <= 0, true
	case token.GTR:
		return s > 0, true
	case token.GEQ:
		return s >= 0, true
	}
	return false, false
}

// Involves reports whether the condition mentions the field or the clock.
func (cl *Classifier) Involves(v ssa.Value) bool {
	if u, ok := v.(*ssa.UnOp); ok && u.Op == token.NOT {
		return cl.Involves(u.X)
	}
	bo, ok := v.(*ssa.BinOp)
	if !ok {
		return false
	}
	return cl.classify(bo.X).kind == 1 || cl.classify(bo.Y).kind == 1
}

// Reach returns the blocks of fn reachable from the entry when the deadline field
// sits at pt: branches whose condition can be evaluated follow one edge, all
// others follow both.
func (cl *Classifier) Reach(fn *ssa.Function, pt Point) map[*ssa.BasicBlock]bool {
	seen := map[*ssa.BasicBlock]bool{}
	if len(fn.Blocks) == 0 {
		return seen
	}
	work := []*ssa.BasicBlock{fn.Blocks[0]}
	for len(work) > 0 {
		b := work[len(work)-1]
		work = work[:len(work)-1]
		if seen[b] {
			continue
		}
		seen[b] = true
		if iff := path.BlockIf(b); iff != nil {
			if v, known := cl.Eval(iff.Cond, pt); known {
				if v {
					work = append(work, b.Succs[0])
				} else {
					work = append(work, b.Succs[1])
				}
				continue
			}
		}
		work = append(work, b.Succs...)
	}
	return seen
}

// ReachFrom is Reach started at the given blocks; it also reports the edges taken.
func (cl *Classifier) ReachFrom(starts []*ssa.BasicBlock, pt Point) (map[*ssa.BasicBlock]bool, map[[2]*ssa.BasicBlock]bool) {
	seen := map[*ssa.BasicBlock]bool{}
	edges := map[[2]*ssa.BasicBlock]bool{}
	work := append([]*ssa.BasicBlock(nil), starts...)
	for len(work) > 0 {
		b := work[len(work)-1]
		work = work[:len(work)-1]
		if seen[b] {
			continue
		}
		seen[b] = true
		succs := b.Succs
		if iff := path.BlockIf(b); iff != nil {
			if v, known := cl.Eval(iff.Cond, pt); known {
				if v {
					succs = b.Succs[:1]
				} else {
					succs = b.Succs[1:2]
				}
			}
		}
		for _, s := range succs {
			edges[[2]*ssa.BasicBlock{b, s}] = true
			work = append(work, s)
		}
	}
	return seen, edges
}

// Answers lists the boolean values v can take on the reached edges at point pt:
// constants, comparisons the classifier can evaluate, and merges of those.
func (cl *Classifier) Answers(v ssa.Value, pt Point, edges map[[2]*ssa.BasicBlock]bool) (yes, no bool) {
	seen := map[ssa.Value]bool{}
	var rec func(v ssa.Value)
	rec = func(v ssa.Value) {
		if seen[v] {
			return
		}
		seen[v] = true
		if ph, ok := v.(*ssa.Phi); ok {
			any := false
			for i, e := range ph.Edges {
				if edges[[2]*ssa.BasicBlock{ph.Block().Preds[i], ph.Block()}] {
					any = true
					rec(e)
				}
			}
			if !any {
				// the merge is the start block itself: nothing is known about how it was entered
				yes, no = true, true
			}
			return
		}
		if b, known := cl.Eval(v, pt); known {
			if b {
				yes = true
			} else {
				no = true
			}
			return
		}
		yes, no = true, true
	}
	rec(v)
	return
}
