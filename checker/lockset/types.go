// Package lockset is engine E1: a context-inlined abstract interpretation of the
// module's SSA form that tracks, for every value, which lock-guarded instance's
// storage it refers to, and for every program point, which instance locks are
// held. It decides the rules LK1–LK6, AT1 and CV1–CV3 of DESIGN.md §3.
package lockset

import (
	"go/types"
	"sort"

	"golang.org/x/tools/go/ssa"

	"gogucheck/core"
)

// LockKind says how the instance lock is reached from the instance.
type LockKind int

const (
	LockValue LockKind = iota // field of type sync.Mutex / sync.RWMutex
	LockPtr                   // field of type *sync.Mutex / *sync.RWMutex
	LockCond                  // field of type *sync.Cond; the lock is cond.L
)

// LockType describes one struct type that carries its own lock.
type LockType struct {
	Named     *types.Named // origin (generic) named type
	Name      string       // "Heap", "cache", ...
	Pkg       string       // package name
	Struct    *types.Struct
	LockField int
	Kind      LockKind
	RW        bool
	// Mutable[i] is true when field i is stored to outside the initialisation of a
	// freshly allocated instance. Immutable slots may be read without the lock.
	Mutable []bool
	// Atomic[i]: field i is reached through sync/atomic (by type or by call).
	Atomic []bool
}

func (lt *LockType) FieldName(i int) string { return lt.Struct.Field(i).Name() }

func (lt *LockType) Slot(i int) string { return lt.Name + "." + lt.FieldName(i) }

// Tables is everything the interpreter needs to know about the module's types.
type Tables struct {
	P         *core.Program
	Lock      map[*types.TypeName]*LockType // by type name object of the origin type
	Outer     map[*types.TypeName]bool      // structs holding a pointer to a lock-bearing (or outer) type
	Immutable map[*types.TypeName]bool      // struct types never written after initialisation
	// ifaceImpl: in-module interface type name -> implementing lock-bearing types
	ifaceImpl map[*types.TypeName][]*LockType
	named     []*types.Named
}

func originNamed(t types.Type) *types.Named {
	if t == nil {
		return nil
	}
	if p, ok := t.(*types.Pointer); ok {
		t = p.Elem()
	}
	n, ok := t.(*types.Named)
	if !ok {
		return nil
	}
	return n.Origin()
}

func isSyncType(t types.Type, name string) bool {
	n, ok := t.(*types.Named)
	if !ok || n.Obj().Pkg() == nil {
		return false
	}
	return n.Obj().Pkg().Path() == "sync" && n.Obj().Name() == name
}

// lockFieldKind classifies a field type.
func lockFieldKind(t types.Type) (LockKind, bool, bool) {
	if isSyncType(t, "Mutex") {
		return LockValue, false, true
	}
	if isSyncType(t, "RWMutex") {
		return LockValue, true, true
	}
	if p, ok := t.(*types.Pointer); ok {
		if isSyncType(p.Elem(), "Mutex") {
			return LockPtr, false, true
		}
		if isSyncType(p.Elem(), "RWMutex") {
			return LockPtr, true, true
		}
		if isSyncType(p.Elem(), "Cond") {
			return LockCond, false, true
		}
	}
	return 0, false, false
}

// BuildTables discovers lock-bearing types by type (never by name), outer
// wrappers, immutable slots and immutable structs.
func BuildTables(p *core.Program) *Tables {
	t := &Tables{P: p, Lock: map[*types.TypeName]*LockType{}, Outer: map[*types.TypeName]bool{},
		Immutable: map[*types.TypeName]bool{}, ifaceImpl: map[*types.TypeName][]*LockType{}}
	var ifaces []*types.Named
	for _, pk := range p.Pkgs {
		sc := pk.Types.Scope()
		names := sc.Names()
		sort.Strings(names)
		for _, n := range names {
			tn, ok := sc.Lookup(n).(*types.TypeName)
			if !ok || tn.IsAlias() {
				continue
			}
			named, ok := tn.Type().(*types.Named)
			if !ok {
				continue
			}
			t.named = append(t.named, named)
			if _, ok := named.Underlying().(*types.Interface); ok {
				ifaces = append(ifaces, named)
				continue
			}
			st, ok := named.Underlying().(*types.Struct)
			if !ok {
				continue
			}
			for i := 0; i < st.NumFields(); i++ {
				if k, rw, ok := lockFieldKind(st.Field(i).Type()); ok {
					t.Lock[tn] = &LockType{Named: named, Name: tn.Name(), Pkg: pk.Name, Struct: st,
						LockField: i, Kind: k, RW: rw, Mutable: make([]bool, st.NumFields()), Atomic: make([]bool, st.NumFields())}
					break
				}
			}
		}
	}
	// outer wrappers (fixpoint: a wrapper of a wrapper is a wrapper)
	for changed := true; changed; {
		changed = false
		for _, named := range t.named {
			tn := named.Obj()
			if t.Lock[tn] != nil || t.Outer[tn] {
				continue
			}
			st, ok := named.Underlying().(*types.Struct)
			if !ok {
				continue
			}
			for i := 0; i < st.NumFields(); i++ {
				if on := originNamed(st.Field(i).Type()); on != nil {
					if _, isPtr := st.Field(i).Type().(*types.Pointer); isPtr && (t.Lock[on.Obj()] != nil || t.Outer[on.Obj()]) {
						t.Outer[tn] = true
						changed = true
						break
					}
				}
			}
		}
	}
	// interface implementers: by method names and arities over pointer method sets
	for _, in := range ifaces {
		it := in.Underlying().(*types.Interface)
		if it.NumMethods() == 0 {
			continue
		}
		for _, lt := range t.sortedLockTypes() {
			ok := true
			for i := 0; i < it.NumMethods() && ok; i++ {
				im := it.Method(i)
				m := findMethod(lt.Named, im.Name())
				if m == nil {
					ok = false
					break
				}
				is, ms := im.Type().(*types.Signature), m.Type().(*types.Signature)
				if is.Params().Len() != ms.Params().Len() || is.Results().Len() != ms.Results().Len() {
					ok = false
				}
			}
			if ok {
				t.ifaceImpl[in.Obj()] = append(t.ifaceImpl[in.Obj()], lt)
			}
		}
	}
	t.scanStores()
	return t
}

func findMethod(n *types.Named, name string) *types.Func {
	for i := 0; i < n.NumMethods(); i++ {
		if n.Method(i).Name() == name {
			return n.Method(i)
		}
	}
	return nil
}

func (t *Tables) sortedLockTypes() []*LockType {
	var out []*LockType
	for _, lt := range t.Lock {
		out = append(out, lt)
	}
	sort.Slice(out, func(i, j int) bool { return out[i].Pkg+"."+out[i].Name < out[j].Pkg+"."+out[j].Name })
	return out
}

// LockTypeOf returns the lock-bearing type behind t (pointer or value), if any.
func (t *Tables) LockTypeOf(ty types.Type) *LockType {
	if n := originNamed(ty); n != nil {
		return t.Lock[n.Obj()]
	}
	return nil
}

func (t *Tables) IsOuter(ty types.Type) bool {
	if n := originNamed(ty); n != nil {
		return t.Outer[n.Obj()]
	}
	return false
}

// IfaceImpls returns the lock-bearing implementers of an in-module interface type.
func (t *Tables) IfaceImpls(ty types.Type) []*LockType {
	if n, ok := ty.(*types.Named); ok {
		return t.ifaceImpl[n.Origin().Obj()]
	}
	return nil
}

// scanStores computes Mutable slots of lock-bearing/outer types and the set of
// immutable struct types: a field store counts as initialisation only when its
// base is an Alloc in the same function (composite literal / new).
func isAtomicType(ty types.Type) bool {
	n, ok := ty.(*types.Named)
	return ok && n.Obj().Pkg() != nil && n.Obj().Pkg().Path() == "sync/atomic"
}

func (t *Tables) scanStores() {
	written := map[*types.TypeName]bool{}
	for _, lt := range t.Lock {
		for i := 0; i < lt.Struct.NumFields(); i++ {
			if isAtomicType(lt.Struct.Field(i).Type()) {
				lt.Atomic[i] = true
				lt.Mutable[i] = true
			}
		}
	}
	for _, fn := range t.P.Funcs {
		for _, b := range fn.Blocks {
			for _, in := range b.Instrs {
				c, ok := in.(ssa.CallInstruction)
				if !ok || c.Common().IsInvoke() || len(c.Common().Args) == 0 {
					continue
				}
				f := c.Common().StaticCallee()
				if f == nil || f.Pkg == nil || f.Pkg.Pkg.Path() != "sync/atomic" {
					continue
				}
				if fa, ok := c.Common().Args[0].(*ssa.FieldAddr); ok {
					if lt := t.LockTypeOf(fa.X.Type()); lt != nil {
						lt.Atomic[fa.Field] = true
						lt.Mutable[fa.Field] = true
					}
				}
			}
		}
	}
	for _, fn := range t.P.Funcs {
		for _, b := range fn.Blocks {
			for _, in := range b.Instrs {
				st, ok := in.(*ssa.Store)
				if !ok {
					continue
				}
				fa, ok := st.Addr.(*ssa.FieldAddr)
				if !ok {
					// whole-struct store *p = v  where p points to a named struct
					if n := originNamed(st.Addr.Type()); n != nil {
						if _, isAlloc := st.Addr.(*ssa.Alloc); !isAlloc {
							written[n.Obj()] = true
						}
					}
					continue
				}
				base := fa.X
				n := originNamed(base.Type())
				if n == nil {
					continue
				}
				if _, isAlloc := base.(*ssa.Alloc); isAlloc {
					continue
				}
				written[n.Obj()] = true
				if lt := t.Lock[n.Obj()]; lt != nil {
					lt.Mutable[fa.Field] = true
				}
			}
		}
	}
	for _, named := range t.named {
		if _, ok := named.Underlying().(*types.Struct); !ok {
			continue
		}
		if !written[named.Obj()] && t.Lock[named.Obj()] == nil {
			t.Immutable[named.Obj()] = true
		}
	}
	// A struct embedding a mutable struct by value is written when the embedded
	// part is; embedded writes go through a FieldAddr chain whose innermost base
	// type is the outer struct, so they were already attributed to the outer type's
	// field; mark the outer type written as well.
	for _, fn := range t.P.Funcs {
		for _, b := range fn.Blocks {
			for _, in := range b.Instrs {
				st, ok := in.(*ssa.Store)
				if !ok {
					continue
				}
				v := st.Addr
				for {
					fa, ok := v.(*ssa.FieldAddr)
					if !ok {
						break
					}
					if _, isAlloc := fa.X.(*ssa.Alloc); isAlloc {
						break
					}
					if n := originNamed(fa.X.Type()); n != nil {
						delete(t.Immutable, n.Obj())
						if lt := t.Lock[n.Obj()]; lt != nil {
							lt.Mutable[fa.Field] = true
						}
					}
					v = fa.X
				}
			}
		}
	}
}

// ImmutablePointee reports whether ty is a pointer to (or a value of) a struct
// type that is never written after initialisation and holds no references other
// than values of type-parameter type.
func (t *Tables) ImmutablePointee(ty types.Type) bool {
	n := originNamed(ty)
	if n == nil || !t.Immutable[n.Obj()] {
		return false
	}
	st, ok := n.Underlying().(*types.Struct)
	if !ok {
		return false
	}
	for i := 0; i < st.NumFields(); i++ {
		if mayHoldRef(st.Field(i).Type(), 0) {
			return false
		}
	}
	return true
}

// mayHoldRef reports whether a value of type ty can contain a reference to
// library-owned memory. Values of type-parameter type are user elements.
func mayHoldRef(ty types.Type, depth int) bool {
	if depth > 6 {
		return true
	}
	switch u := ty.(type) {
	case *types.TypeParam:
		return false
	case *types.Named:
		return mayHoldRef(u.Underlying(), depth+1)
	case *types.Alias:
		return mayHoldRef(types.Unalias(u), depth+1)
	case *types.Basic:
		return u.Kind() == types.UnsafePointer
	case *types.Pointer, *types.Slice, *types.Map, *types.Chan, *types.Signature, *types.Interface:
		return true
	case *types.Struct:
		for i := 0; i < u.NumFields(); i++ {
			if mayHoldRef(u.Field(i).Type(), depth+1) {
				return true
			}
		}
		return false
	case *types.Array:
		return mayHoldRef(u.Elem(), depth+1)
	case *types.Tuple:
		for i := 0; i < u.Len(); i++ {
			if mayHoldRef(u.At(i).Type(), depth+1) {
				return true
			}
		}
		return false
	}
	return true
}
