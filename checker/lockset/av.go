package lockset

import (
	"fmt"
	"sort"
	"strings"
)

type tagKind uint8

const (
	tInst      tagKind = iota + 1 // pointer to a lock-bearing instance P
	tOuter                        // pointer to / value of a wrapper struct P whose fields lead to instances
	tOuterFld                     // address of field F of wrapper P
	tFieldAddr                    // address of slot F (depth 0) of instance P
	tRegion                       // reference into the guarded region of instance P, reached through slot F
	tLock                         // the lock object of instance P
	tCond                         // the *sync.Cond of instance P
	tCell                         // pointer to / reference into local allocation N
	tSnap                         // value derived from guarded state of P read in critical section N
	tFunc                         // function value: closure or function N (index into the closure table)
	tCaller                       // reference to caller-owned memory handed in through a parameter
)

// Tag is one abstract fact about a value.
type Tag struct {
	K tagKind
	P string // instance path: "p0", "p1", "p0.q", "p0.cache", "new#12"
	F string // slot name
	N int
}

func (t Tag) String() string {
	switch t.K {
	case tInst:
		return "inst(" + t.P + ")"
	case tOuter:
		return "outer(" + t.P + ")"
	case tOuterFld:
		return "outerfld(" + t.P + "." + t.F + ")"
	case tFieldAddr:
		return "&" + t.P + "." + t.F
	case tRegion:
		return "region(" + t.P + "." + t.F + ")"
	case tLock:
		return "lock(" + t.P + ")"
	case tCond:
		return "cond(" + t.P + ")"
	case tCell:
		return fmt.Sprintf("cell#%d", t.N)
	case tSnap:
		return fmt.Sprintf("snap(%s@%d)", t.P, t.N)
	case tFunc:
		return fmt.Sprintf("func#%d", t.N)
	case tCaller:
		return "caller"
	}
	return "?"
}

// AV is an abstract value: a set of tags.
type AV map[Tag]struct{}

func (a AV) add(t Tag) bool {
	if _, ok := a[t]; ok {
		return false
	}
	a[t] = struct{}{}
	return true
}

func (a AV) union(b AV) bool {
	ch := false
	for t := range b {
		if a.add(t) {
			ch = true
		}
	}
	return ch
}

func (a AV) clone() AV {
	c := make(AV, len(a))
	for t := range a {
		c[t] = struct{}{}
	}
	return c
}

func (a AV) sorted() []Tag {
	out := make([]Tag, 0, len(a))
	for t := range a {
		out = append(out, t)
	}
	sort.Slice(out, func(i, j int) bool {
		x, y := out[i], out[j]
		if x.K != y.K {
			return x.K < y.K
		}
		if x.P != y.P {
			return x.P < y.P
		}
		if x.F != y.F {
			return x.F < y.F
		}
		return x.N < y.N
	})
	return out
}

func (a AV) key() string {
	if len(a) == 0 {
		return ""
	}
	var sb strings.Builder
	for i, t := range a.sorted() {
		if i > 0 {
			sb.WriteByte(',')
		}
		sb.WriteString(t.String())
	}
	return sb.String()
}

// snaps returns only the snapshot taints.
func (a AV) snaps() AV {
	var out AV
	for t := range a {
		if t.K == tSnap {
			if out == nil {
				out = AV{}
			}
			out[t] = struct{}{}
		}
	}
	return out
}

func isFresh(path string) bool {
	if i := strings.IndexByte(path, '@'); i >= 0 {
		path = path[i+1:]
	}
	return strings.HasPrefix(path, "new#")
}

// Mode of a held lock.
type Mode uint8

const (
	None Mode = iota
	R
	W
)

func (m Mode) String() string { return [...]string{"-", "R", "W"}[m] }

type held struct {
	mode Mode
	site int
}

type deferred struct {
	kind string // "unlock", "runlock", "call"
	path string // instance path for unlocks
	call *callInfo
}

// state is one element of the disjunctive flow-sensitive domain.
type state struct {
	locks  map[string]held // instance path -> held lock
	defers []deferred
	pub    map[int]Tag     // cell id -> region it has been published into
	facts  map[string]bool // ssa value name -> true: non-nil, false: nil
}

func newState() *state {
	return &state{locks: map[string]held{}, pub: map[int]Tag{}, facts: map[string]bool{}}
}

func (s *state) clone() *state {
	c := &state{locks: make(map[string]held, len(s.locks)), pub: make(map[int]Tag, len(s.pub)), facts: make(map[string]bool, len(s.facts))}
	for k, v := range s.locks {
		c.locks[k] = v
	}
	for k, v := range s.pub {
		c.pub[k] = v
	}
	for k, v := range s.facts {
		c.facts[k] = v
	}
	c.defers = append([]deferred(nil), s.defers...)
	return c
}

func lockKey(l map[string]held) string {
	if len(l) == 0 {
		return ""
	}
	ks := make([]string, 0, len(l))
	for k := range l {
		ks = append(ks, k)
	}
	sort.Strings(ks)
	var sb strings.Builder
	for _, k := range ks {
		fmt.Fprintf(&sb, "%s:%s@%d;", k, l[k].mode, l[k].site)
	}
	return sb.String()
}

func (s *state) key() string {
	var sb strings.Builder
	sb.WriteString(lockKey(s.locks))
	sb.WriteByte('|')
	for _, d := range s.defers {
		sb.WriteString(d.kind)
		sb.WriteByte(':')
		sb.WriteString(d.path)
		if d.call != nil {
			fmt.Fprintf(&sb, "%p", d.call.instr)
		}
		sb.WriteByte(';')
	}
	sb.WriteByte('|')
	if len(s.pub) > 0 {
		ids := make([]int, 0, len(s.pub))
		for id := range s.pub {
			ids = append(ids, id)
		}
		sort.Ints(ids)
		for _, id := range ids {
			fmt.Fprintf(&sb, "%d>%s;", id, s.pub[id])
		}
	}
	sb.WriteByte('|')
	if len(s.facts) > 0 {
		ks := make([]string, 0, len(s.facts))
		for k := range s.facts {
			ks = append(ks, k)
		}
		sort.Strings(ks)
		for _, k := range ks {
			fmt.Fprintf(&sb, "%s=%v;", k, s.facts[k])
		}
	}
	return sb.String()
}
