package lockset

import (
	"fmt"
	"os"
	"sort"
)

// DebugDump prints context statistics (development aid, enabled by GOGUCHECK_DEBUG).
func (e *Engine) DebugDump() {
	if os.Getenv("GOGUCHECK_DEBUG") == "" {
		return
	}
	cnt := map[string]int{}
	for _, fc := range e.memo {
		cnt[e.P.FuncName(fc.fn)]++
	}
	var ks []string
	for k := range cnt {
		ks = append(ks, k)
	}
	sort.Slice(ks, func(i, j int) bool { return cnt[ks[i]] > cnt[ks[j]] })
	for i, k := range ks {
		if i > 15 {
			break
		}
		fmt.Fprintf(os.Stderr, "ctx %4d %s\n", cnt[k], k)
	}
	fmt.Fprintf(os.Stderr, "contexts=%d sites=%d cells=%d closures=%d\n", len(e.memo), len(e.siteIDs), len(e.cellIDs), len(e.closures))
}
