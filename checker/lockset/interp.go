package lockset

import (
	"crypto/sha1"
	"encoding/hex"
	"fmt"
	"go/token"
	"go/types"
	"sort"
	"strings"

	"golang.org/x/tools/go/ssa"

	"gogucheck/core"
)

const depthLimit = 16
const maxStatesPerBlock = 96

type closureInfo struct {
	id       int
	fn       *ssa.Function
	bindings []AV
}

type callInfo struct {
	instr   ssa.Instruction
	callee  *ssa.Function
	args    []AV
	free    []AV
	syncOp  string // for deferred sync operations: "Unlock", "RUnlock", "Lock", "RLock"
	syncRcv AV
}

type summary struct {
	exits []*state
	rets  []AV
	data  AV // explicit (data-flow only) taints of the returned values, all results merged
}

func (s *summary) key() string {
	var ks []string
	for _, x := range s.exits {
		ks = append(ks, x.key())
	}
	sort.Strings(ks)
	var sb strings.Builder
	sb.WriteString(strings.Join(ks, "&"))
	sb.WriteString("=>")
	for _, r := range s.rets {
		sb.WriteString(r.key())
		sb.WriteByte('/')
	}
	return sb.String()
}

type localDiag struct {
	rule, object, reason string
	instr                ssa.Instruction
	undecided            bool
}

type acqEvent struct {
	inst  string
	site  int
	mode  Mode
	instr ssa.Instruction
	held  []string // instance paths already held (for LK5)
}

type staleUse struct {
	inst         string
	siteA, siteB int
	instr        ssa.Instruction
}

type accessEvent struct {
	site       int
	sites      map[int]bool // every critical-section site under which the access was seen
	atomic     bool
	inst, slot string
	write      bool
	held       Mode
	need       Mode
	instr      ssa.Instruction
	exempt     string
}

type childCall struct {
	instr ssa.Instruction
	child *fnCtx
	kind  string // "call", "go", "defer", "callback"
}

type fnCtx struct {
	fn        *ssa.Function
	key       string
	local     string
	argsGrew  bool
	ctlCur    *ctlInfo // control dependence of the previous pass (implicit flows)
	entry     bool
	lockIn    map[string]held
	pubIn     map[int]Tag
	args      []AV
	free      []AV
	vals      map[ssa.Value]AV
	tuples    map[ssa.Value][]AV
	in        map[*ssa.BasicBlock]map[string]*state
	feasible  map[[2]int]bool
	sum       *summary
	running   bool
	diags     []localDiag
	diagSeen  map[string]bool
	acquires  []acqEvent
	acqSeen   map[string]bool
	stale     []staleUse
	staleSeen map[string]bool
	accesses  map[string]accessEvent
	calls     []childCall
	callSeen  map[string]bool
	waits     []ssa.Instruction // cond.Wait sites
	blocking  []string          // LK6 information
	depth     int
}

// Engine runs the interpretation.
type Engine struct {
	T *Tables
	P *core.Program

	memo       map[string]*fnCtx
	prev       map[string]string // ctx key -> summary key of the previous round
	prevSum    map[string]*summary
	cells      map[int]AV
	cellIDs    map[string]int
	cellAlloc  map[int]ssa.Value
	siteIDs    map[string]int
	siteInstr  map[int]ssa.Instruction
	closures   []*closureInfo
	closureIDs map[string]int
	exclPairs  map[*ssa.Function][][2]int
	changed    bool
	stack      []*fnCtx
	pathType   map[string]*LockType
	spawned    []*fnCtx // goroutine / timer / callback roots found in this round
	undecided  []string
}

func NewEngine(t *Tables) *Engine {
	return &Engine{T: t, P: t.P, cells: map[int]AV{}, cellIDs: map[string]int{}, cellAlloc: map[int]ssa.Value{},
		siteIDs: map[string]int{}, siteInstr: map[int]ssa.Instruction{}, closureIDs: map[string]int{},
		exclPairs: map[*ssa.Function][][2]int{}, pathType: map[string]*LockType{}, prevSum: map[string]*summary{}, prev: map[string]string{}}
}

func (e *Engine) instPath(lt *LockType, access string) string {
	p := lt.Pkg + "." + lt.Name + "@" + access
	e.pathType[p] = lt
	return p
}

func accessOf(path string) string {
	if i := strings.IndexByte(path, '@'); i >= 0 {
		return path[i+1:]
	}
	return path
}

func (e *Engine) cellID(fc *fnCtx, v ssa.Value) int {
	k := fmt.Sprintf("%p|%s", v, fc.key)
	if id, ok := e.cellIDs[k]; ok {
		return id
	}
	id := len(e.cellIDs) + 1
	e.cellIDs[k] = id
	e.cellAlloc[id] = v
	return id
}

func (e *Engine) siteID(fc *fnCtx, in ssa.Instruction) int {
	k := fmt.Sprintf("%p|%s", in, fc.key)
	if id, ok := e.siteIDs[k]; ok {
		return id
	}
	id := len(e.siteIDs) + 1
	e.siteIDs[k] = id
	e.siteInstr[id] = in
	return id
}

func (e *Engine) closure(fn *ssa.Function, bindings []AV) *closureInfo {
	var sb strings.Builder
	fmt.Fprintf(&sb, "%p", fn)
	for _, b := range bindings {
		sb.WriteByte('|')
		sb.WriteString(b.key())
	}
	k := sb.String()
	if id, ok := e.closureIDs[k]; ok {
		return e.closures[id]
	}
	ci := &closureInfo{id: len(e.closures), fn: fn, bindings: bindings}
	e.closures = append(e.closures, ci)
	e.closureIDs[k] = ci.id
	return ci
}

// paramAV is the abstract value of a parameter of an entry point.
func (e *Engine) paramAV(ty types.Type, access string) AV {
	av := AV{}
	if lt := e.T.LockTypeOf(ty); lt != nil {
		if _, ok := ty.(*types.Pointer); ok {
			av.add(Tag{K: tInst, P: e.instPath(lt, access)})
			return av
		}
	}
	if e.T.IsOuter(ty) {
		av.add(Tag{K: tOuter, P: access})
		return av
	}
	if mayHoldRef(ty, 0) {
		if _, ok := ty.(*types.Signature); !ok {
			av.add(Tag{K: tCaller})
		}
	}
	return av
}

// ctxKey identifies an analysis context.
func ctxKey(fn *ssa.Function, entry bool, locks map[string]held, pub map[int]Tag, args, free []AV) string {
	var sb strings.Builder
	fmt.Fprintf(&sb, "%p|%v|%s|", fn, entry, lockKey(locks))
	if len(pub) > 0 {
		// only publications of cells the callee can name matter to it
		named := map[int]bool{}
		for _, l := range [][]AV{args, free} {
			for _, a := range l {
				for t := range a {
					if t.K == tCell {
						named[t.N] = true
					}
				}
			}
		}
		ids := make([]int, 0, len(pub))
		for id := range pub {
			if named[id] {
				ids = append(ids, id)
			}
		}
		sort.Ints(ids)
		for _, id := range ids {
			fmt.Fprintf(&sb, "%d>%s;", id, pub[id])
		}
	}
	for _, a := range args {
		sb.WriteByte('|')
		sb.WriteString(a.key())
	}
	sb.WriteString("||")
	for _, a := range free {
		sb.WriteByte('|')
		sb.WriteString(a.key())
	}
	return sb.String()
}

// analyze returns the context for fn called from the top of the current stack at
// call instruction at. Contexts are call-string sensitive (so that every dynamic
// critical section of one operation gets its own site); recursion is folded onto
// the running context with the same function, lockset and arguments.
func (e *Engine) analyze(at ssa.Instruction, fn *ssa.Function, entry bool, locks map[string]held, pub map[int]Tag, args, free []AV) *fnCtx {
	local := ctxKey(fn, entry, locks, pub, args, free)
	for i := len(e.stack) - 1; i >= 0; i-- {
		fc := e.stack[i]
		if fc.fn == fn && fc.entry == entry && lockKey(fc.lockIn) == lockKey(locks) {
			// recursion: fold onto the running context (context-insensitive inside
			// a recursion cycle): merge the arguments and use its current summary
			for j, p := range fn.Params {
				if j < len(args) && fc.setVal(p, filterFor(p.Type(), args[j])) {
					fc.argsGrew = true
				}
			}
			for j, fv := range fn.FreeVars {
				if j < len(free) && fc.setVal(fv, free[j]) {
					fc.argsGrew = true
				}
			}
			if fc.sum == nil {
				if ps, ok := e.prevSum[fc.key]; ok {
					fc.sum = ps
				} else {
					e.changed = true
					fc.sum = &summary{rets: make([]AV, fn.Signature.Results().Len())}
					for i := range fc.sum.rets {
						fc.sum.rets[i] = AV{}
					}
				}
			}
			return fc
		}
	}
	parent := ""
	if len(e.stack) > 0 && !entry {
		parent = e.stack[len(e.stack)-1].key
	}
	h := sha1.Sum([]byte(parent))
	key := hex.EncodeToString(h[:8]) + ">" + instrKey(at) + ">" + local
	if fc, ok := e.memo[key]; ok {
		return fc
	}
	fc := &fnCtx{fn: fn, key: key, local: local, entry: entry, lockIn: locks, pubIn: pub, args: args, free: free,
		vals: map[ssa.Value]AV{}, tuples: map[ssa.Value][]AV{}, in: map[*ssa.BasicBlock]map[string]*state{},
		feasible: map[[2]int]bool{}, diagSeen: map[string]bool{}, acqSeen: map[string]bool{}, staleSeen: map[string]bool{},
		accesses: map[string]accessEvent{}, callSeen: map[string]bool{}, depth: len(e.stack)}
	e.memo[key] = fc
	if len(e.stack) >= depthLimit {
		fc.sum = &summary{rets: make([]AV, fn.Signature.Results().Len())}
		for i := range fc.sum.rets {
			fc.sum.rets[i] = AV{}
		}
		fc.diags = append(fc.diags, localDiag{rule: "LK0", object: "context-depth", reason: "inlining depth limit reached", undecided: true})
		return fc
	}
	fc.running = true
	e.stack = append(e.stack, fc)
	e.run(fc)
	e.stack = e.stack[:len(e.stack)-1]
	fc.running = false
	sk := fc.sum.key()
	if e.prev[key] != sk {
		e.changed = true
	}
	e.prev[key] = sk
	e.prevSum[key] = fc.sum
	return fc
}

func (fc *fnCtx) val(v ssa.Value) AV {
	if av, ok := fc.vals[v]; ok {
		return av
	}
	return nil
}

// setVal merges av into the abstract value of v; reports growth.
func (fc *fnCtx) setVal(v ssa.Value, av AV) bool {
	if len(av) == 0 {
		return false
	}
	cur, ok := fc.vals[v]
	if !ok {
		cur = AV{}
		fc.vals[v] = cur
	}
	return cur.union(av)
}

func filterFor(ty types.Type, av AV) AV {
	if len(av) == 0 {
		return av
	}
	if mayHoldRef(ty, 0) {
		return av
	}
	return av.snaps()
}

// run interprets fn in context fc to a fixpoint.
func (e *Engine) run(fc *fnCtx) {
	fn := fc.fn
	if len(fn.Blocks) == 0 {
		fc.sum = &summary{exits: []*state{{locks: fc.lockIn, pub: fc.pubIn, facts: map[string]bool{}}}, rets: make([]AV, fn.Signature.Results().Len())}
		return
	}
	for i, p := range fn.Params {
		if i < len(fc.args) {
			fc.setVal(p, filterFor(p.Type(), fc.args[i]))
		}
	}
	for i, fv := range fn.FreeVars {
		if i < len(fc.free) {
			fc.setVal(fv, fc.free[i])
		}
	}
	nres := fn.Signature.Results().Len()
	for pass := 0; pass < 12; pass++ {
		grew := false
		sum := &summary{rets: make([]AV, nres)}
		for i := range sum.rets {
			sum.rets[i] = AV{}
		}
		exitSeen := map[string]bool{}
		// reset per-pass flow facts (values persist and only grow)
		fc.in = map[*ssa.BasicBlock]map[string]*state{}
		fc.feasible = map[[2]int]bool{}
		fc.calls = nil
		fc.callSeen = map[string]bool{}
		fc.diags = nil
		fc.diagSeen = map[string]bool{}
		fc.acquires = nil
		fc.acqSeen = map[string]bool{}
		fc.stale = nil
		fc.staleSeen = map[string]bool{}
		fc.accesses = map[string]accessEvent{}
		fc.waits = nil
		fc.blocking = nil
		init := newState()
		for k, v := range fc.lockIn {
			init.locks[k] = v
		}
		for k, v := range fc.pubIn {
			init.pub[k] = v
		}
		type item struct {
			b  *ssa.BasicBlock
			st *state
		}
		work := []item{{fn.Blocks[0], init}}
		fc.in[fn.Blocks[0]] = map[string]*state{init.key(): init}
		for len(work) > 0 {
			it := work[len(work)-1]
			work = work[:len(work)-1]
			outs := e.block(fc, it.b, it.st, sum, exitSeen, &grew)
			for _, o := range outs {
				fc.feasible[[2]int{it.b.Index, o.b.Index}] = true
				m := fc.in[o.b]
				if m == nil {
					m = map[string]*state{}
					fc.in[o.b] = m
				}
				if len(m) >= maxStatesPerBlock {
					// drop the path facts to force convergence
					o.st.facts = map[string]bool{}
				}
				k := o.st.key()
				if _, ok := m[k]; ok {
					continue
				}
				if len(m) >= 4*maxStatesPerBlock {
					fc.addDiag(localDiag{rule: "LK0", object: "state-explosion", reason: "too many lock states at one block", instr: o.b.Instrs[0], undecided: true})
					continue
				}
				m[k] = o.st
				work = append(work, item{o.b, o.st})
			}
		}
		prevKey := ""
		if fc.sum != nil {
			prevKey = fc.sum.key()
		}
		fc.sum = sum
		newCtl := e.ctl(fc)
		ctlChanged := fc.ctlCur == nil || newCtl.key() != fc.ctlCur.key()
		fc.ctlCur = newCtl
		if !grew && !fc.argsGrew && !ctlChanged && prevKey == sum.key() {
			break
		}
		fc.argsGrew = false
	}
}

type succ struct {
	b  *ssa.BasicBlock
	st *state
}

func (fc *fnCtx) addDiag(d localDiag) {
	k := fmt.Sprintf("%s|%s|%p", d.rule, d.object, d.instr)
	if fc.diagSeen[k] {
		return
	}
	fc.diagSeen[k] = true
	fc.diags = append(fc.diags, d)
}

func isNilConst(v ssa.Value) bool {
	c, ok := v.(*ssa.Const)
	return ok && c.Value == nil && !isBasic(c.Type())
}

func isBasic(t types.Type) bool {
	_, ok := t.Underlying().(*types.Basic)
	return ok
}

// block interprets one basic block from state st; it may fork into several states.
func (e *Engine) block(fc *fnCtx, b *ssa.BasicBlock, st0 *state, sum *summary, exitSeen map[string]bool, grew *bool) []succ {
	states := []*state{st0.clone()}
	for _, in := range b.Instrs {
		var next []*state
		for _, st := range states {
			next = append(next, e.instr(fc, st, in, sum, exitSeen, grew)...)
		}
		states = next
		if len(states) == 0 {
			return nil
		}
		// dedup
		if len(states) > 1 {
			seen := map[string]bool{}
			var d []*state
			for _, s := range states {
				k := s.key()
				if !seen[k] {
					seen[k] = true
					d = append(d, s)
				}
			}
			states = d
		}
	}
	last := b.Instrs[len(b.Instrs)-1]
	var outs []succ
	switch t := last.(type) {
	case *ssa.If:
		for _, st := range states {
			tb, fb := b.Succs[0], b.Succs[1]
			x, eq, ok := nilTest(t.Cond)
			if ok {
				if known, has := st.facts[x.Name()]; has {
					// known: true = non-nil
					isNil := !known
					if isNil == eq {
						outs = append(outs, succ{tb, st.clone()})
					} else {
						outs = append(outs, succ{fb, st.clone()})
					}
					continue
				}
				ts, fs := st.clone(), st.clone()
				e.learn(fc, ts, x, !eq) // true edge: (x == nil) if eq else (x != nil)
				e.learn(fc, fs, x, eq)
				outs = append(outs, succ{tb, ts}, succ{fb, fs})
				continue
			}
			outs = append(outs, succ{tb, st.clone()}, succ{fb, st.clone()})
		}
	case *ssa.Jump:
		for _, st := range states {
			outs = append(outs, succ{b.Succs[0], st})
		}
	default:
		// Return, Panic: no successors
	}
	return outs
}

// nilTest decomposes cond into "x == nil" (eq=true) or "x != nil" (eq=false).
func nilTest(cond ssa.Value) (x ssa.Value, eq bool, ok bool) {
	bo, isBin := cond.(*ssa.BinOp)
	if !isBin || (bo.Op != token.EQL && bo.Op != token.NEQ) {
		return nil, false, false
	}
	switch {
	case isNilConst(bo.Y):
		x = bo.X
	case isNilConst(bo.X):
		x = bo.Y
	default:
		return nil, false, false
	}
	return x, bo.Op == token.EQL, true
}

// learn records that x is non-nil (nonNil=true) or nil, and what follows from the
// callee's return summary: if no Return of the callee yields both results non-nil,
// one being non-nil makes the other nil.
func (e *Engine) learn(fc *fnCtx, st *state, x ssa.Value, nonNil bool) {
	st.facts[x.Name()] = nonNil
	if !nonNil {
		return
	}
	ex, ok := x.(*ssa.Extract)
	if !ok {
		return
	}
	call, ok := ex.Tuple.(*ssa.Call)
	if !ok {
		return
	}
	callee := core.Canon(call.Call.StaticCallee())
	if callee == nil || !e.P.InModule(callee) {
		return
	}
	for _, pr := range e.exclusive(callee) {
		other := -1
		if pr[0] == ex.Index {
			other = pr[1]
		} else if pr[1] == ex.Index {
			other = pr[0]
		}
		if other < 0 {
			continue
		}
		for _, r := range *call.Referrers() {
			if oe, ok := r.(*ssa.Extract); ok && oe.Index == other {
				st.facts[oe.Name()] = false
			}
		}
	}
}

// resultTuples lists, per way of returning, the values fn returns. Functions with
// defer spill their results into local cells ("*t0 = v; rundefers; t1 = *t0; return
// t1"): for those the tuples are the groups of stores into the result cells, one
// group per block. ok=false when the shape is not understood.
func resultTuples(fn *ssa.Function) (tuples [][]ssa.Value, ok bool) {
	n := fn.Signature.Results().Len()
	for _, b := range fn.Blocks {
		if fn.Recover != nil && b == fn.Recover {
			continue
		}
		r, isRet := b.Instrs[len(b.Instrs)-1].(*ssa.Return)
		if !isRet {
			continue
		}
		if len(r.Results) != n {
			return nil, false
		}
		cells := make([]*ssa.Alloc, n)
		spilled := 0
		for i, v := range r.Results {
			if u, ok := v.(*ssa.UnOp); ok && u.Op == token.MUL {
				if a, ok := u.X.(*ssa.Alloc); ok && !a.Heap {
					cells[i] = a
					spilled++
				}
			}
		}
		if spilled == 0 {
			tuples = append(tuples, r.Results)
			continue
		}
		if spilled != n {
			return nil, false
		}
		groups := map[*ssa.BasicBlock][]ssa.Value{}
		for i, a := range cells {
			for _, ref := range *a.Referrers() {
				st, ok := ref.(*ssa.Store)
				if !ok || st.Addr != a {
					continue
				}
				if fn.Recover != nil && st.Block() == fn.Recover {
					continue
				}
				g := groups[st.Block()]
				if g == nil {
					g = make([]ssa.Value, n)
					groups[st.Block()] = g
				}
				g[i] = st.Val // the last store in block order wins; stores of one return statement are adjacent
			}
		}
		if len(groups) == 0 {
			return nil, false
		}
		for _, g := range groups {
			for _, v := range g {
				if v == nil {
					return nil, false // a result assigned on its own: not a return statement
				}
			}
			tuples = append(tuples, g)
		}
	}
	return tuples, len(tuples) > 0
}

// exclusive lists the pairs (i,j) of nil-able results of fn such that every way of
// returning yields the constant nil at i or at j (directly, or by forwarding both
// results of one call of a callee with the same property).
func (e *Engine) exclusive(fn *ssa.Function) [][2]int {
	if pr, ok := e.exclPairs[fn]; ok {
		return pr
	}
	e.exclPairs[fn] = nil // cut recursion
	var pairs [][2]int
	res := fn.Signature.Results()
	tuples, ok := resultTuples(fn)
	if !ok {
		return nil
	}
	nilable := func(t types.Type) bool {
		switch t.Underlying().(type) {
		case *types.Pointer, *types.Interface, *types.Map, *types.Slice, *types.Chan, *types.Signature:
			return true
		}
		return false
	}
	for i := 0; i < res.Len(); i++ {
		for j := i + 1; j < res.Len(); j++ {
			if !nilable(res.At(i).Type()) || !nilable(res.At(j).Type()) {
				continue
			}
			all := true
			for _, tp := range tuples {
				if isNilConst(tp[i]) || isNilConst(tp[j]) {
					continue
				}
				ei, iok := tp[i].(*ssa.Extract)
				ej, jok := tp[j].(*ssa.Extract)
				fwd := false
				if iok && jok && ei.Tuple == ej.Tuple {
					if call, ok := ei.Tuple.(*ssa.Call); ok {
						if callee := core.Canon(call.Call.StaticCallee()); callee != nil && callee != fn && e.P.InModule(callee) {
							for _, pr := range e.exclusive(callee) {
								if (pr[0] == ei.Index && pr[1] == ej.Index) || (pr[1] == ei.Index && pr[0] == ej.Index) {
									fwd = true
								}
							}
						}
					}
				}
				if !fwd {
					all = false
					break
				}
			}
			if all {
				pairs = append(pairs, [2]int{i, j})
			}
		}
	}
	e.exclPairs[fn] = pairs
	return pairs
}

// ExclusivePairs exposes the return summary used for pruning infeasible branches:
// pairs (i,j) of results of fn of which at most one is non-nil on every return.
func ExclusivePairs(p *core.Program, fn *ssa.Function) [][2]int {
	e := &Engine{P: p, exclPairs: map[*ssa.Function][][2]int{}}
	return e.exclusive(core.Canon(fn))
}
