package lockset

import (
	"go/types"

	"golang.org/x/tools/go/ssa"

	"gogucheck/core"
)

type target struct {
	fn   *ssa.Function
	args []AV
	free []AV
}

func syncRecvName(fn *ssa.Function) (typ, method string, ok bool) {
	if fn == nil || fn.Signature.Recv() == nil {
		return "", "", false
	}
	n := originNamed(fn.Signature.Recv().Type())
	if n == nil || n.Obj().Pkg() == nil || n.Obj().Pkg().Path() != "sync" {
		return "", "", false
	}
	return n.Obj().Name(), fn.Name(), true
}

func (e *Engine) callInstr(fc *fnCtx, st *state, in ssa.Instruction, c *ssa.CallCommon, kind string, grew *bool) []*state {
	var resVal ssa.Value
	if call, ok := in.(*ssa.Call); ok {
		resVal = call
	}
	args := make([]AV, 0, len(c.Args)+1)
	var targets []target
	opaque := false
	if c.IsInvoke() {
		recv := fc.val(c.Value)
		name := c.Method.Name()
		for t := range recv {
			if t.K == tLock {
				return e.syncCall(fc, st, in, kind, "Locker", name, recv, grew)
			}
		}
		for _, a := range c.Args {
			args = append(args, fc.val(a))
		}
		for t := range recv {
			if t.K != tInst {
				continue
			}
			lt := e.pathType[t.P]
			if lt == nil {
				continue
			}
			if m := findMethod(lt.Named, name); m != nil {
				if fn := e.P.SSA.FuncValue(m); fn != nil {
					a := append([]AV{{t: {}}}, args...)
					targets = append(targets, target{fn: fn, args: a})
				}
			}
		}
		if len(targets) == 0 {
			opaque = true
			args = append([]AV{recv}, args...)
		}
	} else {
		for _, a := range c.Args {
			args = append(args, fc.val(a))
		}
		switch v := c.Value.(type) {
		case *ssa.Builtin:
			return e.builtin(fc, st, in, v, c, resVal, grew)
		case *ssa.Function:
			fn := core.Canon(v)
			if typ, m, ok := syncRecvName(fn); ok && len(args) > 0 {
				return e.syncCall(fc, st, in, kind, typ, m, args[0], grew)
			}
			if e.P.InModule(fn) && len(fn.Blocks) > 0 {
				targets = append(targets, target{fn: fn, args: args})
			} else {
				opaque = true
			}
		case *ssa.MakeClosure:
			fn := v.Fn.(*ssa.Function)
			var free []AV
			for _, b := range v.Bindings {
				free = append(free, fc.val(b))
			}
			if e.P.InModule(fn) && len(fn.Blocks) > 0 {
				targets = append(targets, target{fn: fn, args: args, free: free})
			} else {
				// bound method of an external type (e.g. (*sync.Cond).Broadcast$bound)
				opaque = true
			}
		default:
			for t := range fc.val(c.Value) {
				if t.K == tFunc && t.N < len(e.closures) {
					ci := e.closures[t.N]
					if e.P.InModule(ci.fn) && len(ci.fn.Blocks) > 0 {
						targets = append(targets, target{fn: ci.fn, args: args, free: ci.bindings})
					}
				}
			}
			if len(targets) == 0 {
				opaque = true // user callback (function-typed parameter or field)
			}
		}
	}

	switch kind {
	case "defer":
		if len(targets) > 0 {
			for _, t := range targets {
				st.defers = append(st.defers, deferred{kind: "call", call: &callInfo{instr: in, callee: t.fn, args: t.args, free: t.free}})
			}
		}
		return []*state{st}
	case "go":
		for _, t := range targets {
			e.spawn(fc, in, t, "go")
		}
		return []*state{st}
	}

	if opaque {
		// External function or user callback. Function values handed to it may run
		// later on another goroutine: analyse them as roots with no lock held.
		out := AV{}
		for i, a := range args {
			out.union(a.snaps())
			for t := range a {
				if t.K == tFunc && t.N < len(e.closures) {
					ci := e.closures[t.N]
					if e.P.InModule(ci.fn) && len(ci.fn.Blocks) > 0 {
						e.spawn(fc, in, target{fn: ci.fn, free: ci.bindings, args: e.defaultArgs(ci.fn)}, "callback")
					}
				}
			}
			// a plain in-module function passed as a value
			if !c.IsInvoke() && i < len(c.Args) {
				if f, ok := c.Args[i].(*ssa.Function); ok {
					f = core.Canon(f)
					if e.P.InModule(f) && len(f.Blocks) > 0 {
						e.spawn(fc, in, target{fn: f, args: e.defaultArgs(f)}, "callback")
					}
				}
			}
			// references to guarded storage handed to code we do not see
			if !c.IsInvoke() {
				if op, isAtomic := atomicOp(c); isAtomic {
					if i == 0 {
						if sn := e.access(fc, st, in, regionOnly(a), nil, op.write, "atomic:"+op.name); sn != nil {
							out.union(sn)
						}
					}
				} else {
					e.access(fc, st, in, regionOnly(a), nil, false, "passed to "+calleeName(c))
				}
			}
		}
		if resVal != nil {
			e.setResult(fc, resVal, []AV{out}, grew)
		}
		return []*state{st}
	}

	var outs []*state
	rets := make([]AV, 0)
	for _, t := range targets {
		child := e.analyze(in, t.fn, false, copyLocks(st.locks), copyPub(st.pub), t.args, t.free)
		fc.addCall(in, child, "call")
		if child.sum == nil {
			continue
		}
		for _, ex := range child.sum.exits {
			ns := st.clone()
			ns.locks = copyLocks(ex.locks)
			ns.pub = copyPub(ex.pub)
			outs = append(outs, ns)
		}
		for i, r := range child.sum.rets {
			for len(rets) <= i {
				rets = append(rets, AV{})
			}
			rets[i].union(r)
		}
	}
	if resVal != nil {
		e.setResult(fc, resVal, rets, grew)
	}
	return outs
}

func regionOnly(a AV) AV {
	var out AV
	for t := range a {
		if t.K == tRegion || t.K == tFieldAddr {
			if out == nil {
				out = AV{}
			}
			out.add(t)
		}
	}
	return out
}

func calleeName(c *ssa.CallCommon) string {
	if f := c.StaticCallee(); f != nil {
		return f.String()
	}
	return "a function value"
}

func (e *Engine) setResult(fc *fnCtx, v ssa.Value, rets []AV, grew *bool) {
	if tup, ok := v.Type().(*types.Tuple); ok {
		avs := make([]AV, tup.Len())
		all := AV{}
		for _, r := range rets {
			all.union(r)
		}
		for i := range avs {
			if i < len(rets) && len(rets) == tup.Len() {
				avs[i] = filterFor(tup.At(i).Type(), rets[i])
			} else {
				avs[i] = filterFor(tup.At(i).Type(), all)
			}
		}
		e.setTuple(fc, v, avs, grew)
		return
	}
	out := AV{}
	for _, r := range rets {
		out.union(r)
	}
	if fc.setVal(v, filterFor(v.Type(), out)) {
		*grew = true
	}
}

func (fc *fnCtx) addCall(in ssa.Instruction, child *fnCtx, kind string) {
	k := kind + "|" + child.key + "|" + instrKey(in)
	if fc.callSeen[k] {
		return
	}
	fc.callSeen[k] = true
	fc.calls = append(fc.calls, childCall{instr: in, child: child, kind: kind})
}

func instrKey(in ssa.Instruction) string {
	if in == nil {
		return "-"
	}
	return in.Parent().Name() + "#" + itoa(in.Block().Index) + "." + itoa(indexIn(in))
}

func indexIn(in ssa.Instruction) int {
	for i, x := range in.Block().Instrs {
		if x == in {
			return i
		}
	}
	return -1
}

func itoa(i int) string {
	if i == 0 {
		return "0"
	}
	neg := i < 0
	if neg {
		i = -i
	}
	var b [20]byte
	p := len(b)
	for i > 0 {
		p--
		b[p] = byte('0' + i%10)
		i /= 10
	}
	if neg {
		p--
		b[p] = '-'
	}
	return string(b[p:])
}

func copyLocks(l map[string]held) map[string]held {
	c := make(map[string]held, len(l))
	for k, v := range l {
		c[k] = v
	}
	return c
}

func copyPub(p map[int]Tag) map[int]Tag {
	c := make(map[int]Tag, len(p))
	for k, v := range p {
		c[k] = v
	}
	return c
}

// defaultArgs gives parameter values by type for a function started from outside.
func (e *Engine) defaultArgs(fn *ssa.Function) []AV {
	var out []AV
	for i, p := range fn.Params {
		out = append(out, e.paramAV(p.Type(), "p"+itoa(i)))
	}
	return out
}

// publish rewrites fresh instance paths: once an instance is handed to another
// goroutine (or returned inside a closure) it is shared.
func (e *Engine) publish(av AV) AV { return e.publishRec(av, 0, map[int]bool{}) }

func (e *Engine) publishRec(av AV, depth int, seen map[int]bool) AV {
	out := AV{}
	for t := range av {
		if t.K == tSnap {
			continue
		}
		if t.P != "" && isFresh(t.P) {
			if lt := e.pathType[t.P]; lt != nil {
				t.P = e.instPath(lt, "shared#"+accessOf(t.P)[len("new#"):])
			}
		}
		if t.K == tCell && depth < 4 && !seen[t.N] {
			// what the shared cell holds is shared as well
			seen[t.N] = true
			if c := e.cells[t.N]; c != nil {
				e.cells[t.N] = e.publishRec(c, depth+1, seen)
			}
		}
		out.add(t)
	}
	return out
}

// spawn analyses a function that runs outside the current critical section: a
// goroutine body, a timer or library callback, or a closure returned to the caller.
func (e *Engine) spawn(fc *fnCtx, in ssa.Instruction, t target, kind string) {
	var args, free []AV
	for _, a := range t.args {
		args = append(args, e.publish(a))
	}
	for _, a := range t.free {
		free = append(free, e.publish(a))
	}
	child := e.analyze(in, t.fn, true, map[string]held{}, map[int]Tag{}, args, free)
	fc.addCall(in, child, kind)
}

func (e *Engine) runDefers(fc *fnCtx, st *state, in ssa.Instruction, grew *bool) []*state {
	states := []*state{st}
	defers := st.defers
	st.defers = nil
	for i := len(defers) - 1; i >= 0; i-- {
		d := defers[i]
		var next []*state
		for _, s := range states {
			switch d.kind {
			case "sync":
				next = append(next, e.applySync(fc, s, d.call.instr, d.call.syncOp, d.call.syncRcv, true)...)
			case "call":
				child := e.analyze(d.call.instr, d.call.callee, false, copyLocks(s.locks), copyPub(s.pub), d.call.args, d.call.free)
				fc.addCall(d.call.instr, child, "defer")
				if child.sum != nil {
					for _, ex := range child.sum.exits {
						ns := s.clone()
						ns.locks = copyLocks(ex.locks)
						ns.pub = copyPub(ex.pub)
						next = append(next, ns)
					}
				}
			}
		}
		states = next
	}
	return states
}

func (e *Engine) syncCall(fc *fnCtx, st *state, in ssa.Instruction, kind, typ, method string, recv AV, grew *bool) []*state {
	switch kind {
	case "defer":
		st.defers = append(st.defers, deferred{kind: "sync", path: method + ":" + recv.key(), call: &callInfo{instr: in, syncOp: typ + "." + method, syncRcv: recv.clone()}})
		return []*state{st}
	case "go":
		return []*state{st}
	}
	return e.applySync(fc, st, in, typ+"."+method, recv, false)
}

// applySync interprets one operation on a mutex, RWMutex, Locker or Cond.
func (e *Engine) applySync(fc *fnCtx, st *state, in ssa.Instruction, op string, recv AV, isDefer bool) []*state {
	typ, method := splitDot(op)
	for t := range recv {
		switch {
		case t.K == tLock && (typ == "Mutex" || typ == "RWMutex" || typ == "Locker"):
			lt := e.pathType[t.P]
			if lt == nil {
				continue
			}
			switch method {
			case "Lock", "RLock":
				mode := W
				if method == "RLock" {
					mode = R
				}
				if h, ok := st.locks[t.P]; ok {
					fc.addDiag(localDiag{rule: "LK2", object: "reacquire " + lt.Name, instr: in,
						reason: "acquires the instance lock (" + method + ") while it is already held (" + h.mode.String() + "): sync locks are not reentrant"})
					return nil // this path deadlocks
				}
				site := e.siteID(fc, in)
				var heldNow []string
				for p := range st.locks {
					heldNow = append(heldNow, p)
				}
				st.locks[t.P] = held{mode: mode, site: site}
				fc.addAcq(acqEvent{inst: t.P, site: site, mode: mode, instr: in, held: heldNow})
			case "Unlock", "RUnlock":
				want := W
				if method == "RUnlock" {
					want = R
				}
				h, ok := st.locks[t.P]
				if !ok {
					fc.addDiag(localDiag{rule: "LK3", object: "unlock-unheld " + lt.Name, instr: in,
						reason: method + " of a lock that is not held on this path (fatal error at run time)"})
					return nil
				}
				if h.mode != want {
					fc.addDiag(localDiag{rule: "LK3", object: "unlock-mode " + lt.Name, instr: in,
						reason: method + " releases a lock held in mode " + h.mode.String() + " (fatal error at run time)"})
				}
				delete(st.locks, t.P)
			default:
				fc.addDiag(localDiag{rule: "LK0", object: "sync." + op, instr: in, reason: "unsupported lock operation", undecided: true})
			}
		case t.K == tCond && typ == "Cond":
			lt := e.pathType[t.P]
			if lt == nil {
				continue
			}
			switch method {
			case "Wait":
				h, ok := st.locks[t.P]
				if !ok || h.mode != W {
					fc.addDiag(localDiag{rule: "CV1", object: "wait-unlocked " + lt.Name, instr: in,
						reason: "cond.Wait without holding cond.L"})
					return nil
				}
				fc.waits = append(fc.waits, in)
				// Wait releases and re-acquires: what was read before is stale after
				site := e.siteID(fc, in)
				st.locks[t.P] = held{mode: W, site: site}
				fc.addAcq(acqEvent{inst: t.P, site: site, mode: W, instr: in, held: []string{"<wait>"}})
			case "Signal", "Broadcast":
			}
		}
	}
	return []*state{st}
}

func (fc *fnCtx) addAcq(a acqEvent) {
	k := a.inst + "|" + itoa(a.site)
	if fc.acqSeen[k] {
		return
	}
	fc.acqSeen[k] = true
	fc.acquires = append(fc.acquires, a)
}

func splitDot(s string) (string, string) {
	for i := 0; i < len(s); i++ {
		if s[i] == '.' {
			return s[:i], s[i+1:]
		}
	}
	return s, ""
}

func (e *Engine) builtin(fc *fnCtx, st *state, in ssa.Instruction, b *ssa.Builtin, c *ssa.CallCommon, resVal ssa.Value, grew *bool) []*state {
	if _, isDefer := in.(*ssa.Defer); isDefer {
		return []*state{st}
	}
	arg := func(i int) AV {
		if i < len(c.Args) {
			return fc.val(c.Args[i])
		}
		return nil
	}
	argT := func(i int) types.Type {
		if i < len(c.Args) {
			return c.Args[i].Type()
		}
		return nil
	}
	out := AV{}
	switch b.Name() {
	case "append":
		e.access(fc, st, in, arg(0), argT(0), true, "append may write into spare capacity")
		if sn := e.access(fc, st, in, arg(1), argT(1), false, "append source"); sn != nil {
			out.union(sn)
		}
		out.union(arg(0))
		out.union(arg(1).snaps())
		// element flow: what the source holds ends up in the destination
		content := e.contentOf(fc, st, arg(1), argT(1))
		e.storeInto(fc, st, arg(0), content, grew)
	case "copy":
		e.access(fc, st, in, arg(0), argT(0), true, "copy destination")
		if sn := e.access(fc, st, in, arg(1), argT(1), false, "copy source"); sn != nil {
			out.union(sn)
		}
		content := e.contentOf(fc, st, arg(1), argT(1))
		e.storeInto(fc, st, arg(0), content, grew)
	case "delete":
		e.access(fc, st, in, arg(0), argT(0), true, "map delete")
	case "clear":
		e.access(fc, st, in, arg(0), argT(0), true, "clear")
	case "len", "cap":
		if t := argT(0); t != nil {
			switch t.Underlying().(type) {
			case *types.Map, *types.Chan:
				if sn := e.access(fc, st, in, arg(0), t, false, b.Name()+" of map"); sn != nil {
					out.union(sn)
				}
			}
		}
		out.union(arg(0).snaps())
	default:
		for i := range c.Args {
			out.union(arg(i).snaps())
		}
	}
	if resVal != nil {
		if fc.setVal(resVal, filterFor(resVal.Type(), out)) {
			*grew = true
		}
	}
	return []*state{st}
}

// contentOf approximates what the elements of a slice value hold.
func (e *Engine) contentOf(fc *fnCtx, st *state, av AV, ty types.Type) AV {
	out := AV{}
	if ty == nil {
		return out
	}
	var elem types.Type
	switch u := ty.Underlying().(type) {
	case *types.Slice:
		elem = u.Elem()
	case *types.Basic:
		return out // string
	default:
		return out
	}
	for t := range av {
		e.loadTags(fc, st, t, elem, out)
	}
	return filterFor(elem, out)
}

type atomicInfo struct {
	name  string
	write bool
}

// atomicOp classifies a call into sync/atomic (function or method).
func atomicOp(c *ssa.CallCommon) (atomicInfo, bool) {
	f := core.Canon(c.StaticCallee())
	if f == nil {
		return atomicInfo{}, false
	}
	var pkg *types.Package
	if f.Pkg != nil {
		pkg = f.Pkg.Pkg
	} else if f.Object() != nil {
		pkg = f.Object().Pkg()
	}
	if pkg == nil || pkg.Path() != "sync/atomic" {
		return atomicInfo{}, false
	}
	n := f.Name()
	write := !(len(n) >= 4 && n[:4] == "Load")
	return atomicInfo{name: "atomic." + n, write: write}, true
}
