package lockset

import (
	"go/constant"
	"go/token"
	"go/types"
	"sort"
	"strings"

	"golang.org/x/tools/go/ssa"

	"gogucheck/core"
)

// condRules evaluates CV2 (wait in a loop that re-reads its predicate) and CV3 (no
// lost wake-up: every store that can end the wait is followed, before the lock is
// released, by a Signal/Broadcast or by scheduling one on a timer).
func (w *walker) condRules() {
	e := w.e
	type pred struct {
		lt    *LockType
		field int
		stay  bool // value of the field while the waiter keeps waiting
	}
	var preds []pred
	seenWait := map[ssa.Instruction]bool{}
	var fcs []*fnCtx
	for _, fc := range e.memo {
		fcs = append(fcs, fc)
	}
	sort.Slice(fcs, func(i, j int) bool { return fcs[i].key < fcs[j].key })
	for _, fc := range fcs {
		for _, wi := range fc.waits {
			if seenWait[wi] {
				continue
			}
			seenWait[wi] = true
			call := wi.(*ssa.Call)
			var lt *LockType
			for t := range fc.val(call.Call.Args[0]) {
				if t.K == tCond {
					lt = e.pathType[t.P]
				}
			}
			if lt == nil {
				continue
			}
			fn := fc.fn
			// the strongly connected region around the wait
			wb := wi.Block()
			fwd := reachFrom(wb, false)
			bwd := reachFrom(wb, true)
			inLoop := map[*ssa.BasicBlock]bool{}
			for b := range fwd {
				if bwd[b] {
					inLoop[b] = true
				}
			}
			selfLoop := false
			for _, s := range wb.Succs {
				if inLoop[s] && (s != wb || true) {
					selfLoop = true
				}
			}
			found := 0
			if len(inLoop) > 0 && selfLoop && fwd[wb] {
				for b := range inLoop {
					iff, ok := b.Instrs[len(b.Instrs)-1].(*ssa.If)
					if !ok {
						continue
					}
					exitIdx := -1
					for i, s := range b.Succs {
						if !inLoop[s] {
							exitIdx = i
						}
					}
					if exitIdx < 0 && len(b.Succs) == 2 {
						// a test in the middle of a compound predicate (a && (b || c)):
						// neither edge leaves the loop at once. The staying edge is the one
						// from which the loop cannot be left without waiting again.
						e0 := leavesWithoutWaiting(b.Succs[0], wb, inLoop)
						e1 := leavesWithoutWaiting(b.Succs[1], wb, inLoop)
						if e0 && !e1 {
							exitIdx = 0
						} else if e1 && !e0 {
							exitIdx = 1
						}
					}
					if exitIdx < 0 {
						continue
					}
					// condition: [!] load of a slot of the instance
					neg := false
					c := iff.Cond
					if u, ok := c.(*ssa.UnOp); ok && u.Op == token.NOT {
						neg = true
						c = u.X
					}
					ld, ok := c.(*ssa.UnOp)
					if !ok || ld.Op != token.MUL {
						continue
					}
					fa, ok := ld.X.(*ssa.FieldAddr)
					if !ok || e.T.LockTypeOf(fa.X.Type()) != lt {
						continue
					}
					if bt, ok := ld.Type().Underlying().(*types.Basic); !ok || bt.Kind() != types.Bool {
						continue
					}
					// staying edge is the other successor
					stayOnTrue := exitIdx == 1
					stayVal := stayOnTrue // cond value while staying
					fieldVal := stayVal
					if neg {
						fieldVal = !stayVal
					}
					preds = append(preds, pred{lt: lt, field: fa.Field, stay: fieldVal})
					found++
				}
			}
			ok := found > 0
			w.res.Obligations = append(w.res.Obligations, Obligation{Rule: "CV2", OK: ok, LockType: lt.Name, Sample: map[string]any{
				"rule": "CV2", "function": e.P.FuncName(fn), "wait_at": e.P.InstrPos(wi), "predicate_tests_in_loop": found}})
			if !ok {
				w.res.Findings = append(w.res.Findings, Finding{Rule: "CV2", Func: e.P.FuncName(fn), Object: "wait-loop " + lt.Name, LockType: lt.Name,
					Pos: e.P.InstrPos(wi), Reason: "cond.Wait is not inside a loop that re-tests a predicate field of the instance after every wake-up"})
			}
		}
	}
	if len(preds) == 0 {
		return
	}
	// CV3 over every store to a predicate field in the module
	for _, fn := range e.P.Funcs {
		for _, b := range fn.Blocks {
			for i, in := range b.Instrs {
				st, ok := in.(*ssa.Store)
				if !ok {
					continue
				}
				fa, ok := st.Addr.(*ssa.FieldAddr)
				if !ok {
					continue
				}
				if _, isAlloc := fa.X.(*ssa.Alloc); isAlloc {
					continue
				}
				lt := e.T.LockTypeOf(fa.X.Type())
				if lt == nil {
					continue
				}
				for _, p := range preds {
					if p.lt != lt || p.field != fa.Field {
						continue
					}
					if c, ok := st.Val.(*ssa.Const); ok && c.Value != nil && c.Value.Kind() == constant.Bool && constant.BoolVal(c.Value) == p.stay {
						w.res.Obligations = append(w.res.Obligations, Obligation{Rule: "CV3", OK: true, LockType: lt.Name, Sample: map[string]any{
							"rule": "CV3", "function": e.P.FuncName(fn), "store": lt.Slot(fa.Field), "value": p.stay, "needs_wake": false, "at": e.P.InstrPos(in)}})
						continue
					}
					// a flag that is only ever set to the releasing value releases every
					// waiter at once: all of them must be woken (Broadcast, not Signal)
					sticky := stickyFlag(e, lt, fa.Field, !p.stay)
					woken := wakeFollows(b, i+1, sticky)
					w.res.Obligations = append(w.res.Obligations, Obligation{Rule: "CV3", OK: woken, LockType: lt.Name, Sample: map[string]any{
						"rule": "CV3", "function": e.P.FuncName(fn), "store": lt.Slot(fa.Field), "needs_wake": true, "releases_all_waiters": sticky, "wake_on_every_path": woken, "at": e.P.InstrPos(in)}})
					if !woken {
						w.res.Findings = append(w.res.Findings, Finding{Rule: "CV3", Func: e.P.FuncName(fn), Object: "lost-wakeup " + lt.Slot(fa.Field), LockType: lt.Name,
							Pos: e.P.InstrPos(in), Reason: wakeReason(sticky)})
					}
					break
				}
			}
		}
	}
}

func reachFrom(b *ssa.BasicBlock, backward bool) map[*ssa.BasicBlock]bool {
	seen := map[*ssa.BasicBlock]bool{}
	var work []*ssa.BasicBlock
	next := func(x *ssa.BasicBlock) []*ssa.BasicBlock {
		if backward {
			return x.Preds
		}
		return x.Succs
	}
	work = append(work, next(b)...)
	for len(work) > 0 {
		x := work[len(work)-1]
		work = work[:len(work)-1]
		if seen[x] {
			continue
		}
		seen[x] = true
		work = append(work, next(x)...)
	}
	return seen
}

func wakeReason(sticky bool) string {
	if sticky {
		return "a store that releases every waiter at once (the flag is never reset) is not followed on every path, before the lock is released, by Broadcast (Signal wakes only one of them; the others wait forever)"
	}
	return "a store that can end a waiter's wait is not followed on every path, before the lock is released, by Signal/Broadcast (or a timer scheduling one)"
}

// stickyFlag: every store to the field outside initialisation stores the constant val.
func stickyFlag(e *Engine, lt *LockType, field int, val bool) bool {
	n := 0
	for _, fn := range e.P.Funcs {
		for _, b := range fn.Blocks {
			for _, in := range b.Instrs {
				st, ok := in.(*ssa.Store)
				if !ok {
					continue
				}
				fa, ok := st.Addr.(*ssa.FieldAddr)
				if !ok || fa.Field != field || e.T.LockTypeOf(fa.X.Type()) != lt {
					continue
				}
				if _, isAlloc := fa.X.(*ssa.Alloc); isAlloc {
					continue
				}
				n++
				c, ok := st.Val.(*ssa.Const)
				if !ok || c.Value == nil || c.Value.Kind() != constant.Bool || constant.BoolVal(c.Value) != val {
					return false
				}
			}
		}
	}
	return n > 0
}

// isWake: a call of (*sync.Cond).Signal/Broadcast, or time.AfterFunc whose function
// argument is a bound Signal/Broadcast. With broadcastOnly, Signal does not count.
func isWake(in ssa.Instruction, broadcastOnly bool) bool {
	c, ok := in.(*ssa.Call)
	if !ok {
		return false
	}
	callee := core.Canon(c.Call.StaticCallee())
	if callee == nil {
		return false
	}
	if typ, m, ok := syncRecvName(callee); ok && typ == "Cond" && (m == "Broadcast" || (m == "Signal" && !broadcastOnly)) {
		return true
	}
	if callee.Pkg != nil && callee.Pkg.Pkg.Path() == "time" && callee.Name() == "AfterFunc" && len(c.Call.Args) == 2 {
		if mc, ok := c.Call.Args[1].(*ssa.MakeClosure); ok {
			if f, ok := mc.Fn.(*ssa.Function); ok {
				name := f.Name()
				return strings.HasSuffix(name, "Broadcast$bound") || (strings.HasSuffix(name, "Signal$bound") && !broadcastOnly)
			}
		}
	}
	return false
}

func isRelease(in ssa.Instruction) bool {
	switch x := in.(type) {
	case *ssa.Return, *ssa.RunDefers:
		return true
	case *ssa.Call:
		callee := core.Canon(x.Call.StaticCallee())
		if callee != nil {
			if _, m, ok := syncRecvName(callee); ok && (m == "Unlock" || m == "RUnlock" || m == "Wait") {
				return true
			}
		}
		if x.Call.IsInvoke() && (x.Call.Method.Name() == "Unlock") {
			return true
		}
	}
	return false
}

// wakeFollows: on every path from (b, idx) a wake instruction occurs before the
// lock is released.
func wakeFollows(b *ssa.BasicBlock, idx int, broadcastOnly bool) bool {
	seen := map[*ssa.BasicBlock]bool{}
	var visit func(b *ssa.BasicBlock, i int) bool
	visit = func(b *ssa.BasicBlock, i int) bool {
		for ; i < len(b.Instrs); i++ {
			in := b.Instrs[i]
			if isWake(in, broadcastOnly) {
				return true
			}
			if isRelease(in) {
				return false
			}
		}
		if len(b.Succs) == 0 {
			return true // panic path
		}
		for _, s := range b.Succs {
			if seen[s] {
				continue
			}
			seen[s] = true
			if !visit(s, 0) {
				return false
			}
		}
		return true
	}
	return visit(b, idx)
}

// leavesWithoutWaiting: from block from, a block outside the loop can be reached
// without passing through the block of the wait.
func leavesWithoutWaiting(from, wait *ssa.BasicBlock, inLoop map[*ssa.BasicBlock]bool) bool {
	seen := map[*ssa.BasicBlock]bool{}
	var rec func(b *ssa.BasicBlock) bool
	rec = func(b *ssa.BasicBlock) bool {
		if !inLoop[b] {
			return true
		}
		if b == wait || seen[b] {
			return false
		}
		seen[b] = true
		for _, s := range b.Succs {
			if rec(s) {
				return true
			}
		}
		return false
	}
	return rec(from)
}
