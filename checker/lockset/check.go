package lockset

import (
	"fmt"
	"go/token"
	"go/types"
	"sort"
	"strings"

	"golang.org/x/tools/go/ssa"

	"gogucheck/core"
)

// Finding is one rule violation (or undecided construct) found by the engine.
type Finding struct {
	Rule      string
	Func      string // operation root (entry point, goroutine body, callback)
	Object    string
	Pos       string
	Reason    string
	Path      []string
	LockType  string // name of the lock-bearing type concerned ("" = engine level)
	Undecided bool
}

// Obligation is one checked rule instance.
type Obligation struct {
	Rule     string
	OK       bool
	LockType string
	Sample   map[string]any
}

// Result is what one run of the engine produced.
type Result struct {
	Findings    []Finding
	Obligations []Obligation
	Entries     []string
	Spawned     []string
	Contexts    int
	Functions   map[string]bool
	Regions     map[string]map[string]int // operation root -> lock type -> number of critical sections
	Info        []string
	OrderEdges  []string
	Tables      *Tables
	Exceptions  []string
}

type root struct {
	name string
	fc   *fnCtx
	fn   *ssa.Function
}

// Entries lists the API entry points: exported functions and methods whose
// signature mentions a lock-bearing (or wrapper) type of their own package, or that
// allocate a lock-bearing instance (constructors, which may start goroutines or
// return closures).
func (e *Engine) Entries() []*ssa.Function {
	var out []*ssa.Function
	for _, fn := range e.P.Funcs {
		if fn.Parent() != nil || fn.Object() == nil || !fn.Object().Exported() || len(fn.Blocks) == 0 {
			continue
		}
		if e.mentionsLockType(fn) || e.allocatesLockType(fn) {
			out = append(out, fn)
		}
	}
	return out
}

func (e *Engine) ownLockOrOuter(fn *ssa.Function, ty types.Type) bool {
	n := originNamed(ty)
	if n == nil || n.Obj().Pkg() == nil || fn.Pkg == nil || n.Obj().Pkg() != fn.Pkg.Pkg {
		return false
	}
	return e.T.Lock[n.Obj()] != nil || e.T.Outer[n.Obj()]
}

func (e *Engine) mentionsLockType(fn *ssa.Function) bool {
	sig := fn.Signature
	if r := sig.Recv(); r != nil && e.ownLockOrOuter(fn, r.Type()) {
		return true
	}
	for i := 0; i < sig.Params().Len(); i++ {
		if e.ownLockOrOuter(fn, sig.Params().At(i).Type()) {
			return true
		}
	}
	for i := 0; i < sig.Results().Len(); i++ {
		if e.ownLockOrOuter(fn, sig.Results().At(i).Type()) {
			return true
		}
	}
	return false
}

func (e *Engine) allocatesLockType(fn *ssa.Function) bool {
	for _, b := range fn.Blocks {
		for _, in := range b.Instrs {
			if a, ok := in.(*ssa.Alloc); ok && e.T.LockTypeOf(a.Type()) != nil {
				return true
			}
		}
	}
	return false
}

// Run interprets every entry point to a global fixpoint and evaluates the rules.
func (e *Engine) Run() *Result {
	entries := e.Entries()
	var roots []root
	for round := 0; round < 10; round++ {
		e.memo = map[string]*fnCtx{}
		e.changed = false
		roots = roots[:0]
		for _, fn := range entries {
			var args []AV
			for i, p := range fn.Params {
				args = append(args, e.paramAV(p.Type(), "p"+itoa(i)))
			}
			fc := e.analyze(nil, fn, true, map[string]held{}, map[int]Tag{}, args, nil)
			roots = append(roots, root{name: e.P.FuncName(fn), fc: fc, fn: fn})
		}
		if !e.changed && round > 0 {
			break
		}
	}
	e.DebugDump()
	res := &Result{Functions: map[string]bool{}, Regions: map[string]map[string]int{}, Tables: e.T}
	res.Contexts = len(e.memo)
	entrySet := map[*ssa.Function]bool{}
	for _, r := range roots {
		entrySet[r.fn] = true
		res.Entries = append(res.Entries, r.name)
	}
	w := &walker{e: e, res: res, entrySet: entrySet, rootDone: map[*fnCtx]bool{}, edges: map[string]string{}}
	for _, r := range roots {
		w.walkRoot(r.name, r.fc, []string{r.name})
	}
	w.lockOrder()
	w.condRules()
	sort.Strings(res.Entries)
	sort.Strings(res.Spawned)
	return res
}

// ---------------------------------------------------------------------------
// control dependence on the feasible sub-CFG

type ctlInfo struct {
	taint map[int]AV // block index -> snapshot taints of the branch conditions it depends on
}

func (c *ctlInfo) key() string {
	var ks []int
	for k := range c.taint {
		ks = append(ks, k)
	}
	sort.Ints(ks)
	var sb strings.Builder
	for _, k := range ks {
		fmt.Fprintf(&sb, "%d:%s;", k, c.taint[k].key())
	}
	return sb.String()
}

// implicit returns the snapshot taints that decide whether block b executes.
func (fc *fnCtx) implicit(b *ssa.BasicBlock) AV {
	if fc.ctlCur == nil || b == nil {
		return nil
	}
	return fc.ctlCur.taint[b.Index]
}

// edgeImplicit: taints deciding that control arrives from pred.
func (fc *fnCtx) edgeImplicit(pred *ssa.BasicBlock) AV {
	out := AV{}
	out.union(fc.implicit(pred))
	if iff, ok := pred.Instrs[len(pred.Instrs)-1].(*ssa.If); ok {
		out.union(fc.val(iff.Cond).snaps())
	}
	return out
}

func (e *Engine) ctl(fc *fnCtx) *ctlInfo {
	fn := fc.fn
	n := len(fn.Blocks)
	ci := &ctlInfo{taint: map[int]AV{}}
	if n == 0 {
		return ci
	}
	succs := make([][]int, n+1)
	reach := make([]bool, n+1)
	for ed := range fc.feasible {
		succs[ed[0]] = append(succs[ed[0]], ed[1])
		reach[ed[0]], reach[ed[1]] = true, true
	}
	reach[0] = true
	exit := n
	for i := 0; i < n; i++ {
		if reach[i] && len(succs[i]) == 0 {
			succs[i] = append(succs[i], exit)
		}
	}
	// post-dominator sets by iteration
	full := func() map[int]bool {
		m := make(map[int]bool, n+1)
		for i := 0; i <= n; i++ {
			m[i] = true
		}
		return m
	}
	pdom := make([]map[int]bool, n+1)
	for i := 0; i <= n; i++ {
		pdom[i] = full()
	}
	pdom[exit] = map[int]bool{exit: true}
	for changed := true; changed; {
		changed = false
		for i := n - 1; i >= 0; i-- {
			if !reach[i] {
				continue
			}
			var inter map[int]bool
			for _, s := range succs[i] {
				if inter == nil {
					inter = map[int]bool{}
					for k := range pdom[s] {
						inter[k] = true
					}
				} else {
					for k := range inter {
						if !pdom[s][k] {
							delete(inter, k)
						}
					}
				}
			}
			if inter == nil {
				inter = map[int]bool{}
			}
			inter[i] = true
			if len(inter) != len(pdom[i]) {
				pdom[i] = inter
				changed = true
			}
		}
	}
	// direct control dependence
	dep := make([][]int, n) // block -> branch blocks it depends on
	for a := 0; a < n; a++ {
		if !reach[a] || len(succs[a]) < 2 {
			continue
		}
		for b := 0; b < n; b++ {
			if !reach[b] {
				continue
			}
			strict := pdom[a][b] && a != b
			if strict {
				continue
			}
			for _, s := range succs[a] {
				if s != exit && pdom[s][b] {
					dep[b] = append(dep[b], a)
					break
				}
			}
		}
	}
	condTaint := func(a int) AV {
		blk := fn.Blocks[a]
		if iff, ok := blk.Instrs[len(blk.Instrs)-1].(*ssa.If); ok {
			return fc.val(iff.Cond).snaps()
		}
		return nil
	}
	for b := 0; b < n; b++ {
		if !reach[b] {
			continue
		}
		acc := AV{}
		seen := map[int]bool{}
		var visit func(x int)
		visit = func(x int) {
			for _, a := range dep[x] {
				if seen[a] {
					continue
				}
				seen[a] = true
				acc.union(condTaint(a))
				visit(a)
			}
		}
		visit(b)
		ci.taint[b] = acc
	}
	return ci
}

// ---------------------------------------------------------------------------

type walker struct {
	e        *Engine
	res      *Result
	entrySet map[*ssa.Function]bool
	rootDone map[*fnCtx]bool
	edges    map[string]string // "A->B" -> where
	ctlCache map[*fnCtx]*ctlInfo
}

type opScope struct {
	writeSites    map[string]map[int]string // instance path -> writing critical sections -> position
	writeSitesAll map[string]map[int]string // same, every site under which a write was seen
	root          string
	rootFn        *ssa.Function
	sites         map[string]map[int]Mode // lock type name -> critical-section sites
	at1Seen       map[string]bool
	visiting      map[*fnCtx]int
}

func (w *walker) ctlOf(fc *fnCtx) *ctlInfo {
	if w.ctlCache == nil {
		w.ctlCache = map[*fnCtx]*ctlInfo{}
	}
	if c, ok := w.ctlCache[fc]; ok {
		return c
	}
	c := fc.ctlCur
	if c == nil {
		c = w.e.ctl(fc)
	}
	w.ctlCache[fc] = c
	return c
}

func (sc *opScope) allWriteSites(inst string) map[int]string {
	if sc.writeSitesAll[inst] == nil {
		sc.writeSitesAll[inst] = map[int]string{}
	}
	return sc.writeSitesAll[inst]
}

func (w *walker) walkRoot(name string, fc *fnCtx, path []string) {
	if w.rootDone[fc] {
		return
	}
	w.rootDone[fc] = true
	sc := &opScope{root: name, rootFn: fc.fn, sites: map[string]map[int]Mode{}, at1Seen: map[string]bool{}, visiting: map[*fnCtx]int{}, writeSites: map[string]map[int]string{}, writeSitesAll: map[string]map[int]string{}}
	w.walk(sc, fc, AV{}, path, false, nil)
	// AT2: one state-changing critical section per operation and instance. Two
	// writing sections on the receiver expose an intermediate state to other
	// goroutines even when nothing flows between them. Only instances handed in as
	// parameters count (sub-objects reached through slots are information), and a
	// single acquisition site executed repeatedly (a loop over elements) is one
	// multi-element composition, not a violation.
	var insts []string
	for inst := range sc.writeSites {
		insts = append(insts, inst)
	}
	sort.Strings(insts)
	for _, inst := range insts {
		ws := sc.writeSites[inst]
		if len(ws) < 2 || isFresh(inst) {
			continue
		}
		lt := w.lockTypeName(inst)
		var where []string
		for _, p := range ws {
			where = append(where, p)
		}
		sort.Strings(where)
		acc := accessOf(inst)
		direct := !strings.Contains(strings.TrimSuffix(acc, ".cache"), ".")
		if !direct {
			w.res.Info = append(w.res.Info, fmt.Sprintf("AT2 %s: %d writing critical sections on the sub-object %s (%s): concurrent calls interleave their effects on it", name, len(ws), lt, strings.Join(where, ", ")))
			continue
		}
		w.res.Obligations = append(w.res.Obligations, Obligation{Rule: "AT2", OK: false, LockType: lt,
			Sample: map[string]any{"rule": "AT2", "operation": name, "lock": lt, "writing_sections": len(ws)}})
		w.res.Findings = append(w.res.Findings, Finding{Rule: "AT2", Func: name, Object: "sections " + lt, LockType: lt, Pos: where[len(where)-1], Path: path,
			Reason: fmt.Sprintf("the operation changes the instance in %d separate critical sections (%s): other goroutines can observe the intermediate state", len(ws), strings.Join(where, ", "))})
	}
	// AT1, result part: the value an operation returns must be read in the critical
	// section that applies its effect. A result that is a snapshot taken in one
	// section while a *different* section of the same instance writes is the
	// read-then-remove split (Pop built from Peek + truncate): two callers can be
	// handed the same element while two are removed.
	if fc.sum != nil {
		// values are flow-insensitive while lock sites are flow-sensitive (a section
		// re-entered after cond.Wait carries two sites): report only when none of the
		// result's snapshots of an instance was taken in one of its writing sections.
		snapSites := map[string]map[int]bool{}
		// only the data flow into the result counts here: which return executes may
		// well be decided inside the writing section (the empty test of a remover)
		for t := range fc.sum.data {
			if t.K != tSnap || isFresh(t.P) {
				continue
			}
			if snapSites[t.P] == nil {
				snapSites[t.P] = map[int]bool{}
			}
			snapSites[t.P][t.N] = true
		}
		var ps []string
		for inst := range snapSites {
			ps = append(ps, inst)
		}
		sort.Strings(ps)
		for _, inst := range ps {
			ws := sc.writeSitesAll[inst]
			if len(ws) == 0 {
				continue
			}
			// a result snapshot taken in a section that is not one of the writing
			// sections (a section entered again after cond.Wait counts as writing when
			// the write can execute under it)
			first := -1
			for n := range snapSites[inst] {
				if _, ok := ws[n]; ok {
					continue
				}
				if first < 0 || n < first {
					first = n
				}
			}
			if first < 0 {
				continue
			}
			lt := w.lockTypeName(inst)
			var where []string
			for _, p := range ws {
				where = append(where, p)
			}
			sort.Strings(where)
			posA := "-"
			if ia := w.e.siteInstr[first]; ia != nil {
				posA = w.e.P.InstrPos(ia)
			}
			sc.at1Seen[lt] = true
			w.res.Findings = append(w.res.Findings, Finding{Rule: "AT1", Func: name, Object: "atomicity " + lt, LockType: lt, Pos: where[len(where)-1], Path: path,
				Reason: fmt.Sprintf("the value returned was read in the critical section acquired at %s while the operation's effect is applied in another critical section of the same lock (%s): result and effect are not one atomic step", posA, strings.Join(where, ", "))})
		}
	}
	// per-operation AT1 obligations and region counts
	regs := map[string]int{}
	for lt, s := range sc.sites {
		regs[lt] = len(s)
		ok := !sc.at1Seen[lt]
		w.res.Obligations = append(w.res.Obligations, Obligation{Rule: "AT1", OK: ok, LockType: lt,
			Sample: map[string]any{"rule": "AT1", "operation": name, "lock": lt, "critical_sections": len(s), "independent": ok}})
	}
	w.res.Regions[name] = regs
}

func (w *walker) lockTypeName(path string) string {
	if lt := w.e.pathType[path]; lt != nil {
		return lt.Name
	}
	return ""
}

func slotType(object string) string {
	// "write Heap.data" -> "Heap"
	f := strings.Fields(object)
	if len(f) < 2 {
		return ""
	}
	if i := strings.IndexByte(f[1], '.'); i >= 0 {
		return f[1][:i]
	}
	return f[1]
}

// walk visits the call tree below fc within one operation scope. ctlAcc carries the
// snapshot taints of every branch the current call is control dependent on. When
// dupSites is non-nil the subtree belongs to a callee that is an entry point of its
// own and is reported there.
func (w *walker) walk(sc *opScope, fc *fnCtx, ctlAcc AV, path []string, dup bool, dupSites map[int]bool) {
	if sc.visiting[fc] > 0 {
		return
	}
	sc.visiting[fc]++
	defer func() { sc.visiting[fc]-- }()
	e := w.e
	w.res.Functions[e.P.FuncName(fc.fn)] = true
	ci := w.ctlOf(fc)
	blockTaint := func(in ssa.Instruction) AV {
		acc := ctlAcc.clone()
		if in != nil && in.Block() != nil {
			acc.union(ci.taint[in.Block().Index])
		}
		return acc
	}
	for _, a := range fc.accesses {
		if a.write && a.exempt == "" && a.held == W && a.site != 0 {
			if sc.writeSites[a.inst] == nil {
				sc.writeSites[a.inst] = map[int]string{}
			}
			if ia := e.siteInstr[a.site]; ia != nil {
				sc.writeSites[a.inst][a.site] = e.P.InstrPos(ia)
			}
			for n := range a.sites {
				if ia := e.siteInstr[n]; ia != nil && n != 0 {
					sc.allWriteSites(a.inst)[n] = e.P.InstrPos(ia)
				}
			}
		}
	}
	if !dup {
		for _, d := range fc.diags {
			pos := "-"
			if d.instr != nil {
				pos = e.P.InstrPos(d.instr)
			}
			lt := slotType(d.object)
			if strings.HasPrefix(d.rule, "LK2") || strings.HasPrefix(d.rule, "LK3") || strings.HasPrefix(d.rule, "CV") {
				f := strings.Fields(d.object)
				if len(f) == 2 {
					lt = f[1]
				}
			}
			w.res.Findings = append(w.res.Findings, Finding{Rule: d.rule, Func: sc.root, Object: d.object, Pos: pos,
				Reason: d.reason, Path: append([]string(nil), path...), LockType: lt, Undecided: d.undecided})
		}
		var keys []string
		for k := range fc.accesses {
			keys = append(keys, k)
		}
		sort.Strings(keys)
		for _, k := range keys {
			a := fc.accesses[k]
			lt := w.lockTypeName(a.inst)
			ok := a.exempt != "" || a.held >= a.need || a.atomic // atomic accesses are race-free; AT3 judges them
			verb := "R"
			if a.write {
				verb = "W"
			}
			w.res.Obligations = append(w.res.Obligations, Obligation{Rule: "LK1", OK: ok, LockType: lt, Sample: map[string]any{
				"rule": "LK1", "entry": sc.root, "path": append([]string(nil), path[1:]...), "object": a.slot, "need": verb,
				"held": a.held.String(), "exempt": a.exempt, "at": e.P.InstrPos(a.instr)}})
		}
		if len(fc.blocking) > 0 && len(fc.lockIn) > 0 {
			w.res.Info = append(w.res.Info, fmt.Sprintf("LK6 %s: %s while a lock is held (re-entrancy hazard for callbacks) [%s]",
				e.P.FuncName(fc.fn), strings.Join(uniq(fc.blocking), ","), strings.Join(path, " > ")))
		}
	}
	for _, a := range fc.acquires {
		lt := w.lockTypeName(a.inst)
		if sc.sites[lt] == nil {
			sc.sites[lt] = map[int]Mode{}
		}
		sc.sites[lt][a.site] = a.mode
		if !dup {
			w.res.Obligations = append(w.res.Obligations, Obligation{Rule: "LK2", OK: true, LockType: lt, Sample: map[string]any{
				"rule": "LK2/LK3", "entry": sc.root, "lock": lt, "mode": a.mode.String(), "at": e.P.InstrPos(a.instr)}})
		}
		isWait := len(a.held) == 1 && a.held[0] == "<wait>"
		if !isWait {
			for _, h := range a.held {
				if isFresh(h) || isFresh(a.inst) {
					continue // an unpublished instance cannot be held by anyone else
				}
				from, to := w.lockTypeName(h), lt
				k := from + "->" + to
				if from == to && h != a.inst {
					k = from + "->" + to + " (two instances)"
				}
				if _, ok := w.edges[k]; !ok {
					w.edges[k] = e.P.InstrPos(a.instr) + " in " + strings.Join(path, " > ")
				}
			}
			// AT1, control part: is this acquisition decided by what an earlier
			// critical section on the same instance saw?
			for t := range blockTaint(a.instr) {
				if t.K == tSnap && t.P == a.inst && t.N != a.site {
					if dupSites != nil && dupSites[t.N] && dupSites[a.site] {
						continue
					}
					w.at1(sc, fc, a.inst, t.N, a.site, a.instr, path, "whether this critical section runs depends on a value read in an earlier critical section of the same lock (check-then-act)")
				}
			}
		}
	}
	for _, s := range fc.stale {
		if dupSites != nil && dupSites[s.siteA] && dupSites[s.siteB] {
			continue
		}
		w.at1(sc, fc, s.inst, s.siteA, s.siteB, s.instr, path, "a value read in an earlier critical section of the same lock is used in this one (stale snapshot)")
	}
	for _, c := range fc.calls {
		name := e.P.FuncName(c.child.fn)
		switch c.kind {
		case "call", "defer":
			cdup, cds := dup, dupSites
			if !dup && w.entrySet[c.child.fn] && len(c.child.lockIn) == 0 {
				cdup = true
				cds = w.subSites(c.child, map[*fnCtx]bool{})
			}
			w.walk(sc, c.child, blockTaint(c.instr), append(append([]string(nil), path...), name), cdup, cds)
		default:
			label := c.kind + " " + name
			w.res.Spawned = append(w.res.Spawned, name)
			w.walkRoot(name, c.child, append(append([]string(nil), path...), label))
		}
	}
}

func uniq(s []string) []string {
	m := map[string]bool{}
	var out []string
	for _, x := range s {
		if !m[x] {
			m[x] = true
			out = append(out, x)
		}
	}
	sort.Strings(out)
	return out
}

func (w *walker) subSites(fc *fnCtx, seen map[*fnCtx]bool) map[int]bool {
	out := map[int]bool{}
	var rec func(f *fnCtx)
	rec = func(f *fnCtx) {
		if seen[f] {
			return
		}
		seen[f] = true
		for _, a := range f.acquires {
			out[a.site] = true
		}
		for _, c := range f.calls {
			if c.kind == "call" || c.kind == "defer" {
				rec(c.child)
			}
		}
	}
	rec(fc)
	return out
}

func (w *walker) at1(sc *opScope, fc *fnCtx, inst string, siteA, siteB int, in ssa.Instruction, path []string, why string) {
	lt := w.lockTypeName(inst)
	if w.clearException(sc, lt) {
		return
	}
	sc.at1Seen[lt] = true
	posA := "-"
	if ia := w.e.siteInstr[siteA]; ia != nil {
		posA = w.e.P.InstrPos(ia)
	}
	w.res.Findings = append(w.res.Findings, Finding{Rule: "AT1", Func: sc.root, Object: "atomicity " + lt, LockType: lt,
		Pos: w.e.P.InstrPos(in), Path: append([]string(nil), path...),
		Reason: fmt.Sprintf("%s; earlier critical section acquired at %s", why, posA)})
}

// clearException validates, on every run, the one reviewed exception to AT1: an
// operation of the form "if size-read-under-RLock == 0 { return }; Lock; slot =
// slot[:0]; Unlock". The skipped branch is a no-op consistent with the read and the
// second section is a state-independent truncation, so the operation is
// linearizable although it has two critical sections. The exception is granted by
// shape and lapses as soon as the function stops having it.
func (w *walker) clearException(sc *opScope, lt string) bool {
	fn := sc.rootFn
	name := w.e.P.FuncName(fn)
	if name != "heap.(*Heap).Clear" {
		return false
	}
	stores := 0
	okShape := true
	for _, b := range fn.Blocks {
		for _, in := range b.Instrs {
			switch x := in.(type) {
			case *ssa.Store:
				stores++
				if _, ok := x.Addr.(*ssa.FieldAddr); !ok {
					okShape = false
				}
				switch v := x.Val.(type) {
				case *ssa.Slice:
					c, ok := v.High.(*ssa.Const)
					if !ok || c.Value == nil || c.Int64() != 0 || v.Low != nil {
						okShape = false
					}
				case *ssa.Const:
					if v.Value != nil {
						okShape = false
					}
				default:
					okShape = false
				}
			case *ssa.MapUpdate:
				okShape = false
			case *ssa.Call:
				if bi, ok := x.Call.Value.(*ssa.Builtin); ok && (bi.Name() == "append" || bi.Name() == "copy" || bi.Name() == "delete" || bi.Name() == "clear") {
					okShape = false
				}
				if callee := core.Canon(x.Call.StaticCallee()); callee != nil && w.e.P.InModule(callee) {
					if !w.readOnly(callee, map[*ssa.Function]bool{}) {
						okShape = false
					}
				}
			case *ssa.If:
				bo, ok := x.Cond.(*ssa.BinOp)
				if !ok || (bo.Op != token.EQL && bo.Op != token.NEQ) {
					okShape = false
					break
				}
				c, isC := bo.Y.(*ssa.Const)
				if !isC || c.Value == nil || c.Int64() != 0 {
					okShape = false
					break
				}
				zero := b.Succs[0]
				if bo.Op == token.NEQ {
					zero = b.Succs[1]
				}
				// the empty branch returns at once (a function with a deferred unlock runs
				// its - still empty - defer list first)
				zi := zero.Instrs
				if len(zi) == 2 {
					if _, ok := zi[0].(*ssa.RunDefers); ok {
						zi = zi[1:]
					}
				}
				if len(zi) != 1 {
					okShape = false
				} else if r, ok := zi[0].(*ssa.Return); !ok || len(r.Results) != 0 {
					okShape = false
				}
			case *ssa.Defer:
				// only the deferred release of the lock
				callee := core.Canon(x.Call.StaticCallee())
				okD := false
				if callee != nil {
					if _, m, ok := syncRecvName(callee); ok && (m == "Unlock" || m == "RUnlock") {
						okD = true
					}
				}
				if !okD {
					okShape = false
				}
			case *ssa.Go, *ssa.Send:
				okShape = false
			}
		}
	}
	if stores != 1 || !okShape {
		return false
	}
	msg := "AT1 exception validated by shape: " + name + " (empty test under RLock, then state-independent truncation under Lock)"
	for _, x := range w.res.Exceptions {
		if x == msg {
			return true
		}
	}
	w.res.Exceptions = append(w.res.Exceptions, msg)
	return true
}

// readOnly: fn and its in-module callees contain no store, map update or writing builtin.
func (w *walker) readOnly(fn *ssa.Function, seen map[*ssa.Function]bool) bool {
	if seen[fn] {
		return true
	}
	seen[fn] = true
	for _, b := range fn.Blocks {
		for _, in := range b.Instrs {
			switch x := in.(type) {
			case *ssa.Store:
				if _, ok := x.Addr.(*ssa.Alloc); !ok {
					return false
				}
			case *ssa.MapUpdate, *ssa.Send, *ssa.Go:
				return false
			case ssa.CallInstruction:
				c := x.Common()
				if bi, ok := c.Value.(*ssa.Builtin); ok {
					switch bi.Name() {
					case "append", "copy", "delete", "clear":
						return false
					}
					continue
				}
				if callee := core.Canon(c.StaticCallee()); callee != nil && w.e.P.InModule(callee) {
					if !w.readOnly(callee, seen) {
						return false
					}
				}
			}
		}
	}
	return true
}

// lockOrder evaluates LK5 on the collected "held while acquiring" edges.
func (w *walker) lockOrder() {
	adj := map[string][]string{}
	var keys []string
	for k := range w.edges {
		keys = append(keys, k)
	}
	sort.Strings(keys)
	for _, k := range keys {
		w.res.OrderEdges = append(w.res.OrderEdges, k+" at "+w.edges[k])
		two := strings.HasSuffix(k, " (two instances)")
		kk := strings.TrimSuffix(k, " (two instances)")
		parts := strings.Split(kk, "->")
		from, to := parts[0], parts[1]
		if two {
			w.res.Findings = append(w.res.Findings, Finding{Rule: "LK5", Func: "lock-order", Object: "order " + from + "->" + to, LockType: from,
				Pos: w.edges[k], Reason: "the lock of one " + from + " is taken while the lock of another is held: a.Op(b) and b.Op(a) deadlock (ABBA)"})
			continue
		}
		adj[from] = append(adj[from], to)
	}
	// cycle detection
	color := map[string]int{}
	var stack []string
	var dfs func(n string)
	dfs = func(n string) {
		color[n] = 1
		stack = append(stack, n)
		for _, m := range adj[n] {
			if color[m] == 1 {
				cyc := append([]string(nil), stack...)
				cyc = append(cyc, m)
				w.res.Findings = append(w.res.Findings, Finding{Rule: "LK5", Func: "lock-order", Object: "cycle " + strings.Join(cyc, "->"), LockType: n,
					Pos: w.edges[n+"->"+m], Reason: "lock acquisition order is cyclic"})
			} else if color[m] == 0 {
				dfs(m)
			}
		}
		stack = stack[:len(stack)-1]
		color[n] = 2
	}
	var nodes []string
	for n := range adj {
		nodes = append(nodes, n)
	}
	sort.Strings(nodes)
	for _, n := range nodes {
		if color[n] == 0 {
			dfs(n)
		}
	}
	w.res.Obligations = append(w.res.Obligations, Obligation{Rule: "LK5", OK: true, Sample: map[string]any{"rule": "LK5", "edges": w.res.OrderEdges}})
}
