package lockset

import (
	"fmt"
	"go/token"
	"go/types"
	"strings"

	"golang.org/x/tools/go/ssa"

	"gogucheck/core"
)

func fieldIndex(st *types.Struct, name string) int {
	for i := 0; i < st.NumFields(); i++ {
		if st.Field(i).Name() == name {
			return i
		}
	}
	return -1
}

func structOf(t types.Type) *types.Struct {
	if p, ok := t.Underlying().(*types.Pointer); ok {
		t = p.Elem()
	}
	st, _ := t.Underlying().(*types.Struct)
	return st
}

// fieldTags computes the tags of "address of field idx of *base" for one base tag.
func (e *Engine) fieldTags(base Tag, baseType types.Type, idx int, out AV) {
	st := structOf(baseType)
	if st == nil || idx >= st.NumFields() {
		return
	}
	fname := st.Field(idx).Name()
	switch base.K {
	case tInst:
		lt := e.pathType[base.P]
		if lt != nil && idx == lt.LockField && lt.Kind == LockValue {
			out.add(Tag{K: tLock, P: base.P})
			return
		}
		out.add(Tag{K: tFieldAddr, P: base.P, F: fname})
	case tOuter:
		out.add(Tag{K: tOuterFld, P: base.P, F: fname})
	case tCond:
		if fname == "L" {
			out.add(Tag{K: tLock, P: base.P})
		}
	case tFieldAddr, tRegion:
		// a field of a struct stored by value in a slot, or deeper in the region
		out.add(Tag{K: tRegion, P: base.P, F: base.F})
	case tCell, tCaller:
		out.add(base)
	}
}

// loadTags computes the tags of the value loaded through one address tag.
func (e *Engine) loadTags(fc *fnCtx, st *state, addr Tag, resType types.Type, out AV) {
	switch addr.K {
	case tFieldAddr:
		lt := e.pathType[addr.P]
		if lt == nil {
			return
		}
		idx := fieldIndex(lt.Struct, addr.F)
		if idx < 0 {
			return
		}
		ft := lt.Struct.Field(idx).Type()
		if idx == lt.LockField {
			if lt.Kind == LockCond {
				out.add(Tag{K: tCond, P: addr.P})
			} else {
				out.add(Tag{K: tLock, P: addr.P})
			}
			return
		}
		if _, isPtr := ft.(*types.Pointer); isPtr {
			if sub := e.T.LockTypeOf(ft); sub != nil {
				out.add(Tag{K: tInst, P: e.instPath(sub, accessOf(addr.P)+"."+addr.F)})
				return
			}
		}
		if impls := e.T.IfaceImpls(ft); len(impls) > 0 {
			for _, sub := range impls {
				out.add(Tag{K: tInst, P: e.instPath(sub, accessOf(addr.P)+"."+addr.F)})
			}
			return
		}
		if mayHoldRef(resType, 0) && !e.T.ImmutablePointee(resType) {
			out.add(Tag{K: tRegion, P: addr.P, F: addr.F})
		}
	case tRegion:
		if mayHoldRef(resType, 0) && !e.T.ImmutablePointee(resType) {
			out.add(addr)
		}
	case tOuterFld:
		// field of a wrapper: pointer to an instance or to another wrapper
		if _, isPtr := resType.(*types.Pointer); isPtr {
			if sub := e.T.LockTypeOf(resType); sub != nil {
				out.add(Tag{K: tInst, P: e.instPath(sub, addr.P+"."+addr.F)})
				return
			}
		}
		if e.T.IsOuter(resType) {
			out.add(Tag{K: tOuter, P: addr.P + "." + addr.F})
		}
	case tLock, tCond:
		out.add(addr)
	case tCell:
		if pub, ok := st.pub[addr.N]; ok && mayHoldRef(resType, 0) {
			out.add(pub)
		}
		if c := e.cells[addr.N]; c != nil {
			out.union(filterFor(resType, c))
		}
	case tCaller:
		if mayHoldRef(resType, 0) {
			out.add(addr)
		}
	}
}

// access checks one memory access through the address/reference value av (LK1) and
// returns the snapshot taints the access yields (for AT1).
func (e *Engine) access(fc *fnCtx, st *state, in ssa.Instruction, av AV, refType types.Type, write bool, what string) AV {
	var snaps AV
	for tag := range av {
		t := tag
		if t.K == tCell {
			pub, ok := st.pub[t.N]
			if !ok {
				continue
			}
			t = pub
		}
		if t.K != tFieldAddr && t.K != tRegion {
			continue
		}
		lt := e.pathType[t.P]
		if lt == nil {
			continue
		}
		h := st.locks[t.P]
		slot := lt.Name + "." + t.F
		ev := accessEvent{inst: t.P, slot: slot, write: write, held: h.mode, instr: in}
		switch {
		case isFresh(t.P):
			ev.exempt = "fresh instance"
		case t.K == tFieldAddr && !write && !lt.Mutable[max0(fieldIndex(lt.Struct, t.F))]:
			ev.exempt = "immutable slot"
		case t.K == tFieldAddr && fieldIndex(lt.Struct, t.F) == lt.LockField && lt.Kind == LockValue:
			ev.exempt = "lock"
		case !write && t.K == tRegion && refType != nil && e.T.ImmutablePointee(refType):
			ev.exempt = "immutable pointee"
		case write:
			ev.need = W
		default:
			ev.need = R
		}
		atomicOp := strings.HasPrefix(what, "atomic:")
		if atomicOp && ev.exempt == "immutable slot" {
			// a slot reached through sync/atomic is state, whatever the stores say
			ev.exempt = ""
			ev.need = R
		}
		ev.site = h.site
		ev.atomic = atomicOp
		k := fmt.Sprintf("%p|%s|%v|%s", in, slot, write, t.P)
		if old, ok := fc.accesses[k]; !ok || old.held > ev.held {
			if ok && old.sites != nil {
				ev.sites = old.sites
			} else {
				ev.sites = map[int]bool{}
			}
			ev.sites[h.site] = true
			fc.accesses[k] = ev
		} else {
			old.sites[h.site] = true
		}
		if ev.exempt == "" && atomicOp {
			if h.mode < ev.need {
				fc.addDiag(localDiag{rule: "AT3", object: "atomic " + slot, instr: in,
					reason: "a state slot is accessed through sync/atomic without the instance lock (" + strings.TrimPrefix(what, "atomic:") + "): it is synchronised separately from the rest of the container's state, so operations that touch both are no longer atomic; where other accesses to the slot are plain loads/stores under the lock, the atomic access is also unordered with them (a data race)"})
			}
			if h.mode >= R && !write {
				if snaps == nil {
					snaps = AV{}
				}
				snaps.add(Tag{K: tSnap, P: t.P, N: h.site})
			}
			continue
		}
		if ev.exempt == "" {
			if h.mode < ev.need {
				verb := "read"
				if write {
					verb = "write"
				}
				reason := "unlocked " + verb + " of guarded storage"
				if h.mode == R && write {
					reason = "write under read lock"
				}
				if what != "" {
					reason += " (" + what + ")"
				}
				fc.addDiag(localDiag{rule: "LK1", object: verb + " " + slot, reason: reason, instr: in})
			}
			if h.mode >= R && !write {
				if snaps == nil {
					snaps = AV{}
				}
				snaps.add(Tag{K: tSnap, P: t.P, N: h.site})
			}
		}
	}
	return snaps
}

func max0(i int) int {
	if i < 0 {
		return 0
	}
	return i
}

// staleCheck records operands that carry a snapshot of instance P taken in a
// critical section other than the one currently open on P (AT1, data part). Values
// are flow-insensitive while lock sites are flow-sensitive, so an instruction that
// executes in two different sections (a loop around cond.Wait) carries both sites;
// a use is reported only when none of the operand's snapshots of P comes from the
// section that is open now.
func (e *Engine) staleCheck(fc *fnCtx, st *state, in ssa.Instruction) {
	if len(st.locks) == 0 {
		return
	}
	var ops [16]*ssa.Value
	for _, op := range in.Operands(ops[:0]) {
		if op == nil || *op == nil {
			continue
		}
		av := fc.val(*op)
		for t := range av {
			if t.K != tSnap {
				continue
			}
			h, ok := st.locks[t.P]
			if !ok || h.site == t.N || isFresh(t.P) {
				continue
			}
			if _, cur := av[Tag{K: tSnap, P: t.P, N: h.site}]; cur {
				continue
			}
			k := fmt.Sprintf("%s|%d|%d|%p", t.P, t.N, h.site, in)
			if fc.staleSeen[k] {
				continue
			}
			fc.staleSeen[k] = true
			fc.stale = append(fc.stale, staleUse{inst: t.P, siteA: t.N, siteB: h.site, instr: in})
		}
	}
}

// escapes reports region references of non-fresh instances reachable from av.
func (e *Engine) escapes(st *state, av AV, ty types.Type, depth int, seen map[int]bool) []Tag {
	var out []Tag
	if ty != nil && (!mayHoldRef(ty, 0) || e.T.ImmutablePointee(ty)) {
		return nil
	}
	for t := range av {
		switch t.K {
		case tRegion, tFieldAddr:
			if !isFresh(t.P) {
				out = append(out, t)
			}
		case tCell:
			if pub, ok := st.pub[t.N]; ok && !isFresh(pub.P) {
				out = append(out, pub)
			}
			if depth < 4 && !seen[t.N] {
				seen[t.N] = true
				out = append(out, e.escapes(st, e.cells[t.N], nil, depth+1, seen)...)
			}
		case tFunc:
			if depth < 4 && t.N < len(e.closures) {
				for _, b := range e.closures[t.N].bindings {
					out = append(out, e.escapes(st, b, nil, depth+1, seen)...)
				}
			}
		}
	}
	return out
}

func (e *Engine) storeInto(fc *fnCtx, st *state, addr AV, val AV, grew *bool) {
	for t := range addr {
		switch t.K {
		case tCell:
			c := e.cells[t.N]
			if c == nil {
				c = AV{}
				e.cells[t.N] = c
			}
			if c.union(val) {
				*grew = true
				e.changed = true
			}
		case tFieldAddr, tRegion:
			// publication: local allocations stored into a region now belong to it
			for v := range val {
				if v.K == tCell {
					if _, ok := st.pub[v.N]; !ok {
						st.pub[v.N] = Tag{K: tRegion, P: t.P, F: t.F}
					}
				}
			}
		}
	}
}

// instr is the transfer function of one instruction on one state.
func (e *Engine) instr(fc *fnCtx, st *state, in ssa.Instruction, sum *summary, exitSeen map[string]bool, grew *bool) []*state {
	e.staleCheck(fc, st, in)
	set := func(v ssa.Value, av AV) {
		if fc.setVal(v, filterFor(v.Type(), av)) {
			*grew = true
		}
	}
	switch x := in.(type) {
	case *ssa.Alloc:
		id := e.cellID(fc, x)
		delete(st.pub, id)
		av := AV{}
		if lt := e.T.LockTypeOf(x.Type()); lt != nil {
			av.add(Tag{K: tInst, P: e.instPath(lt, fmt.Sprintf("new#%d", id))})
		} else {
			av.add(Tag{K: tCell, N: id})
		}
		if fc.setVal(x, av) {
			*grew = true
		}
	case *ssa.MakeSlice, *ssa.MakeMap, *ssa.MakeChan:
		v := x.(ssa.Value)
		id := e.cellID(fc, v)
		delete(st.pub, id)
		if fc.setVal(v, AV{Tag{K: tCell, N: id}: {}}) {
			*grew = true
		}
	case *ssa.FieldAddr:
		out := AV{}
		for t := range fc.val(x.X) {
			if t.K == tSnap {
				continue
			}
			e.fieldTags(t, x.X.Type(), x.Field, out)
		}
		if fc.setVal(x, out) {
			*grew = true
		}
	case *ssa.Field:
		// field of a struct value
		out := AV{}
		for t := range fc.val(x.X) {
			switch t.K {
			case tOuter:
				st2 := structOf(x.X.Type())
				if st2 != nil {
					e.loadTags(fc, st, Tag{K: tOuterFld, P: t.P, F: st2.Field(x.Field).Name()}, x.Type(), out)
				}
			default:
				out.add(t)
			}
		}
		set(x, out)
	case *ssa.IndexAddr:
		out := AV{}
		for t := range fc.val(x.X) {
			switch t.K {
			case tFieldAddr:
				out.add(Tag{K: tRegion, P: t.P, F: t.F})
			case tRegion, tCell, tCaller:
				out.add(t)
			}
		}
		if fc.setVal(x, out) {
			*grew = true
		}
	case *ssa.UnOp:
		switch x.Op {
		case token.MUL:
			addr := fc.val(x.X)
			out := AV{}
			if sn := e.access(fc, st, in, addr, x.X.Type(), false, ""); sn != nil {
				out.union(sn)
			}
			for t := range addr {
				e.loadTags(fc, st, t, x.Type(), out)
			}
			// a value of type-parameter type or a scalar keeps only taints
			if fc.setVal(x, filterFor(x.Type(), out)) {
				*grew = true
			}
		case token.ARROW:
			// channel receive: blocking while holding a lock is information (LK6)
			if len(st.locks) > 0 {
				fc.blocking = append(fc.blocking, "receive")
			}
			if x.CommaOk {
				fc.tuples[x] = []AV{{}, {}}
			}
		default:
			set(x, fc.val(x.X))
		}
	case *ssa.Store:
		e.access(fc, st, in, fc.val(x.Addr), x.Addr.Type(), true, "")
		val := fc.val(x.Val)
		if imp := fc.implicit(x.Block()); len(imp) > 0 {
			// implicit flow: which store executes is decided by tainted branches
			val = val.clone()
			if val == nil {
				val = AV{}
			}
			val.union(imp)
		}
		e.storeInto(fc, st, fc.val(x.Addr), val, grew)
		// storing a region reference into caller-owned memory lets it escape (LK4)
		if _, ok := fc.val(x.Addr)[Tag{K: tCaller}]; ok && e.inEntryChain(fc) {
			for _, t := range e.escapes(st, val, x.Val.Type(), 0, map[int]bool{}) {
				e.escapeDiag(fc, in, t, "stored into caller-owned memory")
			}
		}
	case *ssa.MapUpdate:
		e.access(fc, st, in, fc.val(x.Map), x.Map.Type(), true, "map update")
		both := AV{}
		both.union(fc.val(x.Key))
		both.union(fc.val(x.Value))
		e.storeInto(fc, st, fc.val(x.Map), both, grew)
	case *ssa.Lookup:
		out := AV{}
		if sn := e.access(fc, st, in, fc.val(x.X), x.X.Type(), false, "map lookup"); sn != nil {
			out.union(sn)
		}
		out.union(fc.val(x.Index).snaps())
		var elemT types.Type
		if m, ok := x.X.Type().Underlying().(*types.Map); ok {
			elemT = m.Elem()
		}
		loaded := AV{}
		if elemT != nil {
			for t := range fc.val(x.X) {
				e.loadTags(fc, st, t, elemT, loaded)
			}
		}
		if x.CommaOk {
			v := AV{}
			v.union(out)
			v.union(loaded)
			if elemT != nil {
				v = filterFor(elemT, v)
			}
			e.setTuple(fc, x, []AV{v, out.snaps()}, grew)
		} else {
			out.union(loaded)
			set(x, out)
		}
	case *ssa.Range:
		out := AV{}
		if sn := e.access(fc, st, in, fc.val(x.X), x.X.Type(), false, "range"); sn != nil {
			out.union(sn)
		}
		out.union(fc.val(x.X))
		if fc.setVal(x, out) {
			*grew = true
		}
	case *ssa.Next:
		iter := fc.val(x.Iter)
		var rng *ssa.Range
		if r, ok := x.Iter.(*ssa.Range); ok {
			rng = r
		}
		sn := AV{}
		kv := AV{}
		vv := AV{}
		if rng != nil {
			base := AV{}
			for t := range iter {
				if t.K != tSnap {
					base.add(t)
				}
			}
			if s := e.access(fc, st, in, base, rng.X.Type(), false, "range next"); s != nil {
				sn.union(s)
			}
			if m, ok := rng.X.Type().Underlying().(*types.Map); ok {
				for t := range base {
					e.loadTags(fc, st, t, m.Key(), kv)
					e.loadTags(fc, st, t, m.Elem(), vv)
				}
				kv = filterFor(m.Key(), kv)
				vv = filterFor(m.Elem(), vv)
			}
		}
		sn.union(iter.snaps())
		kv.union(sn)
		vv.union(sn)
		e.setTuple(fc, x, []AV{sn, kv, vv}, grew)
	case *ssa.Extract:
		if tp, ok := fc.tuples[x.Tuple]; ok && x.Index < len(tp) {
			set(x, tp[x.Index])
		}
	case *ssa.Phi:
		out := AV{}
		for i, ed := range x.Edges {
			out.union(fc.val(ed))
			if i < len(x.Block().Preds) {
				out.union(fc.edgeImplicit(x.Block().Preds[i]))
			}
		}
		set(x, out)
	case *ssa.BinOp:
		out := AV{}
		out.union(fc.val(x.X).snaps())
		out.union(fc.val(x.Y).snaps())
		if mayHoldRef(x.Type(), 0) {
			out.union(fc.val(x.X))
			out.union(fc.val(x.Y))
		}
		set(x, out)
	case *ssa.Slice:
		out := AV{}
		for t := range fc.val(x.X) {
			if t.K == tFieldAddr {
				out.add(Tag{K: tRegion, P: t.P, F: t.F})
			} else {
				out.add(t)
			}
		}
		for _, o := range []ssa.Value{x.Low, x.High, x.Max} {
			if o != nil {
				out.union(fc.val(o).snaps())
			}
		}
		if fc.setVal(x, out) {
			*grew = true
		}
	case *ssa.Convert:
		set(x, fc.val(x.X))
	case *ssa.ChangeType:
		set(x, fc.val(x.X))
	case *ssa.ChangeInterface:
		set(x, fc.val(x.X))
	case *ssa.MakeInterface:
		if fc.setVal(x, fc.val(x.X)) {
			*grew = true
		}
	case *ssa.SliceToArrayPointer:
		set(x, fc.val(x.X))
	case *ssa.TypeAssert:
		if x.CommaOk {
			e.setTuple(fc, x, []AV{filterFor(x.AssertedType, fc.val(x.X)), fc.val(x.X).snaps()}, grew)
		} else {
			set(x, fc.val(x.X))
		}
	case *ssa.Index:
		out := AV{}
		out.union(fc.val(x.X))
		out.union(fc.val(x.Index).snaps())
		set(x, out)
	case *ssa.MakeClosure:
		fn := x.Fn.(*ssa.Function)
		var bs []AV
		for _, b := range x.Bindings {
			bs = append(bs, fc.val(b).clone())
		}
		ci := e.closure(fn, bs)
		if fc.setVal(x, AV{Tag{K: tFunc, N: ci.id}: {}}) {
			*grew = true
		}
	case *ssa.Send:
		if len(st.locks) > 0 {
			fc.blocking = append(fc.blocking, "send")
		}
		if e.inEntryChain(fc) {
			for _, t := range e.escapes(st, fc.val(x.X), x.X.Type(), 0, map[int]bool{}) {
				e.escapeDiag(fc, in, t, "sent on a channel")
			}
		}
	case *ssa.Select:
		if len(st.locks) > 0 && x.Blocking {
			fc.blocking = append(fc.blocking, "select")
		}
		n := 2 + len(x.States)
		tp := make([]AV, n)
		for i := range tp {
			tp[i] = AV{}
		}
		fc.tuples[x] = tp
	case *ssa.Call:
		return e.callInstr(fc, st, x, x.Common(), "call", grew)
	case *ssa.Go:
		return e.callInstr(fc, st, x, x.Common(), "go", grew)
	case *ssa.Defer:
		return e.callInstr(fc, st, x, x.Common(), "defer", grew)
	case *ssa.RunDefers:
		return e.runDefers(fc, st, x, grew)
	case *ssa.Return:
		nres := len(sum.rets)
		for i, r := range x.Results {
			if i < nres {
				if sum.rets[i].union(filterFor(r.Type(), fc.val(r))) {
					*grew = true
				}
				if sum.data == nil {
					sum.data = AV{}
				}
				sum.data.union(filterFor(r.Type(), fc.val(r)))
				// implicit flow: which Return executes is decided by tainted branches
				if sum.rets[i].union(fc.implicit(x.Block())) {
					*grew = true
				}
			}
		}
		if fc.entry {
			if lockKeyModes(st.locks) != lockKeyModes(fc.lockIn) {
				for p, h := range st.locks {
					if _, ok := fc.lockIn[p]; !ok && !isFresh(p) {
						lt := e.pathType[p]
						fc.addDiag(localDiag{rule: "LK3", object: "held-at-return " + lt.Name, reason: "returns with the instance lock still held (" + h.mode.String() + ") on some path", instr: in})
					}
				}
			}
			for i, r := range x.Results {
				_ = i
				for _, t := range e.escapes(st, fc.val(r), r.Type(), 0, map[int]bool{}) {
					e.escapeDiag(fc, in, t, "returned to the caller")
				}
				// closures handed to the caller run later, outside any critical section
				for t := range fc.val(r) {
					if t.K == tFunc && t.N < len(e.closures) {
						ci := e.closures[t.N]
						if len(ci.fn.Blocks) > 0 {
							e.spawn(fc, in, target{fn: ci.fn, free: ci.bindings, args: e.defaultArgs(ci.fn)}, "returned")
						}
					}
				}
			}
		}
		// publications of this call's own allocations matter to the caller only when
		// the allocation is handed back
		pub := map[int]Tag{}
		for id, tg := range st.pub {
			if a := e.cellAlloc[id]; a != nil {
				if ai, ok := a.(ssa.Instruction); ok && ai.Parent() == fc.fn {
					keep := false
					for _, rv := range x.Results {
						if _, ok := fc.val(rv)[Tag{K: tCell, N: id}]; ok {
							keep = true
						}
					}
					if !keep {
						continue
					}
				}
			}
			pub[id] = tg
		}
		ex := &state{locks: st.locks, pub: pub, facts: map[string]bool{}}
		k := ex.key()
		if !exitSeen[k] {
			exitSeen[k] = true
			sum.exits = append(sum.exits, ex)
			*grew = true
		}
		return nil
	case *ssa.Panic:
		return nil
	case *ssa.If, *ssa.Jump, *ssa.DebugRef:
		// handled by block()
	default:
		// any other value-producing instruction: propagate taints and references
		if v, ok := in.(ssa.Value); ok {
			out := AV{}
			var ops [16]*ssa.Value
			for _, op := range in.Operands(ops[:0]) {
				if op != nil && *op != nil {
					out.union(fc.val(*op))
				}
			}
			set(v, out)
		}
	}
	return []*state{st}
}

func lockKeyModes(l map[string]held) string {
	m := map[string]held{}
	for k, v := range l {
		m[k] = held{mode: v.mode}
	}
	return lockKey(m)
}

func (e *Engine) setTuple(fc *fnCtx, v ssa.Value, avs []AV, grew *bool) {
	cur, ok := fc.tuples[v]
	if !ok {
		cur = make([]AV, len(avs))
		for i := range cur {
			cur[i] = AV{}
		}
		fc.tuples[v] = cur
	}
	for i := range avs {
		if i < len(cur) && avs[i] != nil && cur[i].union(avs[i]) {
			*grew = true
		}
	}
}

// inEntryChain: escapes are judged at the API boundary, i.e. in entry contexts;
// for sends and stores into caller memory any context counts.
func (e *Engine) inEntryChain(fc *fnCtx) bool { return true }

func (e *Engine) escapeDiag(fc *fnCtx, in ssa.Instruction, t Tag, how string) {
	lt := e.pathType[t.P]
	if lt == nil {
		return
	}
	fc.addDiag(localDiag{rule: "LK4", object: "escape " + lt.Name + "." + t.F,
		reason: "reference to guarded storage " + how + "; later reads race with writers", instr: in})
}

var _ = core.Canon
