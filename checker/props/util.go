package props

import (
	"fmt"
	"go/token"
	"go/types"
	"sort"
	"strings"

	"golang.org/x/tools/go/ssa"

	"gogucheck/core"
	"gogucheck/path"
)

// rc bundles program and report so that one call records an obligation and, when
// it is not discharged, the diagnostic that goes with it.
type rc struct {
	p *core.Program
	r *core.Report
}

// ob records one obligation of rule at (fn, object). When !ok the diagnostic is
// a violation with the given reason.
func (c rc) ob(rule, fn, object, pos string, ok bool, reason string) {
	c.r.Obligation(rule, ok, map[string]any{"rule": rule, "function": fn, "object": object, "at": pos, "ok": ok})
	if !ok {
		c.r.Violation(core.Diag{Rule: rule, Func: fn, Object: object, Pos: pos, Reason: reason})
	}
}

// und records an obligation that could not be decided because the construct is
// outside every accepted form; this fails the check (never a silent pass).
func (c rc) und(rule, fn, object, pos, reason string) {
	c.r.Obligation(rule, false, map[string]any{"rule": rule, "function": fn, "object": object, "at": pos, "ok": false, "undecided": true})
	c.r.Undecided(core.Diag{Rule: rule, Func: fn, Object: object, Pos: pos, Reason: reason})
}

func (c rc) fn(name string) *ssa.Function { return mustFunc(c.p, c.r, name) }

// helper resolves an unexported helper function. A missing helper is not a
// checker failure: the rules that are phrased over it cannot be discharged on
// this tree, which is reported as an undecided obligation (the check fails with a
// VIOLATION naming the anchor) while all other rules are still evaluated.
func (c rc) helper(name string) *ssa.Function {
	fn := c.p.Func(name)
	if fn == nil || len(fn.Blocks) == 0 {
		c.und("ANCHOR", name, "helper function", "-", "the helper the rules are phrased over does not exist in the current tree; the obligations about it cannot be discharged")
		return nil
	}
	c.r.Functions[name] = true
	return fn
}

func (c rc) fpos(fn *ssa.Function) string { return c.p.Pos(fn.Pos()) }

// ---------------------------------------------------------------------------
// Access paths: a position-free, CSE-free description of what an SSA value
// denotes relative to the parameters of its function, e.g. "c.evictList.root.prev",
// "len(s.items)-1", "c.items[key]". In-module accessors whose body is a single
// pure return are inlined ("l.last()" -> "l.root.prev"). "" = no path.
// ---------------------------------------------------------------------------

type pathCtx struct {
	p     *core.Program
	subst map[ssa.Value]string
	depth int
	memo  map[ssa.Value]string
	hook  func(v ssa.Value) (string, bool) // consulted first; lets a rule name values its own way
}

func newPathCtx(p *core.Program) *pathCtx {
	return &pathCtx{p: p, subst: map[ssa.Value]string{}, memo: map[ssa.Value]string{}}
}

func fieldName(t types.Type, idx int) string {
	if pt, ok := t.Underlying().(*types.Pointer); ok {
		t = pt.Elem()
	}
	if st, ok := t.Underlying().(*types.Struct); ok && idx < st.NumFields() {
		return st.Field(idx).Name()
	}
	return fmt.Sprintf("#%d", idx)
}

func stripAmp(s string) string { return strings.TrimPrefix(s, "&") }

func (c *pathCtx) path(v ssa.Value) string {
	if s, ok := c.subst[v]; ok {
		return s
	}
	if s, ok := c.memo[v]; ok {
		return s
	}
	c.memo[v] = "" // cycle guard
	if c.hook != nil {
		if hs, ok := c.hook(v); ok {
			c.memo[v] = hs
			return hs
		}
	}
	s := c.path0(v)
	c.memo[v] = s
	return s
}

func (c *pathCtx) path0(v ssa.Value) string {
	switch x := v.(type) {
	case *ssa.Parameter:
		return x.Name()
	case *ssa.FreeVar:
		return x.Name()
	case *ssa.Global:
		return x.Name()
	case *ssa.Const:
		if x.Value == nil {
			return "zero"
		}
		return x.Value.ExactString()
	case *ssa.FieldAddr:
		b := c.path(x.X)
		if b == "" {
			return ""
		}
		return "&" + stripAmp(b) + "." + fieldName(x.X.Type(), x.Field)
	case *ssa.Field:
		b := c.path(x.X)
		if b == "" {
			return ""
		}
		return b + "." + fieldName(x.X.Type(), x.Field)
	case *ssa.UnOp:
		b := c.path(x.X)
		if b == "" {
			return ""
		}
		switch x.Op {
		case token.MUL:
			if strings.HasPrefix(b, "&") {
				return b[1:]
			}
			return "*" + b
		case token.SUB:
			return "-" + b
		case token.NOT:
			return "!" + b
		}
		return ""
	case *ssa.IndexAddr:
		b, i := c.path(x.X), c.path(x.Index)
		if b == "" || i == "" {
			return ""
		}
		return "&" + stripAmp(b) + "[" + i + "]"
	case *ssa.Index:
		b, i := c.path(x.X), c.path(x.Index)
		if b == "" || i == "" {
			return ""
		}
		return b + "[" + i + "]"
	case *ssa.Lookup:
		b, i := c.path(x.X), c.path(x.Index)
		if b == "" || i == "" {
			return ""
		}
		return b + "[" + i + "]"
	case *ssa.Extract:
		if lk, ok := x.Tuple.(*ssa.Lookup); ok {
			b := c.path(lk)
			if b == "" {
				return ""
			}
			if x.Index == 0 {
				return b
			}
			return "ok(" + b + ")"
		}
		if nx, ok := x.Tuple.(*ssa.Next); ok {
			b := c.path(nx.Iter)
			if b == "" {
				return ""
			}
			return fmt.Sprintf("%s#%d", b, x.Index)
		}
		b := c.path(x.Tuple)
		if b == "" {
			return ""
		}
		return fmt.Sprintf("%s#%d", b, x.Index)
	case *ssa.Range:
		b := c.path(x.X)
		if b == "" {
			return ""
		}
		return "range(" + b + ")"
	case *ssa.ChangeType:
		return c.path(x.X)
	case *ssa.ChangeInterface:
		return c.path(x.X)
	case *ssa.MakeInterface:
		return c.path(x.X)
	case *ssa.Convert:
		b := c.path(x.X)
		if b == "" {
			return ""
		}
		return "conv(" + b + ")"
	case *ssa.BinOp:
		a, b := c.path(x.X), c.path(x.Y)
		if a == "" || b == "" {
			return ""
		}
		return "(" + a + x.Op.String() + b + ")"
	case *ssa.Slice:
		b := c.path(x.X)
		if b == "" {
			return ""
		}
		lo, hi := "", ""
		if x.Low != nil {
			lo = c.path(x.Low)
			if lo == "" {
				return ""
			}
		}
		if x.High != nil {
			hi = c.path(x.High)
			if hi == "" {
				return ""
			}
		}
		return stripAmp(b) + "[" + lo + ":" + hi + "]"
	case *ssa.Alloc:
		// a local cell with exactly one store: the stored value
		var st *ssa.Store
		n := 0
		for _, r := range *x.Referrers() {
			if s, ok := r.(*ssa.Store); ok && s.Addr == x {
				st = s
				n++
			}
		}
		if n == 1 {
			if b := c.path(st.Val); b != "" {
				return "&" + b
			}
		}
		return "&new:" + x.Comment
	case *ssa.Call:
		return c.callPath(x)
	case *ssa.MakeMap:
		return "newmap"
	case *ssa.MakeSlice:
		return "newslice"
	case *ssa.MakeClosure:
		return "closure"
	}
	return ""
}

func (c *pathCtx) callPath(x *ssa.Call) string {
	if b, ok := x.Call.Value.(*ssa.Builtin); ok {
		switch b.Name() {
		case "len", "cap":
			a := c.path(x.Call.Args[0])
			if a == "" {
				return ""
			}
			return b.Name() + "(" + stripAmp(a) + ")"
		}
		return ""
	}
	callee := path.StaticCallee(x)
	if callee == nil {
		// call of a function-typed parameter (user callback): name(args)
		if prm, ok := path.Unspill(x.Call.Value).(*ssa.Parameter); ok && !x.Call.IsInvoke() {
			var as []string
			for _, a := range x.Call.Args {
				ap := c.path(a)
				if ap == "" {
					return ""
				}
				as = append(as, ap)
			}
			return prm.Name() + "(" + strings.Join(as, ",") + ")"
		}
		return ""
	}
	var args []string
	for _, a := range x.Call.Args {
		args = append(args, c.path(a))
	}
	if c.p.InModule(callee) && c.depth < 4 {
		if ret := accessorReturn(callee); ret != nil {
			sub := &pathCtx{p: c.p, subst: map[ssa.Value]string{}, depth: c.depth + 1, memo: map[ssa.Value]string{}}
			okArgs := true
			for i, prm := range callee.Params {
				if i < len(args) {
					if args[i] == "" {
						okArgs = false
					}
					sub.subst[prm] = args[i]
				}
			}
			if okArgs {
				if s := sub.path(ret); s != "" {
					return s
				}
			}
		}
	}
	name := c.p.FuncName(callee)
	if !c.p.InModule(callee) {
		name = callee.String()
	}
	for _, a := range args {
		if a == "" {
			return ""
		}
	}
	return name + "(" + strings.Join(args, ",") + ")"
}

// accessorReturn returns the single returned value of a pure, single-result
// in-module function (no stores, no map updates, no calls except other such
// accessors and len/cap), else nil.
func accessorReturn(fn *ssa.Function) ssa.Value {
	if fn == nil || len(fn.Blocks) == 0 {
		return nil
	}
	var ret ssa.Value
	nret := 0
	for _, b := range fn.Blocks {
		if b == fn.Recover {
			continue
		}
		for _, in := range b.Instrs {
			switch x := in.(type) {
			case *ssa.Store, *ssa.MapUpdate, *ssa.Send, *ssa.Go, *ssa.Defer, *ssa.Panic:
				return nil
			case *ssa.Call:
				if _, ok := x.Call.Value.(*ssa.Builtin); ok {
					continue
				}
				cal := path.StaticCallee(x)
				if cal == nil || cal == fn || accessorReturn(cal) == nil {
					return nil
				}
			case *ssa.Return:
				if len(x.Results) != 1 {
					return nil
				}
				ret = x.Results[0]
				nret++
			}
		}
	}
	if nret != 1 {
		return nil
	}
	return ret
}

// ---------------------------------------------------------------------------
// small helpers shared by the structural rules
// ---------------------------------------------------------------------------

// fieldStores lists the stores in fns whose address is field `field` of a struct
// named typ (pointer or value receiver).
func fieldStores(fns []*ssa.Function, typ, field string) []*ssa.Store {
	var out []*ssa.Store
	for _, fn := range fns {
		for _, in := range path.Instrs(fn) {
			st, ok := in.(*ssa.Store)
			if !ok {
				continue
			}
			if fa, ok := st.Addr.(*ssa.FieldAddr); ok && isFieldOf(fa, typ, field) {
				out = append(out, st)
			}
		}
	}
	return out
}

func namedOf(t types.Type) *types.Named {
	for {
		switch x := t.(type) {
		case *types.Pointer:
			t = x.Elem()
			continue
		case *types.Named:
			return x
		}
		return nil
	}
}

func isFieldOf(fa *ssa.FieldAddr, typ, field string) bool {
	n := namedOf(fa.X.Type())
	if n == nil || n.Obj().Name() != typ {
		return false
	}
	return fieldName(fa.X.Type(), fa.Field) == field
}

// isLoadOfField: v is a load of field `field` of struct type typ.
func isLoadOfField(v ssa.Value, typ, field string) bool {
	switch x := v.(type) {
	case *ssa.UnOp:
		if x.Op != token.MUL {
			return false
		}
		fa, ok := x.X.(*ssa.FieldAddr)
		return ok && isFieldOf(fa, typ, field)
	case *ssa.Field:
		n := namedOf(x.X.Type())
		return n != nil && n.Obj().Name() == typ && fieldName(x.X.Type(), x.Field) == field
	}
	return false
}

// callsIn lists the static in-module calls of fn (not of its closures).
func callsTo(fn *ssa.Function, callee *ssa.Function) []ssa.CallInstruction {
	var out []ssa.CallInstruction
	for _, in := range path.Instrs(fn) {
		if c, ok := in.(ssa.CallInstruction); ok && path.StaticCallee(c) == callee && callee != nil {
			out = append(out, c)
		}
	}
	return out
}

// reaches: the set of functions (canonical) transitively called from fn through
// static calls, fn included.
func reaches(fn *ssa.Function) map[*ssa.Function]bool {
	seen := map[*ssa.Function]bool{}
	var rec func(f *ssa.Function)
	rec = func(f *ssa.Function) {
		f = core.Canon(f)
		if f == nil || seen[f] {
			return
		}
		seen[f] = true
		for _, b := range f.Blocks {
			for _, in := range b.Instrs {
				if c, ok := in.(ssa.CallInstruction); ok {
					if cal := path.StaticCallee(c); cal != nil {
						rec(cal)
					}
				}
				if mc, ok := in.(*ssa.MakeClosure); ok {
					if g, ok := mc.Fn.(*ssa.Function); ok {
						rec(g)
					}
				}
			}
		}
	}
	rec(fn)
	return seen
}

func sortedKeys(m map[string]bool) []string {
	var out []string
	for k := range m {
		out = append(out, k)
	}
	sort.Strings(out)
	return out
}

// guardedBy reports whether block b is dominated by an edge of a comparison that
// satisfies pred(cond, edgeIsTrue).
func guardedBy(fn *ssa.Function, b *ssa.BasicBlock, pred func(cd path.Cond, truth bool) bool) bool {
	for _, g := range path.Guards(fn, b) {
		cd, ok := path.CondOf(g.If)
		if !ok {
			continue
		}
		truth := g.Idx == 0
		if cd.Neg {
			truth = !truth
		}
		if anyPresentation(cd, truth, pred) {
			return true
		}
	}
	return false
}

// anyPresentation offers pred every equivalent way of writing "the comparison cd has
// the given truth value": as written, negated (i < n false  ==  i >= n true) and with
// the operands exchanged (i < n  ==  n > i).  A rule that recognises one spelling
// recognises them all.
func anyPresentation(cd path.Cond, truth bool, pred func(cd path.Cond, truth bool) bool) bool {
	neg := map[token.Token]token.Token{token.LSS: token.GEQ, token.GEQ: token.LSS, token.GTR: token.LEQ, token.LEQ: token.GTR, token.EQL: token.NEQ, token.NEQ: token.EQL}
	flip := map[token.Token]token.Token{token.LSS: token.GTR, token.GTR: token.LSS, token.LEQ: token.GEQ, token.GEQ: token.LEQ, token.EQL: token.EQL, token.NEQ: token.NEQ}
	if pred(cd, truth) {
		return true
	}
	n := cd
	n.Op = neg[cd.Op]
	if pred(n, !truth) {
		return true
	}
	f := cd
	f.Op, f.X, f.Y = flip[cd.Op], cd.Y, cd.X
	if pred(f, truth) {
		return true
	}
	fn := f
	fn.Op = neg[f.Op]
	return pred(fn, !truth)
}

// boolGuard reports whether b is dominated by the edge on which the boolean value
// satisfying is(v) has the given truth value (through NOT).
func boolGuard(fn *ssa.Function, b *ssa.BasicBlock, is func(v ssa.Value) bool, want bool) bool {
	for _, g := range path.Guards(fn, b) {
		v := g.If.Cond
		neg := false
		for {
			if u, ok := v.(*ssa.UnOp); ok && u.Op == token.NOT {
				neg = !neg
				v = u.X
				continue
			}
			break
		}
		if !is(v) {
			continue
		}
		truth := g.Idx == 0
		if neg {
			truth = !truth
		}
		if truth == want {
			return true
		}
	}
	return false
}

// normCmp normalises "X op Y" under a truth value into a canonical relation
// string between the two path strings, e.g. ("a", "<", "b"). Returns rel in
// {"<","<=",">",">=","==","!="} such that "x rel y" holds on the edge.
func normCmp(op token.Token, truth bool) string {
	if truth {
		return op.String()
	}
	switch op {
	case token.LSS:
		return ">="
	case token.LEQ:
		return ">"
	case token.GTR:
		return "<="
	case token.GEQ:
		return "<"
	case token.EQL:
		return "!="
	case token.NEQ:
		return "=="
	}
	return "?"
}

// flipRel mirrors a relation (x rel y  <=>  y flip(rel) x).
func flipRel(rel string) string {
	switch rel {
	case "<":
		return ">"
	case "<=":
		return ">="
	case ">":
		return "<"
	case ">=":
		return "<="
	}
	return rel
}

// edgeFacts lists, for block b, the relations "x rel y" (as path strings) that
// hold on entry to b because a branch edge dominates it.
type relFact struct{ X, Rel, Y string }

func edgeFacts(pc *pathCtx, fn *ssa.Function, b *ssa.BasicBlock) []relFact {
	var out []relFact
	for _, g := range path.Guards(fn, b) {
		cd, ok := path.CondOf(g.If)
		if !ok {
			continue
		}
		truth := g.Idx == 0
		if cd.Neg {
			truth = !truth
		}
		x, y := pc.path(cd.X), pc.path(cd.Y)
		if x == "" || y == "" {
			continue
		}
		out = append(out, relFact{x, normCmp(cd.Op, truth), y})
	}
	return out
}

// edgeFactsInto: the facts that hold when control enters block to from its predecessor
// from: everything that guards from, plus the outcome of from's own branch.
func edgeFactsInto(pc *pathCtx, fn *ssa.Function, from, to *ssa.BasicBlock) []relFact {
	out := edgeFacts(pc, fn, from)
	iff := path.BlockIf(from)
	if iff == nil || len(from.Succs) != 2 || from.Succs[0] == from.Succs[1] {
		return out
	}
	cd, ok := path.CondOf(iff)
	if !ok {
		return out
	}
	truth := from.Succs[0] == to
	if cd.Neg {
		truth = !truth
	}
	x, y := pc.path(cd.X), pc.path(cd.Y)
	if x != "" && y != "" {
		out = append(out, relFact{x, normCmp(cd.Op, truth), y})
	}
	return out
}

func hasFact(fs []relFact, x, rel, y string) bool {
	for _, f := range fs {
		if f.X == x && f.Rel == rel && f.Y == y {
			return true
		}
		if f.X == y && flipRel(f.Rel) == rel && f.Y == x {
			return true
		}
	}
	return false
}

// valueOrigins: path.Origins extended through loads of local cells (the values
// stored into the cell anywhere in the function).
func valueOrigins(v ssa.Value) []ssa.Value {
	var out []ssa.Value
	seen := map[ssa.Value]bool{}
	var rec func(x ssa.Value)
	rec = func(x ssa.Value) {
		for _, o := range path.Origins(x) {
			if seen[o] {
				continue
			}
			seen[o] = true
			if u, ok := o.(*ssa.UnOp); ok && u.Op == token.MUL {
				if al, ok := u.X.(*ssa.Alloc); ok {
					n := 0
					for _, rf := range *al.Referrers() {
						if st, ok := rf.(*ssa.Store); ok && st.Addr == ssa.Value(al) {
							n++
							rec(st.Val)
						}
					}
					if n > 0 {
						continue
					}
				}
			}
			out = append(out, o)
		}
	}
	rec(v)
	return out
}

func coreDiag(rule, fn, object, pos, reason string) core.Diag {
	return core.Diag{Rule: rule, Func: fn, Object: object, Pos: pos, Reason: reason}
}

// retAlt is one way a function delivers result i: the value and the block whose
// guards describe when (for a result merged from several assignments - "parts = ...;
// return parts" - one alternative per incoming edge of the merge, seen from the
// block the edge leaves; otherwise the return itself).
type retAlt struct {
	val ssa.Value
	blk *ssa.BasicBlock
	ret *ssa.Return
}

func returnAlternatives(fn *ssa.Function, i int) []retAlt {
	var out []retAlt
	for _, b := range fn.Blocks {
		if len(b.Instrs) == 0 || b == fn.Recover {
			continue
		}
		rt, ok := b.Instrs[len(b.Instrs)-1].(*ssa.Return)
		if !ok || i >= len(rt.Results) {
			continue
		}
		seen := map[*ssa.Phi]bool{}
		var expand func(v ssa.Value, from *ssa.BasicBlock)
		expand = func(v ssa.Value, from *ssa.BasicBlock) {
			if ph, ok := v.(*ssa.Phi); ok && !seen[ph] && len(path.NaturalLoop(ph.Block())) == 0 {
				seen[ph] = true
				for k, e := range ph.Edges {
					expand(e, ph.Block().Preds[k])
				}
				return
			}
			out = append(out, retAlt{v, from, rt})
		}
		expand(path.ReturnValues(rt)[i], b)
	}
	return out
}

// returnsCallUnmodified: every return of fn (outside the recover block) hands back all the
// results of one call of callee, unmodified and in order - a thin wrapper that adds
// nothing of its own to the answer.
func returnsCallUnmodified(fn, callee *ssa.Function) (ok bool, at ssa.Instruction) {
	n := 0
	for _, b := range fn.Blocks {
		rt, isRet := b.Instrs[len(b.Instrs)-1].(*ssa.Return)
		if !isRet || b == fn.Recover {
			continue
		}
		n++
		rv := path.ReturnValues(rt)
		var tuple ssa.Value
		good := len(rv) > 0
		for i, v := range rv {
			v = path.Unspill(v)
			if len(rv) == 1 {
				call, isCall := v.(*ssa.Call)
				if !isCall || path.StaticCallee(call) != callee {
					good = false
				}
				continue
			}
			ex, isEx := v.(*ssa.Extract)
			if !isEx || ex.Index != i {
				good = false
				continue
			}
			if tuple == nil {
				tuple = ex.Tuple
			} else if tuple != ex.Tuple {
				good = false
			}
			if call, isCall := ex.Tuple.(*ssa.Call); !isCall || path.StaticCallee(call) != callee {
				good = false
			}
		}
		if !good {
			return false, rt
		}
	}
	return n > 0, nil
}
