package props

import (
	"fmt"
	"go/token"
	"go/types"

	"golang.org/x/tools/go/ssa"

	"gogucheck/core"
	"gogucheck/path"
)

func init() {
	register(&Check{
		ID: "C05",
		Explanation: "End-agreement and counter rules over queue/queue.go, queue/lqueue.go and the list primitives they use (engines E7/E4). Slice-backed Queue: AG6 Enqueue stores append(items, item) exactly once on every path; Dequeue returns items[0] and stores items[1:], Peek reads items[0], all dominated by the non-empty guard; the empty path returns the zero value (and an error) and writes nothing (PT3); " +
			"Search is a full forward scan comparing items[i] with the probe (PT5); Size is len(items); Clear stores nil; items is written nowhere else. With Go's append/re-slice semantics these rules amount to FIFO behaviour of the slice-backed queue. " +
			"Linked LQueue: AG4 n is incremented exactly once with exactly one Append(item), decremented exactly once with exactly one Shift and only where n is known positive under the same lock, the empty path returns the zero value without touching the list; AG1 insertion at the tail (Append), removal and Peek at the head (Shift/First); " +
			"the positional list primitives never compare element values (duplicates), the read-only ones write nothing; SI1 no state beyond {items,mu} / {list,mu,n}. " +
			"PH1/PH2 the drained state (premise, decided on the types: list.DList embeds its head node by value and therefore always keeps one node): Enqueue calls list.Append only where n before the increment is known positive (n is followed through the n++ of the same function) and stores the item into the list's own head node where it is zero, exactly one of the two on every path; Peek and Search consult the list only where n is known positive and answer the zero value / false otherwise.",
		Assumptions: []string{"go/ssa faithful to the source", "Go append/re-slice semantics", "locking discipline is C01/C02"},
		NotDecided:  []string{"the order in which DList.Append and DList.Shift themselves link and unlink nodes (C19 territory)", "capacity growth"},
		Run:         func(p *core.Program, r *core.Report) { runSeq(p, r, true) },
	})
	register(&Check{
		ID: "C06",
		Explanation: "End-agreement and counter rules over stack/stack.go, stack/lstack.go and the list primitives they use (engines E7/E4). Slice-backed Stack: AG6 Push stores append(items, item) exactly once on every path; Pop returns items[len-1] and stores items[:len-1], Peek reads items[len-1], all dominated by the non-empty guard; the empty path returns the zero value and writes nothing (PT3); " +
			"Search is a full forward scan comparing items[i] with the probe (PT5); Size is len(items); items is written nowhere else. With Go's append/re-slice semantics these rules amount to LIFO behaviour of the slice-backed stack. " +
			"Linked LStack: AG4 n is incremented exactly once with exactly one Append(item), decremented at most once and only where n is known positive, with exactly one list Pop; AG1 insertion and removal at the tail (Append/Pop), Peek at the tail (Last); the positional list primitives never compare element values, the read-only ones write nothing; SI1 no state beyond {items,mu} / {list,mu,n}. " +
			"PH1/PH2 the drained state, as for the queue (Push / Peek / Search). RS2 which node list.(*DList).Pop hands back: the node it unlinks on the unlinking path (a copy of *x.next taken before x.next = nil, or that pointer), a copy of the head on the single-node path.",
		Assumptions: []string{"go/ssa faithful to the source", "Go append/re-slice semantics", "locking discipline is C01/C02"},
		NotDecided:  []string{"the order in which DList.Append links nodes (C19 territory)"},
		Run:         func(p *core.Program, r *core.Report) { runSeq(p, r, false) },
	})
}

// zeroResult: v is the zero value: a constant zero, *new(T), or a load of a result
// cell that no store dominates.
func zeroResult(v ssa.Value, at *ssa.BasicBlock) bool {
	if isZeroConst(v) {
		return true
	}
	u, ok := v.(*ssa.UnOp)
	if !ok || u.Op != token.MUL {
		return false
	}
	al, ok := u.X.(*ssa.Alloc)
	if !ok {
		return false
	}
	for _, rf := range *al.Referrers() {
		st, ok := rf.(*ssa.Store)
		if !ok || st.Addr != ssa.Value(al) {
			continue
		}
		if st.Val == ssa.Value(u) {
			continue // self store "item = item"
		}
		if st.Block() == u.Block() {
			// before the load in the same block?
			for _, in := range u.Block().Instrs {
				if in == ssa.Instruction(st) {
					return false
				}
				if in == ssa.Instruction(u) {
					break
				}
			}
			continue
		}
		if st.Block().Dominates(u.Block()) {
			return false
		}
		// a store in a block that can reach the load
		seen := map[*ssa.BasicBlock]bool{}
		var reach func(b *ssa.BasicBlock) bool
		reach = func(b *ssa.BasicBlock) bool {
			if b == u.Block() {
				return true
			}
			if seen[b] {
				return false
			}
			seen[b] = true
			for _, s := range b.Succs {
				if reach(s) {
					return true
				}
			}
			return false
		}
		if reach(st.Block()) {
			return false
		}
	}
	return true
}

// noValueComparison: fn (and what it calls inside the module) never compares two
// values of a type-parameter type with == / !=.
func noValueComparison(p *core.Program, fn *ssa.Function) (bool, string) {
	for f := range reaches(fn) {
		if !p.InModule(f) {
			continue
		}
		for _, b := range f.Blocks {
			for _, in := range b.Instrs {
				bo, ok := in.(*ssa.BinOp)
				if !ok || (bo.Op != token.EQL && bo.Op != token.NEQ) {
					continue
				}
				if _, isTP := bo.X.Type().(*types.TypeParam); isTP {
					return false, f.Name()
				}
			}
		}
	}
	return true, ""
}

func runSeq(p *core.Program, r *core.Report, queue bool) {
	c := rc{p, r}
	if queue {
		noSingledOutValue(c, []string{"queue/queue.go", "queue/lqueue.go", "list/dlist.go"}, nil)
	} else {
		noSingledOutValue(c, []string{"stack/stack.go", "stack/lstack.go", "list/dlist.go"}, nil)
	}
	if queue {
		workOnEveryPath(c, "queue.(*Queue).Clear", "items reset on every path", "Queue", "items", nil, "Clear returns on a path that leaves the elements in place")
		workOnEveryPath(c, "queue.(*LQueue).Clear", "counter reset on every path", "LQueue", "n", nil, "Clear returns on a path that leaves the elements in place")
	}
	pkg, sl, ln := "stack", "Stack", "LStack"
	add, rem, file1, file2 := "Push", "Pop", "stack/stack.go", "stack/lstack.go"
	if queue {
		pkg, sl, ln = "queue", "Queue", "LQueue"
		add, rem, file1, file2 = "Enqueue", "Dequeue", "queue/queue.go", "queue/lqueue.go"
	}
	S := pkg + ".(*" + sl + ")."
	Lk := pkg + ".(*" + ln + ")."
	all1 := p.FuncsInFiles(file1)
	all2 := p.FuncsInFiles(file2)
	for _, f := range append(append([]*ssa.Function{}, all1...), all2...) {
		r.Functions[p.FuncName(f)] = true
	}
	stateInventory(c, pkg, sl, []string{"items", "mu"}, all1)
	stateInventory(c, pkg, ln, []string{"list", "mu", "n"}, all2)
	// the linked variants keep their elements in a list.DList: its state is part of theirs
	dlFns := p.FuncsInFiles("list/dlist.go")
	stateInventory(c, "list", "DList", []string{"DoubleNode"}, dlFns)
	stateInventory(c, "list", "DoubleNode", []string{"Value", "next", "prev"}, dlFns)

	// =================== slice-backed
	fAdd, fRem, fPeek, fSearch, fSize := c.fn(S+add), c.fn(S+rem), c.fn(S+"Peek"), c.fn(S+"Search"), c.fn(S+"Size")
	if fAdd == nil || fRem == nil || fPeek == nil || fSearch == nil || fSize == nil {
		return
	}
	recv := func(fn *ssa.Function) string { return fn.Params[0].Name() }
	// insertion
	{
		fn := fAdd
		fname := p.FuncName(fn)
		x := newPathCtx(p)
		isStore := func(in ssa.Instruction) bool {
			st, ok := in.(*ssa.Store)
			if !ok {
				return false
			}
			fa, ok := st.Addr.(*ssa.FieldAddr)
			return ok && isFieldOf(fa, sl, "items")
		}
		mx, mn := path.MaxCount(fn, isStore), path.MinCount(fn, isStore)
		c.ob("PT1", fname, "one store of items per call", c.fpos(fn), mx == 1 && mn == 1, fmt.Sprintf("the insertion stores items %d..%s times depending on the path; exactly once is required (no element lost or duplicated)", mn, countStr(mx)))
		for _, in := range path.Instrs(fn) {
			if !isStore(in) {
				continue
			}
			st := in.(*ssa.Store)
			okA := false
			if call, ok := st.Val.(*ssa.Call); ok {
				if b, ok := call.Call.Value.(*ssa.Builtin); ok && b.Name() == "append" {
					a := call.Call.Args
					if x.path(a[0]) == recv(fn)+".items" {
						// the variadic part is a one-element slice literal holding the parameter
						if v, ok := singleElemSlice(a[1]); ok && v == ssa.Value(paramByName(fn, "item")) {
							okA = true
						}
					}
				}
			}
			c.ob("AG6", fname, "insertion appends the item at the tail", p.InstrPos(st), okA, "the insertion must store append("+recv(fn)+".items, item): the new element goes to the tail, the held elements keep their positions")
		}
	}
	// removal and peek
	type endSpec struct {
		fn       *ssa.Function
		removes  bool
		idxWant  []string // accepted index paths
		reslice  []string // accepted stored slice paths
		errIndex int      // index of the error result, -1 if none
	}
	specs := []endSpec{}
	if queue {
		q := recv(fRem)
		specs = append(specs,
			endSpec{fRem, true, []string{q + ".items[0]"}, []string{q + ".items[1:]"}, 1},
			endSpec{fPeek, false, []string{recv(fPeek) + ".items[0]"}, nil, -1})
	} else {
		s := recv(fRem)
		l := "len(" + s + ".items)"
		specs = append(specs,
			endSpec{fRem, true, []string{s + ".items[(" + l + "-1)]"}, []string{s + ".items[:(" + l + "-1)]"}, -1},
			endSpec{fPeek, false, []string{recv(fPeek) + ".items[(len(" + recv(fPeek) + ".items)-1)]"}, nil, -1})
	}
	for _, s := range specs {
		fn := s.fn
		fname := p.FuncName(fn)
		x := newPathCtx(p)
		rv := recv(fn)
		lenP := "len(" + rv + ".items)"
		nonEmpty := func(b *ssa.BasicBlock) bool {
			fs := edgeFacts(x, fn, b)
			return hasFact(fs, lenP, "!=", "0") || hasFact(fs, lenP, ">", "0") || hasFact(fs, lenP, ">=", "1")
		}
		empty := func(b *ssa.BasicBlock) bool {
			fs := edgeFacts(x, fn, b)
			return hasFact(fs, lenP, "==", "0") || hasFact(fs, lenP, "<=", "0") || hasFact(fs, lenP, "<", "1")
		}
		// element reads: the right end, under the non-empty guard
		isElemRead := func(v ssa.Value) bool {
			u, ok := v.(*ssa.UnOp)
			if !ok || u.Op != token.MUL {
				return false
			}
			ia, ok := u.X.(*ssa.IndexAddr)
			return ok && isLoadOfField(ia.X, sl, "items")
		}
		nReads := 0
		for _, in := range path.Instrs(fn) {
			v, ok := in.(ssa.Value)
			if !ok || !isElemRead(v) {
				continue
			}
			nReads++
			got := x.path(v)
			okI := false
			for _, w := range s.idxWant {
				if got == w {
					okI = true
				}
			}
			c.ob("AG6", fname, "element taken from the right end", p.InstrPos(in), okI, fmt.Sprintf("the element read is %q, expected %v", got, s.idxWant))
			c.ob("PT3", fname, "non-empty guard", p.InstrPos(in), nonEmpty(in.Block()), "the element is read on a path that is not dominated by the non-empty test: the empty case panics")
		}
		c.ob("PT3", fname, "empty case handled", c.fpos(fn), nReads >= 1, "the function reads no element of items")
		// results: an element read on the non-empty path, the zero value otherwise
		for _, b := range fn.Blocks {
			ret, ok := b.Instrs[len(b.Instrs)-1].(*ssa.Return)
			if !ok || b == fn.Recover {
				continue
			}
			rvs := path.ReturnValues(ret)
			isZ := zeroResult(rvs[0], b)
			var elem, other int
			if !isZ {
				for _, o := range valueOrigins(rvs[0]) {
					switch {
					case isElemRead(o):
						elem++
					case zeroResult(o, b):
					default:
						other++
					}
				}
			}
			switch {
			case empty(b):
				c.ob("PT3", fname, "empty case returns the zero value", p.InstrPos(ret), isZ, "on an empty container the zero value must be returned")
				if s.errIndex >= 0 {
					c.ob("PT3", fname, "empty case reports an error", p.InstrPos(ret), !path.IsNil(rvs[s.errIndex]) && !zeroResult(rvs[s.errIndex], b), "Dequeue on an empty queue must return an error")
				}
			case nonEmpty(b):
				c.ob("AG6", fname, "non-empty case returns the element read", p.InstrPos(ret), !isZ && elem >= 1 && other == 0, "on a non-empty container the element read from the designated end must be returned")
				if s.errIndex >= 0 {
					c.ob("PT3", fname, "success reports no error", p.InstrPos(ret), path.IsNil(rvs[s.errIndex]) || zeroResult(rvs[s.errIndex], b), "a successful Dequeue must return a nil error")
				}
			default:
				// merged return: the result is the element read where one was read, else the zero value
				c.ob("AG6", fname, "result is the element read or the zero value", p.InstrPos(ret), other == 0, "the value returned is neither the element read from the designated end nor the zero value")
				if isZ {
					// a return that can only deliver the zero value, on a path that has not
					// established that the container is empty
					c.ob("PT3", fname, "zero value only for the empty container", p.InstrPos(ret), false, "the zero value is returned on a path that is not guarded by the emptiness test: a held element is withheld")
				}
				if s.errIndex >= 0 {
					// every non-nil error stored must sit on the empty path
					okE := true
					for _, o := range valueOrigins(rvs[s.errIndex]) {
						if path.IsNil(o) || isZeroConst(o) {
							continue
						}
						if in, ok := o.(ssa.Instruction); ok && !empty(in.Block()) {
							okE = false
						}
					}
					c.ob("PT3", fname, "error only for the empty case", p.InstrPos(ret), okE, "an error can be returned although the container is not empty")
				}
			}
		}
		// stores of items
		nSt := 0
		for _, in := range path.Instrs(fn) {
			st, ok := in.(*ssa.Store)
			if !ok {
				continue
			}
			fa, ok := st.Addr.(*ssa.FieldAddr)
			if !ok || !isFieldOf(fa, sl, "items") {
				continue
			}
			nSt++
			if !s.removes {
				c.ob("EF1", fname, "Peek writes nothing", p.InstrPos(st), false, "Peek must not modify the container")
				continue
			}
			got := x.path(st.Val)
			okR := false
			for _, w := range s.reslice {
				if got == w {
					okR = true
				}
			}
			c.ob("AG6", fname, "remaining elements re-sliced", p.InstrPos(st), okR, fmt.Sprintf("items is replaced by %q, expected %v: exactly the returned element must leave", got, s.reslice))
			c.ob("PT3", fname, "re-slice under the non-empty guard", p.InstrPos(st), nonEmpty(st.Block()), "items is re-sliced on a path not dominated by the non-empty test")
		}
		if s.removes {
			isStore := func(in ssa.Instruction) bool {
				st, ok := in.(*ssa.Store)
				if !ok {
					return false
				}
				fa, ok := st.Addr.(*ssa.FieldAddr)
				return ok && isFieldOf(fa, sl, "items")
			}
			c.ob("PT1", fname, "one removal per call", c.fpos(fn), nSt == 1 && path.MaxCount(fn, isStore) == 1, "the remover must re-slice items exactly once on the non-empty path")
			// element read before the re-slice: the returned element's load precedes the store
			// (both in one block in the accepted shape)
			okOrder := true
			for _, in := range path.Instrs(fn) {
				st, ok := in.(*ssa.Store)
				if !ok || !isStore(in) {
					continue
				}
				seenLoad := false
				for _, i2 := range st.Block().Instrs {
					if ia, ok := i2.(*ssa.IndexAddr); ok {
						if isLoadOfField(ia.X, sl, "items") {
							seenLoad = true
						}
					}
					if i2 == ssa.Instruction(st) {
						break
					}
				}
				if !seenLoad {
					okOrder = false
				}
			}
			c.ob("AG6", fname, "element read before the re-slice", c.fpos(fn), okOrder, "the element must be read from items before items is re-sliced in the same region")
		}
	}
	// Search: full forward scan
	{
		fn := fSearch
		fname := p.FuncName(fn)
		x := newPathCtx(p)
		rv := recv(fn)
		probe := paramByName(fn, "item")
		nCmp := 0
		for _, in := range path.Instrs(fn) {
			bo, ok := in.(*ssa.BinOp)
			if !ok || bo.Op != token.EQL {
				continue
			}
			a, b := bo.X, bo.Y
			if b != ssa.Value(probe) {
				a, b = b, a
			}
			if b != ssa.Value(probe) {
				continue
			}
			u, ok := a.(*ssa.UnOp)
			if !ok {
				continue
			}
			ia, ok := u.X.(*ssa.IndexAddr)
			if !ok || !isLoadOfField(ia.X, sl, "items") {
				continue
			}
			nCmp++
			// index is a forward induction bounded by len(items): the for loop
			// (0; i < len; i++) or the range loop
			okScan := isForwardInduction(ia.Index)
			// bound fact must be about the same index value
			okBound := guardedBy(fn, bo.Block(), func(cd path.Cond, truth bool) bool {
				return cd.Op == token.LSS && truth && cd.X == ia.Index && x.path(cd.Y) == "len("+rv+".items)"
			})
			if si, ok := classifyScan(x, fn, ia.Index, ia.X); ok && si.dir == +1 {
				okScan, okBound = true, true
			}
			c.ob("PT5", fname, "full forward scan of items", p.InstrPos(bo), okScan && okBound, "Search must compare every held element: index from 0, step 1, while i < len(items)")
			// true edge returns true, and false is returned only after the loop
			var tb *ssa.BasicBlock
			if iff := path.BlockIf(bo.Block()); iff != nil && iff.Cond == ssa.Value(bo) {
				tb = bo.Block().Succs[0]
			}
			okT := false
			if tb != nil {
				if ret, ok := tb.Instrs[len(tb.Instrs)-1].(*ssa.Return); ok {
					if bc, isC := path.BoolConst(path.ReturnValues(ret)[0]); isC && bc {
						okT = true
					}
				}
			}
			c.ob("PT5", fname, "match reports true", p.InstrPos(bo), okT, "a matching element must make Search return true")
		}
		// ... or Search hands the question to a membership function (the module's Contains,
		// x/exp/slices.Contains): a callee recognised by its body as a complete forward ==
		// scan of its first argument that writes nothing, given items and the probe, whose
		// answer is returned as it is
		delegated := false
		if nCmp == 0 {
			okD := true
			nR := 0
			for _, b := range fn.Blocks {
				ret, ok := b.Instrs[len(b.Instrs)-1].(*ssa.Return)
				if !ok || b == fn.Recover {
					continue
				}
				nR++
				call, ok := path.ReturnValues(ret)[0].(*ssa.Call)
				if !ok {
					okD = false
					continue
				}
				callee := path.StaticCallee(call)
				a := call.Call.Args
				if callee == nil || len(a) != 2 || !isLoadOfField(a[0], sl, "items") || a[1] != ssa.Value(probe) || !membershipFn(p, callee) {
					okD = false
				}
			}
			delegated = okD && nR > 0
			if delegated {
				c.ob("PT5", fname, "full forward scan of items", c.fpos(fn), true, "")
			}
		}
		c.ob("PT5", fname, "element comparison", c.fpos(fn), nCmp == 1 || delegated, "Search must compare the held elements with the probe at exactly one site")
		for _, b := range fn.Blocks {
			ret, ok := b.Instrs[len(b.Instrs)-1].(*ssa.Return)
			if !ok || b == fn.Recover {
				continue
			}
			if bc, isC := path.BoolConst(path.ReturnValues(ret)[0]); isC && !bc {
				c.ob("PT5", fname, "false only after the whole scan", p.InstrPos(ret), !path.InCycle(b) && onlyViaLoopHeader(fn, b), "Search returns false from inside the scan loop: later elements are not examined")
			}
			if bc, isC := path.BoolConst(path.ReturnValues(ret)[0]); isC && bc {
				// true only on the edge where a held element compared equal to the probe
				atMatch := false
				for _, pr := range b.Preds {
					if iff := path.BlockIf(pr); iff != nil && len(b.Preds) == 1 && pr.Succs[0] == b {
						if bo, ok := iff.Cond.(*ssa.BinOp); ok && bo.Op == token.EQL && (bo.X == ssa.Value(probe) || bo.Y == ssa.Value(probe)) {
							atMatch = true
						}
					}
				}
				c.ob("PT5", fname, "true only for a match", p.InstrPos(ret), atMatch, "Search answers true on a path other than the edge on which a held element compared equal to the probe")
			}
		}
	}
	// Size, Clear, who writes items
	{
		ret := accessorReturnDefer(fSize)
		x := newPathCtx(p)
		got := ""
		if ret != nil {
			got = x.path(ret)
		}
		c.ob("CM1", p.FuncName(fSize), "Size is len(items)", c.fpos(fSize), got == "len("+recv(fSize)+".items)", fmt.Sprintf("Size returns %q, expected the number of held elements", got))
		writers := map[string]bool{add: true, rem: true, "Clear": queue, "New": true}
		for _, f := range all1 {
			// the backing slice handed to another function (gogu.Reverse(q.items), sort...)
			for _, in := range path.Instrs(f) {
				call, ok := in.(ssa.CallInstruction)
				if !ok {
					continue
				}
				if _, isB := call.Common().Value.(*ssa.Builtin); isB {
					continue
				}
				for _, a := range call.Common().Args {
					v := a
					if slc, ok := v.(*ssa.Slice); ok {
						v = slc.X
					}
					if isLoadOfField(v, sl, "items") {
						if cal := path.StaticCallee(call); cal != nil && membershipFn(p, cal) {
							continue // a callee that only reads its slice argument
						}
						c.ob("AG1", p.FuncName(f), "hands items to another function", p.InstrPos(in), false, "the backing slice is passed to "+call.Common().Value.Name()+": the callee can reorder or overwrite the held elements")
					}
				}
			}
			for _, in := range path.Instrs(f) {
				st, ok := in.(*ssa.Store)
				if !ok {
					continue
				}
				// an element overwritten in place: no operation of the container does that
				if ia, isIA := st.Addr.(*ssa.IndexAddr); isIA && isLoadOfField(ia.X, sl, "items") {
					c.ob("AG1", p.FuncName(f), "overwrites an element of items", p.InstrPos(st), false, "an element of items is overwritten in place: the container no longer hands out what was put in")
					continue
				}
				fa, ok := st.Addr.(*ssa.FieldAddr)
				if !ok || !isFieldOf(fa, sl, "items") {
					continue
				}
				c.ob("AG1", p.FuncName(f), "writes items", p.InstrPos(st), writers[f.Name()], "items is written by a function other than the insertion, the removal and Clear")
				if f.Name() == "Clear" {
					x := newPathCtx(p)
					v := x.path(st.Val)
					c.ob("AG6", p.FuncName(f), "Clear empties the container", p.InstrPos(st), path.IsNil(st.Val) || v == recv(f)+".items[:0]", "Clear must store an empty slice")
				}
			}
		}
	}

	// =================== linked
	lAdd, lRem, lPeek, lSearch, lSize := c.fn(Lk+add), c.fn(Lk+rem), c.fn(Lk+"Peek"), c.fn(Lk+"Search"), c.fn(Lk+"Size")
	if lAdd == nil || lRem == nil || lPeek == nil || lSearch == nil || lSize == nil {
		return
	}
	const D = "list.(*DList)."
	dAppend, dShift, dPop, dFirst, dLast, dFind, dVal, dClear := c.helper(D+"Append"), c.helper(D+"Shift"), c.helper(D+"Pop"), c.helper(D+"First"), c.helper(D+"Last"), c.helper(D+"Find"), c.helper(D+"Val"), c.helper(D+"Clear")
	remPrim, peekPrim := dPop, dLast
	remName, peekName := "Pop", "Last"
	if queue {
		remPrim, peekPrim = dShift, dFirst
		remName, peekName = "Shift", "First"
	}
	isN := func(in ssa.Instruction) bool {
		st, ok := in.(*ssa.Store)
		if !ok {
			return false
		}
		fa, ok := st.Addr.(*ssa.FieldAddr)
		return ok && isFieldOf(fa, ln, "n")
	}
	step := func(st *ssa.Store) string {
		if bo, ok := st.Val.(*ssa.BinOp); ok && isLoadOfField(bo.X, ln, "n") {
			if k, ok := path.IntConst(bo.Y); ok && k == 1 {
				return bo.Op.String()
			}
		}
		if k, ok := path.IntConst(st.Val); ok {
			return fmt.Sprintf("=%d", k)
		}
		return "?"
	}
	listCalls := func(fn *ssa.Function) map[string][]ssa.CallInstruction {
		out := map[string][]ssa.CallInstruction{}
		for _, in := range path.Instrs(fn) {
			if call, ok := in.(ssa.CallInstruction); ok {
				if cal := path.StaticCallee(call); cal != nil && cal.Signature.Recv() != nil {
					if n := namedOf(cal.Signature.Recv().Type()); n != nil && n.Obj().Name() == "DList" {
						out[cal.Name()] = append(out[cal.Name()], call)
					}
				}
			}
		}
		return out
	}
	// insertion
	{
		fn := lAdd
		fname := p.FuncName(fn)
		mx, mn := path.MaxCount(fn, isN), path.MinCount(fn, isN)
		okStep := true
		for _, in := range path.Instrs(fn) {
			if isN(in) && step(in.(*ssa.Store)) != "+" {
				okStep = false
			}
		}
		c.ob("AG4", fname, "n incremented exactly once", c.fpos(fn), mx == 1 && mn == 1 && okStep, "the insertion must increment n by one exactly once on every path")
		lc := listCalls(fn)
		apps := lc["Append"]
		okA := len(apps) == 1 && len(lc) == 1
		byValue, known := dlistByValue(c)
		if okA {
			isApp := func(in ssa.Instruction) bool { return in == ssa.Instruction(apps[0]) }
			minApp := 1
			if byValue {
				minApp = 0 // the drained path stores into the placeholder node instead (PH1)
			}
			okA = path.MaxCount(fn, isApp) == 1 && path.MinCount(fn, isApp) >= minApp && apps[0].Common().Args[1] == ssa.Value(paramByName(fn, "item")) && isLoadOfField(apps[0].Common().Args[0], ln, "list")
		}
		c.ob("AG1", fname, "insertion is one Append(item) at the tail", c.fpos(fn), okA, "the insertion must call list.Append(item) exactly once (on every path that does not fill the drained container's own node) and use no other list operation")
		if !known {
			c.und("PH1", fname, "list.DList's representation", c.fpos(fn), "list.DList is no longer a struct: whether it can be empty, and with it what the insertion owes a drained container, cannot be determined")
		} else if byValue && len(apps) > 0 {
			checkDrainedInsert(c, fn, ln, apps)
		}
	}
	// removal
	{
		fn := lRem
		fname := p.FuncName(fn)
		x := newPathCtx(p)
		rv := recv(fn)
		mx := path.MaxCount(fn, isN)
		c.ob("AG4", fname, "n decremented at most once", c.fpos(fn), mx == 1, "the removal must decrement n at most once per call")
		for _, in := range path.Instrs(fn) {
			if !isN(in) {
				continue
			}
			st := in.(*ssa.Store)
			fs := edgeFacts(x, fn, st.Block())
			pos := hasFact(fs, rv+".n", ">", "0") || hasFact(fs, rv+".n", "!=", "0") || hasFact(fs, rv+".n", ">=", "1")
			c.ob("AG4", fname, "n-- only where n is positive", p.InstrPos(st), step(st) == "-" && pos, "the decrement is not dominated by a test of n > 0 read in the same critical section: Size can become negative")
		}
		lc := listCalls(fn)
		rems := lc[remName]
		okR := len(rems) == 1
		for k := range lc {
			if k != remName && k != "Val" {
				okR = false
			}
		}
		c.ob("AG1", fname, "removal is one "+remName+"()", c.fpos(fn), okR && remPrim != nil, "the removal must use list."+remName+"() exactly once (and Val to read the node) and no other list operation")
		if okR {
			isRem := func(in ssa.Instruction) bool { return in == ssa.Instruction(rems[0]) }
			c.ob("PT1", fname, "one removal per call", p.InstrPos(rems[0]), path.MaxCount(fn, isRem) == 1, "the list removal sits in a loop")
			if queue {
				// the removal happens only where n is positive (empty case changes nothing)
				fs := edgeFacts(x, fn, rems[0].Block())
				pos := hasFact(fs, rv+".n", ">", "0") || hasFact(fs, rv+".n", "!=", "0") || hasFact(fs, rv+".n", ">=", "1")
				c.ob("PT3", fname, "empty queue is not touched", p.InstrPos(rems[0]), pos, "Shift is reachable when n == 0: dequeuing from an empty queue alters the list")
			}
			// returned value = Val(removed node)
			for _, b := range fn.Blocks {
				ret, ok := b.Instrs[len(b.Instrs)-1].(*ssa.Return)
				if !ok || b == fn.Recover {
					continue
				}
				rvs := path.ReturnValues(ret)
				if !(rems[0].Block() == b || rems[0].Block().Dominates(b)) {
					c.ob("PT3", fname, "empty case returns the zero value", p.InstrPos(ret), zeroResult(rvs[0], b), "a return that bypasses the removal must return the zero value")
					continue
				}
				okV := false
				if call, ok := rvs[0].(*ssa.Call); ok && dVal != nil && path.StaticCallee(call) == dVal && call.Call.Args[1] == rems[0].(ssa.Value) {
					okV = true
				}
				if u, ok := rvs[0].(*ssa.UnOp); ok && u.Op == token.MUL {
					if fa, ok := u.X.(*ssa.FieldAddr); ok && fa.X == rems[0].(ssa.Value) && fieldName(fa.X.Type(), fa.Field) == "Value" {
						okV = true
					}
				}
				c.ob("PV1", fname, "returns the removed node's value", p.InstrPos(ret), okV, "the value returned is not the value of the node handed back by "+remName+"()")
			}
		}
	}
	if !queue && dPop != nil {
		checkDListPop(c, dPop, lRem, ln)
	}
	// peek, search, size, clear
	{
		lc := listCalls(lPeek)
		okP := len(lc) == 1 && len(lc[peekName]) == 1 && peekPrim != nil
		byValue, _ := dlistByValue(c)
		// the queue's removal end is the head node itself: reading its Value directly
		// (l.list.Value) is what First() does
		var direct *ssa.UnOp
		if queue && byValue && len(lc) == 0 {
			for _, in := range path.Instrs(lPeek) {
				if ld, ok := in.(*ssa.UnOp); ok && ld.Op == token.MUL {
					if fa, ok := ld.X.(*ssa.FieldAddr); ok && fieldName(fa.X.Type(), fa.Field) == "Value" {
						base := fa.X
						for {
							if f2, ok := base.(*ssa.FieldAddr); ok {
								base = f2.X
								continue
							}
							break
						}
						if isLoadOfField(base, ln, "list") {
							direct = ld
						}
					}
				}
			}
			okP = direct != nil
		}
		if okP {
			var call ssa.Instruction
			var callVal ssa.Value
			if direct != nil {
				call, callVal = direct, direct
			} else {
				call, callVal = lc[peekName][0], lc[peekName][0].(ssa.Value)
			}
			nCall := 0
			for _, alt := range returnAlternatives(lPeek, 0) {
				if alt.val == callVal {
					nCall++
					continue
				}
				// the empty container: the zero value, where n is known to be zero
				at, found := nGuard(lPeek, alt.blk, ln)
				if !(byValue && zeroResult(alt.val, alt.blk) && found && onlyZero(at)) {
					okP = false
				}
			}
			if nCall == 0 {
				okP = false
			}
			if byValue {
				checkDrainedObserver(c, lPeek, ln, call, "Peek")
			}
		}
		c.ob("AG1", p.FuncName(lPeek), "Peek reads the removal end", c.fpos(lPeek), okP, "Peek must return list."+peekName+"(): the element the next removal hands out (or the zero value where n is zero)")
		nW := 0
		for _, in := range path.Instrs(lPeek) {
			if isN(in) {
				nW++
			}
		}
		c.ob("EF1", p.FuncName(lPeek), "Peek writes nothing", c.fpos(lPeek), nW == 0, "Peek must not change n")
		lc = listCalls(lSearch)
		okS := len(lc) == 1 && len(lc["Find"]) == 1 && lc["Find"][0].Common().Args[1] == ssa.Value(paramByName(lSearch, "item"))
		c.ob("AG1", p.FuncName(lSearch), "Search looks the probe up", c.fpos(lSearch), okS && dFind != nil, "Search must be list.Find(item)")
		// ... and answers what the lookup found
		if okS {
			find := lc["Find"][0].(ssa.Value)
			isFound := func(v ssa.Value) bool {
				ex, ok := v.(*ssa.Extract)
				return ok && ex.Tuple == find && ex.Index == 1
			}
			if byValue {
				checkDrainedObserver(c, lSearch, ln, lc["Find"][0], "Search")
			}
			for _, alt := range returnAlternatives(lSearch, 0) {
				okA := isFound(alt.val)
				if bc, isC := path.BoolConst(alt.val); isC {
					okA = boolGuard(lSearch, alt.blk, isFound, bc)
					if at, found := nGuard(lSearch, alt.blk, ln); !okA && !bc && byValue && found && onlyZero(at) {
						okA = true // the empty container holds nothing
					}
					if !okA && !bc && byValue && len(alt.blk.Preds) > 1 {
						// "if n > 0 { if found { return true } }; return false": every way
						// into the return carries "not found" or "n is zero"
						okA = true
						for _, pr := range alt.blk.Preds {
							at, found := nGuardEdge(lSearch, pr, alt.blk, ln)
							if found && onlyZero(at) {
								continue
							}
							if iff := path.BlockIf(pr); iff != nil && len(pr.Succs) == 2 {
								v, neg := iff.Cond, false
								for {
									if u, ok := v.(*ssa.UnOp); ok && u.Op == token.NOT {
										neg, v = !neg, u.X
										continue
									}
									break
								}
								onTrue := pr.Succs[0] == alt.blk
								if isFound(v) && (onTrue == neg) {
									continue
								}
							}
							if boolGuard(lSearch, pr, isFound, false) {
								continue
							}
							okA = false
						}
					}
				}
				c.ob("AG1", p.FuncName(lSearch), "Search answers what the lookup found", p.InstrPos(alt.ret), okA, "Search's answer is not the found-flag of list.Find(item) (nor a constant on the edge where the flag has that value)")
			}
		}
		ret := accessorReturnDefer(lSize)
		c.ob("CM1", p.FuncName(lSize), "Size reports n", c.fpos(lSize), ret != nil && isLoadOfField(ret, ln, "n"), "Size must return n")
		for _, f := range all2 {
			for _, in := range path.Instrs(f) {
				if !isN(in) {
					continue
				}
				st := in.(*ssa.Store)
				switch f.Name() {
				case add, rem:
				case "Clear":
					c.ob("AG4", p.FuncName(f), "Clear resets n", p.InstrPos(st), step(st) == "=0", "Clear must set n to 0")
					lc := listCalls(f)
					c.ob("AG4", p.FuncName(f), "Clear truncates the list", p.InstrPos(st), len(lc["Clear"]) == 1 && dClear != nil, "Clear must also clear the list")
				case "NewLinked":
					c.ob("AG4", p.FuncName(f), "initial n", p.InstrPos(st), step(st) == "=1", "a new linked container holds its one initial element")
				default:
					c.ob("AG4", p.FuncName(f), "n written", p.InstrPos(st), false, "n is written outside the insertion, the removal, Clear and the constructor")
				}
			}
		}
	}
	// who may change the list: only the operations the rules above are phrased over
	{
		mutating := map[string]bool{"Unshift": true, "Append": true, "InsertBefore": true, "InsertAfter": true, "Replace": true, "Delete": true, "Shift": true, "Pop": true, "Clear": true}
		covered := map[string]bool{add: true, rem: true, "Clear": true, "NewLinked": true}
		for _, f := range all2 {
			if covered[f.Name()] {
				continue
			}
			var fs []*ssa.Function
			var addf func(g *ssa.Function)
			addf = func(g *ssa.Function) {
				fs = append(fs, g)
				for _, a := range g.AnonFuncs {
					addf(a)
				}
			}
			addf(f)
			for _, g := range fs {
				for name, calls := range listCalls(g) {
					for _, call := range calls {
						// by name for the known mutators, by effect for everything else
						// (DList.Each rewrites the head while it iterates)
						if cal := path.StaticCallee(call); !mutating[name] && (cal == nil || listWrites(p, cal) == 0) {
							continue
						}
						c.ob("AG1", p.FuncName(f), "changes the list", p.InstrPos(call), false, "the list is changed (DList."+name+") by a function other than the insertion, the removal and Clear: the order of delivery the rules establish no longer holds")
					}
				}
			}
		}
	}
	// positional primitives never compare element values; read-only ones write nothing
	for _, pr := range []struct {
		fn   *ssa.Function
		name string
		ro   bool
	}{{dAppend, "Append", false}, {remPrim, remName, false}, {peekPrim, peekName, true}, {dVal, "Val", true}, {dFind, "Find", true}} {
		if pr.fn == nil {
			continue
		}
		if pr.name != "Find" {
			ok, where := noValueComparison(p, pr.fn)
			c.ob("PV5", p.FuncName(pr.fn), "position, not value", c.fpos(pr.fn), ok, "a positional list operation compares element values (in "+where+"): with duplicate elements it acts on the wrong node")
		}
		if pr.ro {
			w := listWrites(p, pr.fn)
			c.ob("EF1", p.FuncName(pr.fn), "observer writes nothing", c.fpos(pr.fn), w == 0, "a read-only list operation stores into list nodes: Peek/Search would change the container")
		}
	}
}

// singleElemSlice recognises the variadic argument of append(s, v): a slice of a
// fresh one-element array holding v.
func singleElemSlice(v ssa.Value) (ssa.Value, bool) {
	sl, ok := v.(*ssa.Slice)
	if !ok {
		return nil, false
	}
	al, ok := sl.X.(*ssa.Alloc)
	if !ok {
		return nil, false
	}
	pt, ok := al.Type().Underlying().(*types.Pointer)
	if !ok {
		return nil, false
	}
	arr, ok := pt.Elem().Underlying().(*types.Array)
	if !ok || arr.Len() != 1 {
		return nil, false
	}
	var src ssa.Value
	n := 0
	for _, r := range *al.Referrers() {
		ia, ok := r.(*ssa.IndexAddr)
		if !ok {
			continue
		}
		for _, rr := range *ia.Referrers() {
			if st, ok := rr.(*ssa.Store); ok && st.Addr == ssa.Value(ia) {
				src = st.Val
				n++
			}
		}
	}
	if n != 1 {
		return nil, false
	}
	return src, true
}

// onlyViaLoopHeader: block b (outside every loop) is entered, from any loop of fn,
// only through the exit edge of that loop's header (the block holding the loop
// condition): no early exit from a loop body leads to b.
func onlyViaLoopHeader(fn *ssa.Function, b *ssa.BasicBlock) bool {
	// blocks from which b is reachable
	canReach := map[*ssa.BasicBlock]bool{b: true}
	for changed := true; changed; {
		changed = false
		for _, x := range fn.Blocks {
			if canReach[x] {
				continue
			}
			for _, s := range x.Succs {
				if canReach[s] {
					canReach[x] = true
					changed = true
				}
			}
		}
	}
	// outermost natural loops
	var loops []map[*ssa.BasicBlock]bool
	var heads []*ssa.BasicBlock
	for _, h := range fn.Blocks {
		if l := path.NaturalLoop(h); len(l) > 0 {
			loops = append(loops, l)
			heads = append(heads, h)
		}
	}
	for i, l := range loops {
		outer := true
		for j, m := range loops {
			if i != j && m[heads[i]] && len(m) > len(l) {
				outer = false
			}
		}
		if !outer || l[b] {
			continue
		}
		for x := range l {
			for _, s := range x.Succs {
				if l[s] || !canReach[s] {
					continue
				}
				if x != heads[i] {
					return false
				}
			}
		}
	}
	// ... and b lies behind a loop at all: a return in front of the scan answers without
	// having looked at a single element - unless the input is known to be empty there
	if len(heads) > 0 {
		behind := false
		for _, h := range heads {
			if h != b && h.Dominates(b) {
				behind = true
			}
		}
		if !behind && !guardedByEmptyInput(fn, b) {
			return false
		}
	}
	return true
}

// guardedByEmptyInput: b is dominated by a test that lets only len(x) == 0 through, for
// some x (early exit for an empty input: nothing to scan).
func guardedByEmptyInput(fn *ssa.Function, b *ssa.BasicBlock) bool {
	return emptyInputGuards(path.Guards(fn, b))
}

// emptyInputEdge: control passes from block from to block to only for an empty input
// (the branch at the end of from, or a guard of from, lets only len(x) == 0 through).
func emptyInputEdge(fn *ssa.Function, from, to *ssa.BasicBlock) bool {
	gs := append([]path.Guard(nil), path.Guards(fn, from)...)
	if iff := path.BlockIf(from); iff != nil && len(from.Succs) == 2 && from.Succs[0] != from.Succs[1] {
		idx := 0
		if from.Succs[1] == to {
			idx = 1
		}
		gs = append(gs, path.Guard{If: iff, Idx: idx})
	}
	return emptyInputGuards(gs)
}

func emptyInputGuards(gs []path.Guard) bool {
	for _, g := range gs {
		cd, ok := path.CondOf(g.If)
		if !ok {
			continue
		}
		truth := g.Idx == 0
		if cd.Neg {
			truth = !truth
		}
		op, l, r := cd.Op, cd.X, cd.Y
		isLen := func(v ssa.Value) bool {
			c, ok := v.(*ssa.Call)
			if !ok {
				return false
			}
			bi, ok := c.Call.Value.(*ssa.Builtin)
			return ok && bi.Name() == "len"
		}
		if isLen(r) && !isLen(l) {
			l, r = r, l
			switch op {
			case token.LSS:
				op = token.GTR
			case token.LEQ:
				op = token.GEQ
			case token.GTR:
				op = token.LSS
			case token.GEQ:
				op = token.LEQ
			}
		}
		k, isK := path.IntConst(r)
		if !isLen(l) || !isK {
			continue
		}
		onlyZero := true
		for n := int64(0); n < 4; n++ {
			var res bool
			switch op {
			case token.EQL:
				res = n == k
			case token.NEQ:
				res = n != k
			case token.LSS:
				res = n < k
			case token.LEQ:
				res = n <= k
			case token.GTR:
				res = n > k
			case token.GEQ:
				res = n >= k
			}
			if (res == truth) != (n == 0) {
				onlyZero = false
			}
		}
		if onlyZero {
			return true
		}
	}
	return false
}

// listWrites counts the stores into DList / DoubleNode storage (not into by-value
// local copies) that fn can perform, directly or through in-module callees.
func listWrites(p *core.Program, fn *ssa.Function) int {
	w := 0
	for f := range reaches(fn) {
		if !p.InModule(f) {
			continue
		}
		for _, in := range path.Instrs(f) {
			if st, ok := in.(*ssa.Store); ok {
				if fa, ok := st.Addr.(*ssa.FieldAddr); ok {
					if n := namedOf(fa.X.Type()); n != nil && (n.Obj().Name() == "DList" || n.Obj().Name() == "DoubleNode") {
						w++
					}
				}
				if _, ok := st.Addr.(*ssa.FieldAddr); !ok {
					if al, isLocal := st.Addr.(*ssa.Alloc); isLocal && !al.Heap {
						continue // by-value copy into a local
					}
					if n := namedOf(st.Addr.Type()); n != nil && (n.Obj().Name() == "DList" || n.Obj().Name() == "DoubleNode") {
						w++
					}
				}
			}
		}
	}
	return w
}
