package props

import (
	"fmt"
	"go/constant"
	"go/token"
	"go/types"

	"golang.org/x/tools/go/ssa"

	"gogucheck/path"
)

// Range: which argument combinations are rejected, which of the two loops runs, where
// it starts, where it stops and by how much it moves are all decided, before the
// first iteration, by comparisons between the arguments, 0 and 1 (plus negation
// through Abs).  That part of Range is therefore a function of the ORDER TYPE of the
// arguments, and - like the OD2 rule for Clamp/InRange/Abs - it is tabulated over
// representatives of every order type of (start, step, end, 0, 1): integers in
// [-3,3], closed under negation.  The table is computed by following the SSA of the
// prefix of Range (everything up to the first loop header); a prefix that does
// arithmetic on argument values, or anything else outside comparisons, selection
// and the module's own comparison-only helpers, is undecided.  The loops themselves
// are then checked for shape: one append of a value derived from the counter per
// iteration, unconditional, and the accumulated slice is what is returned.
// The numeric values produced by the iterations (overflow, float rounding through
// NumToString/N) are not decided.

type rgVal struct {
	kind   int // 0 int, 1 bool, 2 non-nil error, 3 nil, 4 opaque, 5 struct
	n      int64
	b      bool
	elem   bool          // derived from an argument value (no arithmetic allowed on it in the prefix)
	fields map[int]rgVal // kind 5: a local struct that groups start/step/end
}

func (v rgVal) clone() rgVal {
	if v.kind != 5 {
		return v
	}
	c := rgVal{kind: 5, fields: map[int]rgVal{}}
	for k, f := range v.fields {
		c.fields[k] = f.clone()
	}
	return c
}

// rgZero: the zero value of a local of type t.
func rgZero(t types.Type) rgVal {
	switch u := t.Underlying().(type) {
	case *types.Basic:
		if u.Info()&types.IsBoolean != 0 {
			return rgVal{kind: 1}
		}
		if u.Info()&types.IsNumeric != 0 {
			return rgVal{}
		}
		return rgVal{kind: 4}
	case *types.Struct:
		v := rgVal{kind: 5, fields: map[int]rgVal{}}
		for i := 0; i < u.NumFields(); i++ {
			v.fields[i] = rgZero(u.Field(i).Type())
		}
		return v
	case *types.Interface:
		if _, isTP := t.(*types.TypeParam); isTP {
			return rgVal{} // a Number
		}
		return rgVal{kind: 3}
	case *types.Pointer, *types.Slice, *types.Map, *types.Signature, *types.Chan:
		return rgVal{kind: 3}
	}
	return rgVal{kind: 4}
}

type rgOutcome struct {
	kind   string // "error", "loop", "early", "panic"
	asc    bool
	init   int64
	bound  int64
	d      int64 // amount moved per iteration
	dKnown bool
	header *ssa.BasicBlock
}

func rangeEval(c rc, fn *ssa.Function, a []int64, scale int64) (out rgOutcome, ok bool, why string) {
	if len(fn.Params) != 1 {
		return out, false, "Range no longer takes one variadic parameter"
	}
	args := ssa.Value(fn.Params[0])
	vals := map[ssa.Value]rgVal{}
	ptr := map[ssa.Value]int64{}
	cells := map[*ssa.Alloc]*rgVal{} // local variables that live in memory (structs, captured scalars)
	type fieldPtr struct {
		al  *ssa.Alloc
		idx int
	}
	fptr := map[ssa.Value]fieldPtr{}
	get := func(v ssa.Value) (rgVal, bool) {
		if k, isC := v.(*ssa.Const); isC {
			if k.Value == nil {
				return rgVal{kind: 3}, true
			}
			sc := int64(1)
			if od2Dense(k.Type()) {
				sc = scale // a constant in the units of the arguments
			}
			switch k.Value.Kind() {
			case constant.Int:
				n, exact := constant.Int64Val(k.Value)
				if sc > 1 && (n > 2 || n < -2) {
					// a constant of the arguments' type the representatives (-3 .. 3) do not
					// surround: the table would not see both sides of it
					return rgVal{kind: 4}, true
				}
				return rgVal{n: n * sc}, exact
			case constant.Float:
				f, _ := constant.Float64Val(k.Value)
				f *= float64(sc)
				if f == float64(int64(f)) {
					return rgVal{n: int64(f)}, true
				}
			case constant.Bool:
				return rgVal{kind: 1, b: constant.BoolVal(k.Value)}, true
			}
			return rgVal{kind: 4}, true
		}
		r, ok := vals[v]
		return r, ok
	}
	// getLazy also reads a local variable that lives in memory at a site that was not
	// executed (the step operand inside the loop body), provided nothing in the
	// function stores into that variable after the prefix (no store inside a loop)
	var getLazy func(v ssa.Value) (rgVal, bool)
	storedInLoop := func(al *ssa.Alloc) bool {
		for _, rf := range *al.Referrers() {
			switch x := rf.(type) {
			case *ssa.Store:
				if x.Addr == ssa.Value(al) && path.InCycle(x.Block()) {
					return true
				}
			case *ssa.FieldAddr:
				for _, r2 := range *x.Referrers() {
					if st, ok := r2.(*ssa.Store); ok && st.Addr == ssa.Value(x) && path.InCycle(st.Block()) {
						return true
					}
				}
			}
		}
		return false
	}
	getLazy = func(v ssa.Value) (rgVal, bool) {
		if r, ok := get(v); ok {
			return r, true
		}
		switch x := v.(type) {
		case *ssa.UnOp:
			if x.Op != token.MUL {
				return rgVal{}, false
			}
			if al, ok := x.X.(*ssa.Alloc); ok && cells[al] != nil && !storedInLoop(al) {
				return cells[al].clone(), true
			}
			if fa, ok := x.X.(*ssa.FieldAddr); ok {
				if al, ok := fa.X.(*ssa.Alloc); ok && cells[al] != nil && cells[al].kind == 5 && !storedInLoop(al) {
					return cells[al].fields[fa.Field].clone(), true
				}
			}
		case *ssa.Field:
			if sv, ok := getLazy(x.X); ok && sv.kind == 5 {
				return sv.fields[x.Field].clone(), true
			}
		case *ssa.Convert:
			return getLazy(x.X)
		case *ssa.ChangeType:
			return getLazy(x.X)
		case *ssa.MultiConvert:
			return getLazy(x.X)
		}
		return rgVal{}, false
	}
	evalHelper := func(call *ssa.Call) (rgVal, bool, string) {
		callee := path.StaticCallee(call)
		if callee == nil || !c.p.InModule(callee) || len(callee.Params) != len(call.Call.Args) {
			return rgVal{}, false, "call of " + call.Call.Value.Name() + " in the prefix"
		}
		env := od2Env{params: map[*ssa.Parameter]int64{}, inModule: c.p.InModule}
		for i, av := range call.Call.Args {
			v, ok := getLazy(av)
			if !ok || v.kind != 0 {
				return rgVal{}, false, "helper argument outside the accepted form"
			}
			env.params[callee.Params[i]] = v.n
		}
		res, ok, why := od2Eval(callee, env)
		if !ok || res.isBool {
			return rgVal{}, false, "helper " + callee.Name() + " is not comparison-only (" + why + ")"
		}
		return rgVal{n: res.n, elem: true}, true, ""
	}
	b := fn.Blocks[0]
	var prev *ssa.BasicBlock
	for steps := 0; steps < 400; steps++ {
		advanced := false
		for _, in := range b.Instrs {
			switch x := in.(type) {
			case *ssa.DebugRef:
			case *ssa.Phi:
				for i, p := range b.Preds {
					if p == prev {
						v, ok := get(x.Edges[i])
						if !ok {
							return out, false, "phi operand outside the accepted form"
						}
						vals[x] = v
					}
				}
			case *ssa.Alloc:
				z := rgZero(x.Type().(*types.Pointer).Elem())
				cells[x] = &z
			case *ssa.FieldAddr:
				al, ok := x.X.(*ssa.Alloc)
				if !ok || cells[al] == nil || cells[al].kind != 5 {
					return out, false, "field of something other than a local struct"
				}
				fptr[x] = fieldPtr{al, x.Field}
			case *ssa.Field:
				sv, ok := get(x.X)
				if !ok || sv.kind != 5 {
					return out, false, "field of a value outside the accepted form"
				}
				vals[x] = sv.fields[x.Field].clone()
			case *ssa.Store:
				v, ok := get(x.Val)
				if !ok {
					return out, false, "stored value outside the accepted form"
				}
				if al, ok := x.Addr.(*ssa.Alloc); ok && cells[al] != nil {
					c := v.clone()
					cells[al] = &c
				} else if fp, ok := fptr[x.Addr]; ok {
					cells[fp.al].fields[fp.idx] = v.clone()
				} else {
					return out, false, "store outside the local variables"
				}
			case *ssa.IndexAddr:
				if x.X != args {
					return out, false, "indexing something other than the arguments"
				}
				iv, ok := get(x.Index)
				if !ok || iv.kind != 0 || iv.elem {
					return out, false, "argument index outside the accepted form"
				}
				if iv.n < 0 || iv.n >= int64(len(a)) {
					return rgOutcome{kind: "panic"}, true, ""
				}
				ptr[x] = iv.n
			case *ssa.UnOp:
				switch x.Op {
				case token.MUL:
					if al, isAl := x.X.(*ssa.Alloc); isAl && cells[al] != nil {
						vals[x] = cells[al].clone()
						continue
					}
					if fp, isF := fptr[x.X]; isF {
						vals[x] = cells[fp.al].fields[fp.idx].clone()
						continue
					}
					k, ok := ptr[x.X]
					if !ok {
						return out, false, "load outside the accepted form"
					}
					vals[x] = rgVal{n: a[k], elem: true}
				case token.NOT:
					o, ok := get(x.X)
					if !ok || o.kind != 1 {
						return out, false, "negation outside the accepted form"
					}
					vals[x] = rgVal{kind: 1, b: !o.b}
				case token.SUB:
					o, ok := get(x.X)
					if !ok || o.kind != 0 {
						return out, false, "unary minus outside the accepted form"
					}
					vals[x] = rgVal{n: -o.n, elem: o.elem}
				default:
					return out, false, "unary " + x.Op.String()
				}
			case *ssa.BinOp:
				l, ok1 := get(x.X)
				r, ok2 := get(x.Y)
				if !ok1 || !ok2 || l.kind != 0 || r.kind != 0 {
					// err != nil style tests
					if ok1 && ok2 && (x.Op == token.EQL || x.Op == token.NEQ) && (l.kind == 2 || l.kind == 3) && (r.kind == 2 || r.kind == 3) {
						eq := l.kind == r.kind && l.kind == 3
						vals[x] = rgVal{kind: 1, b: eq == (x.Op == token.EQL)}
						continue
					}
					return out, false, "operand of " + x.Op.String() + " outside the accepted form"
				}
				switch x.Op {
				case token.LSS:
					vals[x] = rgVal{kind: 1, b: l.n < r.n}
				case token.LEQ:
					vals[x] = rgVal{kind: 1, b: l.n <= r.n}
				case token.GTR:
					vals[x] = rgVal{kind: 1, b: l.n > r.n}
				case token.GEQ:
					vals[x] = rgVal{kind: 1, b: l.n >= r.n}
				case token.EQL:
					vals[x] = rgVal{kind: 1, b: l.n == r.n}
				case token.NEQ:
					vals[x] = rgVal{kind: 1, b: l.n != r.n}
				case token.ADD, token.SUB:
					if l.elem || r.elem {
						return out, false, "arithmetic on argument values before the loops (the table over order types does not cover it)"
					}
					if x.Op == token.ADD {
						vals[x] = rgVal{n: l.n + r.n}
					} else {
						vals[x] = rgVal{n: l.n - r.n}
					}
				default:
					return out, false, "arithmetic " + x.Op.String()
				}
			case *ssa.Convert:
				v, ok := get(x.X)
				if !ok {
					return out, false, "conversion operand outside the accepted form"
				}
				vals[x] = v
			case *ssa.ChangeType:
				v, ok := get(x.X)
				if !ok {
					return out, false, "conversion operand outside the accepted form"
				}
				vals[x] = v
			case *ssa.MultiConvert:
				v, ok := get(x.X)
				if !ok {
					return out, false, "conversion operand outside the accepted form"
				}
				vals[x] = v
			case *ssa.Call:
				if bi, isB := x.Call.Value.(*ssa.Builtin); isB {
					if bi.Name() == "len" && x.Call.Args[0] == args {
						vals[x] = rgVal{n: int64(len(a))}
						continue
					}
					return out, false, "builtin " + bi.Name() + " in the prefix"
				}
				if path.IsCallTo(x, "errors", "New") || path.IsCallTo(x, "fmt", "Errorf") {
					vals[x] = rgVal{kind: 2}
					continue
				}
				v, ok, why := evalHelper(x)
				if !ok {
					return out, false, why
				}
				vals[x] = v
			case *ssa.If:
				if path.InCycle(b) {
					// the test of a loop: describe the loop and stop
					iff := x
					cd, okc := path.CondOf(iff)
					if !okc || cd.Neg {
						return out, false, "loop test is not a plain comparison"
					}
					var iv *ssa.Phi
					var bound ssa.Value
					asc := false
					isCounter := func(v ssa.Value) *ssa.Phi {
						ph, ok := v.(*ssa.Phi)
						if ok && ph.Block() == b {
							return ph
						}
						return nil
					}
					switch {
					case cd.Op == token.LSS && isCounter(cd.X) != nil:
						iv, bound, asc = isCounter(cd.X), cd.Y, true
					case cd.Op == token.GTR && isCounter(cd.Y) != nil:
						iv, bound, asc = isCounter(cd.Y), cd.X, true
					case cd.Op == token.LSS && isCounter(cd.Y) != nil:
						iv, bound, asc = isCounter(cd.Y), cd.X, false
					case cd.Op == token.GTR && isCounter(cd.X) != nil:
						iv, bound, asc = isCounter(cd.X), cd.Y, false
					default:
						return out, false, "loop test is not a strict comparison of the counter with the end"
					}
					// the loop continues on the true edge
					if !path.NaturalLoop(b)[b.Succs[0]] || path.NaturalLoop(b)[b.Succs[1]] {
						return out, false, "loop does not continue exactly on the true edge of its test"
					}
					iv0, ok1 := get(iv)
					bv, ok2 := get(bound)
					if !ok1 || !ok2 || iv0.kind != 0 || bv.kind != 0 {
						return out, false, "loop start or end not determined by the prefix"
					}
					out = rgOutcome{kind: "loop", asc: asc, init: iv0.n, bound: bv.n, header: b}
					// the step: every back edge is counter +/- d
					for i, p := range b.Preds {
						if p == prev {
							continue
						}
						bo, isB := iv.Edges[i].(*ssa.BinOp)
						if !isB || bo.X != ssa.Value(iv) || (bo.Op != token.ADD && bo.Op != token.SUB) {
							return out, false, "counter is not advanced by counter +/- d"
						}
						var dv rgVal
						var okd bool
						if v, ok := getLazy(bo.Y); ok {
							dv, okd = v, true
						} else if call, isCall := bo.Y.(*ssa.Call); isCall {
							v, ok, why := evalHelper(call)
							if !ok {
								return out, false, why
							}
							dv, okd = v, true
						}
						if !okd || dv.kind != 0 {
							return out, false, "step not determined by the prefix"
						}
						d := dv.n
						if bo.Op == token.SUB {
							d = -d
						}
						if out.dKnown && out.d != d {
							return out, false, "back edges advance the counter differently"
						}
						out.d, out.dKnown = d, true
					}
					return out, true, ""
				}
				cv, ok := get(x.Cond)
				if !ok || cv.kind != 1 {
					return out, false, "branch condition outside the accepted form"
				}
				prev = b
				if cv.b {
					b = b.Succs[0]
				} else {
					b = b.Succs[1]
				}
				advanced = true
			case *ssa.Jump:
				prev = b
				b = b.Succs[0]
				advanced = true
			case *ssa.Return:
				if len(x.Results) != 2 {
					return out, false, "Range no longer returns (slice, error)"
				}
				ev, ok := get(x.Results[1])
				if !ok {
					return out, false, "returned error outside the accepted form"
				}
				if ev.kind == 2 {
					return rgOutcome{kind: "error"}, true, ""
				}
				if ev.kind == 3 {
					return rgOutcome{kind: "early"}, true, ""
				}
				return out, false, "returned error outside the accepted form"
			default:
				return out, false, fmt.Sprintf("instruction %T in the prefix", in)
			}
			if advanced {
				break
			}
		}
		if !advanced {
			return out, false, "block without a terminator"
		}
	}
	return out, false, "prefix did not terminate"
}

func checkRange(c rc) {
	p := c.p
	name := "gogu.Range"
	fn := c.fn(name)
	if fn == nil {
		return
	}
	abs := func(x int64) int64 {
		if x < 0 {
			return -x
		}
		return x
	}
	// Range is generic over Number, a dense order when T is a float type: the
	// representatives are in half units (every constant of type T in the body is
	// doubled), so that values strictly between 0 and 1 are represented
	const scale = 2
	reps := []int64{-6, -5, -4, -3, -2, -1, 0, 1, 2, 3, 4, 5, 6}
	show := func(a []int64) string {
		out := "["
		for i, x := range a {
			if i > 0 {
				out += " "
			}
			out += fmt.Sprint(float64(x) / scale)
		}
		return out + "]"
	}
	bad := 0
	und := false
	headers := map[*ssa.BasicBlock]bool{}
	try := func(a []int64) {
		if und {
			return
		}
		got, ok, why := rangeEval(c, fn, a, scale)
		if !ok {
			und = true
			c.und("OD2", name, "argument handling is comparison-only", c.fpos(fn), "the part of Range before its loops is no longer built from comparisons, selection and comparison-only helpers ("+why+"); its table cannot be computed")
			return
		}
		// the specification
		var start, step, end int64
		wantErr := false
		switch len(a) {
		case 1:
			start, step, end = 0, scale, a[0]
		case 2:
			start, step, end = a[0], scale, a[1]
		case 3:
			start, step, end = a[0], a[1], a[2]
			wantErr = (start > end && end > 0) || step == 0 || (step < 0 && end > start)
		default:
			wantErr = true
		}
		okV := true
		reason := ""
		switch {
		case wantErr:
			okV = got.kind == "error"
			reason = "must be rejected with an error"
		case got.kind == "error":
			okV = false
			reason = "is a valid combination and must not be rejected"
		case got.kind == "panic":
			okV = false
			reason = "must not index past the arguments"
		default:
			asc := end > 0
			runs := (asc && start < end) || (!asc && end < start)
			if got.kind == "early" {
				okV = !runs
				reason = "must produce a non-empty progression"
			} else {
				headers[got.header] = true
				if got.asc != asc {
					okV = false
					reason = fmt.Sprintf("must run the %s loop (ascending exactly when end > 0)", map[bool]string{true: "ascending", false: "descending"}[asc])
				} else if got.init != start || got.bound != end {
					okV = false
					reason = fmt.Sprintf("must start at %v and stop before %v, the loop starts at %v and tests against %v", float64(start)/scale, float64(end)/scale, float64(got.init)/scale, float64(got.bound)/scale)
				} else if runs {
					want := abs(step)
					if !asc {
						want = -want
					}
					if !got.dKnown || got.d != want {
						okV = false
						reason = fmt.Sprintf("must move by |step| toward end (%+v per iteration), the loop moves by %+v", float64(want)/scale, float64(got.d)/scale)
					}
				}
			}
		}
		c.r.Obligation("OD2", okV, map[string]any{"rule": "OD2", "function": name, "order_type_representative": append([]int64(nil), a...), "ok": okV})
		if !okV {
			bad++
			if bad <= 2 {
				c.r.Violation(coreDiag("OD2", name, "argument table", c.fpos(fn), fmt.Sprintf("Range called with arguments ordered like %s %s", show(a), reason)))
			}
		}
	}
	for _, x := range reps {
		try([]int64{x})
		for _, y := range reps {
			try([]int64{x, y})
			for _, z := range reps {
				try([]int64{x, y, z})
			}
		}
	}
	try([]int64{1, 1, 1, 1})
	try([]int64{0, 1, 5, 2, 9})
	if und {
		return
	}
	// ---- the loops: one unconditional append per iteration of a value derived from
	// the counter; the returned slice is the accumulated one; no error after a loop
	c.ob("PT5", name, "both loops exist", c.fpos(fn), len(headers) == 2, fmt.Sprintf("expected an ascending and a descending loop, the table reaches %d loop(s)", len(headers)))
	for h := range headers {
		loop := path.NaturalLoop(h)
		var counter *ssa.Phi
		if cd, ok := path.CondOf(path.BlockIf(h)); ok {
			if ph, ok := cd.X.(*ssa.Phi); ok && ph.Block() == h {
				counter = ph
			} else if ph, ok := cd.Y.(*ssa.Phi); ok && ph.Block() == h {
				counter = ph
			}
		}
		nApp := 0
		for b := range loop {
			for _, in := range b.Instrs {
				call, ok := in.(*ssa.Call)
				if !ok {
					continue
				}
				bi, isB := call.Call.Value.(*ssa.Builtin)
				if !isB || bi.Name() != "append" {
					continue
				}
				nApp++
				// unconditional: no branch inside the loop guards it
				decs := 0
				for _, g := range path.Guards(fn, b) {
					if g.Block() != h && loop[g.Block()] {
						decs++
					}
				}
				c.ob("PT5", name, "one element per iteration", p.InstrPos(call), decs == 0 && loopDepth(fn, b) == 1, "the append is conditional or nested: iterations of the progression are skipped or repeated")
				// the appended value derives from the counter
				v, okS := singleElemSlice(call.Call.Args[1])
				derives := false
				if okS && counter != nil {
					seen := map[ssa.Value]bool{}
					var walk func(x ssa.Value)
					walk = func(x ssa.Value) {
						if seen[x] || derives {
							return
						}
						seen[x] = true
						if x == ssa.Value(counter) {
							derives = true
							return
						}
						switch y := x.(type) {
						case *ssa.Extract:
							walk(y.Tuple)
						case *ssa.Call:
							for _, a := range y.Call.Args {
								walk(a)
							}
						case *ssa.Convert:
							walk(y.X)
						case *ssa.ChangeType:
							walk(y.X)
						case *ssa.MultiConvert:
							walk(y.X)
						}
					}
					walk(v)
				}
				c.ob("PV1", name, "the element appended is the counter's value", p.InstrPos(call), derives, "the value appended does not derive from the loop counter (through conversions and the number/string helpers only)")
				// accumulates into the loop's own slice
				acc := false
				if ph, ok := call.Call.Args[0].(*ssa.Phi); ok && ph.Block() == h {
					for _, e := range ph.Edges {
						if e == ssa.Value(call) {
							acc = true
						}
					}
				}
				c.ob("PV1", name, "elements accumulate in one slice", p.InstrPos(call), acc, "the append does not extend the slice carried around the loop")
			}
		}
		c.ob("PT5", name, "one append per loop", p.Pos(h.Instrs[0].Pos()), nApp == 1, fmt.Sprintf("expected one append in the loop, found %d", nApp))
	}
	for _, b := range fn.Blocks {
		rt, ok := b.Instrs[len(b.Instrs)-1].(*ssa.Return)
		if !ok || len(rt.Results) != 2 {
			continue
		}
		after := false
		for h := range headers {
			if h.Dominates(b) || reachableFrom(h, b) {
				after = true
			}
		}
		if !after {
			continue
		}
		c.ob("ER2", name, "no error after a loop ran", p.InstrPos(rt), path.IsNil(rt.Results[1]), "a return behind the loops carries an error: valid arguments are rejected after the work was done")
		okRes := false
		for _, o := range path.Origins(rt.Results[0]) {
			if ph, ok := o.(*ssa.Phi); ok && headers[ph.Block()] {
				okRes = true
			}
			if call, ok := o.(*ssa.Call); ok {
				for h := range headers {
					if path.NaturalLoop(h)[call.Block()] {
						okRes = true
					}
				}
			}
		}
		c.ob("PV1", name, "the accumulated slice is returned", p.InstrPos(rt), okRes, "the slice returned behind the loops is not the one the loops filled")
	}

	// ---- RangeRight: the same arguments, the error passed on, otherwise the reverse
	rr := c.fn("gogu.RangeRight")
	rev := p.Func("gogu.Reverse")
	if rr == nil || rev == nil {
		return
	}
	rname := "gogu.RangeRight"
	calls := callsTo(rr, fn)
	c.ob("AG5", rname, "built on Range", c.fpos(rr), len(calls) == 1, "RangeRight must call Range exactly once")
	if len(calls) != 1 {
		return
	}
	call := calls[0].(*ssa.Call)
	argOK := len(call.Call.Args) == 1 && path.Strip(call.Call.Args[0]) == ssa.Value(rr.Params[0])
	c.ob("AG5", rname, "same arguments", p.InstrPos(call), argOK, "RangeRight must hand its own arguments to Range unchanged")
	for _, b := range rr.Blocks {
		rt, ok := b.Instrs[len(b.Instrs)-1].(*ssa.Return)
		if !ok || len(rt.Results) != 2 {
			continue
		}
		isErrOf := func(v ssa.Value) bool {
			ex, ok := v.(*ssa.Extract)
			return ok && ex.Tuple == ssa.Value(call) && ex.Index == 1
		}
		failed := boolGuardNil(rr, b, isErrOf, false)
		succeeded := boolGuardNil(rr, b, isErrOf, true)
		switch {
		case failed:
			c.ob("ER2", rname, "Range's error is passed on", p.InstrPos(rt), isErrOf(rt.Results[1]), "on the error path RangeRight must return the error Range reported")
		case succeeded:
			okRev := false
			if rc2, ok := path.Strip(rt.Results[0]).(*ssa.Call); ok && path.StaticCallee(rc2) == rev && len(rc2.Call.Args) == 1 {
				if ex, ok := path.Strip(rc2.Call.Args[0]).(*ssa.Extract); ok && ex.Tuple == ssa.Value(call) && ex.Index == 0 {
					okRev = true
				}
			}
			if !okRev {
				// ... or the slice Range produced, reversed in place by RangeRight's own two-pointer swap loop
				if ex, ok := path.Strip(rt.Results[0]).(*ssa.Extract); ok && ex.Tuple == ssa.Value(call) && ex.Index == 0 {
					if sw, lp := reversesInPlace(c, rr, ex); sw && lp {
						okRev = true
					}
				}
			}
			c.ob("PV1", rname, "result is the reverse of Range's", p.InstrPos(rt), okRev && path.IsNil(rt.Results[1]), "on success RangeRight must return Reverse(the slice Range produced) and no error")
		default:
			c.ob("ER2", rname, "return decided by Range's error", p.InstrPos(rt), false, "a return of RangeRight is not dominated by a test of Range's error")
		}
	}
	_ = types.Typ
}

// boolGuardNil: b is dominated by the edge on which the value satisfying is(v) is
// nil (wantNil) or non-nil.
func boolGuardNil(fn *ssa.Function, b *ssa.BasicBlock, is func(ssa.Value) bool, wantNil bool) bool {
	return guardedBy(fn, b, func(cd path.Cond, truth bool) bool {
		var other ssa.Value
		switch {
		case is(cd.X):
			other = cd.Y
		case is(cd.Y):
			other = cd.X
		default:
			return false
		}
		if !path.IsNil(other) {
			return false
		}
		rel := normCmp(cd.Op, truth)
		return (rel == "==") == wantNil && (rel == "==" || rel == "!=")
	})
}

func reachableFrom(from, to *ssa.BasicBlock) bool {
	seen := map[*ssa.BasicBlock]bool{}
	work := []*ssa.BasicBlock{from}
	for len(work) > 0 {
		b := work[len(work)-1]
		work = work[:len(work)-1]
		if seen[b] {
			continue
		}
		seen[b] = true
		if b == to {
			return true
		}
		work = append(work, b.Succs...)
	}
	return false
}
