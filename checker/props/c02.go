package props

import (
	"sort"

	"gogucheck/core"
)

func init() {
	register(&Check{
		ID: "C02",
		Explanation: "Atomicity analysis (engine E1, rule AT1) over every operation of the eight lock-guarded container types: the critical sections an operation opens on one instance " +
			"(through all callees, call-string sensitive) must be independent - no later section may run, or not run, depending on a value read in an earlier section (control dependence on the " +
			"feasible sub-CFG, pruned by callee return summaries), nor use such a value (data dependence through SSA def-use, cells, closures and callee summaries). AT2: an operation changes its receiver in at most one critical section (two writing sections expose an intermediate state); AT3: no state slot is kept outside the lock behind sync/atomic. Together with LK1 (every guarded " +
			"access lies inside a section, in the right mode) and LK4 (results are values, not live references) each operation has a single linearization point, so every concurrent execution is " +
			"equivalent to a sequential run of the same code. Decides atomicity, not whether the sequential behaviour is the intended one (C03-C09).",
		Assumptions: []string{"go/ssa of x/tools v0.29.0 is faithful to the source", "sync.RWMutex/Mutex contracts", "read-locked sections are pure (LK1 write rule)",
			"one reviewed exception validated by shape on every run: heap.(*Heap).Clear"},
		NotDecided: []string{"whether the sequential behaviour is right", "multi-element operations (Merge, Meld, Keys, StartsWith, MapToCache, variadic Push) beyond being compositions of atomic steps",
			"loop-carried dependences between iterations that reuse one acquisition site"},
		Run: func(p *core.Program, r *core.Report) {
			res := runLockset(p)
			emitLockset(res, r, map[string]bool{"AT1": true, "AT2": true, "AT3": true, "LK1": true, "LK2": true, "LK3": true, "LK4": true, "LK5": true}, containerTypes)
			// region counts per operation (evidence)
			regions := map[string]int{}
			multi := []string{}
			for op, m := range res.Regions {
				for lt, n := range m {
					if containerTypes[lt] {
						regions[op+" "+lt] = n
						if n > 1 {
							multi = append(multi, op)
						}
					}
				}
			}
			sort.Strings(multi)
			r.Extra["critical_sections_per_operation"] = regions
			r.Extra["operations_with_more_than_one_section"] = multi
			r.Floor("AT1", 50)
			r.Floor("LK1", 150)
		},
	})
}
