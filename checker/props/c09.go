package props

import (
	"fmt"
	"go/token"
	"go/types"

	"golang.org/x/tools/go/ssa"

	"gogucheck/core"
	"gogucheck/path"
)

func init() {
	register(&Check{
		ID: "C09",
		Explanation: "Structural rules over trie/trie.go (engines E7/E4): AG2 every site that reports a key (Get's hit, StartsWith's and collect's Enqueue, LongestPrefix's length update) is dominated by the true edge of a test of isValid on the node it reports, " +
			"and isValid is written only on put's terminal branch; AG4 every increment of the key counter is reachable only through an absence edge (nil node, lookup error, isValid false) of a lookup of the inserted key and no insertion bypasses it except through isValid true; " +
			"AG3 put, get and LongestPrefix map probe<node.c to left, probe>node.c to right and equality to mid on the same node, left/right recursion keeps the depth and mid advances it by one under d < len(key)-1; collect visits left, self, mid, right and extends the prefix only for mid; " +
			"AG8 the key byte is appended as a one-byte string (never through an integer-to-string conversion) and the same extension is enqueued and handed down; LongestPrefix returns query[:length] with length only ever 0 or the matched depth of a terminal node; " +
			"PT3 every index into a key is dominated by a length test, empty keys/prefixes are rejected (false / error) and the read-only entry points contain no store into trie memory. Decides these necessary conditions, not the result for a concrete key set.",
		Assumptions: []string{"go/ssa faithful to the source", "get's contract: (nil, err) or (node, nil)", "Put is called with non-empty keys (stated precondition)"},
		NotDecided:  []string{"which nodes are terminal after a concrete insertion history", "exactness of StartsWith/LongestPrefix results for concrete key sets"},
		Run:         runC09,
	})
}

const (
	ordLT = 1
	ordEQ = 2
	ordGT = 4
)

func relOrdSet(rel string) int {
	switch rel {
	case "<":
		return ordLT
	case "<=":
		return ordLT | ordEQ
	case ">":
		return ordGT
	case ">=":
		return ordGT | ordEQ
	case "==":
		return ordEQ
	case "!=":
		return ordLT | ordGT
	}
	return ordLT | ordEQ | ordGT
}

func ordName(s int) string {
	n := ""
	if s&ordLT != 0 {
		n += "<"
	}
	if s&ordEQ != 0 {
		n += "="
	}
	if s&ordGT != 0 {
		n += ">"
	}
	if n == "" {
		return "none"
	}
	return n
}

// orderAt intersects, over the branch edges dominating b, the orderings of
// (probe ? nodeKey) they allow; a comparison counts when one operand satisfies
// isProbe and the other isKey(base).
func orderAt(fn *ssa.Function, b *ssa.BasicBlock, isProbe func(ssa.Value) bool, isKey func(ssa.Value) bool) int {
	set := ordLT | ordEQ | ordGT
	for _, g := range path.Guards(fn, b) {
		cd, ok := path.CondOf(g.If)
		if !ok {
			continue
		}
		truth := g.Idx == 0
		if cd.Neg {
			truth = !truth
		}
		rel := normCmp(cd.Op, truth)
		switch {
		case isProbe(cd.X) && isKey(cd.Y):
		case isProbe(cd.Y) && isKey(cd.X):
			rel = flipRel(rel)
		default:
			continue
		}
		set &= relOrdSet(rel)
	}
	return set
}

// isStringIndexOfParam: v = s[i] for a string-typed parameter s.
func isStringIndexOfParam(v ssa.Value) (*ssa.Parameter, ssa.Value, bool) {
	var x, idx ssa.Value
	switch lk := v.(type) {
	case *ssa.Lookup:
		x, idx = lk.X, lk.Index
	case *ssa.Index:
		x, idx = lk.X, lk.Index
	default:
		return nil, nil, false
	}
	prm, ok := x.(*ssa.Parameter)
	if !ok {
		return nil, nil, false
	}
	return prm, idx, true
}

// oneByteString recognises K([]byte{b}) and returns b.
func oneByteString(v ssa.Value) (ssa.Value, bool) {
	cv, ok := v.(*ssa.Convert)
	if !ok {
		return nil, false
	}
	sl, ok := cv.X.(*ssa.Slice)
	if !ok || sl.Low != nil || sl.High != nil {
		return nil, false
	}
	al, ok := sl.X.(*ssa.Alloc)
	if !ok {
		return nil, false
	}
	pt, ok := al.Type().Underlying().(*types.Pointer)
	if !ok {
		return nil, false
	}
	arr, ok := pt.Elem().Underlying().(*types.Array)
	if !ok || arr.Len() != 1 {
		return nil, false
	}
	var src ssa.Value
	n := 0
	for _, r := range *al.Referrers() {
		ia, ok := r.(*ssa.IndexAddr)
		if !ok {
			continue
		}
		for _, rr := range *ia.Referrers() {
			if st, ok := rr.(*ssa.Store); ok && st.Addr == ssa.Value(ia) {
				src = st.Val
				n++
			}
		}
	}
	if n != 1 {
		return nil, false
	}
	return src, true
}

func isIntToString(cv *ssa.Convert) bool {
	from, ok1 := cv.X.Type().Underlying().(*types.Basic)
	if !ok1 {
		// type parameter with integer core type cannot occur here
		return false
	}
	if from.Info()&types.IsInteger == 0 {
		return false
	}
	to := cv.Type().Underlying()
	if tp, ok := cv.Type().(*types.TypeParam); ok {
		to = tp.Underlying()
		if iface, ok := to.(*types.Interface); ok {
			// ~string constraint
			for i := 0; i < iface.NumEmbeddeds(); i++ {
				if u, ok := iface.EmbeddedType(i).(*types.Union); ok {
					for j := 0; j < u.Len(); j++ {
						if b, ok := u.Term(j).Type().Underlying().(*types.Basic); ok && b.Info()&types.IsString != 0 {
							return true
						}
					}
				}
				if b, ok := iface.EmbeddedType(i).Underlying().(*types.Basic); ok && b.Info()&types.IsString != 0 {
					return true
				}
			}
			return false
		}
	}
	b, ok := to.(*types.Basic)
	return ok && b.Info()&types.IsString != 0
}

// reachableAvoiding: blocks reachable from the entry when the given edges are
// removed and blocks in stop are not left (they are reached but not traversed).
func reachableAvoiding(fn *ssa.Function, cut func(from *ssa.BasicBlock, idx int) bool, stop map[*ssa.BasicBlock]bool) map[*ssa.BasicBlock]bool {
	seen := map[*ssa.BasicBlock]bool{}
	var visit func(b *ssa.BasicBlock)
	visit = func(b *ssa.BasicBlock) {
		if seen[b] {
			return
		}
		seen[b] = true
		if stop[b] {
			return
		}
		for i, s := range b.Succs {
			if cut != nil && cut(b, i) {
				continue
			}
			visit(s)
		}
	}
	if len(fn.Blocks) > 0 {
		visit(fn.Blocks[0])
	}
	return seen
}

func runC09(p *core.Program, r *core.Report) {
	c := rc{p, r}
	noSingledOutValue(c, []string{"trie/trie.go"}, nil)
	workOnEveryPath(c, "trie.(*Trie).Keys", "keys collected on every path", "", "", []string{"collect"}, "Keys returns on a path that does not walk the trie: a stale or empty queue is handed out")
	const T = "trie.(*Trie)."
	const N = "trie.(*node)."
	fPut, fGet, fContains, fLP, fSW, fKeys, fSize := c.fn(T+"Put"), c.fn(T+"Get"), c.fn(T+"Contains"), c.fn(T+"LongestPrefix"), c.fn(T+"StartsWith"), c.fn(T+"Keys"), c.fn(T+"Size")
	nput, nget, ncollect := c.fn(N+"put"), c.fn(N+"get"), c.fn(N+"collect")
	for _, f := range []*ssa.Function{fPut, fGet, fContains, fLP, fSW, fKeys, fSize, nput, nget, ncollect} {
		if f == nil {
			return
		}
	}
	all := p.FuncsInFiles("trie/trie.go")
	for _, f := range all {
		r.Functions[p.FuncName(f)] = true
	}
	stateInventory(c, "trie", "Trie", []string{"q", "root", "mu", "n"}, all)
	stateInventory(c, "trie", "node", []string{"Item", "left", "mid", "right", "c", "isValid"}, all)
	isValidLoad := func(v ssa.Value) (ssa.Value, bool) {
		u, ok := v.(*ssa.UnOp)
		if !ok || u.Op != token.MUL {
			return nil, false
		}
		fa, ok := u.X.(*ssa.FieldAddr)
		if !ok || !isFieldOf(fa, "node", "isValid") {
			return nil, false
		}
		return fa.X, true
	}
	// validGuard: block b is dominated by the true edge of isValid on node base
	validGuard := func(fn *ssa.Function, b *ssa.BasicBlock, base ssa.Value) bool {
		return boolGuard(fn, b, func(v ssa.Value) bool {
			nb, ok := isValidLoad(v)
			return ok && (base == nil || nb == base)
		}, true)
	}

	// ---------------- AG2: reporting sites consult the terminal flag
	// Get: the return that yields ok=true
	{
		fn := fGet
		fname := p.FuncName(fn)
		nHit := 0
		for _, b := range fn.Blocks {
			ret, ok := b.Instrs[len(b.Instrs)-1].(*ssa.Return)
			if !ok || b == fn.Recover {
				continue
			}
			rv := path.ReturnValues(ret)
			if len(rv) != 2 {
				continue
			}
			if bc, isC := path.BoolConst(rv[1]); isC && !bc {
				continue
			}
			nHit++
			// value returned: load of <node>.Item.val where node = get(t.root, key, 0)#0
			var base ssa.Value
			if u, ok := rv[0].(*ssa.UnOp); ok && u.Op == token.MUL {
				if fa, ok := u.X.(*ssa.FieldAddr); ok && fieldName(fa.X.Type(), fa.Field) == "val" {
					if fa2, ok := fa.X.(*ssa.FieldAddr); ok {
						base = fa2.X
					} else {
						base = fa.X
					}
				}
			}
			okBase := false
			if ex, ok := base.(*ssa.Extract); ok && ex.Index == 0 {
				if call, ok := ex.Tuple.(*ssa.Call); ok && path.StaticCallee(call) == nget {
					a := call.Call.Args
					if len(a) == 3 && a[1] == ssa.Value(paramByName(fn, "key")) && isLoadOfField(a[0], "Trie", "root") {
						if k, ok := path.IntConst(a[2]); ok && k == 0 {
							okBase = true
						}
					}
				}
			}
			c.ob("PV2", fname, "hit returns the found node's value", p.InstrPos(ret), okBase, "the value returned on a hit is not val of the node found by root.get(key, 0)")
			c.ob("AG2", fname, "hit guarded by isValid", p.InstrPos(ret), base != nil && validGuard(fn, b, base), "Get reports a key as present on a path that is not dominated by isValid == true on the node found: a proper prefix of a stored key is reported")
		}
		c.ob("AG2", fname, "hit path exists", c.fpos(fn), nHit >= 1, "Get has no return with ok == true")
	}
	// Contains: result is Get's ok for the same key
	{
		fn := fContains
		fname := p.FuncName(fn)
		okC := false
		for _, in := range path.Instrs(fn) {
			ret, ok := in.(*ssa.Return)
			if !ok || len(ret.Results) != 1 {
				continue
			}
			if bc, isC := path.BoolConst(ret.Results[0]); isC {
				if bc {
					c.ob("AG2", fname, "constant true", p.InstrPos(ret), false, "Contains returns true without a lookup")
				} else {
					// false without a lookup: only for the empty key, which cannot be stored
					xk := newPathCtx(p)
					fs := edgeFacts(xk, fn, ret.Block())
					c.ob("AG2", fname, "false without a lookup only for the empty key", p.InstrPos(ret), hasFact(fs, "len(key)", "==", "0") || hasFact(fs, "len(key)", "<=", "0") || hasFact(fs, "len(key)", "<", "1"), "Contains answers false without asking Get on a path that has not established that the key is empty: a stored key can be denied")
				}
				continue
			}
			if ex, ok := ret.Results[0].(*ssa.Extract); ok && ex.Index == 1 {
				if call, ok := ex.Tuple.(*ssa.Call); ok && path.StaticCallee(call) == fGet && call.Call.Args[1] == ssa.Value(paramByName(fn, "key")) {
					okC = true
				}
			}
		}
		c.ob("AG2", fname, "delegates to Get", c.fpos(fn), okC, "Contains must report Get's ok for the same key")
	}
	// Enqueue sites (StartsWith, collect): guarded by isValid of the node whose key is reported
	enq := func(fn *ssa.Function) []*ssa.Call {
		var out []*ssa.Call
		for _, in := range path.Instrs(fn) {
			if call, ok := in.(*ssa.Call); ok && call.Call.IsInvoke() && call.Call.Method.Name() == "Enqueue" {
				out = append(out, call)
			}
		}
		return out
	}
	{
		fn := fSW
		fname := p.FuncName(fn)
		pre := paramByName(fn, "prefix")
		var node ssa.Value
		for _, in := range path.Instrs(fn) {
			if call, ok := in.(*ssa.Call); ok && path.StaticCallee(call) == nget {
				a := call.Call.Args
				okA := len(a) == 3 && a[1] == ssa.Value(pre) && isLoadOfField(a[0], "Trie", "root")
				if k, ok := path.IntConst(a[2]); !ok || k != 0 {
					okA = false
				}
				c.ob("PV2", fname, "descent by the prefix from the root", p.InstrPos(call), okA, "StartsWith must locate root.get(prefix, 0)")
				for _, rf := range *call.Referrers() {
					if ex, ok := rf.(*ssa.Extract); ok && ex.Index == 0 {
						node = ex
					}
				}
			}
		}
		es := enq(fn)
		c.ob("AG2", fname, "prefix itself reported once", c.fpos(fn), len(es) == 1 && path.MaxCount(fn, func(in ssa.Instruction) bool { return len(es) == 1 && in == ssa.Instruction(es[0]) }) == 1, "StartsWith must enqueue the prefix itself at most once")
		for _, e := range es {
			okG := node != nil && validGuard(fn, e.Block(), node)
			c.ob("AG2", fname, "prefix reported only if terminal", p.InstrPos(e), okG, "StartsWith enqueues the prefix without testing isValid on the node found")
			c.ob("PV2", fname, "reported key is the prefix", p.InstrPos(e), len(e.Call.Args) == 1 && e.Call.Args[0] == ssa.Value(pre), "the key enqueued for the prefix node is not the prefix")
		}
		// collect on x.mid with the prefix, on every non-rejected path
		nc := 0
		for _, call := range callsTo(fn, ncollect) {
			nc++
			a := call.Common().Args
			okM := false
			if u, ok := a[0].(*ssa.UnOp); ok && u.Op == token.MUL {
				if fa, ok := u.X.(*ssa.FieldAddr); ok && isFieldOf(fa, "node", "mid") && fa.X == node {
					okM = true
				}
			}
			c.ob("AG3", fname, "extensions collected below mid", p.InstrPos(call), okM && a[2] == ssa.Value(pre), "StartsWith must collect from the mid child of the prefix node with the prefix (siblings left/right do not share the prefix)")
		}
		c.ob("AG3", fname, "one collect", c.fpos(fn), nc == 1, "StartsWith must collect the subtree below the prefix node exactly once")
	}
	{
		fn := fKeys
		fname := p.FuncName(fn)
		nc := 0
		for _, call := range callsTo(fn, ncollect) {
			nc++
			a := call.Common().Args
			okR := isLoadOfField(a[0], "Trie", "root")
			cst, isC := a[2].(*ssa.Const)
			okE := isC && cst.Value != nil && cst.Value.ExactString() == `""`
			c.ob("AG3", fname, "collect from the root with the empty prefix", p.InstrPos(call), okR && okE, "Keys must collect from the root with an empty prefix")
		}
		c.ob("AG3", fname, "one collect", c.fpos(fn), nc == 1, "Keys must collect exactly once")
	}
	// collect
	{
		fn := ncollect
		fname := p.FuncName(fn)
		self := ssa.Value(fn.Params[0])
		pre := ssa.Value(paramByName(fn, "prefix"))
		extOK := func(v ssa.Value) bool {
			bo, ok := v.(*ssa.BinOp)
			if !ok || bo.Op != token.ADD || bo.X != pre {
				return false
			}
			src, ok := oneByteString(bo.Y)
			if !ok {
				return false
			}
			u, ok := src.(*ssa.UnOp)
			if !ok || u.Op != token.MUL {
				return false
			}
			fa, ok := u.X.(*ssa.FieldAddr)
			return ok && isFieldOf(fa, "node", "c") && fa.X == self
		}
		es := enq(fn)
		c.ob("AG2", fname, "self reported once", c.fpos(fn), len(es) == 1, "collect must enqueue the node's own key at exactly one site")
		for _, e := range es {
			c.ob("AG2", fname, "self reported only if terminal", p.InstrPos(e), validGuard(fn, e.Block(), self), "collect enqueues a node's key without testing its isValid flag")
			c.ob("AG8", fname, "reported key = prefix + stored byte", p.InstrPos(e), len(e.Call.Args) == 1 && extOK(e.Call.Args[0]), "the enqueued key must be prefix + K([]byte{n.c}): the stored byte appended unaltered")
			c.ob("AG2", fname, "self reported at most once per node", p.InstrPos(e), !path.InCycle(e.Block()), "the enqueue sits in a loop")
		}
		// recursion: left(prefix) < self < mid(prefix+c) < right(prefix)
		var callL, callM, callR ssa.CallInstruction
		nrec := 0
		for _, call := range callsTo(fn, fn) {
			nrec++
			a := call.Common().Args
			u, ok := a[0].(*ssa.UnOp)
			if !ok {
				continue
			}
			fa, ok := u.X.(*ssa.FieldAddr)
			if !ok || fa.X != self {
				continue
			}
			switch fieldName(fa.X.Type(), fa.Field) {
			case "left":
				callL = call
				c.ob("AG8", fname, "left keeps the prefix", p.InstrPos(call), a[2] == pre, "the left subtree shares the parent's prefix unchanged")
			case "right":
				callR = call
				c.ob("AG8", fname, "right keeps the prefix", p.InstrPos(call), a[2] == pre, "the right subtree shares the parent's prefix unchanged")
			case "mid":
				callM = call
				c.ob("AG8", fname, "mid extends the prefix by the stored byte", p.InstrPos(call), extOK(a[2]), "the mid subtree must be collected with prefix + K([]byte{n.c})")
			}
		}
		okOrder := callL != nil && callM != nil && callR != nil && nrec == 3 && len(es) == 1
		if okOrder {
			e := es[0]
			before := func(x, y ssa.Instruction) bool { // x executes before y on every path that executes y
				if x.Block() == y.Block() {
					for _, in := range x.Block().Instrs {
						if in == x {
							return true
						}
						if in == y {
							return false
						}
					}
				}
				return x.Block().Dominates(y.Block()) && !path.CanReachWithout(y, func(in ssa.Instruction) bool { return in == x }, func(ssa.Instruction) bool { return false })
			}
			okOrder = before(callL, e) && before(callL, callM) && before(callM, callR) &&
				!path.CanReachWithout(callM, func(in ssa.Instruction) bool { return in == ssa.Instruction(e) }, func(ssa.Instruction) bool { return false })
		}
		c.ob("AG3", fname, "visit order left, self, mid, right", c.fpos(fn), okOrder, "collect must visit the left subtree, then the node itself, then mid, then right (byte-lexicographic order)")
	}
	// LongestPrefix
	{
		fn := fLP
		fname := p.FuncName(fn)
		q := paramByName(fn, "query")
		for _, b := range fn.Blocks {
			ret, ok := b.Instrs[len(b.Instrs)-1].(*ssa.Return)
			if !ok || b == fn.Recover {
				continue
			}
			rv := path.ReturnValues(ret)
			if len(rv) != 2 {
				continue
			}
			if !path.IsNil(rv[1]) {
				// rejecting return: must be under len(query)==0
				x := newPathCtx(p)
				fs := edgeFacts(x, fn, b)
				c.ob("PT3", fname, "error only for the empty query", p.InstrPos(ret), hasFact(fs, "len(query)", "==", "0"), "LongestPrefix returns an error on a path other than the empty-query rejection")
				continue
			}
			sl, ok := rv[0].(*ssa.Slice)
			okS := ok && sl.X == ssa.Value(q) && sl.Low == nil && sl.High != nil
			c.ob("PV1", fname, "result is a prefix of the query", p.InstrPos(ret), okS, "the result must be query[:length]; anything else (a stored node key, a suffix) is not guaranteed to be a prefix of the query")
			if !okS {
				continue
			}
			// origins of length
			seen := map[ssa.Value]bool{}
			var walk func(v ssa.Value, from *ssa.BasicBlock)
			walk = func(v ssa.Value, from *ssa.BasicBlock) {
				if ph, ok := v.(*ssa.Phi); ok {
					if seen[ph] {
						return
					}
					seen[ph] = true
					for i, e := range ph.Edges {
						walk(e, ph.Block().Preds[i])
					}
					return
				}
				if k, ok := path.IntConst(v); ok && k == 0 {
					c.r.Count("AG2", 0)
					return
				}
				// must be i+1 assigned under isValid of the node whose byte matched query[i]
				okV := false
				if bo, ok := v.(*ssa.BinOp); ok && bo.Op == token.ADD {
					if k, ok := path.IntConst(bo.Y); ok && k == 1 {
						// bo.X is the index of the matched byte: the eq-branch compares query[bo.X]
						isProbe := func(pv ssa.Value) bool {
							prm, idx, ok := isStringIndexOfParam(pv)
							return ok && prm == q && idx == bo.X
						}
						var nodeBase ssa.Value
						isKey := func(kv ssa.Value) bool {
							u, ok := kv.(*ssa.UnOp)
							if !ok || u.Op != token.MUL {
								return false
							}
							fa, ok := u.X.(*ssa.FieldAddr)
							if ok && isFieldOf(fa, "node", "c") {
								nodeBase = fa.X
								return true
							}
							return false
						}
						if from != nil && orderAt(fn, from, isProbe, isKey) == ordEQ && nodeBase != nil && validGuard(fn, from, nodeBase) {
							okV = true
						}
					}
				}
				if from != nil {
					extra := unaccountedGuard(fn, from, func(cv ssa.Value) bool {
						if isNilTest(cv) {
							return true
						}
						if u, ok := cv.(*ssa.UnOp); ok && u.Op == token.MUL {
							_, isF := u.X.(*ssa.FieldAddr)
							return isF // x.isValid
						}
						if bo, ok := cv.(*ssa.BinOp); ok {
							if b, isB := bo.X.Type().Underlying().(*types.Basic); isB && b.Kind() == types.Uint8 {
								return true // query[i] against the node's byte
							}
							// the rejection of the empty query
							for i, side := range []ssa.Value{bo.X, bo.Y} {
								other := []ssa.Value{bo.Y, bo.X}[i]
								if call, ok := side.(*ssa.Call); ok {
									if bi, isB := call.Call.Value.(*ssa.Builtin); isB && bi.Name() == "len" && call.Call.Args[0] == ssa.Value(q) {
										if k, isK := path.IntConst(other); isK && (k == 0 || k == 1) {
											return true
										}
									}
								}
							}
						}
						return false
					})
					c.ob("AG2", fname, "length advances at every terminal node on the way", p.InstrPos(ret), extra == nil, "the update of length hangs on a branch besides the byte comparisons and isValid: some stored prefixes of the query are passed over")
				}
				c.ob("AG2", fname, "length advances only at a terminal node", p.InstrPos(ret), okV, "length is updated on a path that is not dominated by (query[i] == x.c and x.isValid) with the new value i+1: a non-terminal prefix could be reported")
			}
			walk(sl.High, nil)
		}
	}
	// the descent of LongestPrefix examines every byte of the query: its loop runs while
	// i < len(query)
	if fLP != nil {
		q := paramByName(fLP, "query")
		okB := false
		x := newPathCtx(p)
		for _, b := range fLP.Blocks {
			iff := path.BlockIf(b)
			if iff == nil || len(path.NaturalLoop(b)) == 0 {
				continue
			}
			for _, g := range []*ssa.If{iff} {
				_ = g
			}
		}
		for _, in := range path.Instrs(fLP) {
			bo, ok := in.(*ssa.BinOp)
			if !ok || bo.Op != token.LSS {
				continue
			}
			if _, isPhi := bo.X.(*ssa.Phi); isPhi && q != nil && x.path(bo.Y) == "len("+q.Name()+")" && path.InCycle(bo.Block()) {
				okB = true
			}
		}
		c.ob("PT5", p.FuncName(fLP), "every byte of the query examined", c.fpos(fLP), okB, "the descent must run while i < len(query): a shorter bound never looks at the last byte, so a key equal to the query is not found")
	}
	// ---------------- AG2 completeness: a terminal node that was found is always reported.
	// With every legitimate "absent" edge cut (empty key, nil node, lookup error) and the
	// isValid test as a barrier, no return may be reachable: otherwise some path leaves the
	// function for a found node without ever consulting its terminal flag.
	{
		isAbsent := func(fn *ssa.Function) func(*ssa.BasicBlock, int) bool {
			x := newPathCtx(p)
			return func(from *ssa.BasicBlock, idx int) bool {
				iff := path.BlockIf(from)
				if iff == nil {
					return false
				}
				cd, ok := path.CondOf(iff)
				if !ok {
					return false
				}
				truth := idx == 0
				if cd.Neg {
					truth = !truth
				}
				rel := normCmp(cd.Op, truth)
				// len(key) == 0
				if k, isK := path.IntConst(cd.Y); isK && k == 0 && rel == "==" {
					if call, isCall := cd.X.(*ssa.Call); isCall {
						if b, isB := call.Call.Value.(*ssa.Builtin); isB && b.Name() == "len" {
							return true
						}
					}
				}
				_ = x
				v := cd.X
				if path.IsNil(v) {
					v = cd.Y
				} else if !path.IsNil(cd.Y) {
					return false
				}
				if prm, isP := v.(*ssa.Parameter); isP && len(fn.Params) > 0 && prm == fn.Params[0] {
					return rel == "==" // n == nil
				}
				ex, isEx := v.(*ssa.Extract)
				if !isEx {
					return false
				}
				call, isCall := ex.Tuple.(*ssa.Call)
				if !isCall || path.StaticCallee(call) != nget {
					return false
				}
				if ex.Index == 0 {
					return rel == "==" // node == nil
				}
				return rel == "!=" // err != nil
			}
		}
		for _, fn := range []*ssa.Function{fGet, fSW, ncollect} {
			fname := p.FuncName(fn)
			stop := map[*ssa.BasicBlock]bool{}
			for _, b := range fn.Blocks {
				if iff := path.BlockIf(b); iff != nil {
					if _, ok := isValidLoad(stripNot(iff.Cond)); ok {
						stop[b] = true
					}
				}
			}
			reach := reachableAvoiding(fn, isAbsent(fn), stop)
			bypass := ""
			for b := range reach {
				if stop[b] || b == fn.Recover {
					continue
				}
				if rt, ok := b.Instrs[len(b.Instrs)-1].(*ssa.Return); ok {
					bypass = p.InstrPos(rt)
				}
			}
			c.ob("AG2", fname, "a found node's terminal flag is always consulted", c.fpos(fn), len(stop) >= 1 && bypass == "",
				"a return is reachable for a node that was found (non-nil, no error) without passing the isValid test ("+bypass+"): a stored key can go unreported")
		}
	}
	// who writes isValid: only put, on the terminal branch, with its isValid parameter; Put passes true
	{
		for _, st := range fieldStores(all, "node", "isValid") {
			fn := st.Parent()
			fname := p.FuncName(fn)
			if fn != nput {
				c.ob("AG2", fname, "isValid written outside put", p.InstrPos(st), false, "the terminal flag is written outside put's terminal branch")
				continue
			}
			base := st.Addr.(*ssa.FieldAddr).X
			keyP, dP := paramByName(fn, "key"), paramByName(fn, "d")
			isProbe := func(v ssa.Value) bool {
				prm, idx, ok := isStringIndexOfParam(v)
				return ok && prm == keyP && idx == ssa.Value(dP)
			}
			isKey := func(v ssa.Value) bool {
				u, ok := v.(*ssa.UnOp)
				if !ok || u.Op != token.MUL {
					return false
				}
				fa, ok := u.X.(*ssa.FieldAddr)
				return ok && isFieldOf(fa, "node", "c") && fa.X == base
			}
			x := newPathCtx(p)
			fs := edgeFacts(x, fn, st.Block())
			term := hasFact(fs, "d", ">=", "(len(key)-1)") || hasFact(fs, "d", "==", "(len(key)-1)") || hasFact(fs, "(d+1)", ">=", "len(key)") || hasFact(fs, "(d+1)", "==", "len(key)")
			c.ob("AG2", fname, "terminal flag set only at the key's last byte", p.InstrPos(st), orderAt(fn, st.Block(), isProbe, isKey) == ordEQ && term && st.Val == ssa.Value(paramByName(fn, "isValid")),
				"isValid must be stored only where key[d] == n.c and d is the last index, from the isValid parameter")
			// the same branch stores the caller's value: Put overwrites the value of a key
			// that is already there
			okVal := false
			for _, in := range st.Block().Instrs {
				vs, ok := in.(*ssa.Store)
				if !ok {
					continue
				}
				fa, ok := vs.Addr.(*ssa.FieldAddr)
				if !ok {
					continue
				}
				inner, ok := fa.X.(*ssa.FieldAddr)
				if ok && isFieldOf(inner, "node", "Item") && inner.X == base && fieldName(fa.X.Type(), fa.Field) == "val" && vs.Val == ssa.Value(paramByName(fn, "val")) {
					okVal = true
				}
			}
			c.ob("PV2", fname, "terminal branch stores the caller's value", p.InstrPos(st), okVal, "where put marks the key terminal it must also store the val parameter into that node: otherwise Put on an existing key keeps the old value")
		}
		// Keys and StartsWith hand out the shared queue: it is emptied before it is filled
		for _, fn := range []*ssa.Function{fKeys, fSW} {
			if fn == nil || ncollect == nil {
				continue
			}
			isClear := func(in ssa.Instruction) bool {
				ci, ok := in.(ssa.CallInstruction)
				if !ok {
					return false
				}
				if ci.Common().IsInvoke() {
					return ci.Common().Method.Name() == "Clear" && isLoadOfField(ci.Common().Value, "Trie", "q")
				}
				return false
			}
			for _, call := range callsTo(fn, ncollect) {
				cleared := !path.CanReachWithout(fn.Blocks[0].Instrs[0], func(i ssa.Instruction) bool { return i == call.(ssa.Instruction) }, isClear)
				// the first instruction itself may be the load feeding Clear: also accept a dominating Clear
				if !cleared {
					for _, in := range path.Instrs(fn) {
						if isClear(in) && (in.Block() == call.Block() || in.Block().Dominates(call.Block())) {
							cleared = true
						}
					}
				}
				c.ob("PV2", p.FuncName(fn), "result queue emptied before collecting", p.InstrPos(call), cleared, "the keys are collected into the trie's queue without clearing it first: the result repeats what an earlier call reported")
			}
		}
		// ... and nothing is taken out of it again: on the queue Keys, StartsWith and collect
		// only Clear (in front of the collection) and Enqueue
		for _, fn := range []*ssa.Function{fKeys, fSW, ncollect} {
			if fn == nil {
				continue
			}
			for _, in := range path.Instrs(fn) {
				ci, ok := in.(ssa.CallInstruction)
				if !ok || !ci.Common().IsInvoke() || !isLoadOfField(ci.Common().Value, "Trie", "q") {
					continue
				}
				m := ci.Common().Method.Name()
				okM := m == "Enqueue" || (m == "Clear" && fn != ncollect)
				if m == "Clear" && okM && ncollect != nil {
					for _, call := range callsTo(fn, ncollect) {
						if path.CanReachWithout(call.(ssa.Instruction), func(i ssa.Instruction) bool { return i == in }, func(ssa.Instruction) bool { return false }) {
							okM = false
						}
					}
				}
				c.ob("PV2", p.FuncName(fn), "nothing taken out of the result queue", p.InstrPos(in), okM, "the queue the keys are handed out in is touched by "+m+" in a place other than the Clear in front of the collection: keys that were collected are missing from the answer")
			}
		}
		for _, call := range callsTo(fPut, nput) {
			a := call.Common().Args
			bc, isC := path.BoolConst(a[5])
			d0, isD := path.IntConst(a[4])
			c.ob("AG2", p.FuncName(fPut), "Put marks the key terminal", p.InstrPos(call), isC && bc && isD && d0 == 0 && a[2] == ssa.Value(paramByName(fPut, "key")) && a[3] == ssa.Value(paramByName(fPut, "val")) && isLoadOfField(a[0], "Trie", "root"),
				"Put must insert root.put(t, key, val, 0, true)")
		}
		// the returned root is stored back
		okRoot := false
		for _, st := range fieldStores([]*ssa.Function{fPut}, "Trie", "root") {
			if call, ok := st.Val.(*ssa.Call); ok && path.StaticCallee(call) == nput {
				okRoot = true
			}
		}
		c.ob("AG3", p.FuncName(fPut), "root updated from put", c.fpos(fPut), okRoot, "Put must store put's result into t.root (the first insertion creates the root)")
		// the val store sits with the isValid store
		for _, st := range fieldStores(all, "Item", "val") {
			fn := st.Parent()
			if fn == nput {
				okV := false
				for _, s2 := range fieldStores([]*ssa.Function{fn}, "node", "isValid") {
					if s2.Block() == st.Block() {
						okV = true
					}
				}
				c.ob("PV2", p.FuncName(fn), "value stored at the terminal node", p.InstrPos(st), okV && st.Val == ssa.Value(paramByName(fn, "val")), "put must store val in the same (terminal) branch that sets isValid")
			}
		}
	}

	// Put inserts on every path and stores the result; only put writes the links of the tree
	{
		isPut := func(in ssa.Instruction) bool {
			call, ok := in.(ssa.CallInstruction)
			return ok && path.StaticCallee(call) == nput
		}
		mn, mx := path.MinCount(fPut, isPut), path.MaxCount(fPut, isPut)
		c.ob("PT1", p.FuncName(fPut), "inserts exactly once on every path", c.fpos(fPut), mn == 1 && mx == 1, fmt.Sprintf("Put calls put %d..%s times depending on the path: some keys are not stored", mn, countStr(mx)))
		for _, f := range all {
			for _, in := range path.Instrs(f) {
				st, ok := in.(*ssa.Store)
				if !ok {
					continue
				}
				fa, ok := st.Addr.(*ssa.FieldAddr)
				if !ok {
					continue
				}
				// the key/value pair embedded in a node
				if inner, ok := fa.X.(*ssa.FieldAddr); ok && isFieldOf(inner, "node", "Item") {
					okW := f == nput
					if !okW {
						if al, isAl := inner.X.(*ssa.Alloc); isAl && al.Heap {
							okW = true
						}
					}
					c.ob("AG1", p.FuncName(f), "writes the key/value of a node", p.InstrPos(st), okW, "a node's stored key or value is written outside put: Get no longer returns what Put stored")
				}
				if isFieldOf(fa, "node", "left") || isFieldOf(fa, "node", "mid") || isFieldOf(fa, "node", "right") || isFieldOf(fa, "node", "c") {
					okW := f == nput
					if !okW {
						if al, isAl := fa.X.(*ssa.Alloc); isAl && al.Heap {
							okW = true // initialisation of a fresh node
						}
					}
					c.ob("AG1", p.FuncName(f), "writes the links/byte of a node", p.InstrPos(st), okW, "the trie's links or stored bytes are written outside put")
				}
			}
		}
	}

	// ---------------- AG4: the key counter
	{
		sts := fieldStores(all, "Trie", "n")
		c.ob("AG4", "trie.(*Trie)", "counter increments", "-", len(sts) >= 1, "no function increments Trie.n")
		for _, st := range sts {
			fn := st.Parent()
			fname := p.FuncName(fn)
			inc := false
			if bo, ok := st.Val.(*ssa.BinOp); ok && bo.Op == token.ADD && isLoadOfField(bo.X, "Trie", "n") {
				if k, ok := path.IntConst(bo.Y); ok && k == 1 {
					inc = true
				}
			}
			c.ob("AG4", fname, "counter step", p.InstrPos(st), inc, "Trie.n must only ever be incremented by one")
			if !inc {
				continue
			}
			// absence edges: nil test of a node / non-nil test of an error from get(key), false edge of isValid
			isAbsenceEdge := func(from *ssa.BasicBlock, idx int) bool {
				iff := path.BlockIf(from)
				if iff == nil {
					return false
				}
				if _, ok := isValidLoad(stripNot(iff.Cond)); ok {
					neg := countNot(iff.Cond)%2 == 1
					truth := idx == 0
					if neg {
						truth = !truth
					}
					return !truth
				}
				if cd, ok := path.CondOf(iff); ok && (cd.Op == token.EQL || cd.Op == token.NEQ) && (path.IsNil(cd.X) || path.IsNil(cd.Y)) {
					v := cd.X
					if path.IsNil(v) {
						v = cd.Y
					}
					ex, ok := v.(*ssa.Extract)
					if !ok {
						// a nil test of the receiver node inside put (n == nil): the node did not exist
						if prm, ok := v.(*ssa.Parameter); ok && fn == nput && prm == fn.Params[0] {
							truth := idx == 0
							if cd.Neg {
								truth = !truth
							}
							return (cd.Op == token.EQL) == truth
						}
						return false
					}
					call, ok := ex.Tuple.(*ssa.Call)
					if !ok || path.StaticCallee(call) != nget {
						return false
					}
					truth := idx == 0
					if cd.Neg {
						truth = !truth
					}
					isNilEdge := (cd.Op == token.EQL) == truth
					if ex.Index == 0 {
						return isNilEdge // node == nil
					}
					return !isNilEdge // err != nil
				}
				return false
			}
			isValidTrueEdge := func(from *ssa.BasicBlock, idx int) bool {
				iff := path.BlockIf(from)
				if iff == nil {
					return false
				}
				if _, ok := isValidLoad(stripNot(iff.Cond)); ok {
					neg := countNot(iff.Cond)%2 == 1
					truth := idx == 0
					if neg {
						truth = !truth
					}
					return truth
				}
				return false
			}
			// A: no overcount - with every absence edge cut the increment is unreachable
			reachA := reachableAvoiding(fn, isAbsenceEdge, nil)
			c.ob("AG4", fname, "increment only when the key was absent", p.InstrPos(st), !reachA[st.Block()],
				"the counter increment is reachable without passing an absence edge (node nil, lookup error, isValid false): re-putting a stored key is counted again")
			// B: no undercount - with the isValid-true edge cut and the increment as a barrier, no insertion point is reachable
			var ins []ssa.Instruction
			for _, in := range path.Instrs(fn) {
				if call, ok := in.(ssa.CallInstruction); ok && path.StaticCallee(call) == nput && fn != nput {
					ins = append(ins, in)
				}
				if s2, ok := in.(*ssa.Store); ok {
					if fa, ok := s2.Addr.(*ssa.FieldAddr); ok && isFieldOf(fa, "node", "isValid") {
						ins = append(ins, in)
					}
				}
			}
			c.ob("AG4", fname, "insertion in the counting function", c.fpos(fn), len(ins) >= 1, "the function that counts keys performs no insertion; the count cannot be tied to the insertion")
			reachB := reachableAvoiding(fn, isValidTrueEdge, map[*ssa.BasicBlock]bool{st.Block(): true})
			under := false
			for _, in := range ins {
				if reachB[in.Block()] && in.Block() != st.Block() {
					under = true
				}
				if in.Block() == st.Block() {
					// same block: the increment must precede or follow within the block - fine either way
				}
			}
			c.ob("AG4", fname, "every new key is counted", p.InstrPos(st), !under,
				"an insertion is reachable on a path that neither increments the counter nor passes isValid == true: a new key (e.g. a proper prefix of a stored key) is stored but not counted")
			// the lookup that decides uses the inserted key
			if fn == fPut {
				okK := false
				for _, call := range callsTo(fn, nget) {
					a := call.Common().Args
					if a[1] == ssa.Value(paramByName(fn, "key")) && isLoadOfField(a[0], "Trie", "root") {
						okK = true
					}
				}
				c.ob("AG4", fname, "absence decided for the inserted key", c.fpos(fn), okK, "the lookup that decides the count does not look up the key being inserted from the root")
			}
		}
		// Size returns n
		ret := accessorReturnDefer(fSize)
		c.ob("CM1", p.FuncName(fSize), "Size reports the counter", c.fpos(fSize), ret != nil && isLoadOfField(ret, "Trie", "n"), "Size must return Trie.n")
	}

	// ---------------- AG3: descent agreement
	for _, fn := range []*ssa.Function{nput, nget, fLP} {
		fname := p.FuncName(fn)
		var keyP *ssa.Parameter
		for _, prm := range fn.Params {
			if prm.Name() == "key" || prm.Name() == "query" {
				keyP = prm
			}
		}
		nacc := 0
		for _, in := range path.Instrs(fn) {
			fa, ok := in.(*ssa.FieldAddr)
			if !ok {
				continue
			}
			field := ""
			for _, f := range []string{"left", "right", "mid"} {
				if isFieldOf(fa, "node", f) {
					field = f
				}
			}
			if field == "" {
				continue
			}
			nacc++
			base := fa.X
			isProbe := func(v ssa.Value) bool {
				prm, _, ok := isStringIndexOfParam(v)
				return ok && prm == keyP
			}
			isKey := func(v ssa.Value) bool {
				u, ok := v.(*ssa.UnOp)
				if !ok || u.Op != token.MUL {
					return false
				}
				f2, ok := u.X.(*ssa.FieldAddr)
				return ok && isFieldOf(f2, "node", "c") && f2.X == base
			}
			got := orderAt(fn, fa.Block(), isProbe, isKey)
			want := map[string]int{"left": ordLT, "right": ordGT, "mid": ordEQ}[field]
			c.ob("AG3", fname, "child "+field, p.InstrPos(fa), got == want,
				fmt.Sprintf("child %s is taken where probe %s node.c holds; all descents must use %s (left for smaller, right for greater, mid for equal bytes)", field, ordName(got), ordName(want)))
		}
		c.ob("AG3", fname, "descent sites", c.fpos(fn), nacc >= 3, "fewer than three child accesses found in a descent function")
		// recursion depth: left/right keep d, mid passes d+1 under d < len(key)-1
		if fn == fLP {
			continue
		}
		dP := paramByName(fn, "d")
		dIdx := -1
		for i, prm := range fn.Params {
			if prm == dP {
				dIdx = i
			}
		}
		for _, call := range callsTo(fn, fn) {
			a := call.Common().Args
			u, ok := a[0].(*ssa.UnOp)
			if !ok {
				c.und("AG3", fname, "recursion receiver", p.InstrPos(call), "recursive call on something other than a child load")
				continue
			}
			fa, ok := u.X.(*ssa.FieldAddr)
			if !ok {
				c.und("AG3", fname, "recursion receiver", p.InstrPos(call), "recursive call on something other than a child load")
				continue
			}
			field := fieldName(fa.X.Type(), fa.Field)
			x := newPathCtx(p)
			dp := x.path(a[dIdx])
			keyOK := false
			for i, prm := range fn.Params {
				if prm == keyP && a[i] == ssa.Value(keyP) {
					keyOK = true
				}
			}
			switch field {
			case "left", "right":
				c.ob("AG3", fname, "depth kept for "+field, p.InstrPos(call), dp == "d" && keyOK, "left/right siblings compare the same byte position: the recursion must pass d and the key unchanged")
			case "mid":
				fs := edgeFacts(x, fn, call.Block())
				adv := dp == "(d+1)" && keyOK && (hasFact(fs, "d", "<", "(len(key)-1)") || hasFact(fs, "(d+1)", "<", "len(key)"))
				c.ob("AG3", fname, "depth advanced for mid", p.InstrPos(call), adv, "the mid child continues with the next byte: the recursion must pass d+1, only while d < len(key)-1")
			}
		}
	}
	// get returns the node itself exactly at the terminal depth; everything else is the recursion's result
	{
		fn := nget
		fname := p.FuncName(fn)
		for _, b := range fn.Blocks {
			ret, ok := b.Instrs[len(b.Instrs)-1].(*ssa.Return)
			if !ok || len(ret.Results) != 2 {
				continue
			}
			if ret.Results[0] == ssa.Value(fn.Params[0]) {
				x := newPathCtx(p)
				fs := edgeFacts(x, fn, b)
				keyP, dP := paramByName(fn, "key"), paramByName(fn, "d")
				isProbe := func(v ssa.Value) bool {
					prm, idx, ok := isStringIndexOfParam(v)
					return ok && prm == keyP && idx == ssa.Value(dP)
				}
				isKey := func(v ssa.Value) bool {
					u, ok := v.(*ssa.UnOp)
					if !ok || u.Op != token.MUL {
						return false
					}
					f2, ok := u.X.(*ssa.FieldAddr)
					return ok && isFieldOf(f2, "node", "c") && f2.X == ssa.Value(fn.Params[0])
				}
				term := hasFact(fs, "d", ">=", "(len(key)-1)") || hasFact(fs, "(d+1)", ">=", "len(key)")
				c.ob("AG3", fname, "found node at the last byte", p.InstrPos(ret), term && orderAt(fn, b, isProbe, isKey) == ordEQ && path.IsNil(ret.Results[1]),
					"get must return the node (with nil error) exactly where key[d] == n.c and d is the last index")
			}
		}
	}

	// ---------------- AG8: no integer-to-string conversion in the trie
	{
		n := 0
		for _, f := range all {
			for _, in := range path.Instrs(f) {
				cv, ok := in.(*ssa.Convert)
				if !ok {
					continue
				}
				n++
				if isIntToString(cv) {
					c.ob("AG8", p.FuncName(f), "integer-to-string conversion", p.InstrPos(cv), false, "a byte/rune is converted to a string with string(x): that UTF-8-encodes the code point, bytes >= 0x80 become two bytes and the key comes back altered")
				} else {
					c.ob("AG8", p.FuncName(f), "conversion", p.InstrPos(cv), true, "")
				}
			}
		}
	}

	// ---------------- PT3: empty keys, read-only lookups
	{
		x := newPathCtx(p)
		for _, fn := range []*ssa.Function{fGet, fContains, fLP, fSW, nget} {
			fname := p.FuncName(fn)
			for _, in := range path.Instrs(fn) {
				lkv, ok := in.(ssa.Value)
				if !ok {
					continue
				}
				prm, lkIndex, ok := isStringIndexOfParam(lkv)
				if !ok {
					continue
				}
				if b, ok := prm.Type().Underlying().(*types.Basic); !ok || b.Info()&types.IsString == 0 {
					if _, isTP := prm.Type().(*types.TypeParam); !isTP {
						continue
					}
				}
				lk := in
				fs := edgeFacts(x, fn, lk.Block())
				ln := "len(" + prm.Name() + ")"
				idx := x.path(lkIndex)
				okG := hasFact(fs, ln, "!=", "0") || hasFact(fs, ln, ">", "0") || (idx != "" && hasFact(fs, idx, "<", ln))
				c.ob("PT3", fname, "index into "+prm.Name()+" guarded", p.InstrPos(lk), okG, "a byte of the key is read on a path not dominated by a length test: an empty key panics instead of being rejected")
			}
		}
		// rejecting returns
		for _, s := range []struct {
			fn    *ssa.Function
			param string
			kind  string
		}{{fGet, "key", "false"}, {fContains, "key", "false"}, {fLP, "query", "error"}, {fSW, "prefix", "error"}} {
			fn := s.fn
			fname := p.FuncName(fn)
			found := false
			for _, b := range fn.Blocks {
				ret, ok := b.Instrs[len(b.Instrs)-1].(*ssa.Return)
				if !ok || b == fn.Recover {
					continue
				}
				fs := edgeFacts(x, fn, b)
				if !hasFact(fs, "len("+s.param+")", "==", "0") {
					continue
				}
				found = true
				rv := path.ReturnValues(ret)
				last := rv[len(rv)-1]
				okR := false
				if s.kind == "false" {
					bc, isC := path.BoolConst(last)
					okR = isC && !bc
				} else {
					okR = !path.IsNil(last)
					if cst, ok := last.(*ssa.Const); ok && cst.Value == nil {
						okR = false
					}
				}
				c.ob("PT3", fname, "empty "+s.param+" rejected", p.InstrPos(ret), okR, "the empty-"+s.param+" path must report absence / an error")
			}
			c.ob("PT3", fname, "empty "+s.param+" test", c.fpos(fn), found, "no return dominated by len("+s.param+") == 0: empty input is not rejected up front")
		}
		// read-only entry points: no store into node/Trie memory
		for _, fn := range []*ssa.Function{fGet, fContains, fLP, fSW, fKeys, fSize, nget, ncollect} {
			fname := p.FuncName(fn)
			w := 0
			for _, in := range path.Instrs(fn) {
				if st, ok := in.(*ssa.Store); ok {
					if fa, ok := st.Addr.(*ssa.FieldAddr); ok {
						if n := namedOf(fa.X.Type()); n != nil && (n.Obj().Name() == "node" || n.Obj().Name() == "Trie" || n.Obj().Name() == "Item") {
							w++
						}
					}
				}
			}
			c.ob("EF1", fname, "no write to the trie", c.fpos(fn), w == 0, "a lookup/listing function stores into trie memory: queries must leave the trie unchanged")
		}
	}
}

func stripNot(v ssa.Value) ssa.Value {
	for {
		if u, ok := v.(*ssa.UnOp); ok && u.Op == token.NOT {
			v = u.X
			continue
		}
		return v
	}
}

func countNot(v ssa.Value) int {
	n := 0
	for {
		if u, ok := v.(*ssa.UnOp); ok && u.Op == token.NOT {
			v = u.X
			n++
			continue
		}
		return n
	}
}

// accessorReturnDefer: the single value returned by a function of the shape
// "lock; defer unlock; return <expr>" (result spilled into a cell).
func accessorReturnDefer(fn *ssa.Function) ssa.Value {
	var out ssa.Value
	n := 0
	for _, b := range fn.Blocks {
		if b == fn.Recover {
			continue
		}
		if ret, ok := b.Instrs[len(b.Instrs)-1].(*ssa.Return); ok {
			rv := path.ReturnValues(ret)
			if len(rv) != 1 {
				return nil
			}
			out = rv[0]
			n++
		}
	}
	if n != 1 {
		return nil
	}
	return out
}
