package props

import (
	"go/token"
	"go/types"

	"golang.org/x/tools/go/ssa"

	"gogucheck/core"
	"gogucheck/path"
)

// Recognising a membership test by what it does, wherever it is declared (the module's
// own Contains/IndexOf, golang.org/x/exp/slices.Contains/Index): a function f(s, v) that
//
//   - index form: scans its first parameter completely, forward from 0, compares the
//     element just read with its second parameter by ==, returns the index at once on a
//     match and -1 only through the exit of the scan; or
//   - boolean form: does the same returning true / false, or returns idx(s, v) >= 0
//     (!= -1, > -1) of an index-form function;
//
// and contains no store, map update, append, go, defer or other call. Such a callee
// reads its slice argument and nothing else, so handing it a container's backing slice
// neither reorders nor overwrites the elements, and its answer is exactly "some held
// element equals the probe".
func eqScan(p *core.Program, fn *ssa.Function, index bool) bool {
	fn = core.Canon(fn)
	if fn == nil || len(fn.Blocks) == 0 || len(fn.Params) != 2 {
		return false
	}
	s, v := ssa.Value(fn.Params[0]), ssa.Value(fn.Params[1])
	if _, ok := s.Type().Underlying().(*types.Slice); !ok {
		// a type parameter constrained to slices (S ~[]E)
		if tp, ok := s.Type().(*types.TypeParam); !ok {
			return false
		} else if _, ok := coreTypeOf(tp).(*types.Slice); !ok {
			return false
		}
	}
	for _, in := range path.Instrs(fn) {
		switch x := in.(type) {
		case *ssa.Store, *ssa.MapUpdate, *ssa.Go, *ssa.Defer, *ssa.Send, *ssa.MakeClosure:
			return false
		case *ssa.Call:
			if bi, ok := x.Call.Value.(*ssa.Builtin); !ok || bi.Name() != "len" {
				return false
			}
		}
	}
	reads := elemReads(fn, s)
	if len(reads) != 1 {
		return false
	}
	rd := reads[0]
	x := newPathCtx(p)
	sc, ok := classifyScan(x, fn, rd.idx, s)
	if !ok || sc.dir != +1 {
		return false
	}
	// the one comparison, its match edge and the returns
	var mb *ssa.BasicBlock
	for _, b := range fn.Blocks {
		iff := path.BlockIf(b)
		if iff == nil {
			continue
		}
		cv, truth, _ := condEdge(b, 0)
		bo, ok := cv.(*ssa.BinOp)
		if !ok || bo.Op != token.EQL {
			continue
		}
		if !((bo.X == ssa.Value(rd.load) && bo.Y == v) || (bo.Y == ssa.Value(rd.load) && bo.X == v)) {
			continue
		}
		if mb != nil {
			return false
		}
		idx := 0
		if !truth {
			idx = 1
		}
		mb = b.Succs[idx]
	}
	if mb == nil || len(mb.Preds) != 1 {
		return false
	}
	nRet := 0
	for _, b := range fn.Blocks {
		rt, ok := b.Instrs[len(b.Instrs)-1].(*ssa.Return)
		if !ok {
			continue
		}
		nRet++
		rv := path.ReturnValues(rt)
		if len(rv) != 1 {
			return false
		}
		if b == mb {
			if index {
				if rv[0] != sc.idx {
					return false
				}
			} else if bc, isC := path.BoolConst(rv[0]); !isC || !bc {
				return false
			}
			continue
		}
		if index {
			if k, isK := path.IntConst(rv[0]); !isK || k != -1 {
				return false
			}
		} else if bc, isC := path.BoolConst(rv[0]); !isC || bc {
			return false
		}
		if path.InCycle(b) || !onlyViaLoopHeader(fn, b) {
			return false
		}
	}
	return nRet == 2
}

// membershipFn: callee answers "some element of its first argument equals its second".
func membershipFn(p *core.Program, callee *ssa.Function) bool {
	callee = core.Canon(callee)
	if callee == nil || len(callee.Blocks) == 0 || len(callee.Params) != 2 {
		return false
	}
	if eqScan(p, callee, false) {
		return true
	}
	// return idx(s, v) >= 0
	if len(callee.Blocks) != 1 {
		return false
	}
	var call *ssa.Call
	for _, in := range callee.Blocks[0].Instrs {
		switch x := in.(type) {
		case *ssa.Call:
			if call != nil {
				return false
			}
			call = x
		case *ssa.Store, *ssa.MapUpdate, *ssa.Go, *ssa.Defer, *ssa.Send, *ssa.MakeClosure:
			return false
		}
	}
	rt, ok := callee.Blocks[0].Instrs[len(callee.Blocks[0].Instrs)-1].(*ssa.Return)
	if !ok || call == nil || len(rt.Results) != 1 {
		return false
	}
	inner := path.StaticCallee(call)
	if inner == nil || len(call.Call.Args) != 2 || call.Call.Args[0] != ssa.Value(callee.Params[0]) || call.Call.Args[1] != ssa.Value(callee.Params[1]) || !eqScan(p, inner, true) {
		return false
	}
	bo, ok := rt.Results[0].(*ssa.BinOp)
	if !ok || bo.X != ssa.Value(call) {
		return false
	}
	k, isK := path.IntConst(bo.Y)
	if !isK {
		return false
	}
	switch {
	case bo.Op == token.GEQ && k == 0, bo.Op == token.NEQ && k == -1, bo.Op == token.GTR && k == -1:
		return true
	}
	return false
}
