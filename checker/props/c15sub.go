package props

import (
	"fmt"
	"go/types"

	"golang.org/x/tools/go/ssa"
)

// Substr (rule BD2, the table of c13nth.go in three variables): which bytes Substr
// selects, whether it answers the empty string and whether its slice expression can
// panic are decided by integer comparisons between forms a*len + b*offset + c*length + d.
//
// PREMISE (decided on the SSA of Substr and of the module functions it calls - Abs,
// InRange/Clamp, Null): loop-free; integers combined only by +, -, unary minus and
// comparisons; at every comparison, index and slice bound the |coefficients| sum to at
// most 4 over both operands and the |constants| to at most 1.
//
// TABLE: the SSA is followed for every len in 0..L and offset, length in -W..W (L, W at
// least 6 and 9 - 12 and 18 in the thorough tier - and at least what the half-planes the
// code decides by require, see below) and compared with the statement:
//
//	start = offset            if offset >= 0
//	      = len + offset      otherwise
//	empty string unless 0 <= start <= len
//	end   = min(start + length, len)   if length >= 0
//	      = len + length               otherwise
//	empty string unless end >= start
//	str[start:end]
//
// and a slice expression with bounds outside 0 <= lo <= hi <= len is a panic.
//
// How large the box has to be is not assumed: a first pass over the base box records
// every half-plane the code decides by (the affine form of both operands of every
// integer comparison and of every slice bound, tracked symbolically along the executed
// path), the statement's own planes are added, and boxNeeded computes from them, exactly,
// the largest vertex coordinate V of the arrangement and the largest entry G of a
// primitive direction vector of a line of intersection; the table then covers
// V + 3G + 2 in every coordinate (8 for len and 11 for the arguments on the pinned tree,
// from 14 planes, all through the origin up to the +-1 of strictness). Overflow of
// len+offset / offset+length at the extremes of int is not decided.

func substrRegion(L, o, n int64) string {
	cls := func(x, lo, hi int64, name, loName, hiName string) string {
		switch {
		case x < lo:
			return name + " < " + loName
		case x == lo && lo != 0:
			return name + " = " + loName
		case x < 0:
			return loName + " < " + name + " < 0"
		case x == 0:
			return name + " = 0"
		case x < hi:
			return "0 < " + name + " < " + hiName
		case x == hi:
			return name + " = " + hiName
		}
		return name + " > " + hiName
	}
	start := o
	if o < 0 {
		start = L + o
	}
	pre := "non-empty string, "
	if L == 0 {
		pre = "empty string, "
	}
	oc := cls(o, -L, L, "offset", "-len", "len")
	if start < 0 || start > L {
		return pre + oc
	}
	rem := L - start
	return pre + oc + ", " + cls(n, -rem, rem, "length", "-(len-start)", "len-start")
}

func checkSubstr(c rc, thorough bool) {
	p := c.p
	name := "gogu.Substr"
	fn := c.fn(name)
	if fn == nil {
		return
	}
	if len(fn.Params) != 3 {
		c.und("BD2", name, "selection table", c.fpos(fn), "Substr no longer takes (str, offset, length)")
		return
	}
	str, off, ln := fn.Params[0], fn.Params[1], fn.Params[2]
	isStr := false
	if b, ok := str.Type().Underlying().(*types.Basic); ok && b.Info()&types.IsString != 0 {
		isStr = true
	}
	if tp, ok := str.Type().(*types.TypeParam); ok {
		if ct, ok := coreTypeOf(tp).(*types.Basic); ok && ct.Info()&types.IsString != 0 {
			isStr = true
		}
	}
	if !isStr || !isIntType(off.Type()) || !isIntType(ln.Type()) {
		c.und("BD2", name, "selection table", c.fpos(fn), "Substr no longer takes (string, integer, integer)")
		return
	}
	one := affN{coef: 1, ok: true}
	okP, why := affinePremise(p, fn, map[*ssa.Parameter]affN{off: one, ln: one}, 0, 4, 1)
	c.r.Obligation("BD2", true, map[string]any{"rule": "BD2", "function": name, "object": "premise: loop-free, integers combined by + - and comparisons, affine forms of (len, offset, length) with small coefficients", "holds": okP})
	if !okP {
		c.und("BD2", name, "offset arithmetic is piecewise affine with small coefficients", c.fpos(fn), "the table over lengths 0..6 and offsets/lengths -9..9 decides Substr only when its tests and slice bounds are affine forms of (len, offset, length) with |coefficients| summing to at most 4 and |constants| to at most 1: "+why)
		return
	}
	baseL, baseW := int64(6), int64(9)
	if thorough {
		baseL, baseW = 12, 18
	}
	c.r.Floor("BD2", 2000)
	runAffTable(c, affTable{rule: "BD2", name: name, fn: fn, slice: str, ints: []*ssa.Parameter{off, ln}, baseL: baseL, baseW: baseW, capL: 16, capW: 30,
		// the statement's regions: offset >= 0; start = offset | len+offset in [0, len];
		// length >= 0; end = start+length vs len; end = len+length vs start
		stmtPlanes: [][4]int64{{0, 1, 0, 0}, {-1, 1, 0, 0}, {1, 1, 0, 0}, {0, 0, 1, 0}, {-1, 1, 1, 0}, {0, 1, 1, 0}, {1, -1, 1, 0}, {0, -1, 1, 0}},
		call: func(L int64, a []int64) string {
			return fmt.Sprintf("Substr(string of length %d, %d, %d)", L, a[0], a[1])
		},
		judge: func(L int64, a []int64, out miniOut, _ []int64) (bool, string, string) {
			o, n := a[0], a[1]
			start := o
			if o < 0 {
				start = L + o
			}
			wantLo, wantHi := int64(0), int64(0) // empty
			if start >= 0 && start <= L {
				end := L + n
				if n >= 0 {
					end = start + n
					if end > L {
						end = L
					}
				}
				if end >= start {
					wantLo, wantHi = start, end
				}
			}
			okV := true
			reason := ""
			describe := func(lo, hi int64) string {
				if lo == hi {
					return "the empty string"
				}
				return fmt.Sprintf("str[%d:%d]", lo, hi)
			}
			switch {
			case out.panics:
				okV = false
				reason = fmt.Sprintf("panics (%s); the definition wants %s", out.why, describe(wantLo, wantHi))
			case len(out.results) != 1:
				okV = false
				reason = "does not return one value"
			default:
				r := out.results[0]
				gotLo, gotHi := int64(0), int64(0)
				switch r.k {
				case mvSub:
					gotLo, gotHi = r.n, r.m
				case mvZero:
				case mvSlice:
					gotLo, gotHi = 0, L
				default:
					okV = false
					reason = "returns something other than a part of the string"
				}
				if okV && !(gotLo == wantLo && gotHi == wantHi) && !(gotLo == gotHi && wantLo == wantHi) {
					okV = false
					reason = fmt.Sprintf("returns %s, the definition wants %s", describe(gotLo, gotHi), describe(wantLo, wantHi))
				}
			}
			return okV, reason, substrRegion(L, o, n)
		}})
}

func coreTypeOf(tp *types.TypeParam) types.Type {
	iface, ok := tp.Constraint().Underlying().(*types.Interface)
	if !ok {
		return nil
	}
	var core types.Type
	for i := 0; i < iface.NumEmbeddeds(); i++ {
		switch e := iface.EmbeddedType(i).(type) {
		case *types.Union:
			for j := 0; j < e.Len(); j++ {
				u := e.Term(j).Type().Underlying()
				if core == nil {
					core = u
				} else if !types.Identical(core, u) {
					return nil
				}
			}
		default:
			u := e.Underlying()
			if core == nil {
				core = u
			} else if !types.Identical(core, u) {
				return nil
			}
		}
	}
	return core
}
