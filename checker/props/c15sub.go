package props

import (
	"fmt"
	"go/types"

	"golang.org/x/tools/go/ssa"
)

// Substr (rule BD2, the table of c13nth.go in three variables): which bytes Substr
// selects, whether it answers the empty string and whether its slice expression can
// panic are decided by integer comparisons between forms a*len + b*offset + c*length + d.
//
// PREMISE (decided on the SSA of Substr and of the module functions it calls - Abs,
// InRange/Clamp, Null): loop-free; integers combined only by +, -, unary minus and
// comparisons; at every comparison, index and slice bound the |coefficients| sum to at
// most 4 over both operands and the |constants| to at most 1.
//
// TABLE: the SSA is followed for every len in 0..6 and offset, length in -9..9 (quick;
// the thorough tier doubles every range and must give the same verdicts, which is the
// cross-check that the box is large enough) and compared with the statement:
//
//	start = offset            if offset >= 0
//	      = len + offset      otherwise
//	empty string unless 0 <= start <= len
//	end   = min(start + length, len)   if length >= 0
//	      = len + length               otherwise
//	empty string unless end >= start
//	str[start:end]
//
// and a slice expression with bounds outside 0 <= lo <= hi <= len is a panic.
//
// The box argument of c13nth.go is weaker in three dimensions with coefficients up to
// 4; it is an argument about a small hyperplane arrangement (all vertices lie within
// 2 units of the origin for the forms Substr uses), not a proof, and is recorded as
// such in the evidence. Overflow of len+offset / offset+length at the extremes of int
// is not decided.

func substrRegion(L, o, n int64) string {
	cls := func(x, lo, hi int64, name, loName, hiName string) string {
		switch {
		case x < lo:
			return name + " < " + loName
		case x == lo && lo != 0:
			return name + " = " + loName
		case x < 0:
			return loName + " < " + name + " < 0"
		case x == 0:
			return name + " = 0"
		case x < hi:
			return "0 < " + name + " < " + hiName
		case x == hi:
			return name + " = " + hiName
		}
		return name + " > " + hiName
	}
	start := o
	if o < 0 {
		start = L + o
	}
	pre := "non-empty string, "
	if L == 0 {
		pre = "empty string, "
	}
	oc := cls(o, -L, L, "offset", "-len", "len")
	if start < 0 || start > L {
		return pre + oc
	}
	rem := L - start
	return pre + oc + ", " + cls(n, -rem, rem, "length", "-(len-start)", "len-start")
}

func checkSubstr(c rc, thorough bool) {
	p := c.p
	name := "gogu.Substr"
	fn := c.fn(name)
	if fn == nil {
		return
	}
	if len(fn.Params) != 3 {
		c.und("BD2", name, "selection table", c.fpos(fn), "Substr no longer takes (str, offset, length)")
		return
	}
	str, off, ln := fn.Params[0], fn.Params[1], fn.Params[2]
	isStr := false
	if b, ok := str.Type().Underlying().(*types.Basic); ok && b.Info()&types.IsString != 0 {
		isStr = true
	}
	if tp, ok := str.Type().(*types.TypeParam); ok {
		if ct, ok := coreTypeOf(tp).(*types.Basic); ok && ct.Info()&types.IsString != 0 {
			isStr = true
		}
	}
	if !isStr || !isIntType(off.Type()) || !isIntType(ln.Type()) {
		c.und("BD2", name, "selection table", c.fpos(fn), "Substr no longer takes (string, integer, integer)")
		return
	}
	one := affN{coef: 1, ok: true}
	okP, why := affinePremise(p, fn, map[*ssa.Parameter]affN{off: one, ln: one}, 0, 4, 1)
	c.r.Obligation("BD2", true, map[string]any{"rule": "BD2", "function": name, "object": "premise: loop-free, integers combined by + - and comparisons, affine forms of (len, offset, length) with small coefficients", "holds": okP})
	if !okP {
		c.und("BD2", name, "offset arithmetic is piecewise affine with small coefficients", c.fpos(fn), "the table over lengths 0..6 and offsets/lengths -9..9 decides Substr only when its tests and slice bounds are affine forms of (len, offset, length) with |coefficients| summing to at most 4 and |constants| to at most 1: "+why)
		return
	}
	maxL, w := int64(6), int64(9)
	if thorough {
		maxL, w = 12, 18
	}
	c.r.Floor("BD2", 2000)
	reported := map[string]bool{}
	for L := int64(0); L <= maxL; L++ {
		for o := -w; o <= w; o++ {
			for n := -w; n <= w; n++ {
				out, ok, why := miniEval(fn, map[*ssa.Parameter]mv{off: {k: mvInt, n: o}, ln: {k: mvInt, n: n}}, miniEnv{p: p, slice: str, length: L})
				if !ok {
					c.und("BD2", name, "selection table", c.fpos(fn), "Substr cannot be followed by the table's evaluator ("+why+")")
					return
				}
				// the statement
				start := o
				if o < 0 {
					start = L + o
				}
				wantLo, wantHi := int64(0), int64(0) // empty
				if start >= 0 && start <= L {
					end := L + n
					if n >= 0 {
						end = start + n
						if end > L {
							end = L
						}
					}
					if end >= start {
						wantLo, wantHi = start, end
					}
				}
				okV := true
				reason := ""
				describe := func(lo, hi int64) string {
					if lo == hi {
						return "the empty string"
					}
					return fmt.Sprintf("str[%d:%d]", lo, hi)
				}
				switch {
				case out.panics:
					okV = false
					reason = fmt.Sprintf("panics (%s); the definition wants %s", out.why, describe(wantLo, wantHi))
				case len(out.results) != 1:
					okV = false
					reason = "does not return one value"
				default:
					r := out.results[0]
					gotLo, gotHi := int64(0), int64(0)
					switch r.k {
					case mvSub:
						gotLo, gotHi = r.n, r.m
					case mvZero:
					case mvSlice:
						gotLo, gotHi = 0, L
					default:
						okV = false
						reason = "returns something other than a part of the string"
					}
					if okV && !(gotLo == wantLo && gotHi == wantHi) && !(gotLo == gotHi && wantLo == wantHi) {
						okV = false
						reason = fmt.Sprintf("returns %s, the definition wants %s", describe(gotLo, gotHi), describe(wantLo, wantHi))
					}
				}
				c.r.Obligation("BD2", okV, map[string]any{"rule": "BD2", "function": name, "len": L, "offset": o, "length": n, "ok": okV})
				if !okV {
					region := substrRegion(L, o, n)
					if !reported[region] && len(reported) < 6 {
						reported[region] = true
						c.r.Violation(coreDiag("BD2", name, region, c.fpos(fn), fmt.Sprintf("Substr(string of length %d, %d, %d) %s", L, o, n, reason)))
					}
				}
			}
		}
	}
}

func coreTypeOf(tp *types.TypeParam) types.Type {
	iface, ok := tp.Constraint().Underlying().(*types.Interface)
	if !ok {
		return nil
	}
	var core types.Type
	for i := 0; i < iface.NumEmbeddeds(); i++ {
		switch e := iface.EmbeddedType(i).(type) {
		case *types.Union:
			for j := 0; j < e.Len(); j++ {
				u := e.Term(j).Type().Underlying()
				if core == nil {
					core = u
				} else if !types.Identical(core, u) {
					return nil
				}
			}
		default:
			u := e.Underlying()
			if core == nil {
				core = u
			} else if !types.Identical(core, u) {
				return nil
			}
		}
	}
	return core
}
