package props

import (
	"fmt"
	"go/token"
	"go/types"
	"strings"

	"golang.org/x/tools/go/ssa"

	"gogucheck/core"
	"gogucheck/path"
)

func init() {
	register(&Check{
		ID: "C15",
		Explanation: "Structural rules over string.go (engines E7/E4): AG5 ToLower/ToUpper/Capitalize range over the string rune by rune and append, for every rune, exactly the result of unicode.ToLower / unicode.ToUpper of that rune (Capitalize: upper at offset 0, lower elsewhere) and convert the rune slice back; SnakeCase and KebabCase are the same call differing only in the delimiter constant; " +
			"Wrap writes token, payload, token in this order and WrapAllRune does so around every rune; ReverseStr converts to []rune, only swaps, and converts back (PV4); the Pad functions return the input unchanged under size <= len(str) (or an empty token), cut the repeated token only on paths that have excluded the empty token (PT6) and otherwise concatenate pad and input in the documented order with the pad cut to exactly size-len(str) bytes (left/right halves for Pad); " +
			"SplitAtIndex returns on every path a two-element slice whose parts are (\"\", str), (str, \"\") or the complementary cuts str[:x], str[x:]; Unwrap strips exactly len(token) bytes from both ends and only under HasPrefix, HasSuffix and len(str) >= 2*len(token); BD2 Substr: premise (loop-free; integers combined by + - and comparisons; affine forms of (len, offset, length) with small coefficients at every comparison and slice bound) decided on the SSA of Substr, Abs, InRange, Null; under it the outcome (the byte range returned, the empty string, or slice bounds outside 0 <= lo <= hi <= len = panic) is tabulated over a box of (len, offset, length) whose size is computed from the half-planes the code and the statement decide by (at least len 0..6 x -9..9, on the pinned tree 0..8 x -11..11; thorough at least 0..12 x -18..18) against the statement's selection rule; GS1/GS2 hygiene. " +
			"Decides these necessary conditions; the regexp-based case converters are not decided.",
		Assumptions: []string{"go/ssa faithful to the source", "contracts of unicode.ToLower/ToUpper, strings.HasPrefix/HasSuffix/Repeat, strings.Builder"},
		NotDecided:  []string{"integer overflow of len+offset / offset+length in Substr at the extremes of int", "that the repeated pad token is long enough for the cut beyond the empty-token case (the float arithmetic of Pad's halves)", "CamelCase/SnakeCase/KebabCase word splitting (regular expressions)"},
		Run:         runC15,
	})
}

func isStdCall(v ssa.Value, pkg, name string) (*ssa.Call, bool) {
	call, ok := v.(*ssa.Call)
	if !ok {
		return nil, false
	}
	cal := call.Call.StaticCallee()
	if cal == nil || cal.Pkg == nil || cal.Pkg.Pkg.Path() != pkg {
		return nil, false
	}
	n := cal.Name()
	if recv := cal.Signature.Recv(); recv != nil {
		if nm := namedOf(recv.Type()); nm != nil {
			n = nm.Obj().Name() + "." + n
		}
	}
	return call, n == name
}

func runC15(p *core.Program, r *core.Report) {
	c := rc{p, r}
	noAnswerBeforeTheScan(c, "gogu.ToLower", "gogu.ToUpper", "gogu.Capitalize", "gogu.WrapAllRune", "gogu.ReverseStr", "gogu.SplitAtIndex")
	resultUntouchedAfterTheScan(c, "gogu.ToLower", "gogu.ToUpper", "gogu.Capitalize", "gogu.WrapAllRune", "gogu.ReverseStr", "gogu.SplitAtIndex")
	hygiene(c, "string.go")
	noSingledOutValue(c, []string{"string.go"}, nil)

	// ---------------- case mapping
	type caseSpec struct {
		name         string
		first, other string // unicode function for the rune at offset 0 / elsewhere
	}
	for _, s := range []caseSpec{{"gogu.ToLower", "ToLower", "ToLower"}, {"gogu.ToUpper", "ToUpper", "ToUpper"}, {"gogu.Capitalize", "ToUpper", "ToLower"}} {
		fn := c.fn(s.name)
		if fn == nil {
			continue
		}
		str := ssa.Value(fn.Params[0])
		// the range over the string
		var rng *ssa.Range
		for _, in := range path.Instrs(fn) {
			if rg, ok := in.(*ssa.Range); ok && rg.X == str {
				rng = rg
			}
		}
		c.ob("PT5", s.name, "ranges over the string rune by rune", c.fpos(fn), rng != nil, "the string must be traversed with range (rune-wise), not byte-wise")
		// the rune buffer starts empty (a length > 0 puts zero runes in front of the result)
		for _, in := range path.Instrs(fn) {
			switch mk := in.(type) {
			case *ssa.MakeSlice:
				k, isK := path.IntConst(mk.Len)
				c.ob("PV1", s.name, "result buffer starts empty", p.InstrPos(mk), isK && k == 0, "the rune buffer must be created with length 0 (capacity is only a hint)")
			case *ssa.Slice:
				// make with a constant capacity is an array allocation re-sliced to the length
				if al, ok := mk.X.(*ssa.Alloc); ok && al.Comment == "makeslice" {
					k, isK := path.IntConst(mk.High)
					c.ob("PV1", s.name, "result buffer starts empty", p.InstrPos(mk), mk.High == nil || (isK && k == 0), "the rune buffer must be created with length 0 (capacity is only a hint)")
				}
			}
		}
		if rng == nil {
			continue
		}
		// every append into the result appends one rune = unicode.F(rune of this iteration)
		nApp := 0
		for _, in := range path.Instrs(fn) {
			call, ok := in.(*ssa.Call)
			if !ok {
				continue
			}
			b, ok := call.Call.Value.(*ssa.Builtin)
			if !ok || b.Name() != "append" {
				continue
			}
			nApp++
			v, ok := singleElemSlice(call.Call.Args[1])
			okF := false
			which := ""
			if ok {
				for _, f := range []string{"ToLower", "ToUpper"} {
					if uc, isU := isStdCall(v, "unicode", f); isU {
						which = f
						// argument = the rune of the current iteration
						a := path.Strip(uc.Call.Args[0])
						if cv, ok := a.(*ssa.Convert); ok {
							a = cv.X
						}
						if ex, ok := a.(*ssa.Extract); ok && ex.Index == 2 {
							if nx, ok := ex.Tuple.(*ssa.Next); ok && nx.Iter == ssa.Value(rng) {
								okF = true
							}
						}
					}
				}
			}
			// which function is expected here?
			want := s.other
			x := newPathCtx(p)
			atZero := guardedBy(fn, call.Block(), func(cd path.Cond, truth bool) bool {
				if normCmp(cd.Op, truth) != "==" {
					return false
				}
				k, ok := path.IntConst(cd.Y)
				ex, isEx := cd.X.(*ssa.Extract)
				return ok && k == 0 && isEx && ex.Index == 1
			})
			_ = x
			if s.first != s.other && atZero {
				want = s.first
			}
			if s.first != s.other && !atZero {
				// must be dominated by the false edge of (offset == 0)
				notZero := guardedBy(fn, call.Block(), func(cd path.Cond, truth bool) bool {
					if normCmp(cd.Op, truth) != "!=" {
						return false
					}
					k, ok := path.IntConst(cd.Y)
					ex, isEx := cd.X.(*ssa.Extract)
					return ok && k == 0 && isEx && ex.Index == 1
				})
				if !notZero {
					okF = false
				}
			}
			c.ob("AG5", s.name, "appended rune is the Unicode mapping of the current rune", p.InstrPos(call), okF && which == want,
				fmt.Sprintf("each appended rune must be unicode.%s of the rune just read (found mapping %q): anything else - another mapping, a helper with its own case logic, a constant - departs from the Unicode case mapping", want, which))
		}
		wantApp := 1
		if s.first != s.other {
			wantApp = 2
		}
		c.ob("AG5", s.name, "append sites", c.fpos(fn), nApp == wantApp, fmt.Sprintf("expected %d append site(s), found %d", wantApp, nApp))
		// every iteration appends exactly once
		isApp := func(in ssa.Instruction) bool {
			call, ok := in.(*ssa.Call)
			if !ok {
				return false
			}
			b, ok := call.Call.Value.(*ssa.Builtin)
			return ok && b.Name() == "append"
		}
		for _, in := range path.Instrs(fn) {
			nx, ok := in.(*ssa.Next)
			if !ok || nx.Iter != ssa.Value(rng) {
				continue
			}
			// from the body entry back to the header every path crosses an append
			hdr := nx.Block()
			iff := path.BlockIf(hdr)
			skip := false
			if iff != nil {
				body := hdr.Succs[0]
				skip = canReachBlockWithout(body, hdr, isApp)
			}
			c.ob("PT1", s.name, "one rune out per rune in", p.InstrPos(nx), iff != nil && !skip, "an iteration can complete without appending a rune: characters are lost")
		}
		// result: conversion of the accumulated rune slice
		for _, alt := range returnAlternatives(fn, 0) {
			rt := alt.ret
			cv, ok := rt.Results[0].(*ssa.Convert)
			okR := ok
			if ok {
				sl, isSl := cv.X.Type().Underlying().(*types.Slice)
				okR = isSl && types.Identical(sl.Elem(), types.Typ[types.Rune])
			}
			c.ob("PV1", s.name, "result is the rune slice converted back", p.InstrPos(rt), okR, "the result must be T(result) of the accumulated []rune")
		}
	}

	// ---------------- SnakeCase / KebabCase siblings
	{
		sn, kb := c.fn("gogu.SnakeCase"), c.fn("gogu.KebabCase")
		if sn != nil && kb != nil {
			desc := func(fn *ssa.Function) (callee *ssa.Function, delim string, ok bool) {
				var call *ssa.Call
				n := 0
				for _, in := range path.Instrs(fn) {
					if cl, isC := in.(*ssa.Call); isC {
						call = cl
						n++
					}
				}
				if n != 1 {
					return nil, "", false
				}
				callee = path.StaticCallee(call)
				a := call.Call.Args
				if len(a) != 2 || path.Strip(a[0]) != ssa.Value(fn.Params[0]) {
					return callee, "", false
				}
				cst, isC := a[1].(*ssa.Const)
				if !isC || cst.Value == nil {
					return callee, "", false
				}
				// the call's result is returned
				for _, in := range path.Instrs(fn) {
					if rt, isR := in.(*ssa.Return); isR {
						if path.Strip(rt.Results[0]) != ssa.Value(call) {
							return callee, "", false
						}
					}
				}
				return callee, cst.Value.ExactString(), true
			}
			c1, d1, ok1 := desc(sn)
			c2, d2, ok2 := desc(kb)
			c.ob("AG5", "gogu.SnakeCase", "same helper as KebabCase, delimiter \"_\"", c.fpos(sn), ok1 && ok2 && c1 == c2 && c1 != nil && d1 == `"_"`, "SnakeCase and KebabCase must be one call of the same helper differing only in the delimiter; SnakeCase's delimiter must be \"_\"")
			c.ob("AG5", "gogu.KebabCase", "same helper as SnakeCase, delimiter \"-\"", c.fpos(kb), ok1 && ok2 && c1 == c2 && c1 != nil && d2 == `"-"`, "SnakeCase and KebabCase must be one call of the same helper differing only in the delimiter; KebabCase's delimiter must be \"-\"")
		}
	}

	// ---------------- Wrap / WrapAllRune
	writes := func(fn *ssa.Function) []*ssa.Call {
		var out []*ssa.Call
		for _, in := range path.Instrs(fn) {
			if call, ok := in.(*ssa.Call); ok {
				if _, ok := isStdCall(call, "strings", "Builder.WriteString"); ok {
					out = append(out, call)
				}
				if _, ok := isStdCall(call, "strings", "Builder.WriteRune"); ok {
					out = append(out, call)
				}
				if _, ok := isStdCall(call, "strings", "Builder.WriteByte"); ok {
					out = append(out, call)
				}
			}
		}
		return out
	}
	if fn := c.fn("gogu.Wrap"); fn != nil {
		ws := writes(fn)
		tok := ssa.Value(paramByName(fn, "token"))
		okW := len(ws) == 3
		if okW {
			okW = ws[0].Call.Args[1] == tok && path.Strip(ws[1].Call.Args[1]) == ssa.Value(fn.Params[0]) && ws[2].Call.Args[1] == tok &&
				ws[0].Block() == ws[1].Block() && ws[1].Block() == ws[2].Block() && !path.InCycle(ws[0].Block())
		}
		c.ob("PT2", "gogu.Wrap", "writes token, payload, token", c.fpos(fn), okW, "Wrap must write the token, the string and the token again, in this order, exactly once each")
		// ... and every return hands back what was written (the builder's String())
		for _, alt := range returnAlternatives(fn, 0) {
			okS := false
			if call, ok := path.Strip(alt.val).(*ssa.Call); ok {
				if cal := call.Call.StaticCallee(); cal != nil && cal.Name() == "String" && cal.Signature.Recv() != nil && strings.Contains(cal.Signature.Recv().Type().String(), "strings.Builder") {
					okS = true
				}
			}
			c.ob("PV1", "gogu.Wrap", "returns what was written", p.InstrPos(alt.ret), okS && len(ws) == 3 && (ws[2].Block() == alt.blk || ws[2].Block().Dominates(alt.blk)), "a return of Wrap hands back something other than the builder's contents after the three writes: some inputs come back unwrapped")
		}
	}
	if fn := c.fn("gogu.WrapAllRune"); fn != nil {
		ws := writes(fn)
		tok := ssa.Value(paramByName(fn, "token"))
		okW := len(ws) == 3
		if okW {
			okRune := false
			if ex, ok := ws[1].Call.Args[1].(*ssa.Extract); ok && ex.Index == 2 {
				if nx, ok := ex.Tuple.(*ssa.Next); ok {
					if rg, ok := nx.Iter.(*ssa.Range); ok && rg.X == ssa.Value(fn.Params[0]) {
						okRune = true
					}
				}
			}
			okW = ws[0].Call.Args[1] == tok && okRune && ws[2].Call.Args[1] == tok &&
				ws[0].Block() == ws[1].Block() && ws[1].Block() == ws[2].Block() && path.InCycle(ws[0].Block())
		}
		c.ob("PT2", "gogu.WrapAllRune", "writes token, rune, token for every rune", c.fpos(fn), okW, "WrapAllRune must write token, the current rune, token - in this order - once per rune of the string")
	}

	checkReverseStr(c)

	// ---------------- Pad functions
	for _, name := range []string{"gogu.PadLeft", "gogu.PadRight", "gogu.Pad"} {
		fn := c.fn(name)
		if fn == nil {
			continue
		}
		x := newPathCtx(p)
		str := ssa.Value(fn.Params[0])
		for _, alt := range returnAlternatives(fn, 0) {
			rt := alt.ret
			rv := path.Strip(alt.val)
			fs := edgeFacts(x, fn, alt.blk)
			long := hasFact(fs, "size", "<=", "len(str)") || hasFact(fs, "size", "<", "len(str)")
			// an empty pad token cannot fill anything: the input is handed back as it is
			noTok := hasFact(fs, "len(token)", "==", "0") || hasFact(fs, "len(token)", "<=", "0") || hasFact(fs, "len(token)", "<", "1") || hasFact(fs, "token", "==", "\"\"")
			if !long && !noTok {
				// "size <= len(str) || len(token) == 0": every way into the return carries one
				// of the two - into the return block itself, or into the block that gives a
				// flag guarding the return its value (`pad, ok := helper(...); if !ok`)
				merges := []*ssa.BasicBlock{alt.blk}
				for _, g := range path.Guards(fn, alt.blk) {
					if g.Synth {
						continue
					}
					if pb, _, ok := path.FlagSource(g.If.Cond, g.Idx == 0); ok {
						merges = append(merges, pb)
					}
				}
				for _, mb := range merges {
					if len(mb.Preds) < 2 {
						continue
					}
					all := true
					for _, pr := range mb.Preds {
						pf := edgeFactsInto(x, fn, pr, mb)
						if !(hasFact(pf, "size", "<=", "len(str)") || hasFact(pf, "size", "<", "len(str)") || hasFact(pf, "len(token)", "==", "0") || hasFact(pf, "len(token)", "<=", "0") || hasFact(pf, "len(token)", "<", "1") || hasFact(pf, "token", "==", "\"\"")) {
							all = false
						}
					}
					if all {
						long = true
					}
				}
			}
			if long || noTok || rv == str {
				c.ob("PT3", name, "long enough input returned unchanged", p.InstrPos(rt), (long || noTok) && rv == str, "the input must be returned unchanged exactly under size <= len(str) (or when the pad token is empty)")
				continue
			}
			// PT6: a cut pad[:k] of the (repeated) token needs k bytes: strings.Repeat of an
			// empty token is empty, so the path must have excluded the empty token
			hasTok := hasFact(fs, "len(token)", ">", "0") || hasFact(fs, "len(token)", "!=", "0") || hasFact(fs, "len(token)", ">=", "1") || hasFact(fs, "token", "!=", "\"\"")
			c.ob("PT6", name, "pad cut only with a non-empty token", p.InstrPos(rt), hasTok, "the pad is cut to the missing length (pad[:k]) on a path that has not excluded the empty token: strings.Repeat(\"\", k) is empty and the cut panics (size > len(str), token \"\")")
			// concatenation shape
			parts := flattenConcat(rv)
			var desc []string
			for _, pt := range parts {
				pt = path.Strip(path.ResolvePhi(fn, alt.blk, path.Strip(pt)))
				if pt == str {
					desc = append(desc, "str")
					continue
				}
				if sl, ok := pt.(*ssa.Slice); ok && sl.Low == nil && sl.High != nil {
					desc = append(desc, "pad[:"+x.path(sl.High)+"]")
					continue
				}
				desc = append(desc, "?")
			}
			got := fmt.Sprint(desc)
			var want []string
			switch name {
			case "gogu.PadLeft":
				want = []string{"[pad[:(size-len(str))] str]"}
			case "gogu.PadRight":
				want = []string{"[str pad[:(size-len(str))]]"}
			default:
				want = []string{"[pad[:conv(math.Floor((conv((size-len(str)))/2)))] str pad[:conv(math.Ceil((conv((size-len(str)))/2)))]]"}
			}
			okC := false
			for _, w := range want {
				if got == w {
					okC = true
				}
			}
			c.ob("AG6", name, "pad and input concatenated in the documented order and length", p.InstrPos(rt), okC, fmt.Sprintf("the result is built as %s, expected %s", got, want[0]))
		}
	}

	// ---------------- SplitAtIndex
	if fn := c.fn("gogu.SplitAtIndex"); fn != nil {
		x := newPathCtx(p)
		str := ssa.Value(fn.Params[0])
		for _, alt := range returnAlternatives(fn, 0) {
			rt := alt.ret
			elems, ok := sliceLiteral(alt.val)
			if !ok || len(elems) != 2 {
				c.ob("PV3", "gogu.SplitAtIndex", "two parts on every path", p.InstrPos(rt), false, "a return does not yield a two-element slice literal: the result can have fewer or more than two parts")
				continue
			}
			c.ob("PV3", "gogu.SplitAtIndex", "two parts on every path", p.InstrPos(rt), true, "")
			a, bb := path.Strip(elems[0]), path.Strip(elems[1])
			isEmpty := func(v ssa.Value) bool {
				cst, ok := v.(*ssa.Const)
				return ok && cst.Value != nil && cst.Value.ExactString() == `""`
			}
			okP := false
			switch {
			case isEmpty(a) && bb == str, a == str && isEmpty(bb):
				okP = true
			default:
				s1, ok1 := a.(*ssa.Slice)
				s2, ok2 := bb.(*ssa.Slice)
				if ok1 && ok2 && s1.X == str && s2.X == str && s1.Low == nil && s2.High == nil && s1.High != nil && s2.Low != nil {
					okP = x.path(s1.High) == x.path(s2.Low) && x.path(s1.High) != ""
					// the cut point index+1 lies in [0, len(str)]: index >= -1 and index < len(str)
					fs := edgeFacts(x, fn, alt.blk)
					lower := hasFact(fs, "index", ">=", "0") || hasFact(fs, "index", ">", "-1") || hasFact(fs, "index", ">=", "-1")
					isLen := func(v ssa.Value) bool { return x.path(v) == "len(str)" }
					idxP := paramByName(fn, "index")
					upper := guardedBy(fn, alt.blk, func(cd path.Cond, truth bool) bool {
						if idxP == nil || cd.X != ssa.Value(idxP) {
							return false
						}
						rel := normCmp(cd.Op, truth)
						if rel != "<" && rel != "<=" {
							return false
						}
						for n := int64(0); n <= 6; n++ {
							v, ok, used := evalLenExpr(cd.Y, isLen, n)
							if !ok || !used {
								return false
							}
							if (rel == "<=" && v > n-1) || (rel == "<" && v > n) {
								return false
							}
						}
						return true
					})
					_ = fs
					c.ob("PT3", "gogu.SplitAtIndex", "cut point inside the string", p.InstrPos(rt), lower && upper, "str[:index+1] / str[index+1:] is reached on a path where index is not known to lie in [0, len(str)-1]: a negative or too large index panics instead of yielding (\"\", str) or (str, \"\")")
				}
			}
			c.ob("PV3", "gogu.SplitAtIndex", "parts are complementary cuts of the input", p.InstrPos(rt), okP, "the two parts must be (\"\", str), (str, \"\") or str[:x] and str[x:] with the same x: otherwise their concatenation is not the input")
		}
	}

	// ---------------- Unwrap
	if fn := c.fn("gogu.Unwrap"); fn != nil {
		x := newPathCtx(p)
		str := ssa.Value(fn.Params[0])
		tok := ssa.Value(paramByName(fn, "token"))
		nCut := 0
		for _, in := range path.Instrs(fn) {
			sl, ok := in.(*ssa.Slice)
			if !ok || sl.X != str {
				continue
			}
			nCut++
			lo, hi := "", ""
			if sl.Low != nil {
				lo = x.path(sl.Low)
			}
			if sl.High != nil {
				hi = x.path(sl.High)
			}
			c.ob("AG6", "gogu.Unwrap", "cut removes one token from each end", p.InstrPos(sl), lo == "len(token)" && hi == "(len(str)-len(token))", fmt.Sprintf("the unwrapped string is str[%s:%s], expected str[len(token):len(str)-len(token)]", lo, hi))
			pre := boolGuard(fn, sl.Block(), func(v ssa.Value) bool {
				call, ok := isStdCall(v, "strings", "HasPrefix")
				return ok && path.Strip(call.Call.Args[0]) == str && call.Call.Args[1] == tok
			}, true)
			suf := boolGuard(fn, sl.Block(), func(v ssa.Value) bool {
				call, ok := isStdCall(v, "strings", "HasSuffix")
				return ok && path.Strip(call.Call.Args[0]) == str && call.Call.Args[1] == tok
			}, true)
			fs := edgeFacts(x, fn, sl.Block())
			room := hasFact(fs, "len(str)", ">=", "(2*len(token))") || hasFact(fs, "len(str)", ">=", "(len(token)*2)") || hasFact(fs, "len(str)", ">=", "(len(token)+len(token))")
			c.ob("PT3", "gogu.Unwrap", "cut only when the string starts and ends with the token", p.InstrPos(sl), pre && suf, "the cut is not dominated by HasPrefix(str, token) and HasSuffix(str, token): strings that are not wrapped by the token are altered")
			c.ob("PT3", "gogu.Unwrap", "cut only when both tokens fit", p.InstrPos(sl), room, "the cut is not dominated by len(str) >= 2*len(token): the two tokens may overlap and the slice bounds cross (panic)")
		}
		c.ob("AG6", "gogu.Unwrap", "one cut", c.fpos(fn), nCut == 1, "Unwrap must cut the string at exactly one site")
		for _, alt := range returnAlternatives(fn, 0) {
			rt := alt.ret
			okR := true
			for _, o := range path.Origins(rt.Results[0]) {
				if o == str {
					continue
				}
				if sl, ok := o.(*ssa.Slice); ok && sl.X == str {
					continue
				}
				okR = false
			}
			c.ob("PV1", "gogu.Unwrap", "result is the input or the cut", p.InstrPos(rt), okR, "Unwrap must return either the input unchanged or the cut")
		}
	}

	checkSubstr(c, c.r.Tier == "thorough")
	// (the former PT3 rule "the final slice is dominated by InRange(offset, 0, len) and
	// InRange(end, 0, len)" is subsumed by the table: an out-of-range slice bound is a
	// panic outcome there, and the table does not care how the range tests are spelt)
}

// sameValueOrigins: a and b denote the same value (same SSA value, or phis with
// identical origin sets).
func sameValueOrigins(a, b ssa.Value) bool {
	if a == b {
		return true
	}
	oa, ob := path.Origins(a), path.Origins(b)
	if len(oa) != len(ob) {
		return false
	}
	set := map[ssa.Value]bool{}
	for _, o := range oa {
		set[o] = true
	}
	for _, o := range ob {
		if !set[o] {
			return false
		}
	}
	return true
}

// canReachBlockWithout: some path from the start of `from` reaches block `to`
// without executing an instruction satisfying via.
func canReachBlockWithout(from, to *ssa.BasicBlock, via func(ssa.Instruction) bool) bool {
	seen := map[*ssa.BasicBlock]bool{}
	var rec func(b *ssa.BasicBlock) bool
	rec = func(b *ssa.BasicBlock) bool {
		if b == to {
			return true
		}
		if seen[b] {
			return false
		}
		seen[b] = true
		for _, in := range b.Instrs {
			if via(in) {
				return false
			}
		}
		for _, s := range b.Succs {
			if rec(s) {
				return true
			}
		}
		return false
	}
	return rec(from)
}

// swapOnly: every store into elements of buf is one half of a crossed pair
// buf[i] = old buf[j], buf[j] = old buf[i]; returns the number of element stores.
func swapOnly(fn *ssa.Function, buf ssa.Value) (bool, int) {
	type st struct {
		idx  ssa.Value
		from ssa.Value // index the stored value was loaded from
	}
	var sts []st
	for _, in := range path.Instrs(fn) {
		s, ok := in.(*ssa.Store)
		if !ok {
			continue
		}
		ia, ok := s.Addr.(*ssa.IndexAddr)
		if !ok || ia.X != buf {
			continue
		}
		var from ssa.Value
		if u, ok := s.Val.(*ssa.UnOp); ok && u.Op == token.MUL {
			if ib, ok := u.X.(*ssa.IndexAddr); ok && ib.X == buf {
				from = ib.Index
			}
		}
		sts = append(sts, st{ia.Index, from})
	}
	if len(sts) == 0 || len(sts)%2 != 0 {
		return false, len(sts)
	}
	for i := 0; i < len(sts); i += 2 {
		a, b := sts[i], sts[i+1]
		if a.from == nil || b.from == nil || a.idx != b.from || b.idx != a.from || a.idx == b.idx {
			return false, len(sts)
		}
	}
	return true, len(sts)
}

func phiStep(ph *ssa.Phi) int {
	for _, e := range ph.Edges {
		if bo, ok := e.(*ssa.BinOp); ok && bo.X == ssa.Value(ph) {
			if k, ok := path.IntConst(bo.Y); ok && k == 1 {
				if bo.Op == token.ADD {
					return +1
				}
				if bo.Op == token.SUB {
					return -1
				}
			}
		}
	}
	return 0
}

func phiInit(ph *ssa.Phi) ssa.Value {
	for _, e := range ph.Edges {
		if bo, ok := e.(*ssa.BinOp); ok && bo.X == ssa.Value(ph) {
			continue
		}
		return e
	}
	return nil
}

// flattenConcat lists the operands of a left-nested string concatenation.
func flattenConcat(v ssa.Value) []ssa.Value {
	v = path.Strip(v)
	if bo, ok := v.(*ssa.BinOp); ok && bo.Op == token.ADD {
		if b, ok := bo.Type().Underlying().(*types.Basic); (ok && b.Info()&types.IsString != 0) || isTypeParam(bo.Type()) {
			return append(flattenConcat(bo.X), flattenConcat(bo.Y)...)
		}
	}
	return []ssa.Value{v}
}

func isTypeParam(t types.Type) bool {
	_, ok := t.(*types.TypeParam)
	return ok
}

// sliceLiteral recognises []T{a, b, ...}: a full slice of a fresh array whose
// cells are each stored exactly once.
func sliceLiteral(v ssa.Value) ([]ssa.Value, bool) {
	sl, ok := v.(*ssa.Slice)
	if !ok || sl.Low != nil || sl.High != nil {
		return nil, false
	}
	al, ok := sl.X.(*ssa.Alloc)
	if !ok {
		return nil, false
	}
	pt, ok := al.Type().Underlying().(*types.Pointer)
	if !ok {
		return nil, false
	}
	arr, ok := pt.Elem().Underlying().(*types.Array)
	if !ok {
		return nil, false
	}
	out := make([]ssa.Value, arr.Len())
	for _, r := range *al.Referrers() {
		ia, ok := r.(*ssa.IndexAddr)
		if !ok {
			continue
		}
		k, ok := path.IntConst(ia.Index)
		if !ok || k < 0 || k >= arr.Len() {
			return nil, false
		}
		for _, rr := range *ia.Referrers() {
			if st, ok := rr.(*ssa.Store); ok && st.Addr == ssa.Value(ia) {
				if out[k] != nil {
					return nil, false
				}
				out[k] = st.Val
			}
		}
	}
	for _, o := range out {
		if o == nil {
			return nil, false
		}
	}
	return out, true
}

// checkReverseStr: the rules about ReverseStr (shared by C12 and C15).
func checkReverseStr(c rc) {
	p := c.p
	// ---------------- ReverseStr
	if fn := c.fn("gogu.ReverseStr"); fn != nil {
		var buf ssa.Value
		for _, in := range path.Instrs(fn) {
			if cv, ok := in.(*ssa.Convert); ok && cv.X == ssa.Value(fn.Params[0]) {
				if sl, ok := cv.Type().Underlying().(*types.Slice); ok {
					okRune := types.Identical(sl.Elem(), types.Typ[types.Rune])
					c.ob("PV4", "gogu.ReverseStr", "reverses runes, not bytes", p.InstrPos(cv), okRune, "the string must be converted to []rune before reversing; reversing bytes tears multi-byte characters apart")
					buf = cv
				}
			}
		}
		c.ob("PV4", "gogu.ReverseStr", "rune buffer", c.fpos(fn), buf != nil, "no conversion of the argument to a rune slice found")
		if buf != nil {
			okSwap, nSt := swapOnly(fn, buf)
			c.ob("PV4", "gogu.ReverseStr", "only transpositions", c.fpos(fn), okSwap && nSt == 2, "the only stores into the buffer must be the two crossed stores of a swap res[i], res[j] = res[j], res[i]")
			// two-pointer loop: i from 0 up, j from len-1 down, while i < j
			okLoop := false
			for _, b := range fn.Blocks {
				iff := path.BlockIf(b)
				if iff == nil {
					continue
				}
				cd, ok := path.CondOf(iff)
				if !ok || cd.Op != token.LSS || cd.Neg {
					continue
				}
				pi, ok1 := cd.X.(*ssa.Phi)
				pj, ok2 := cd.Y.(*ssa.Phi)
				if ok1 && ok2 && phiStep(pi) == +1 && phiStep(pj) == -1 {
					x := newPathCtx(p)
					if k, ok := path.IntConst(phiInit(pi)); ok && k == 0 && x.path(phiInit(pj)) == "(len(conv(str))-1)" {
						okLoop = true
					}
				}
			}
			c.ob("PV4", "gogu.ReverseStr", "two-pointer walk over the whole buffer", c.fpos(fn), okLoop, "the swap loop must run i from 0 upward and j from len-1 downward while i < j")
			for _, b := range fn.Blocks {
				rt, ok := b.Instrs[len(b.Instrs)-1].(*ssa.Return)
				if !ok {
					continue
				}
				cv, ok := rt.Results[0].(*ssa.Convert)
				c.ob("PV1", "gogu.ReverseStr", "returns the reversed buffer", p.InstrPos(rt), ok && cv.X == buf, "the result must be T(res) of the reversed rune buffer")
			}
		}
	}

}
