package props

import (
	"fmt"
	"go/types"
	"strings"

	"golang.org/x/tools/go/ssa"

	"gogucheck/core"
	"gogucheck/owner"
	"gogucheck/path"
)

// c16Files are the anchor files of C16; heap.FromSlice and heap.Sort are added by name.
var c16Files = []string{"slice.go", "filter.go", "map.go", "shuffle.go", "string.go", "find.go"}

// inPlace is the frozen table of helpers whose contract is in-place (taken from
// the property statement): function -> index of the one argument they may modify
// and hand back.
var inPlace = map[string]int{
	"gogu.Reverse": 0, "gogu.Reject": 0, "gogu.Omit": 0, "gogu.OmitBy": 0, "heap.FromSlice": 0, "heap.Sort": 0,
}

// views is the frozen table of helpers that return re-slices of their argument
// without ever writing it (documented: "Drop creates a new slice with n elements
// dropped", "Chunk split the slice into groups of slices").
var views = map[string]int{"gogu.Drop": 0, "gogu.Chunk": 0}

func hasContainer(sig *types.Signature) bool {
	isC := func(t types.Type) bool {
		if _, ok := t.(*types.TypeParam); ok {
			return false
		}
		switch t.Underlying().(type) {
		case *types.Slice, *types.Map, *types.Array, *types.Interface, *types.Pointer:
			return true
		}
		return false
	}
	for i := 0; i < sig.Params().Len(); i++ {
		if isC(sig.Params().At(i).Type()) {
			return true
		}
	}
	for i := 0; i < sig.Results().Len(); i++ {
		if isC(sig.Results().At(i).Type()) {
			return true
		}
	}
	return false
}

func c16Scope(p *core.Program) []*ssa.Function {
	var out []*ssa.Function
	for _, fn := range p.FuncsInFiles(c16Files...) {
		if core.ExportedAPI(fn) && len(fn.Blocks) > 0 {
			out = append(out, fn)
		}
	}
	for _, n := range []string{"heap.FromSlice", "heap.Sort"} {
		if fn := p.Func(n); fn != nil {
			out = append(out, fn)
		}
	}
	return out
}

func paramName(fn *ssa.Function, i int) string {
	if i < len(fn.Params) {
		return fn.Params[i].Name()
	}
	return fmt.Sprintf("#%d", i)
}

// sliceParamOrigin: the slice-typed parameter v is a re-slice of (through re-slicing,
// appends onto it and merges), or nil.
func sliceParamOrigin(v ssa.Value) *ssa.Parameter {
	seen := map[ssa.Value]bool{}
	var found *ssa.Parameter
	var walk func(x ssa.Value)
	walk = func(x ssa.Value) {
		if x == nil || seen[x] || found != nil {
			return
		}
		seen[x] = true
		switch y := x.(type) {
		case *ssa.Parameter:
			if _, ok := y.Type().Underlying().(*types.Slice); ok {
				found = y
			}
		case *ssa.Slice:
			walk(y.X)
		case *ssa.Phi:
			for _, e := range y.Edges {
				walk(e)
			}
		case *ssa.Call:
			if b, ok := y.Call.Value.(*ssa.Builtin); ok && b.Name() == "append" {
				walk(y.Call.Args[0])
			}
		case *ssa.ChangeType:
			walk(y.X)
		case *ssa.UnOp:
			if al, ok := y.X.(*ssa.Alloc); ok {
				for _, rf := range *al.Referrers() {
					if st, ok := rf.(*ssa.Store); ok && st.Addr == ssa.Value(al) {
						walk(st.Val)
					}
				}
			}
		}
	}
	walk(v)
	return found
}

// sliceWrittenOrReturned: the slice value is stored into, copied into, appended to,
// handed to a call or returned.
func sliceWrittenOrReturned(sl ssa.Value) bool {
	seen := map[ssa.Value]bool{}
	var used func(v ssa.Value) bool
	used = func(v ssa.Value) bool {
		if seen[v] {
			return false
		}
		seen[v] = true
		for _, rf := range *v.Referrers() {
			switch u := rf.(type) {
			case *ssa.IndexAddr:
				for _, r2 := range *u.Referrers() {
					if st, ok := r2.(*ssa.Store); ok && st.Addr == ssa.Value(u) {
						return true
					}
				}
			case *ssa.Return:
				return true
			case *ssa.Call:
				if b, ok := u.Call.Value.(*ssa.Builtin); ok && (b.Name() == "len" || b.Name() == "cap") {
					continue
				}
				return true
			case *ssa.Store:
				if u.Val == v {
					return true
				}
			case *ssa.Phi:
				if used(u) {
					return true
				}
			case *ssa.Slice:
				if used(u) {
					return true
				}
			}
		}
		return false
	}
	return used(sl)
}

func init() {
	register(&Check{
		ID: "C16",
		Explanation: "Ownership/effect analysis (engine E2) of every exported helper of slice.go, filter.go, map.go, shuffle.go, string.go, find.go plus heap.FromSlice/heap.Sort: reference values carry tags " +
			"(storage of parameter i, reference loaded out of parameter i, fresh storage); summaries of in-module callees are instantiated at call sites, closures are analysed inline. " +
			"OW1: no store, map update/delete, copy, sort or append reaches storage of a parameter (append onto a parameter counts as a write: it may fill the caller's spare capacity) - except in the " +
			"frozen in-place table and the recognised no-op range self-store; OW2: every returned container, and every container stored inside a returned fresh container, is fresh storage (views Drop/Chunk excepted, " +
			"and they must not write); OW3: in-place helpers write only their one designated argument; OW4: no helper re-slices an argument up to its capacity and writes or returns that part (the spare capacity behind an argument is the caller's); GS1/GS2: the helpers keep no mutable package-level state (pools, shared buffers) and start no goroutines. Strings are immutable, so string helpers are discharged by type. Together these imply the statement structurally; " +
			"mutation by user callbacks and element-level sharing are not decided.",
		Assumptions: []string{"go/ssa faithful to the source", "append/copy/re-slice semantics of Go", "closed table of external callees (strings, regexp, unicode, fmt, errors, math, reflect, strconv, math/rand, time: read-only; sort.*: writes its first argument)",
			"user callbacks do not mutate the arguments"},
		NotDecided: []string{"mutation performed by user callbacks", "aliasing between elements (a []*T result shares the pointed-to elements by design)", "views (Drop, Chunk) change when their argument is later modified in place"},
		Run: func(p *core.Program, r *core.Report) {
			scope := c16Scope(p)
			eng := owner.New(p)
			sums := eng.Summaries(scope)
			analysed := 0
			for _, fn := range scope {
				name := p.FuncName(fn)
				r.EntryPoints[name] = true
				r.Functions[name] = true
				sum := sums[fn]
				if sum == nil {
					r.Fatal("no summary for %s", name)
					continue
				}
				if !hasContainer(fn.Signature) {
					r.Obligation("OW0", true, nil)
					continue
				}
				analysed++
				ip, isInPlace := inPlace[name]
				_, isView := views[name]
				// OW1 / OW3
				okW := true
				for _, w := range sum.Writes {
					if w.SelfStore {
						r.Info("OW1 %s: recognised no-op range self-store m[k] = v at %s", name, p.InstrPos(w.Instr))
						continue
					}
					if isInPlace && w.Param == ip {
						continue
					}
					okW = false
					rule := "OW1"
					reason := fmt.Sprintf("%s reaches storage of argument %q (depth %d)", w.What, paramName(fn, w.Param), w.Depth)
					if isInPlace {
						rule = "OW3"
						reason = fmt.Sprintf("in-place helper also writes argument %q: %s", paramName(fn, w.Param), w.What)
					}
					var path []string
					if len(w.Via) > 0 {
						path = append([]string{name}, w.Via...)
					}
					r.Violation(core.Diag{Rule: rule, Func: name, Object: "write arg " + paramName(fn, w.Param), Pos: p.InstrPos(w.Instr), Reason: reason, Path: path})
				}
				wrule := "OW1"
				if isInPlace {
					wrule = "OW3"
				}
				r.Obligation(wrule, okW, map[string]any{"rule": wrule, "function": name, "writes_to_arguments": len(sum.Writes), "in_place": isInPlace, "ok": okW})
				// OW2
				okR := true
				report := func(t owner.Tag, inner bool) {
					if !t.IsParam() || t.Depth != 0 {
						return
					}
					if isInPlace && t.Idx == ip {
						return
					}
					if isView && t.Idx == views[name] {
						return
					}
					okR = false
					what := "the returned container"
					if inner {
						what = "a container stored inside the result"
					}
					r.Violation(core.Diag{Rule: "OW2", Func: name, Object: "result aliases arg " + paramName(fn, t.Idx), Pos: p.Pos(fn.Pos()),
						Reason: what + " is (or may be) the storage of argument " + paramName(fn, t.Idx) + ", not fresh storage: a later call on the same argument can alter this result"})
				}
				for t := range sum.Ret {
					report(t, false)
				}
				for t := range sum.RetInner {
					report(t, true)
				}
				r.Obligation("OW2", okR, map[string]any{"rule": "OW2", "function": name, "result_tags": sum.Ret.String(), "inner_tags": sum.RetInner.String(), "view": isView, "ok": okR})
				for _, u := range sum.Undecided {
					r.Undecided(core.Diag{Rule: "OW0", Func: name, Object: "external " + strings.Fields(u)[2], Pos: p.Pos(fn.Pos()), Reason: u})
				}
			}
			// OW4: no helper re-slices an argument beyond its length (s[len(s):cap(s)],
			// s[:cap(s)]) and writes or returns that part: the spare capacity behind an
			// argument belongs to the caller (the argument may be a prefix of a longer slice)
			for _, fn := range scope {
				var all []*ssa.Function
				var addf func(f *ssa.Function)
				addf = func(f *ssa.Function) {
					all = append(all, f)
					for _, a := range f.AnonFuncs {
						addf(a)
					}
				}
				addf(fn)
				for _, f := range all {
					for _, in := range path.Instrs(f) {
						sl, ok := in.(*ssa.Slice)
						if !ok || sl.High == nil {
							continue
						}
						hc, ok := sl.High.(*ssa.Call)
						if !ok {
							continue
						}
						if b, ok := hc.Call.Value.(*ssa.Builtin); !ok || b.Name() != "cap" {
							continue
						}
						if prm := sliceParamOrigin(sl.X); prm != nil && sliceParamOrigin(hc.Call.Args[0]) == prm {
							used := sliceWrittenOrReturned(sl)
							r.Obligation("OW4", !used, map[string]any{"rule": "OW4", "function": p.FuncName(fn), "at": p.InstrPos(sl), "ok": !used})
							if used {
								r.Violation(core.Diag{Rule: "OW4", Func: p.FuncName(fn), Object: "spare capacity of arg " + prm.Name(), Pos: p.InstrPos(sl),
									Reason: "the argument is re-sliced up to its capacity and that part is written or returned: storage behind the argument's length belongs to the caller (the argument may be a prefix of a longer slice) and is not part of the one argument an in-place helper may touch"})
							}
						}
					}
				}
			}
			// GS1/GS2: no helper keeps mutable package-level state (pooled or shared
			// buffers let a later or concurrent call alter a result already handed out)
			hygiene(rc{p, r}, c16Files...)
			// the frozen tables must still name existing functions
			for n := range inPlace {
				if p.Func(n) == nil {
					r.Fatal("unresolved-anchor: in-place helper %s not found", n)
				}
			}
			for n := range views {
				if p.Func(n) == nil {
					r.Fatal("unresolved-anchor: view helper %s not found", n)
				}
			}
			r.Extra["helpers_with_container_arguments_or_results"] = analysed
			r.Floor("OW2", 60)
			if len(scope) < 85 {
				r.Fatal("vacuous: %d helper functions in scope, floor is 85", len(scope))
			}
		},
	})
}
