package props

import (
	"fmt"
	"go/token"
	"go/types"

	"golang.org/x/tools/go/ssa"

	"gogucheck/core"
	"gogucheck/path"
)

// Nth (rule BD2): the index Nth reads and whether it rejects are decided by integer
// comparisons between forms ±len ± nth + c.  The rule has two halves.
//
//  1. PREMISE, decided on the SSA form of Nth and of every module function it calls
//     (Abs, Bound.Enclose): no loops; integers are combined only by +, -, unary minus
//     and comparisons; and at every integer comparison and at the index of every
//     element read, the sum of |coefficients| of (len, nth) over both operands is at
//     most 2 and the sum of |constants| at most 2 (affNorm below, flow-insensitive over
//     local cells, callee results evaluated with the caller's argument norms).
//     Under the premise every branch condition is a half-plane  a*len + b*nth <= c
//     with a, b in {-2..2}, |a|+|b| <= 2, |c| <= 2, on each of the two half-planes
//     nth >= 0 / nth < 0 that Abs distinguishes, and the index read is such a form too.
//
//  2. TABLE: the SSA is followed (miniEval: integers, booleans, local structs, nil /
//     non-nil errors, reads of the slice argument; anything else is undecided) for
//     every (len, nth) in [0,8] x [-11,11] and compared with the definition: s[nth]
//     for 0 <= nth < len, s[len+nth] for -len <= nth < 0, otherwise a non-nil error;
//     an index outside [0,len) anywhere is a panic and a violation.
//
// Why the box suffices. The definition is piecewise affine over the lines nth = 0,
// nth = len, nth = -len; the implementation over the lines it compares along. A first
// pass over the base box records those lines exactly (the affine form of both operands
// of every integer comparison and of every index, tracked symbolically along the
// executed path), and boxNeeded (mini.go) computes from them and from the statement's
// lines the largest vertex coordinate V of the arrangement and the largest entry G of a
// primitive direction vector of its lines; the table covers at least V + 2G + 2 in
// every coordinate. Every face of the arrangement that contains an integer point then
// contains, inside the box, a point next to one of its vertices plus a step along each
// of its directions: enough to pin down an affine function on the face, and accept /
// reject is constant per face. So agreement on the box is agreement for every length
// and every nth - an argument with computed parameters, not a machine-checked proof,
// and up to integer overflow of len-|nth| and -nth at the extremes of int.

type affN struct {
	coef int // upper bound on the sum of |coefficients| of (len, nth)
	cmag int64
	ok   bool
}

type affCtx struct {
	p      *core.Program
	params map[*ssa.Parameter]affN
	memo   map[ssa.Value]affN
	busy   map[ssa.Value]bool
	depth  int
	fn     *ssa.Function
}

func absI(x int64) int64 {
	if x < 0 {
		return -x
	}
	return x
}

func isIntType(t types.Type) bool {
	if tp, ok := t.(*types.TypeParam); ok {
		return isIntegerConstraint(tp)
	}
	b, ok := t.Underlying().(*types.Basic)
	return ok && b.Info()&types.IsInteger != 0
}

func (a *affCtx) norm(v ssa.Value) affN {
	if n, ok := a.memo[v]; ok {
		return n
	}
	if a.busy[v] {
		return affN{ok: false}
	}
	a.busy[v] = true
	defer delete(a.busy, v)
	r := a.norm1(v)
	a.memo[v] = r
	return r
}

func maxN(x, y affN) affN {
	r := affN{ok: x.ok && y.ok, coef: x.coef, cmag: x.cmag}
	if y.coef > r.coef {
		r.coef = y.coef
	}
	if y.cmag > r.cmag {
		r.cmag = y.cmag
	}
	return r
}

func (a *affCtx) norm1(v ssa.Value) affN {
	switch x := v.(type) {
	case *ssa.Const:
		if k, ok := path.IntConst(x); ok {
			return affN{cmag: absI(k), ok: true}
		}
		return affN{ok: true}
	case *ssa.Parameter:
		if n, ok := a.params[x]; ok {
			return n
		}
		return affN{coef: 1, ok: true}
	case *ssa.Call:
		if bi, ok := x.Call.Value.(*ssa.Builtin); ok && bi.Name() == "len" {
			return affN{coef: 1, ok: true}
		}
		callee := path.StaticCallee(x)
		if callee == nil || !a.p.InModule(callee) || a.depth > 4 || len(callee.Blocks) == 0 {
			return affN{ok: false}
		}
		sub := &affCtx{p: a.p, params: map[*ssa.Parameter]affN{}, memo: map[ssa.Value]affN{}, busy: map[ssa.Value]bool{}, depth: a.depth + 1, fn: callee}
		for i, arg := range x.Call.Args {
			if i < len(callee.Params) {
				if isIntType(arg.Type()) {
					sub.params[callee.Params[i]] = a.norm(arg)
				} else if _, isStruct := arg.Type().Underlying().(*types.Struct); isStruct {
					sub.params[callee.Params[i]] = a.norm(arg)
				}
			}
		}
		out := affN{ok: true}
		for _, b := range callee.Blocks {
			if ret, ok := b.Instrs[len(b.Instrs)-1].(*ssa.Return); ok {
				for _, rv := range path.ReturnValues(ret) {
					if isIntType(rv.Type()) {
						out = maxN(out, sub.norm(rv))
					}
				}
			}
		}
		return out
	case *ssa.BinOp:
		if x.Op == token.ADD || x.Op == token.SUB {
			l, r := a.norm(x.X), a.norm(x.Y)
			return affN{coef: l.coef + r.coef, cmag: l.cmag + r.cmag, ok: l.ok && r.ok}
		}
		return affN{ok: false}
	case *ssa.UnOp:
		switch x.Op {
		case token.SUB:
			return a.norm(x.X)
		case token.MUL:
			return a.cell(x.X)
		}
		return affN{ok: false}
	case *ssa.Phi:
		out := affN{ok: true}
		for _, e := range x.Edges {
			out = maxN(out, a.norm(e))
		}
		return out
	case *ssa.Convert:
		return a.norm(x.X)
	case *ssa.ChangeType:
		return a.norm(x.X)
	case *ssa.MultiConvert:
		return a.norm(x.X)
	case *ssa.Field:
		// a field of a struct value: the largest norm of anything the struct holds
		return a.norm(x.X)
	case *ssa.Extract:
		return a.norm(x.Tuple)
	}
	return affN{ok: false}
}

// cell: the norm of what a local memory cell (or a field of one) can hold: the largest
// over every store into the cell or any of its fields (flow-insensitive).
func (a *affCtx) cell(addr ssa.Value) affN {
	var al *ssa.Alloc
	switch x := addr.(type) {
	case *ssa.Alloc:
		al = x
	case *ssa.FieldAddr:
		if base, ok := x.X.(*ssa.Alloc); ok {
			al = base
		}
	}
	if al == nil {
		return affN{ok: false}
	}
	out := affN{ok: true}
	for _, in := range path.Instrs(a.fn) {
		st, ok := in.(*ssa.Store)
		if !ok {
			continue
		}
		hit := st.Addr == ssa.Value(al)
		if fa, ok := st.Addr.(*ssa.FieldAddr); ok && fa.X == ssa.Value(al) {
			hit = true
		}
		if hit {
			if isIntType(st.Val.Type()) {
				out = maxN(out, a.norm(st.Val))
			} else if _, isStruct := st.Val.Type().Underlying().(*types.Struct); isStruct {
				out = maxN(out, a.norm(st.Val))
			}
		}
	}
	return out
}

// affinePremise checks half 1 for fn and everything it calls inside the module.
func affinePremise(p *core.Program, fn *ssa.Function, params map[*ssa.Parameter]affN, depth int, maxK int, maxC int64) (bool, string) {
	if depth > 4 {
		return false, "call depth"
	}
	for _, b := range fn.Blocks {
		if path.InCycle(b) {
			return false, fn.Name() + " contains a loop"
		}
	}
	a := &affCtx{p: p, params: params, memo: map[ssa.Value]affN{}, busy: map[ssa.Value]bool{}, depth: depth, fn: fn}
	for _, in := range path.Instrs(fn) {
		switch x := in.(type) {
		case *ssa.BinOp:
			if !isIntType(x.X.Type()) {
				continue
			}
			switch x.Op {
			case token.ADD, token.SUB:
			case token.LSS, token.LEQ, token.GTR, token.GEQ, token.EQL, token.NEQ:
				l, r := a.norm(x.X), a.norm(x.Y)
				if !l.ok || !r.ok {
					return false, fmt.Sprintf("%s compares an integer the rule cannot express as ±len ± nth + c", fn.Name())
				}
				if l.coef+r.coef > maxK || l.cmag+r.cmag > maxC {
					return false, fmt.Sprintf("%s compares forms with coefficient sum %d and constant sum %d (at most %d and %d are covered by the table's box)", fn.Name(), l.coef+r.coef, l.cmag+r.cmag, maxK, maxC)
				}
			default:
				return false, fmt.Sprintf("%s uses the integer operator %s", fn.Name(), x.Op)
			}
		case *ssa.IndexAddr:
			if _, isSlice := x.X.Type().Underlying().(*types.Slice); !isSlice {
				continue
			}
			n := a.norm(x.Index)
			if !n.ok || n.coef > maxK || n.cmag > maxC {
				return false, fmt.Sprintf("%s indexes with a form outside ±len ± nth + c", fn.Name())
			}
		case *ssa.Slice:
			for _, bnd := range []ssa.Value{x.Low, x.High} {
				if bnd == nil {
					continue
				}
				n := a.norm(bnd)
				if !n.ok || n.coef > maxK || n.cmag > maxC {
					return false, fmt.Sprintf("%s slices with a bound outside the affine forms the table covers", fn.Name())
				}
			}
		case *ssa.Call:
			callee := path.StaticCallee(x)
			if callee == nil || !p.InModule(callee) || len(callee.Blocks) == 0 {
				continue
			}
			sub := map[*ssa.Parameter]affN{}
			for i, arg := range x.Call.Args {
				if i < len(callee.Params) {
					if isIntType(arg.Type()) {
						sub[callee.Params[i]] = a.norm(arg)
					} else if _, isStruct := arg.Type().Underlying().(*types.Struct); isStruct {
						sub[callee.Params[i]] = a.norm(arg)
					}
				}
			}
			if ok, why := affinePremise(p, callee, sub, depth+1, maxK, maxC); !ok {
				return false, why
			}
		}
	}
	return true, ""
}

func nthRegion(L, n int64) string {
	pre := "non-empty slice, "
	if L == 0 {
		pre = "empty slice, "
	}
	switch {
	case n == 0:
		return pre + "index 0"
	case n == -1:
		return pre + "index -1"
	case n == L-1:
		return pre + "index len-1"
	case n == -L:
		return pre + "index -len"
	case n == L:
		return pre + "index len"
	case n == -L-1:
		return pre + "index -len-1"
	case n > L:
		return pre + "index above len"
	case n < -L-1:
		return pre + "index below -len-1"
	case n > 0:
		return pre + "index between 0 and len-1"
	}
	return pre + "index between -len and -1"
}

func checkNth(c rc) {
	p := c.p
	name := "gogu.Nth"
	fn := c.fn(name)
	if fn == nil {
		return
	}
	if len(fn.Params) != 2 {
		c.und("BD2", name, "index table", c.fpos(fn), "Nth no longer takes (slice, nth)")
		return
	}
	sl, nth := fn.Params[0], fn.Params[1]
	if _, isSlice := sl.Type().Underlying().(*types.Slice); !isSlice || !isIntType(nth.Type()) {
		c.und("BD2", name, "index table", c.fpos(fn), "Nth no longer takes (slice, integer)")
		return
	}
	okP, why := affinePremise(p, fn, map[*ssa.Parameter]affN{nth: {coef: 1, ok: true}}, 0, 2, 2)
	c.r.Obligation("BD2", true, map[string]any{"rule": "BD2", "function": name, "object": "premise: loop-free, integers combined by + - and comparisons, forms ±len ± nth + c with small coefficients", "holds": okP})
	if !okP {
		c.und("BD2", name, "index arithmetic is piecewise affine with small coefficients", c.fpos(fn), "the table over lengths 0..8 and indices -11..11 decides Nth only when its tests and index are forms ±len ± nth + c with |coefficients| and |constants| summing to at most 2: "+why)
		return
	}
	c.r.Floor("BD2", 200)
	runAffTable(c, affTable{rule: "BD2", name: name, fn: fn, slice: sl, ints: []*ssa.Parameter{nth}, baseL: 8, baseW: 11, capL: 24, capW: 40,
		// the statement's regions: nth >= 0, nth < len, nth >= -len
		stmtPlanes: [][4]int64{{0, 1, 0, 0}, {-1, 1, 0, 0}, {1, 1, 0, 0}},
		call:       func(L int64, a []int64) string { return fmt.Sprintf("Nth(slice of length %d, %d)", L, a[0]) },
		judge: func(L int64, a []int64, out miniOut, _ []int64) (bool, string, string) {
			n := a[0]
			wantIdx := int64(-1)
			switch {
			case n >= 0 && n < L:
				wantIdx = n
			case n < 0 && -L <= n:
				wantIdx = L + n
			}
			okV := true
			reason := ""
			switch {
			case out.panics:
				okV = false
				reason = fmt.Sprintf("panics (%s); the definition wants %s", out.why, map[bool]string{true: "an error", false: fmt.Sprintf("element %d", wantIdx)}[wantIdx < 0])
			case len(out.results) != 2:
				okV = false
				reason = "does not return (value, error)"
			case wantIdx < 0:
				if out.results[1].k != mvErr {
					okV = false
					reason = "must return a non-nil error, returns " + describeMv(out.results[0]) + " with a nil error"
				}
			default:
				if out.results[1].k != mvNil {
					okV = false
					reason = fmt.Sprintf("is inside the slice and must return element %d, returns an error", wantIdx)
				} else if out.results[0].k != mvElem || out.results[0].n != wantIdx {
					okV = false
					reason = fmt.Sprintf("must return element %d, returns %s", wantIdx, describeMv(out.results[0]))
				}
			}
			return okV, reason, nthRegion(L, n)
		}})
}

func describeMv(v mv) string {
	switch v.k {
	case mvElem:
		return fmt.Sprintf("element %d", v.n)
	case mvZero:
		return "the zero value"
	case mvInt:
		return fmt.Sprintf("the integer %d", v.n)
	case mvNil:
		return "nil"
	case mvErr:
		return "an error"
	}
	return "something else"
}
