package props

import (
	"fmt"
	"go/token"
	"go/types"
	"sort"
	"strings"

	"golang.org/x/tools/go/ssa"

	"gogucheck/path"
)

// The drained state of the linked queue and stack (rules PH1/PH2, C05 and C06).
//
// PREMISE, decided on the types: list.DList embeds its head node BY VALUE
// (`type DList struct{ DoubleNode }`), so a DList always holds at least one node; its
// Shift/Pop/Clear cannot make it empty (C19 says as much: "always holds a non-empty
// sequence"). The containers built on it count their elements in `n` and can be empty
// (n == 0) while the list still holds one node - the placeholder.
//
// PH1  The insertion must not append behind the placeholder: list.Append may run only
//      where n (before the increment) is known to be positive, and where it is zero the
//      item must be stored into the head node itself (list.Value = item, or the list
//      re-initialised with InitDList(item)); exactly one of the two on every path.
//      Otherwise a drained-and-refilled (or cleared) container delivers the
//      placeholder's stale value first.
// PH2  Peek and Search may consult the list only where n is known to be positive, and
//      answer the zero value / false otherwise: the placeholder is not an element.
//
// The test of n is evaluated flow-sensitively: a load of n after the `n++` of the same
// function stands for n+1 (store-to-load forwarding within the function: the last store
// in the same block, else the only store in a dominating block).

// nOffset: v denotes (n at function entry) + off.
func nOffset(v ssa.Value, typ string) (int64, bool) {
	switch x := v.(type) {
	case *ssa.BinOp:
		k, isK := path.IntConst(x.Y)
		if !isK || (x.Op != token.ADD && x.Op != token.SUB) {
			return 0, false
		}
		o, ok := nOffset(x.X, typ)
		if !ok {
			return 0, false
		}
		if x.Op == token.SUB {
			k = -k
		}
		return o + k, true
	case *ssa.UnOp:
		if x.Op != token.MUL {
			return 0, false
		}
		fa, ok := x.X.(*ssa.FieldAddr)
		if !ok || !isFieldOf(fa, typ, "n") {
			return 0, false
		}
		isNStore := func(in ssa.Instruction) *ssa.Store {
			st, ok := in.(*ssa.Store)
			if !ok {
				return nil
			}
			f2, ok := st.Addr.(*ssa.FieldAddr)
			if !ok || !isFieldOf(f2, typ, "n") {
				return nil
			}
			return st
		}
		// the last store before the load in its own block
		var last *ssa.Store
		for _, in := range x.Block().Instrs {
			if in == ssa.Instruction(x) {
				break
			}
			if st := isNStore(in); st != nil {
				last = st
			}
		}
		if last == nil {
			// stores that can precede the load: in another block from which the load's
			// block is reachable (a store later in the load's own block cannot, outside a loop)
			var before []*ssa.Store
			for _, in := range path.Instrs(x.Parent()) {
				st := isNStore(in)
				if st == nil {
					continue
				}
				if st.Block() == x.Block() {
					if path.InCycle(x.Block()) {
						return 0, false
					}
					continue
				}
				if reachableFrom(st.Block(), x.Block()) {
					before = append(before, st)
				}
			}
			if len(before) == 0 {
				return 0, true
			}
			if len(before) == 1 && before[0].Block().Dominates(x.Block()) {
				last = before[0]
			} else {
				return 0, false
			}
		}
		if _, isLoad := last.Val.(*ssa.UnOp); isLoad {
			return 0, false
		}
		return nOffset(last.Val, typ)
	}
	return 0, false
}

// nGuard evaluates the tests of n that guard block b for n-at-entry = 0, 1, 2, 3.
// found=false: no test of n guards b.
func nGuard(fn *ssa.Function, b *ssa.BasicBlock, typ string) (at [4]bool, found bool) {
	return nGuardOf(path.Guards(fn, b), typ)
}

// nGuardEdge: the same for control entering block to from its predecessor from (the
// guards of from plus the outcome of from's own branch).
func nGuardEdge(fn *ssa.Function, from, to *ssa.BasicBlock, typ string) (at [4]bool, found bool) {
	gs := append([]path.Guard(nil), path.Guards(fn, from)...)
	if iff := path.BlockIf(from); iff != nil && len(from.Succs) == 2 && from.Succs[0] != from.Succs[1] {
		idx := 0
		if from.Succs[1] == to {
			idx = 1
		}
		gs = append(gs, path.Guard{If: iff, Idx: idx})
	}
	return nGuardOf(gs, typ)
}

func nGuardOf(gs []path.Guard, typ string) (at [4]bool, found bool) {
	at = [4]bool{true, true, true, true}
	for _, g := range gs {
		cd, ok := path.CondOf(g.If)
		if !ok {
			continue
		}
		truth := g.Idx == 0
		if cd.Neg {
			truth = !truth
		}
		var off, k int64
		op := cd.Op
		if o, ok := nOffset(cd.X, typ); ok {
			kk, isK := path.IntConst(cd.Y)
			if !isK {
				continue
			}
			off, k = o, kk
		} else if o, ok := nOffset(cd.Y, typ); ok {
			kk, isK := path.IntConst(cd.X)
			if !isK {
				continue
			}
			off, k = o, kk
			switch op { // k op n+off  ==  n+off op' k
			case token.LSS:
				op = token.GTR
			case token.LEQ:
				op = token.GEQ
			case token.GTR:
				op = token.LSS
			case token.GEQ:
				op = token.LEQ
			}
		} else {
			continue
		}
		found = true
		for n := int64(0); n < 4; n++ {
			v := n + off
			var r bool
			switch op {
			case token.EQL:
				r = v == k
			case token.NEQ:
				r = v != k
			case token.LSS:
				r = v < k
			case token.LEQ:
				r = v <= k
			case token.GTR:
				r = v > k
			case token.GEQ:
				r = v >= k
			default:
				continue
			}
			if r != truth {
				at[n] = false
			}
		}
	}
	return at, found
}

func onlyPositive(at [4]bool) bool { return !at[0] && at[1] && at[2] && at[3] }
func onlyZero(at [4]bool) bool     { return at[0] && !at[1] && !at[2] && !at[3] }

// dlistByValue: the premise - DList's head node is embedded by value.
func dlistByValue(c rc) (holds bool, known bool) {
	fn := c.helper("list.(*DList).Append")
	if fn == nil || fn.Signature.Recv() == nil {
		return false, false
	}
	n := namedOf(fn.Signature.Recv().Type())
	if n == nil {
		return false, false
	}
	st, ok := n.Underlying().(*types.Struct)
	if !ok {
		return false, false
	}
	for i := 0; i < st.NumFields(); i++ {
		f := st.Field(i)
		if fn := namedOf(f.Type()); fn != nil {
			if _, isPtr := f.Type().(*types.Pointer); !isPtr {
				if _, isStruct := fn.Underlying().(*types.Struct); isStruct && hasField(fn, "next") {
					return true, true
				}
			}
		}
	}
	return false, true
}

func hasField(n *types.Named, name string) bool {
	st, ok := n.Underlying().(*types.Struct)
	if !ok {
		return false
	}
	for i := 0; i < st.NumFields(); i++ {
		if st.Field(i).Name() == name {
			return true
		}
	}
	return false
}

// headValueStore: st stores v into the Value of the head node of the receiver's list
// (recv.list.Value = v), or re-initialises the list with InitDList(v).
func headValueStore(st *ssa.Store, typ string, v ssa.Value) bool {
	if fa, ok := st.Addr.(*ssa.FieldAddr); ok {
		if fieldName(fa.X.Type(), fa.Field) == "Value" && st.Val == v {
			base := fa.X
			for {
				if f2, ok := base.(*ssa.FieldAddr); ok {
					base = f2.X
					continue
				}
				break
			}
			return isLoadOfField(base, typ, "list")
		}
		if isFieldOf(fa, typ, "list") {
			if call, ok := st.Val.(*ssa.Call); ok {
				if cal := path.StaticCallee(call); cal != nil && cal.Name() == "InitDList" && len(call.Call.Args) == 1 && call.Call.Args[0] == v {
					return true
				}
			}
		}
	}
	return false
}

// checkDrainedInsert: PH1 on the insertion fn (Enqueue / Push); app is its Append call.
func checkDrainedInsert(c rc, fn *ssa.Function, typ string, apps []ssa.CallInstruction) {
	p := c.p
	fname := p.FuncName(fn)
	item := ssa.Value(paramByName(fn, "item"))
	if item == nil && len(fn.Params) == 2 {
		item = fn.Params[1]
	}
	var heads []*ssa.Store
	for _, in := range path.Instrs(fn) {
		if st, ok := in.(*ssa.Store); ok && headValueStore(st, typ, item) {
			heads = append(heads, st)
		}
	}
	for _, app := range apps {
		at, found := nGuard(fn, app.Block(), typ)
		why := "list.Append runs whatever n is"
		if found {
			why = fmt.Sprintf("the test of n in front of list.Append lets it run for n = %s before the insertion", describeAt(at))
		}
		c.ob("PH1", fname, "no Append behind the placeholder node", p.InstrPos(app), found && onlyPositive(at),
			why+": list.DList keeps one node when the container is drained or cleared, so the first item inserted afterwards lands behind that stale node and the next removal hands out the stale value (NewLinked(1); remove; insert 5; remove yields the zero value, not 5)")
	}
	okH := len(heads) >= 1
	for _, st := range heads {
		at, found := nGuard(fn, st.Block(), typ)
		if !found || !onlyZero(at) {
			okH = false
		}
	}
	pos := c.fpos(fn)
	if len(heads) > 0 {
		pos = p.InstrPos(heads[0])
	}
	c.ob("PH1", fname, "the drained container's node takes the item", pos, okH, "where n is zero before the insertion the item must be stored into the list's own head node (list.Value = item, or the list re-initialised with it), and only there")
	// exactly one of the two on every path
	isPut := func(in ssa.Instruction) bool {
		for _, a := range apps {
			if in == ssa.Instruction(a) {
				return true
			}
		}
		for _, h := range heads {
			if in == ssa.Instruction(h) {
				return true
			}
		}
		return false
	}
	c.ob("PH1", fname, "the item is stored exactly once", c.fpos(fn), path.MaxCount(fn, isPut) == 1 && path.MinCount(fn, isPut) == 1, "every path through the insertion must either append the item or store it into the placeholder node, exactly once")
}

func describeAt(at [4]bool) string {
	s := ""
	for i, b := range at {
		if b {
			if s != "" {
				s += ", "
			}
			if i == 3 {
				s += "3 and more"
			} else {
				s += fmt.Sprint(i)
			}
		}
	}
	if s == "" {
		return "no value"
	}
	return s
}

// checkDrainedObserver: PH2 - the list call of Peek / Search is guarded by n > 0.
func checkDrainedObserver(c rc, fn *ssa.Function, typ string, call ssa.Instruction, what string) {
	p := c.p
	at, found := nGuard(fn, call.Block(), typ)
	why := "the list is consulted whatever n is"
	if found {
		why = fmt.Sprintf("the test of n lets the list be consulted for n = %s", describeAt(at))
	}
	c.ob("PH2", p.FuncName(fn), what+" consults the list only when n > 0", p.InstrPos(call), found && onlyPositive(at),
		why+": an empty container's list still holds one node (stale after Clear or after the stack's last Pop, zeroed after the queue's last Dequeue), which is not an element")
}

// RS2 (C06): which node list.(*DList).Pop hands back. The linked stack returns the
// value of that node, so (a) on the path that unlinks the last node (`x.next = nil`)
// the node handed back must be the one unlinked - a copy `*x.next` taken in the same
// block before the unlink, or the pointer x.next itself - and (b) on the single-node
// path (head.next == nil), where nothing can be unlinked, the node handed back must be
// (a copy of) the head, unless the stack's own Pop treats n == 1 itself.
func checkDListPop(c rc, pop, stackPop *ssa.Function, typ string) {
	p := c.p
	fname := p.FuncName(pop)
	var rets []*ssa.Return
	for _, b := range pop.Blocks {
		if r, ok := b.Instrs[len(b.Instrs)-1].(*ssa.Return); ok && b != pop.Recover {
			if len(path.ReturnValues(r)) != 1 {
				c.und("RS2", fname, "returns the node it unlinks", c.fpos(pop), "Pop no longer returns one value")
				return
			}
			rets = append(rets, r)
		}
	}
	isNext := func(v ssa.Value, base ssa.Value) bool { // v == *(&base.next)
		u, ok := v.(*ssa.UnOp)
		if !ok || u.Op != token.MUL {
			return false
		}
		fa, ok := u.X.(*ssa.FieldAddr)
		return ok && fa.X == base && fieldName(fa.X.Type(), fa.Field) == "next"
	}
	var unlinks []*ssa.Store
	for _, in := range path.Instrs(pop) {
		st, ok := in.(*ssa.Store)
		if !ok || !path.IsNil(st.Val) {
			continue
		}
		if fa, ok := st.Addr.(*ssa.FieldAddr); ok && fieldName(fa.X.Type(), fa.Field) == "next" {
			unlinks = append(unlinks, st)
		}
	}
	if len(unlinks) == 0 || len(rets) == 0 {
		c.und("RS2", fname, "returns the node it unlinks", c.fpos(pop), "no store `x.next = nil` found: Pop unlinks the last node in a way the rule does not know")
		return
	}
	reaches := func(u *ssa.Store, r *ssa.Return) bool {
		return u.Block() == r.Block() || reachableFrom(u.Block(), r.Block())
	}
	// (a) the returns behind an unlink
	for _, u := range unlinks {
		base := u.Addr.(*ssa.FieldAddr).X
		okU := false
		what := "nothing derived from the unlinked node"
		nR := 0
		for _, r := range rets {
			if !reaches(u, r) {
				continue
			}
			nR++
			rv := path.ReturnValues(r)[0]
			okR := false
			if cell, isCell := rv.(*ssa.Alloc); isCell {
				// the last store into the returned cell in the unlink's block, before the unlink
				var last *ssa.Store
				for _, in := range u.Block().Instrs {
					if in == ssa.Instruction(u) {
						break
					}
					if st, ok := in.(*ssa.Store); ok && st.Addr == ssa.Value(cell) {
						last = st
					}
				}
				if last != nil {
					if ld, ok := last.Val.(*ssa.UnOp); ok && ld.Op == token.MUL && isNext(ld.X, base) {
						okR = true
					}
				}
				if !okR {
					// what is handed back instead: which of the nodes the walk stands on are
					// copied into the returned cell (part of the finding's identity, so that a
					// different wrong answer is a different finding)
					src := map[string]bool{}
					direct := false
					edges, covered := 0, 0
					if ph, ok := base.(*ssa.Phi); ok {
						edges = len(ph.Edges)
					}
					for _, in := range path.Instrs(pop) {
						if st, ok := in.(*ssa.Store); ok && st.Addr == ssa.Value(cell) && (st.Block() == u.Block() || reachableFrom(st.Block(), u.Block())) {
							if ld, ok := st.Val.(*ssa.UnOp); ok && ld.Op == token.MUL {
								if ld.X == base {
									direct = true
								}
								if ph, ok := base.(*ssa.Phi); ok {
									for _, e := range ph.Edges {
										if e == ld.X {
											covered++
											if h, isH := e.(*ssa.FieldAddr); isH && isReceiverHead(pop, h) {
												src["before the walk"] = true
											} else {
												src["inside the walk"] = true
											}
										}
									}
								}
							}
						}
					}
					switch {
					case direct || (edges > 0 && covered >= edges):
						what = "a copy of the node before the one unlinked"
					case covered > 0:
						var names []string
						for n := range src {
							names = append(names, n)
						}
						sort.Strings(names)
						what = "a copy of the node before the one unlinked, taken " + strings.Join(names, " / ") + " only (an empty node otherwise)"
					}
				}
			} else if isNext(rv, base) {
				// the pointer itself, loaded before the unlink
				if ld := rv.(*ssa.UnOp); ld.Block() == u.Block() {
					for _, in := range u.Block().Instrs {
						if in == ssa.Instruction(ld) {
							okR = true
						}
						if in == ssa.Instruction(u) {
							break
						}
					}
				}
			}
			if okR {
				okU = true
			} else {
				okU = false
				break
			}
		}
		obj := "returns the node it unlinks"
		if !(okU && nR > 0) {
			obj += " (does: " + what + ")"
		}
		c.ob("RS2", fname, obj, p.InstrPos(u), okU && nR > 0, "Pop unlinks x.next but hands back "+what+": the linked stack's Pop returns the value below the top (NewLinked(\"foo\"); Push(\"bar\"); Pop() yields \"foo\")")
	}
	// (b) the single-node path: a return no unlink reaches
	okS := false
	for _, r := range rets {
		behind := false
		for _, u := range unlinks {
			if reaches(u, r) {
				behind = true
			}
		}
		cell, isCell := path.ReturnValues(r)[0].(*ssa.Alloc)
		if !isCell {
			continue
		}
		for _, in := range path.Instrs(pop) {
			st, ok := in.(*ssa.Store)
			if !ok || st.Addr != ssa.Value(cell) {
				continue
			}
			ld, ok := st.Val.(*ssa.UnOp)
			if !ok || ld.Op != token.MUL {
				continue
			}
			head, ok := ld.X.(*ssa.FieldAddr)
			if !ok || !isReceiverHead(pop, head) {
				continue
			}
			if behind && !(st.Block() != r.Block()) {
				continue
			}
			// under head.next == nil
			for _, g := range path.Guards(pop, st.Block()) {
				cd, ok := path.CondOf(g.If)
				if !ok {
					continue
				}
				truth := g.Idx == 0
				if cd.Neg {
					truth = !truth
				}
				var other ssa.Value
				switch {
				case isNextOfHead(pop, cd.X):
					other = cd.Y
				case isNextOfHead(pop, cd.Y):
					other = cd.X
				default:
					continue
				}
				if path.IsNil(other) && ((cd.Op == token.EQL && truth) || (cd.Op == token.NEQ && !truth)) {
					okS = true
				}
			}
		}
	}
	if !okS && stackPop != nil {
		// or the stack treats its last element itself
		for _, b := range stackPop.Blocks {
			if at, found := nGuard(stackPop, b, typ); found && !at[0] && at[1] && !at[2] && !at[3] {
				okS = true
			}
		}
	}
	c.ob("RS2", fname, "a single-node list hands out its node", c.fpos(pop), okS, "with one node left nothing can be unlinked, and Pop hands back an empty node: the linked stack's last element is never delivered (NewLinked(7).Pop() yields 0)")
}

// isReceiverHead: fa is &recv.DoubleNode (the list's embedded head node).
func isReceiverHead(fn *ssa.Function, fa *ssa.FieldAddr) bool {
	if len(fn.Params) == 0 || fa.X != ssa.Value(fn.Params[0]) {
		return false
	}
	n := namedOf(fa.Type())
	return n != nil && hasField(n, "next")
}

func isNextOfHead(fn *ssa.Function, v ssa.Value) bool {
	u, ok := v.(*ssa.UnOp)
	if !ok || u.Op != token.MUL {
		return false
	}
	fa, ok := u.X.(*ssa.FieldAddr)
	if !ok || fieldName(fa.X.Type(), fa.Field) != "next" {
		return false
	}
	if h, ok := fa.X.(*ssa.FieldAddr); ok {
		return isReceiverHead(fn, h)
	}
	// l.next through the embedded field
	return len(fn.Params) > 0 && fa.X == ssa.Value(fn.Params[0])
}
