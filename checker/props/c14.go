package props

import (
	"fmt"
	"go/token"
	"go/types"
	"os"
	"sort"
	"strings"

	"golang.org/x/tools/go/ssa"

	"gogucheck/core"
	"gogucheck/path"
)

func init() {
	register(&Check{
		ID: "C14",
		Explanation: "Pairing, placement and sibling rules over map.go and the map helpers of filter.go (engines E3/E4/E7). Every site that puts an entry into a result (map update, indexed store, append, delete on the in-place helpers) is described by access paths relative to the iteration tuple of the range over the input - k and v of one Next, the callback's image fn(v) / fn(k,v), the lookup m[k], each(keys) for a complete forward scan - and compared with the pairing the function promises (PV2): " +
			"MapValues (k, fn(v)), MapKeys (fn(k,v), v), Invert (m[x], x), Pick/PickBy (k, collection[k]), FilterMap/FindByKey/MapUnique (k, v), SliceToMap (s1[i], s2[i]) with one index, Keys/Values/MapCollection one cell per iteration with the index stepped once; each such site is dominated by the decision the function promises (fn(v), fn(k), fn(k,v), Contains(keys,k), not-seen) with the promised polarity (PV3), " +
			"and Pick/Omit, PickBy/OmitBy decide on the same call with the opposite action (AG5); selecting functions stop after the first emission where the statement says 'one entry'; Find selects from keys that went through sort.Slice with a < comparator on that very slice, scanned forward; Pluck, the collection filters and PartitionMap only append, once per input map, in input order; the quantifiers return at once on the deciding edge and their default only after the whole range; GS1/GS2 hygiene (no goroutines: order preserved).",
		Assumptions: []string{"go/ssa faithful to the source", "Contains is the quantifier checked by C13", "user callbacks are pure"},
		NotDecided:  []string{"which entry the 'some entry' functions choose (FindKey, FindByKey, MapUnique: map iteration order)", "behaviour under duplicate values (Invert)"},
		Run:         runC14,
	})
}

// c14Desc builds the path context whose names are relative to the iteration tuple.
func c14Desc(p *core.Program, fn *ssa.Function) *pathCtx {
	pc := newPathCtx(p)
	pc.hook = func(v ssa.Value) (string, bool) {
		u, ok := v.(*ssa.UnOp)
		if !ok || u.Op != token.MUL {
			return "", false
		}
		ia, ok := u.X.(*ssa.IndexAddr)
		if !ok {
			return "", false
		}
		base := pc.path(ia.X)
		if base == "" {
			return "", false
		}
		inner := newPathCtx(p)
		if sc, ok := classifyScan(inner, fn, ia.Index, ia.X); ok {
			if sc.dir == +1 {
				return "each(" + stripAmp(base) + ")", true
			}
			return "eachrev(" + stripAmp(base) + ")", true
		}
		// the index scans another parameter slice completely: positional pairing
		for _, prm := range fn.Params {
			if ssa.Value(prm) == ia.X {
				continue
			}
			if sc, ok := classifyScan(inner, fn, ia.Index, prm); ok && sc.dir == +1 {
				return stripAmp(base) + "[i:" + prm.Name() + "]", true
			}
		}
		return "", false
	}
	return pc
}

type c14Emit struct {
	kind  string // mapupdate | store | append | delete
	in    ssa.Instruction
	key   string
	val   string
	guard []string        // boolean conditions (paths) dominating the site with their truth: "+cond" / "-cond"
	dec   []string        // those taken per element: their branch lies strictly inside the outermost loop around the site
	hdr   *ssa.BasicBlock // header of that loop (nil when the site is in no loop)
	loop  bool
}

func c14Emits(p *core.Program, fn *ssa.Function) []c14Emit {
	pc := c14Desc(p, fn)
	var out []c14Emit
	guards := func(b *ssa.BasicBlock) []string {
		var gs []string
		for _, g := range path.Guards(fn, b) {
			v := g.If.Cond
			truth := g.Idx == 0
			for {
				if u, ok := v.(*ssa.UnOp); ok && u.Op == token.NOT {
					v = u.X
					truth = !truth
					continue
				}
				break
			}
			s := pc.path(v)
			if s == "" {
				continue
			}
			if strings.HasPrefix(s, "ok(") || strings.Contains(s, "#0") && strings.HasPrefix(s, "range(") {
				// loop-continuation conditions of range loops are not decisions
			}
			if truth {
				gs = append(gs, "+"+s)
			} else {
				gs = append(gs, "-"+s)
			}
		}
		sort.Strings(gs)
		return gs
	}
	var lastHdr *ssa.BasicBlock
	decisions := func(b *ssa.BasicBlock) []string {
		// header of the outermost natural loop whose header dominates b
		// candidate loops: header dominates b. Start from the innermost one (the
		// header dominated by all other candidates) and move outward through nesting.
		var cands []*ssa.BasicBlock
		for _, h := range fn.Blocks {
			if l := path.NaturalLoop(h); len(l) > 0 && h.Dominates(b) {
				cands = append(cands, h)
			}
		}
		var hdr *ssa.BasicBlock
		for _, h := range cands {
			inner := true
			for _, o := range cands {
				if o != h && !o.Dominates(h) {
					inner = false
				}
			}
			if inner {
				hdr = h
			}
		}
		for changed := hdr != nil; changed; {
			changed = false
			for _, o := range cands {
				if o != hdr && path.NaturalLoop(o)[hdr] {
					hdr = o
					changed = true
				}
			}
		}
		lastHdr = hdr
		var ds []string
		for _, g := range path.Guards(fn, b) {
			ib := g.Block()
			if hdr == nil || ib == hdr || !hdr.Dominates(ib) {
				continue
			}
			if g.Threaded {
				continue // a flag: the guards of the edge that sets it are listed in its place
			}
			v := g.If.Cond
			truth := g.Idx == 0
			for {
				if u, ok := v.(*ssa.UnOp); ok && u.Op == token.NOT {
					v = u.X
					truth = !truth
					continue
				}
				break
			}
			s := pc.path(v)
			if s == "" {
				s = "?"
			}
			if strings.HasSuffix(s, "#0") {
				continue // continuation test of an inner range loop
			}
			if truth {
				ds = append(ds, "+"+s)
			} else {
				ds = append(ds, "-"+s)
			}
		}
		sort.Strings(ds)
		return ds
	}
	for _, in := range path.Instrs(fn) {
		switch x := in.(type) {
		case *ssa.MapUpdate:
			{
				d := decisions(in.Block())
				out = append(out, c14Emit{"mapupdate", in, pc.path(x.Key), pc.path(x.Value), guards(in.Block()), d, lastHdr, path.InCycle(in.Block())})
			}
		case *ssa.Store:
			if ia, ok := x.Addr.(*ssa.IndexAddr); ok {
				if _, isAl := ia.X.(*ssa.Alloc); isAl {
					continue // literal / varargs array
				}
				{
					d := decisions(in.Block())
					out = append(out, c14Emit{"store", in, pc.path(ia.Index), pc.path(x.Val), guards(in.Block()), d, lastHdr, path.InCycle(in.Block())})
				}
			}
		case *ssa.Call:
			if b, ok := x.Call.Value.(*ssa.Builtin); ok {
				switch b.Name() {
				case "append":
					v, ok := singleElemSlice(x.Call.Args[1])
					val := "?"
					if ok {
						val = pc.path(v)
					}
					{
						d := decisions(in.Block())
						out = append(out, c14Emit{"append", in, pc.path(x.Call.Args[0]), val, guards(in.Block()), d, lastHdr, path.InCycle(in.Block())})
					}
				case "delete":
					{
						d := decisions(in.Block())
						out = append(out, c14Emit{"delete", in, pc.path(x.Call.Args[1]), pc.path(x.Call.Args[0]), guards(in.Block()), d, lastHdr, path.InCycle(in.Block())})
					}
				}
			}
		}
	}
	return out
}

type c14Want struct {
	kind  string
	key   string
	val   string
	guard string // required dominating decision ("" = none beyond the loop)
	once  bool   // the emission must be followed by leaving the loop (one entry)
	depth int    // with once: number of enclosing loops the site may lie in (0 = one entry in all, 1 = once per element of the outer scan)
	count int    // number of such sites expected (default 1)
}

func runC14(p *core.Program, r *core.Report) {
	c := rc{p, r}
	noAnswerBeforeTheScan(c, "gogu.Keys", "gogu.Values", "gogu.MapValues", "gogu.MapKeys", "gogu.MapEvery", "gogu.MapSome", "gogu.MapContains", "gogu.MapUnique", "gogu.MapCollection", "gogu.Find", "gogu.FindKey", "gogu.FindByKey", "gogu.Invert", "gogu.Pick", "gogu.PickBy", "gogu.Omit", "gogu.OmitBy", "gogu.Pluck", "gogu.PartitionMap", "gogu.SliceToMap", "gogu.FilterMap", "gogu.FilterMapCollection", "gogu.Filter2DMapCollection")
	resultUntouchedAfterTheScan(c, "gogu.Keys", "gogu.Values", "gogu.MapValues", "gogu.MapKeys", "gogu.MapEvery", "gogu.MapSome", "gogu.MapContains", "gogu.MapUnique", "gogu.MapCollection", "gogu.Find", "gogu.FindKey", "gogu.FindByKey", "gogu.Invert", "gogu.Pick", "gogu.PickBy", "gogu.Omit", "gogu.OmitBy", "gogu.Pluck", "gogu.PartitionMap", "gogu.SliceToMap", "gogu.FilterMap", "gogu.FilterMapCollection", "gogu.Filter2DMapCollection")
	hygiene(c, "map.go", "filter.go")
	noSingledOutValue(c, []string{"map.go"}, nil)
	table := map[string][]c14Want{
		"gogu.Keys":          {{kind: "store", key: "iv", val: "range(m)#1"}},
		"gogu.Values":        {{kind: "store", key: "iv", val: "range(m)#2"}},
		"gogu.MapCollection": {{kind: "store", key: "iv", val: "fn(range(m)#2)"}},
		"gogu.MapValues":     {{kind: "mapupdate", key: "range(m)#1", val: "fn(range(m)#2)"}},
		"gogu.MapKeys":       {{kind: "mapupdate", key: "fn(range(m)#1,range(m)#2)", val: "range(m)#2"}},
		"gogu.MapUnique": {{kind: "mapupdate", key: "range(m)#2", val: "true", guard: "-ok(newmap[range(m)#2])"},
			{kind: "mapupdate", key: "range(m)#1", val: "range(m)#2", guard: "-ok(newmap[range(m)#2])"}},
		"gogu.FindByKey":             {{kind: "mapupdate", key: "range(m)#1", val: "range(m)#2", guard: "+fn(range(m)#1)", once: true}},
		"gogu.FilterMap":             {{kind: "mapupdate", key: "range(m)#1", val: "range(m)#2", guard: "+fn(range(m)#2)"}},
		"gogu.Invert":                {{kind: "mapupdate", key: "m[each(gogu.Keys(m))]", val: "each(gogu.Keys(m))"}},
		"gogu.Pick":                  {{kind: "mapupdate", key: "range(collection)#1", val: "collection[range(collection)#1]", guard: "+gogu.Contains(keys,range(collection)#1)"}},
		"gogu.PickBy":                {{kind: "mapupdate", key: "range(collection)#1", val: "collection[range(collection)#1]", guard: "+fn(range(collection)#1,range(collection)#2)"}},
		"gogu.Omit":                  {{kind: "delete", key: "range(collection)#1", val: "collection", guard: "+gogu.Contains(keys,range(collection)#1)"}},
		"gogu.OmitBy":                {{kind: "delete", key: "range(collection)#1", val: "collection", guard: "+fn(range(collection)#1,range(collection)#2)"}},
		"gogu.SliceToMap":            {{kind: "mapupdate", key: "each(s1)", val: "s2[i:s1]"}},
		"gogu.Find":                  {{kind: "store", key: "iv", val: "range(m)#1"}, {kind: "mapupdate", key: "each(newslice)", val: "m[each(newslice)]", guard: "+fn(m[each(newslice)])", once: true}},
		"gogu.Pluck":                 {{kind: "append", key: "acc", val: "gogu.FindByKey(each(mapSlice),closure)[key]", guard: "+ok(gogu.FindByKey(each(mapSlice),closure)[key])"}},
		"gogu.FilterMapCollection":   {{kind: "append", key: "acc", val: "each(collection)", guard: "+fn(range(each(collection))#2)", once: true, depth: 1}},
		"gogu.Filter2DMapCollection": {{kind: "append", key: "acc", val: "each(collection)", guard: "+fn(range(each(collection))#2)", once: true, depth: 1}},
	}
	debug := os.Getenv("GOGUCHECK_DEBUG") != ""
	var names []string
	for n := range table {
		names = append(names, n)
	}
	sort.Strings(names)
	for _, name := range names {
		fn := c.fn(name)
		if fn == nil {
			continue
		}
		ems := c14Emits(p, fn)
		// normalise: index induction variables, accumulators, local names
		norm := func(e c14Emit) c14Emit {
			if e.kind == "store" {
				if st, ok := e.in.(*ssa.Store); ok {
					if ia, ok := st.Addr.(*ssa.IndexAddr); ok && isForwardInduction(ia.Index) {
						e.key = "iv"
					}
				}
			}
			if e.kind == "append" {
				e.key = "acc"
			}
			return e
		}
		used := map[int]bool{}
		for _, w := range table[name] {
			found := -1
			for i, e0 := range ems {
				e := norm(e0)
				if used[i] || e.kind != w.kind {
					continue
				}
				kOK := e.key == w.key || c14Alias(fn, p, e.key, w.key)
				vOK := e.val == w.val || c14Alias(fn, p, e.val, w.val)
				if kOK && vOK {
					found = i
					break
				}
			}
			obj := fmt.Sprintf("%s (%s, %s)", w.kind, w.key, w.val)
			if found < 0 {
				var got []string
				for _, e0 := range ems {
					e := norm(e0)
					got = append(got, fmt.Sprintf("%s(%s, %s)", e.kind, e.key, e.val))
				}
				c.ob("PV2", name, obj, c.fpos(fn), false, fmt.Sprintf("no site pairs key and value as the function promises; found %v: the association between keys and values (or the cell written) differs from the definition", got))
				continue
			}
			used[found] = true
			e := norm(ems[found])
			c.ob("PV2", name, obj, p.InstrPos(e.in), true, "")
			{
				wantDec := []string{}
				if w.guard != "" {
					wantDec = append(wantDec, w.guard)
				}
				okG := len(e.dec) == len(wantDec)
				for i := range wantDec {
					if okG && e.dec[i] != wantDec[i] {
						okG = false
					}
				}
				what := "decided by " + w.guard
				if w.guard == "" {
					what = "emitted for every entry"
				}
				c.ob("PV3", name, what, p.InstrPos(e.in), okG, fmt.Sprintf("the entry is emitted under the per-element decisions %v; the function must emit it exactly under %v", e.dec, wantDec))
			}
			if w.once {
				// after the emission the enclosing loop is left: no path from the site back to itself
				c.ob("PV3", name, "one entry only", p.InstrPos(e.in), loopDepth(fn, e.in.Block()) <= w.depth, "after emitting the entry the loop continues: more than one entry (or the same map twice) can be emitted")
			} else if w.kind != "store" || true {
				c.ob("PV3", name, "emitted inside the scan", p.InstrPos(e.in), e.loop, "the emission is outside the loop over the input")
			}
		}
		// the function returns only after its scan(s): no side path that produces the result differently
		c14ReturnsAfterScan(c, fn, name, ems)
		// no further emitting sites
		for i, e0 := range ems {
			if used[i] {
				continue
			}
			e := norm(e0)
			// the no-op self store of PartitionMap-like code and local index helpers are not in these functions
			c.ob("PV2", name, fmt.Sprintf("extra %s", e.kind), p.InstrPos(e.in), false, fmt.Sprintf("unexpected emission %s(%s, %s): the result receives entries the definition does not mention", e.kind, e.key, e.val))
		}
		if debug {
			for _, e0 := range ems {
				e := norm(e0)
				fmt.Fprintf(os.Stderr, "C14 %s %s key=%q val=%q guard=%v loop=%v\n", name, e.kind, e.key, e.val, e.guard, e.loop)
			}
		}
	}

	// ---------------- AG5 sibling pairs decide on the same call
	for _, pr := range [][2]string{{"gogu.Pick", "gogu.Omit"}, {"gogu.PickBy", "gogu.OmitBy"}} {
		a, b := c.fn(pr[0]), c.fn(pr[1])
		if a == nil || b == nil {
			continue
		}
		dec := func(fn *ssa.Function) string {
			for _, e := range c14Emits(p, fn) {
				if e.kind == "mapupdate" || e.kind == "delete" {
					return strings.Join(e.dec, " & ")
				}
			}
			return ""
		}
		da, db := dec(a), dec(b)
		c.ob("AG5", pr[0]+"/"+strings.TrimPrefix(pr[1], "gogu."), "same decision, opposite action", c.fpos(a), da != "" && da == db, fmt.Sprintf("%s keeps under %q while %s deletes under %q: the pair must decide on the same call so that together they partition the map", pr[0], da, pr[1], db))
	}

	// ---------------- quantifiers over maps
	type qSpec struct {
		name    string
		cond    string
		onMatch bool
		after   bool
	}
	for _, q := range []qSpec{
		{"gogu.MapEvery", "-fn(range(m)#2)", false, true},
		{"gogu.MapSome", "+fn(range(m)#2)", true, false},
		{"gogu.MapContains", "+(range(m)#2==value)", true, false},
	} {
		fn := c.fn(q.name)
		if fn == nil {
			continue
		}
		pc := c14Desc(p, fn)
		nM, nA := 0, 0
		for _, b := range fn.Blocks {
			rt, ok := b.Instrs[len(b.Instrs)-1].(*ssa.Return)
			if !ok {
				continue
			}
			bc, isC := path.BoolConst(rt.Results[0])
			if !isC {
				c.und("PT5", q.name, "result", p.InstrPos(rt), "the result is not a constant per path")
				continue
			}
			if bc == q.onMatch {
				nM++
				okG := false
				for _, g := range path.Guards(fn, b) {
					v := g.If.Cond
					truth := g.Idx == 0
					for {
						if u, ok := v.(*ssa.UnOp); ok && u.Op == token.NOT {
							v = u.X
							truth = !truth
							continue
						}
						break
					}
					s := pc.path(v)
					sign := "+"
					if !truth {
						sign = "-"
					}
					alt := ""
					if bo, ok := v.(*ssa.BinOp); ok && bo.Op == token.EQL {
						alt = sign + "(" + pc.path(bo.Y) + "==" + pc.path(bo.X) + ")"
					}
					if sign+s == q.cond || alt == q.cond {
						okG = true
					}
				}
				c.ob("PT5", q.name, "deciding value returns at once", p.InstrPos(rt), okG && len(b.Preds) == 1, "the deciding result must be returned on the edge "+q.cond)
			} else {
				nA++
				c.ob("PT5", q.name, "default only after the whole range", p.InstrPos(rt), bc == q.after && !path.InCycle(b) && onlyViaLoopHeader(fn, b), "the default result must be returned only when every entry was examined")
			}
		}
		c.ob("PT5", q.name, "both outcomes present", c.fpos(fn), nM == 1 && nA == 1, "expected one deciding return inside the range and one default return after it")
	}

	// ---------------- Find: deterministic choice through sorted keys
	if fn := c.fn("gogu.Find"); fn != nil {
		var keysVal ssa.Value
		okSort := false
		for _, in := range path.Instrs(fn) {
			call, ok := in.(*ssa.Call)
			if !ok {
				continue
			}
			if _, isSort := isStdCall(call, "sort", "Slice"); !isSort {
				continue
			}
			keysVal = path.Strip(call.Call.Args[0])
			if mc, ok := call.Call.Args[1].(*ssa.MakeClosure); ok {
				if cl, ok := mc.Fn.(*ssa.Function); ok {
					okSort = lessClosureOn(cl, mc, keysVal)
				}
			}
		}
		// the key list has exactly one cell per entry (a longer one adds zero keys, which are
		// sorted in and looked up like real ones)
		for _, in := range path.Instrs(fn) {
			if mk, ok := in.(*ssa.MakeSlice); ok {
				if _, isKeys := mk.Type().Underlying().(*types.Slice); isKeys {
					pcx := newPathCtx(p)
					ln := pcx.path(mk.Len)
					okLen := ln == "len(m)"
					if k, isK := path.IntConst(mk.Len); isK && k == 0 {
						okLen = true // filled by append
					}
					c.ob("PV2", "gogu.Find", "key list sized by the map", p.InstrPos(mk), okLen, "the slice the keys are collected into must have len(m) cells (or start empty and grow by append): it has "+ln)
				}
			}
		}
		c.ob("PT2", "gogu.Find", "keys sorted ascending before the selection", c.fpos(fn), okSort, "the selecting loop must range over keys that passed through sort.Slice(keys, func(i, j) bool { return keys[i] < keys[j] })")
		// the sort precedes the selecting loop: the selecting MapUpdate is not reachable without passing the sort
		if keysVal != nil {
			for _, in := range path.Instrs(fn) {
				mu, ok := in.(*ssa.MapUpdate)
				if !ok {
					continue
				}
				isSort := func(i ssa.Instruction) bool { _, ok := isStdCall(valueOf(i), "sort", "Slice"); return ok }
				skip := path.CanReachWithout(fn.Blocks[0].Instrs[0], func(i ssa.Instruction) bool { return i == ssa.Instruction(mu) }, isSort)
				c.ob("PT2", "gogu.Find", "selection only after sorting", p.InstrPos(mu), !skip, "the selection is reachable without sorting the keys: the entry returned would depend on map iteration order")
			}
		}
	}
	// selection inside a range over the map itself is only allowed for the 'some entry' functions
	for _, f := range p.FuncsInFiles("map.go") {
		name := p.FuncName(f)
		allowed := map[string]bool{"gogu.FindKey": true, "gogu.FindByKey": true, "gogu.MapUnique": true, "gogu.MapSome": true, "gogu.MapEvery": true, "gogu.MapContains": true, "gogu.PartitionMap": true}
		if allowed[name] || !core.ExportedAPI(f) {
			continue
		}
		// a break out of a range over a map = an exit edge of a map-range loop other than the header's
		for _, b := range f.Blocks {
			for _, in := range b.Instrs {
				nx, ok := in.(*ssa.Next)
				if !ok || nx.IsString {
					continue
				}
				rg, ok := nx.Iter.(*ssa.Range)
				if !ok {
					continue
				}
				if _, isMap := rg.X.Type().Underlying().(interface{ Key() interface{} }); isMap {
					_ = isMap
				}
				loop := path.NaturalLoop(b)
				early := false
				for x := range loop {
					for _, s := range x.Succs {
						if !loop[s] && x != b {
							early = true
						}
					}
				}
				c.ob("PV3", name, "no order-dependent selection", p.InstrPos(nx), !early, "a range over a map is left early: which entry is selected depends on Go's randomised map iteration order, but this function promises a definite result")
			}
		}
	}

	// ---------------- FindKey: result is the key of the tuple whose value satisfied fn
	if fn := c.fn("gogu.FindKey"); fn != nil {
		pc := c14Desc(p, fn)
		// every way the result is delivered: the zero value, or the key of the entry of
		// the current iteration on the edge where fn(v) held ("result = k; break ...
		// return result" and "return k" are the same two alternatives)
		nKey := 0
		for _, alt := range returnAlternatives(fn, 0) {
			if isZeroConst(alt.val) {
				continue
			}
			isKey := pc.path(alt.val) == "range(m)#1"
			held := boolGuard(fn, alt.blk, func(v ssa.Value) bool { return pc.path(v) == "fn(range(m)#2)" }, true)
			if isKey && held {
				nKey++
			}
			c.ob("PV2", "gogu.FindKey", "returns the key of the qualifying entry", p.InstrPos(alt.ret), isKey && held, "the key returned must be the key of the very entry whose value satisfied fn")
		}
		c.ob("PV2", "gogu.FindKey", "a qualifying key is returned", c.fpos(fn), nKey >= 1, "no path returns the key of an entry on the edge where fn(v) held")
		// the assignment edge is fn(v) true
		okG := false
		for _, b := range fn.Blocks {
			iff := path.BlockIf(b)
			if iff == nil {
				continue
			}
			if pc.path(iff.Cond) == "fn(range(m)#2)" {
				okG = true
			}
		}
		c.ob("PV3", "gogu.FindKey", "decided by fn(v)", c.fpos(fn), okG, "FindKey must decide on fn(v) of the current entry")
	}

	// ---------------- SliceToMap: unequal lengths rejected before anything is built
	if fn := c.fn("gogu.SliceToMap"); fn != nil {
		x := newPathCtx(p)
		for _, in := range path.Instrs(fn) {
			mu, ok := in.(*ssa.MapUpdate)
			if !ok {
				continue
			}
			fs := edgeFacts(x, fn, mu.Block())
			c.ob("PT3", "gogu.SliceToMap", "pairing only for equal lengths", p.InstrPos(mu), hasFact(fs, "len(s1)", "==", "len(s2)"), "positions are paired on a path not dominated by len(s1) == len(s2)")
			// one index for both slices
			okI := false
			if ku, ok := mu.Key.(*ssa.UnOp); ok {
				if vu, ok := mu.Value.(*ssa.UnOp); ok {
					ka, ok1 := ku.X.(*ssa.IndexAddr)
					va, ok2 := vu.X.(*ssa.IndexAddr)
					okI = ok1 && ok2 && ka.Index == va.Index && ka.X == ssa.Value(fn.Params[0]) && va.X == ssa.Value(fn.Params[1])
				}
			}
			c.ob("PV2", "gogu.SliceToMap", "one index pairs both slices", p.InstrPos(mu), okI, "key and value must be read at the same index of s1 and s2")
		}
		nPanic := 0
		for _, in := range path.Instrs(fn) {
			if pn, ok := in.(*ssa.Panic); ok {
				fs := edgeFacts(x, fn, pn.Block())
				if hasFact(fs, "len(s1)", "!=", "len(s2)") {
					nPanic++
				}
			}
		}
		c.ob("PT3", "gogu.SliceToMap", "unequal lengths rejected", c.fpos(fn), nPanic == 1, "unequal lengths must be rejected (panic) before pairing")
	}

	// ---------------- PartitionMap: each non-empty map routed once by fn(m)
	if fn := c.fn("gogu.PartitionMap"); fn != nil {
		pc := c14Desc(p, fn)
		var t, f *ssa.Call
		n := 0
		for _, ap := range appendsOf(fn) {
			n++
			v, ok := singleElemSlice(ap.Call.Args[1])
			if !ok || pc.path(v) != "each(mapSlice)" {
				c.ob("PV2", "gogu.PartitionMap", "routes the map itself", p.InstrPos(ap), false, "the value appended is not the current map of the input")
				continue
			}
			dst := pc.path(ap.Call.Args[0])
			onTrue := boolGuard(fn, ap.Block(), func(cv ssa.Value) bool { return pc.path(cv) == "fn(each(mapSlice))" }, true)
			onFalse := boolGuard(fn, ap.Block(), func(cv ssa.Value) bool { return pc.path(cv) == "fn(each(mapSlice))" }, false)
			switch {
			case strings.HasSuffix(dst, "[0]") && onTrue:
				t = ap
			case strings.HasSuffix(dst, "[1]") && onFalse:
				f = ap
			default:
				c.ob("PV3", "gogu.PartitionMap", "part chosen by the predicate", p.InstrPos(ap), false, fmt.Sprintf("the map is appended to %s on an edge that does not match the predicate's outcome (part 0 for true, part 1 for false)", dst))
			}
			c.ob("PV3", "gogu.PartitionMap", "each map routed at most once", p.InstrPos(ap), loopDepth(fn, ap.Block()) <= 1, "after routing a map the inner loop continues: the same map can be appended again")
		}
		c.ob("PV3", "gogu.PartitionMap", "both parts fed", c.fpos(fn), t != nil && f != nil && n == 2, "expected one append into part 0 under fn(m) and one into part 1 under !fn(m)")
	}
}

// c14Alias resolves local-variable spellings: a got-path equals the wanted one
// after replacing locally named values (mapped, keys) by what they denote.
func c14Alias(fn *ssa.Function, p *core.Program, got, want string) bool {
	if got == want {
		return true
	}
	// wanted paths mention source-level local names; translate them to their definitions
	repl := map[string]string{}
	switch p.FuncName(fn) {
	case "gogu.Pluck":
		repl["mapped"] = "" // filled below
	}
	pc := c14Desc(p, fn)
	for _, in := range path.Instrs(fn) {
		v, ok := in.(ssa.Value)
		if !ok || v.Name() == "" {
			continue
		}
		_ = v
	}
	// locals are identified through DebugRef-free heuristics: a call result named by its callee
	for _, in := range path.Instrs(fn) {
		call, ok := in.(*ssa.Call)
		if !ok {
			continue
		}
		cal := path.StaticCallee(call)
		if cal == nil {
			continue
		}
		s := pc.path(call)
		switch cal.Name() {
		case "FindByKey":
			repl["mapped"] = s
		case "Keys":
			repl["keys"] = s
		}
	}
	for _, in := range path.Instrs(fn) {
		if mk, ok := in.(*ssa.MakeSlice); ok {
			if repl["keys"] == "" {
				repl["keys"] = pc.path(mk)
			}
		}
	}
	w := want
	for k, v := range repl {
		if v == "" {
			continue
		}
		w = strings.ReplaceAll(w, k+"[", v+"[")
		w = strings.ReplaceAll(w, "each("+k+")", "each("+v+")")
	}
	return got == w
}

func succOf(in ssa.Instruction) *ssa.BasicBlock {
	b := in.Block()
	if len(b.Succs) > 0 {
		return b.Succs[0]
	}
	return b
}

func canReachItself(in ssa.Instruction) bool {
	b := in.Block()
	seen := map[*ssa.BasicBlock]bool{}
	var rec func(x *ssa.BasicBlock) bool
	rec = func(x *ssa.BasicBlock) bool {
		if x == b {
			return true
		}
		if seen[x] {
			return false
		}
		seen[x] = true
		for _, s := range x.Succs {
			if rec(s) {
				return true
			}
		}
		return false
	}
	for _, s := range b.Succs {
		if rec(s) {
			return true
		}
	}
	return false
}

func valueOf(in ssa.Instruction) ssa.Value {
	v, _ := in.(ssa.Value)
	return v
}

// lessClosureOn: the closure returns keys[i] < keys[j] on the captured slice.
func lessClosureOn(cl *ssa.Function, mc *ssa.MakeClosure, keys ssa.Value) bool {
	if len(cl.Params) != 2 {
		return false
	}
	for _, in := range path.Instrs(cl) {
		rt, ok := in.(*ssa.Return)
		if !ok || len(rt.Results) != 1 {
			continue
		}
		bo, ok := rt.Results[0].(*ssa.BinOp)
		if !ok || bo.Op != token.LSS {
			return false
		}
		idxOf := func(v ssa.Value) ssa.Value {
			u, ok := v.(*ssa.UnOp)
			if !ok {
				return nil
			}
			ia, ok := u.X.(*ssa.IndexAddr)
			if !ok {
				return nil
			}
			// the slice is the captured keys (free variable bound to keys or to the cell holding it)
			base := ia.X
			if lu, ok := base.(*ssa.UnOp); ok {
				base = lu.X
			}
			fv, ok := base.(*ssa.FreeVar)
			if !ok {
				return nil
			}
			for i, f := range cl.FreeVars {
				if f == fv && i < len(mc.Bindings) {
					b := mc.Bindings[i]
					if b == keys || path.Unspill(b) == keys {
						return ia.Index
					}
					if al, ok := b.(*ssa.Alloc); ok {
						for _, rf := range *al.Referrers() {
							if st, ok := rf.(*ssa.Store); ok && st.Addr == ssa.Value(al) && (st.Val == keys) {
								return ia.Index
							}
						}
						// keys itself is a load of that cell
						if lu, ok := keys.(*ssa.UnOp); ok && lu.X == ssa.Value(al) {
							return ia.Index
						}
					}
				}
			}
			return nil
		}
		return idxOf(bo.X) == ssa.Value(cl.Params[0]) && idxOf(bo.Y) == ssa.Value(cl.Params[1])
	}
	return false
}

// inInnermostDominatingLoop: among the natural loops whose header dominates b, is b
// a member of the smallest one? (false = b leaves that loop: a break follows)
func inInnermostDominatingLoop(fn *ssa.Function, b *ssa.BasicBlock) bool {
	var best map[*ssa.BasicBlock]bool
	for _, h := range fn.Blocks {
		l := path.NaturalLoop(h)
		if len(l) == 0 || !h.Dominates(b) {
			continue
		}
		if best == nil || len(l) < len(best) {
			best = l
		}
	}
	return best != nil && best[b]
}

// loopDepth counts the natural loops of fn that contain b.
func loopDepth(fn *ssa.Function, b *ssa.BasicBlock) int {
	n := 0
	for _, h := range fn.Blocks {
		if l := path.NaturalLoop(h); l[b] {
			n++
		}
	}
	return n
}

// c14ReturnsAfterScan: every return of fn is dominated by the header of a scan that
// feeds the result, or is a rejection (non-nil error result / the block panics).
func c14ReturnsAfterScan(c rc, fn *ssa.Function, name string, ems []c14Emit) {
	var hdrs []*ssa.BasicBlock
	for _, e := range ems {
		if e.hdr != nil {
			hdrs = append(hdrs, e.hdr)
		}
	}
	if len(hdrs) == 0 {
		return
	}
	for _, b := range fn.Blocks {
		rt, ok := b.Instrs[len(b.Instrs)-1].(*ssa.Return)
		if !ok {
			continue
		}
		after := false
		for _, h := range hdrs {
			if h.Dominates(b) && !path.NaturalLoop(h)[b] {
				after = true
			}
		}
		rejection := false
		for _, rv := range rt.Results {
			if types.Identical(rv.Type(), types.Universe.Lookup("error").Type()) && !path.IsNil(rv) {
				if _, isConstNil := rv.(*ssa.Const); !isConstNil {
					rejection = true
				}
			}
		}
		// an early exit with the zero/empty result for an empty input is a rejection too when nothing was emitted before it
		c.ob("PT5", name, "returns only after the scan", c.p.InstrPos(rt), after || rejection, "a return is reachable that is neither behind the scan over the input nor an error return: some inputs take a side path that builds the result differently")
	}
}
