package props

import (
	"go/token"
	"go/types"

	"golang.org/x/tools/go/ssa"

	"gogucheck/core"
	"gogucheck/path"
)

func init() {
	register(&Check{
		ID: "C17",
		Explanation: "Who-may-call and dataflow rules on Memoize (engines E4/E7): the user function is invoked only inside a function literal that is passed as the function argument of " +
			"(*singleflight.Group).Do on the memoizer's group field (never written after construction) with the caller's key converted to string, and it escapes nowhere else - so singleflight's contract " +
			"gives 'never two executions for one key in flight' for every schedule; the value returned on the miss path is Do's result unmodified; the Do call is dominated by 'cache lookup returned no item' " +
			"and the hit path returns the looked-up item without calling anything; inside the literal every store into the cache is dominated by 'err == nil' of the user function's result, stores that " +
			"result's value under the same key, and the literal returns the user function's item and error. Expiry timing and the internals of singleflight and of the cache are not decided.",
		Assumptions: []string{"contract of golang.org/x/sync/singleflight.Group.Do", "the cache behaves as C01/C02/C08 state", "go/ssa faithful to the source"},
		NotDecided:  []string{"expiry timing of the cached value (C08)", "internals of singleflight", "a panic inside the user function"},
		Run:         runC17,
	})
}

const sfPkg = "golang.org/x/sync/singleflight"

func cachePkg(p *core.Program) string { return p.ModulePath + "/cache" }

var cacheStoreMethods = []string{"Cache.Set", "Cache.SetDefault", "Cache.Update", "Cache.MapToCache", "Cache.add", "Cache.put"}

func isCacheStore(p *core.Program, in ssa.Instruction) bool {
	for _, m := range cacheStoreMethods {
		if path.IsCallTo(in, cachePkg(p), m) {
			return true
		}
	}
	return false
}

func runC17(p *core.Program, r *core.Report) {
	name := "gogu.(Memoizer).Memoize"
	fn := mustFunc(p, r, name)
	if fn == nil {
		return
	}
	cb := funcParam(fn)
	key := paramByName(fn, "key")
	if cb == nil || key == nil {
		r.Fatal("%s: callback or key parameter not found", name)
		return
	}
	cbAl := path.Aliases(fn, cb, true)
	keyAl := path.Aliases(fn, key, true)
	viol := func(rule, object string, in ssa.Instruction, reason string) {
		pos := p.Pos(fn.Pos())
		if in != nil {
			pos = p.InstrPos(in)
		}
		r.Violation(core.Diag{Rule: rule, Func: name, Object: object, Pos: pos, Reason: reason})
	}
	isKey := func(v ssa.Value) bool {
		for _, o := range path.Origins(v) {
			if c, ok := o.(*ssa.Convert); ok {
				o = c.X
			}
			if keyAl[o] {
				continue
			}
			return false
		}
		return true
	}

	// ---- the Do call(s)
	var doCalls []*ssa.Call
	for _, in := range path.Instrs(fn) {
		if path.IsCallTo(in, sfPkg, "Group.Do") {
			doCalls = append(doCalls, in.(*ssa.Call))
		}
	}
	okDo := len(doCalls) == 1
	r.Obligation("AG1", okDo, map[string]any{"rule": "AG1", "what": "exactly one singleflight.Do call in Memoize", "found": len(doCalls)})
	if !okDo {
		viol("AG1", "singleflight.Do", nil, "Memoize does not contain exactly one (*singleflight.Group).Do call")
		return
	}
	do := doCalls[0]
	// group argument: load of the memoizer's group field
	// group argument: the group shared by all calls on this memoizer - a load of the
	// pointer field, or the address of a value field of a receiver that is not a
	// per-call copy (a by-value receiver is copied on every call, and with it a value group)
	okGroup := false
	groupWhy := "singleflight.Do is not called on the memoizer's own group field: calls for the same key may use different groups and run concurrently"
	if u, ok := do.Call.Args[0].(*ssa.UnOp); ok && u.Op == token.MUL {
		if f, ok := slotOf(u.X, "Memoizer"); ok && f == "group" {
			okGroup = true
		}
	} else if f, ok := slotOf(do.Call.Args[0], "Memoizer"); ok && f == "group" {
		base := do.Call.Args[0].(*ssa.FieldAddr).X
		if _, isCopy := base.(*ssa.Alloc); isCopy {
			groupWhy = "the flight group is a value field and Memoize has a by-value receiver: every call works on its own copy of the group, so concurrent callers never join a flight"
		} else {
			okGroup = true
		}
	}
	r.Obligation("AG1", okGroup, map[string]any{"rule": "AG1", "what": "Do is called on the memoizer's shared group", "ok": okGroup})
	if !okGroup {
		viol("AG1", "flight group", do, groupWhy)
	}
	// group field never written after construction
	for _, g := range p.Funcs {
		for _, in := range path.Instrs(g) {
			if st, ok := in.(*ssa.Store); ok {
				if f, ok := slotOf(st.Addr, "Memoizer"); ok && f == "group" && !isAllocBase(st.Addr) {
					r.Obligation("AG1", false, nil)
					r.Violation(core.Diag{Rule: "AG1", Func: p.FuncName(g), Object: "store Memoizer.group", Pos: p.InstrPos(in), Reason: "the flight group is replaced after construction"})
				}
			}
		}
	}
	// the group is entered through Do only: Forget drops a flight that may still be
	// running (the next caller starts a second execution next to it), DoChan hands
	// out results without the caller waiting inside the flight
	nGroupCalls := 0
	for _, g := range p.Funcs {
		for _, in := range path.Instrs(g) {
			ci, ok := in.(ssa.CallInstruction)
			if !ok {
				continue
			}
			callee := ci.Common().StaticCallee()
			if callee == nil || callee.Signature.Recv() == nil || callee.Pkg == nil || callee.Pkg.Pkg.Path() != sfPkg {
				continue
			}
			nGroupCalls++
			okM := callee.Name() == "Do"
			r.Obligation("AG1", okM, map[string]any{"rule": "AG1", "what": "flight group used through Do only", "method": callee.Name(), "in": p.FuncName(g)})
			if !okM {
				r.Violation(core.Diag{Rule: "AG1", Func: p.FuncName(g), Object: "singleflight." + callee.Name(), Pos: p.InstrPos(in), Reason: "the flight group is used through " + callee.Name() + ": only Do keeps one execution per key (Forget drops a flight that may still be running, so the next caller starts a second execution beside it)"})
			}
		}
	}
	// key argument
	okKey := isKey(do.Call.Args[1])
	r.Obligation("PV2", okKey, map[string]any{"rule": "PV2", "what": "flight key is the caller's key", "ok": okKey})
	if !okKey {
		viol("PV2", "flight key", do, "the key passed to singleflight.Do is not (a conversion of) the caller's key: different keys share a flight, or the same key does not")
	}
	// function argument: a closure
	mc, isMC := do.Call.Args[2].(*ssa.MakeClosure)
	if !isMC {
		viol("AG1", "flight function", do, "the function passed to singleflight.Do is not a function literal of Memoize")
		return
	}
	lit := mc.Fn.(*ssa.Function)
	r.Functions[p.FuncName(lit)] = true

	// ---- AG1: the user function is called only inside that literal, and escapes nowhere
	calls := path.CallsOfValue(fn, cb, true)
	for _, c := range calls {
		ok := c.Parent() == lit
		r.Obligation("AG1", ok, map[string]any{"rule": "AG1", "what": "user function invoked only inside the literal handed to singleflight.Do", "at": p.InstrPos(c), "ok": ok})
		if !ok {
			viol("AG1", "callback outside flight", c, "the user function is invoked outside the function literal passed to singleflight.Do: two executions for one key can be in flight")
		}
	}
	if len(calls) == 0 {
		r.Obligation("AG1", false, nil)
		viol("AG1", "callback never called", nil, "the user function is never invoked")
	}
	// the literal is used only as Do's argument
	for _, ref := range *mc.Referrers() {
		if ref != ssa.Instruction(do) {
			r.Obligation("AG1", false, nil)
			viol("AG1", "flight function reuse", ref, "the function literal that runs the user function is also used outside singleflight.Do")
		}
	}
	// escape of the callback: every use of an alias is a call, a spill store, a load, a closure binding, or a phi
	var scan func(g *ssa.Function)
	scan = func(g *ssa.Function) {
		for _, in := range path.Instrs(g) {
			var ops [8]*ssa.Value
			for _, op := range in.Operands(ops[:0]) {
				if op == nil || *op == nil || !cbAl[*op] {
					continue
				}
				ok := false
				switch x := in.(type) {
				case ssa.CallInstruction:
					ok = x.Common().Value == *op && !x.Common().IsInvoke()
				case *ssa.Store:
					_, ok = x.Addr.(*ssa.Alloc)
				case *ssa.MakeClosure, *ssa.Phi, *ssa.ChangeType, *ssa.DebugRef:
					ok = true
				}
				if _, isLoad := in.(*ssa.UnOp); isLoad {
					ok = true
				}
				if !ok {
					r.Obligation("AG1", false, nil)
					viol("AG1", "callback escapes", in, "the user function is passed on or stored where the analysis cannot follow it")
				}
			}
		}
		for _, a := range g.AnonFuncs {
			scan(a)
		}
	}
	scan(fn)
	// at most one call per execution of the literal
	n := path.MaxCount(lit, isCallOf(cbAl))
	r.Obligation("PT1", n <= 1, map[string]any{"rule": "PT1", "what": "one execution of the user function per flight", "max_calls": countStr(n)})
	if n > 1 {
		viol("PT1", "callback count", nil, "the user function can run "+countStr(n)+" times inside one flight")
	}

	// ---- PT3: Do is dominated by "lookup returned no item"; hit path returns the item
	var get *ssa.Call
	for _, in := range path.Instrs(fn) {
		if path.IsCallTo(in, cachePkg(p), "Cache.Get") {
			get = in.(*ssa.Call)
			break
		}
	}
	okLookupKey := get != nil && len(get.Call.Args) == 2 && isKey(get.Call.Args[1])
	r.Obligation("PV2", okLookupKey, map[string]any{"rule": "PV2", "what": "cache lookup uses the caller's key", "ok": okLookupKey})
	if !okLookupKey {
		viol("PV2", "lookup key", nil, "Memoize does not look the caller's key up in the cache before starting a flight")
	}
	missGuard := false
	var item ssa.Value
	if get != nil {
		for _, g := range path.Guards(fn, do.Block()) {
			cd, ok := path.CondOf(g.If)
			if !ok || !(cd.Op == token.EQL || cd.Op == token.NEQ) {
				continue
			}
			x := cd.X
			if path.IsNil(x) {
				x = cd.Y
			} else if !path.IsNil(cd.Y) {
				continue
			}
			ex, ok := x.(*ssa.Extract)
			if !ok || ex.Tuple != ssa.Value(get) || ex.Index != 0 {
				continue
			}
			isEq := (cd.Op == token.EQL) != cd.Neg
			if (isEq && g.Idx == 0) || (!isEq && g.Idx == 1) {
				missGuard = true
				item = ex
			}
		}
	}
	r.Obligation("PT3", missGuard, map[string]any{"rule": "PT3", "what": "flight only when the cache lookup returned no item", "ok": missGuard})
	if !missGuard {
		viol("PT3", "hit path", do, "singleflight.Do is not dominated by the 'cache lookup returned no item' edge: the function is invoked although a value is cached")
	}
	// returns
	for _, b := range fn.Blocks {
		ret, ok := b.Instrs[len(b.Instrs)-1].(*ssa.Return)
		if !ok || len(ret.Results) != 2 {
			continue
		}
		if do.Block().Dominates(b) {
			// miss path: Do's results
			okV, okE := false, false
			v := path.Strip(ret.Results[0])
			if ta, isTA := v.(*ssa.TypeAssert); isTA {
				v = ta.X
			}
			if ex, isEx := v.(*ssa.Extract); isEx && ex.Tuple == ssa.Value(do) && ex.Index == 0 {
				okV = true
			}
			if ex, isEx := ret.Results[1].(*ssa.Extract); isEx && ex.Tuple == ssa.Value(do) && ex.Index == 1 {
				okE = true
			}
			r.Obligation("PV1", okV && okE, map[string]any{"rule": "PV1", "what": "miss path returns singleflight.Do's value and error unmodified", "at": p.InstrPos(ret), "ok": okV && okE})
			if !okV {
				viol("PV1", "returned value", ret, "the value returned after the flight is not singleflight.Do's result: joined callers may receive different values")
			}
			if !okE {
				viol("PV1", "returned error", ret, "the error returned after the flight is not singleflight.Do's error: an error result is not reported to the callers")
			}
		} else if item != nil {
			okH := ret.Results[0] == item && path.IsNil(ret.Results[1])
			r.Obligation("PV1", okH, map[string]any{"rule": "PV1", "what": "hit path returns the looked-up item", "at": p.InstrPos(ret), "ok": okH})
			if !okH {
				viol("PV1", "hit value", ret, "the hit path does not return the item found in the cache")
			}
		}
	}

	// ---- inside the literal: errors are returned and not cached
	var ucall *ssa.Call
	for _, c := range calls {
		if c.Parent() == lit {
			if cc, ok := c.(*ssa.Call); ok {
				ucall = cc
			}
		}
	}
	if ucall != nil {
		stores := 0
		for _, in := range path.Instrs(lit) {
			if !isCacheStore(p, in) {
				continue
			}
			stores++
			c := in.(ssa.CallInstruction)
			guarded := false
			for _, g := range path.Guards(lit, in.Block()) {
				cd, ok := path.CondOf(g.If)
				if !ok || !(cd.Op == token.EQL || cd.Op == token.NEQ) {
					continue
				}
				x := cd.X
				if path.IsNil(x) {
					x = cd.Y
				} else if !path.IsNil(cd.Y) {
					continue
				}
				ex, ok := x.(*ssa.Extract)
				if !ok || ex.Tuple != ssa.Value(ucall) {
					continue
				}
				if _, isErr := ex.Type().Underlying().(*types.Interface); !isErr {
					continue
				}
				isEq := (cd.Op == token.EQL) != cd.Neg
				if (isEq && g.Idx == 0) || (!isEq && g.Idx == 1) {
					guarded = true
				}
			}
			r.Obligation("PT3", guarded, map[string]any{"rule": "PT3", "what": "cache store dominated by err == nil of the user function", "at": p.InstrPos(in), "ok": guarded})
			if !guarded {
				viol("PT3", "error cached", in, "a store into the cache is not dominated by 'err == nil' of the user function's result: an error result would be cached")
			}
			args := c.Common().Args
			okK := len(args) >= 2 && isKey(args[1])
			r.Obligation("PV2", okK, map[string]any{"rule": "PV2", "what": "value cached under the caller's key", "at": p.InstrPos(in), "ok": okK})
			if !okK {
				viol("PV2", "store key", in, "the value is cached under something other than the caller's key: keys contaminate each other")
			}
			okV := false
			if len(args) >= 3 {
				for _, o := range path.Origins(args[2]) {
					if vc, ok := o.(*ssa.Call); ok && path.IsCallTo(vc, cachePkg(p), "Item.Val") && len(vc.Call.Args) == 1 {
						if ex, ok := vc.Call.Args[0].(*ssa.Extract); ok && ex.Tuple == ssa.Value(ucall) && ex.Index == 0 {
							okV = true
						}
					}
				}
			}
			r.Obligation("PV1", okV, map[string]any{"rule": "PV1", "what": "cached value is the user function's result", "at": p.InstrPos(in), "ok": okV})
			if !okV {
				viol("PV1", "cached value", in, "the value stored in the cache is not the value of the item the user function returned")
			}
		}
		okStore := stores >= 1
		r.Obligation("PT2", okStore, map[string]any{"rule": "PT2", "what": "a successful result is cached", "stores": stores})
		if !okStore {
			viol("PT2", "result cached", nil, "the flight never stores a successful result in the cache: the function is invoked again on every call")
		}
		for _, b := range lit.Blocks {
			ret, ok := b.Instrs[len(b.Instrs)-1].(*ssa.Return)
			if !ok || len(ret.Results) != 2 {
				continue
			}
			okI, okE := false, false
			if ex, isEx := path.Strip(ret.Results[0]).(*ssa.Extract); isEx && ex.Tuple == ssa.Value(ucall) && ex.Index == 0 {
				okI = true
			}
			if ex, isEx := ret.Results[1].(*ssa.Extract); isEx && ex.Tuple == ssa.Value(ucall) && ex.Index == 1 {
				okE = true
			}
			r.Obligation("ER2", okI && okE, map[string]any{"rule": "ER2", "what": "the flight returns the user function's item and error", "at": p.InstrPos(ret), "ok": okI && okE})
			if !okI {
				viol("ER2", "flight value", ret, "the flight does not return the item produced by the user function")
			}
			if !okE {
				viol("ER2", "flight error", ret, "the flight does not return the user function's error: an error result is swallowed")
			}
		}
	}
	// ---- the layer below: 'a cached value is served until it expires' needs the cache's
	// operations to be atomic against the concurrent janitor and 'expired' to mean the
	// same thing for the lookup and the cleanup (rules AT1/AT2 of engine E1 restricted to
	// the cache type, OD1 of engine E6; their full treatment is C02/C08)
	res := runLockset(p)
	emitLockset(res, r, map[string]bool{"AT1": true, "AT2": true}, map[string]bool{"cache": true})
	expiryAgreement(p, r, p.FuncsInFiles("cache/cache.go"))
	cacheSetRule(p, r)
	// the constructor hands its two durations to the cache in their order
	if nm := p.Func("gogu.NewMemoizer"); nm != nil && len(nm.Params) == 2 {
		for _, in := range path.Instrs(nm) {
			call, ok := in.(*ssa.Call)
			if !ok || !path.IsCallTo(call, cachePkg(p), "New") {
				continue
			}
			a := call.Call.Args
			okA := len(a) == 2 && a[0] == ssa.Value(nm.Params[0]) && a[1] == ssa.Value(nm.Params[1])
			r.Obligation("PV2", okA, map[string]any{"rule": "PV2", "function": "gogu.NewMemoizer", "what": "expiration and cleanup interval handed on in order", "ok": okA})
			if !okA {
				r.Violation(core.Diag{Rule: "PV2", Func: "gogu.NewMemoizer", Object: "cache configuration", Pos: p.InstrPos(call), Reason: "cache.New must receive NewMemoizer's expiration and cleanup arguments in that order: otherwise cached results live for the cleanup interval"})
			}
		}
	}
	r.Floor("AG1", 3)
	r.Floor("PT3", 2)
	r.Floor("PV2", 3)
}
