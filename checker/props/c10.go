package props

import (
	"fmt"
	"go/token"
	"go/types"

	"golang.org/x/tools/go/ssa"

	"gogucheck/core"
	"gogucheck/path"
)

func init() {
	register(&Check{
		ID: "C10",
		Explanation: "Structural rules over btree/btree.go (engines E7/E4): AG2 search reports (value, true) and traverse invokes the visitor only on paths dominated by isRemoved == false of the entry they report, and the tombstone is written only by insert's overwrite branch from its parameter; " +
			"AG4 Put's increment is reachable only through an absence edge of a lookup of the inserted key and no insertion bypasses it except through a presence edge; Remove's decrement only through a presence edge, and the tombstoning insert is not reachable around it; " +
			"AG3 search and insert descend into children[i].next exactly under (i+1 == m || key < children[i+1].key) with height-1 and the same key; insert's leaf overwrite is decided by key equality alone (an equal key can never reach the shifting insertion); " +
			"PT3 height is incremented only in Put, together with the root replacement, on the path where insert returned a split node; Get/Size/IsEmpty/Height are the obvious projections; Put inserts with isRemoved=false, Remove with true. " +
			"Decides these necessary conditions; sortedness, split arithmetic and the height bound are index arithmetic and are not decided.",
		Assumptions: []string{"go/ssa faithful to the source", "gogu.Equal is ==, gogu.Less is < (checked by C13's OD2 rule)", "BTree is single-threaded as documented"},
		NotDecided:  []string{"sortedness of node entries", "the split arithmetic", "the log2 height bound", "Traverse order"},
		Run:         runC10,
	})
}

// condEdge classifies the outgoing edge idx of block b: returns the condition value
// (NOTs stripped) and the truth value it has on that edge.
func condEdge(b *ssa.BasicBlock, idx int) (ssa.Value, bool, bool) {
	iff := path.BlockIf(b)
	if iff == nil {
		return nil, false, false
	}
	v := iff.Cond
	truth := idx == 0
	for {
		if u, ok := v.(*ssa.UnOp); ok && u.Op == token.NOT {
			v = u.X
			truth = !truth
			continue
		}
		break
	}
	return v, truth, true
}

func cutEdges(pred func(v ssa.Value, truth bool) bool) func(*ssa.BasicBlock, int) bool {
	return func(b *ssa.BasicBlock, idx int) bool {
		v, truth, ok := condEdge(b, idx)
		return ok && pred(v, truth)
	}
}

func runC10(p *core.Program, r *core.Report) {
	c := rc{p, r}
	// maxChildren and its half are the node capacity the statement is about
	noSingledOutValue(c, []string{"btree/btree.go"}, namedIntConsts(p, "btree", "maxChildren"))
	workOnEveryPath(c, "btree.(*BTree).Traverse", "traversal started on every path", "", "", []string{"traverse"}, "Traverse returns on a path that never walks the tree: for some states nothing is visited")
	const T = "btree.(*BTree)."
	const N = "btree.(*node)."
	fGet, fPut, fRemove, fTrav, fSize, fEmpty, fHeight := c.fn(T+"Get"), c.fn(T+"Put"), c.fn(T+"Remove"), c.fn(T+"Traverse"), c.fn(T+"Size"), c.fn(T+"IsEmpty"), c.fn(T+"Height")
	for _, f := range []*ssa.Function{fGet, fPut, fRemove, fTrav, fSize, fEmpty, fHeight} {
		if f == nil {
			return
		}
	}
	ftrav, nsearch, ninsert := c.helper(T+"traverse"), c.helper(N+"search"), c.helper(N+"insert")
	all := p.FuncsInFiles("btree/btree.go")
	for _, f := range all {
		r.Functions[p.FuncName(f)] = true
	}
	stateInventory(c, "btree", "BTree", []string{"root", "n", "height"}, all)
	stateInventory(c, "btree", "node", []string{"children", "m"}, all)
	stateInventory(c, "btree", "entry", []string{"key", "value", "next", "isRemoved"}, all)
	equalFn, lessFn := p.Func("gogu.Equal"), p.Func("gogu.Less")
	if equalFn == nil || lessFn == nil {
		r.Fatal("unresolved-anchor: gogu.Equal / gogu.Less")
		return
	}
	// entryOf: v is a load of field `field` of &X.children[idx]; returns (X, idx)
	entryField := func(v ssa.Value, field string) (ssa.Value, ssa.Value, bool) {
		return entryOrCopyField(v, field)
	}
	isRemovedTest := func(v ssa.Value) (ssa.Value, ssa.Value, bool) {
		// direct load or load through a local copy "l := n.children[i]; l.isRemoved"
		return entryOrCopyField(v, "isRemoved")
	}
	liveGuard := func(fn *ssa.Function, b *ssa.BasicBlock, node, idx ssa.Value) bool {
		return boolGuard(fn, b, func(v ssa.Value) bool {
			n, i, ok := isRemovedTest(v)
			return ok && n == node && i == idx
		}, false)
	}

	// ---------------- AG2 search
	if nsearch != nil {
		fn := nsearch
		fname := p.FuncName(fn)
		keyP := paramByName(fn, "key")
		nHit := 0
		for _, b := range fn.Blocks {
			ret, ok := b.Instrs[len(b.Instrs)-1].(*ssa.Return)
			if !ok || len(ret.Results) != 2 {
				continue
			}
			if bc, isC := path.BoolConst(ret.Results[1]); isC {
				if !bc {
					c.ob("AG2", fname, "miss returns the zero value", p.InstrPos(ret), isZeroConst(ret.Results[0]), "the not-found path must return the zero value")
					continue
				}
				nHit++
				node, idx, ok := entryField(ret.Results[0], "value")
				c.ob("PV2", fname, "hit returns the entry's value", p.InstrPos(ret), ok && node == ssa.Value(fn.Params[0]), "the value reported is not children[i].value of the node searched")
				if !ok {
					continue
				}
				// key equality on the same entry
				eq := boolGuard(fn, b, func(v ssa.Value) bool {
					call, ok := v.(*ssa.Call)
					if !ok || path.StaticCallee(call) != equalFn {
						return false
					}
					a := call.Call.Args
					n1, i1, ok1 := entryField(a[1], "key")
					n0, i0, ok0 := entryField(a[0], "key")
					return (ok1 && a[0] == ssa.Value(keyP) && n1 == node && i1 == idx) || (ok0 && a[1] == ssa.Value(keyP) && n0 == node && i0 == idx)
				}, true)
				c.ob("AG3", fname, "hit only on key equality", p.InstrPos(ret), eq, "search reports an entry whose key was not compared equal to the probe")
				c.ob("AG2", fname, "hit guarded by the tombstone", p.InstrPos(ret), liveGuard(fn, b, node, idx), "search reports an entry without testing isRemoved on it: a removed key is still found")
				x := newPathCtx(p)
				c.ob("AG3", fname, "entries are leaves only at height 0", p.InstrPos(ret), hasFact(edgeFacts(x, fn, b), "height", "==", "0"), "values are read from a node that is not known to be external (height == 0)")
				continue
			}
			// delegated return: results of the recursive call
			okD := false
			if ex, ok := ret.Results[1].(*ssa.Extract); ok {
				if call, ok := ex.Tuple.(*ssa.Call); ok && path.StaticCallee(call) == fn {
					if e0, ok := ret.Results[0].(*ssa.Extract); ok && e0.Tuple == ex.Tuple && e0.Index == 0 && ex.Index == 1 {
						okD = true
					}
				}
			}
			c.ob("AG2", fname, "internal level returns the subtree's answer", p.InstrPos(ret), okD, "a non-constant result of search is not the unmodified result of the recursive search")
		}
		c.ob("AG2", fname, "hit path exists", c.fpos(fn), nHit >= 1, "search has no return with true")
	}
	// ---------------- AG2 traverse
	if ftrav != nil {
		fn := ftrav
		fname := p.FuncName(fn)
		cb := funcParam(fn)
		nCalls := 0
		for _, call := range path.CallsOfValue(fn, cb, true) {
			nCalls++
			if call.Parent() != fn {
				c.und("AG2", fname, "visitor call", p.InstrPos(call), "visitor invoked inside a closure")
				continue
			}
			a := call.Common().Args
			var node, idx ssa.Value
			okA := false
			if len(a) == 2 {
				// key and value of one entry (possibly through a local copy)
				kn, ki, ok1 := entryOrCopyField(a[0], "key")
				vn, vi, ok2 := entryOrCopyField(a[1], "value")
				if ok1 && ok2 && kn == vn && ki == vi {
					okA = true
					node, idx = kn, ki
				}
			}
			c.ob("PV2", fname, "visitor gets key and value of one entry", p.InstrPos(call), okA, "the visitor's key and value do not come from the same entry")
			if okA {
				c.ob("AG2", fname, "visit guarded by the tombstone", p.InstrPos(call), liveGuard(fn, call.Block(), node, idx), "traverse visits an entry without testing isRemoved on it: a removed key is still listed")
				x := newPathCtx(p)
				c.ob("AG3", fname, "entries are leaves only at depth 0", p.InstrPos(call), hasFact(edgeFacts(x, fn, call.Block()), "depth", "==", "0"), "the visitor is invoked on entries of a node that is not known to be external")
			}
		}
		c.ob("AG2", fname, "visitor call exists", c.fpos(fn), nCalls == 1, "traverse must call the visitor at exactly one site")
		// the scans over the entries end only through their own test: a removed entry is
		// skipped, it does not end the scan (nor does anything else)
		{
			sites := append([]ssa.CallInstruction{}, path.CallsOfValue(fn, cb, true)...)
			sites = append(sites, callsTo(fn, fn)...)
			done := map[*ssa.BasicBlock]bool{}
			for _, site := range sites {
				if site.Parent() != fn {
					continue
				}
				for _, h := range fn.Blocks {
					loop := path.NaturalLoop(h)
					if len(loop) == 0 || !loop[site.Block()] || done[h] {
						continue
					}
					done[h] = true
					early := false
					for b := range loop {
						for _, sc := range b.Succs {
							if !loop[sc] && b != h {
								early = true
							}
						}
					}
					c.ob("PT5", fname, "entry scan runs to its end", p.InstrPos(site), !early, "the scan over a node's entries can be left before its own test fails (a break, or a return inside the loop): entries behind that point - for instance live ones after a removed one - are not visited")
				}
			}
		}
		// recursion: children[i].next, depth-1, same visitor, forward scan
		nrec := 0
		for _, call := range callsTo(fn, fn) {
			nrec++
			a := call.Common().Args
			okN := false
			var idx ssa.Value
			if u, ok := a[1].(*ssa.UnOp); ok && u.Op == token.MUL {
				if fa, ok := u.X.(*ssa.FieldAddr); ok && isFieldOf(fa, "entry", "next") {
					if ia, ok := fa.X.(*ssa.IndexAddr); ok {
						if ca, ok := ia.X.(*ssa.FieldAddr); ok && isFieldOf(ca, "node", "children") && ca.X == ssa.Value(paramByName(fn, "n")) {
							okN = true
							idx = ia.Index
						}
					}
				}
			}
			x := newPathCtx(p)
			okD := x.path(a[2]) == "(depth-1)" && a[3] == ssa.Value(cb)
			c.ob("AG3", fname, "recursion into children[i].next at depth-1", p.InstrPos(call), okN && okD, "traverse must recurse into n.children[i].next with depth-1 and the same visitor")
			if idx != nil {
				c.ob("PT5", fname, "children visited in index order", p.InstrPos(call), isForwardInduction(idx), "the subtrees must be visited by a forward scan i = 0, 1, ... < m")
			}
		}
		c.ob("AG3", fname, "one recursion site", c.fpos(fn), nrec == 1, "traverse must recurse at exactly one site")
		// Traverse starts at the root with the tree height
		for _, call := range callsTo(fTrav, fn) {
			a := call.Common().Args
			c.ob("AG3", p.FuncName(fTrav), "starts at the root with the height", p.InstrPos(call), isLoadOfField(a[1], "BTree", "root") && isLoadOfField(a[2], "BTree", "height") && a[3] == ssa.Value(funcParam(fTrav)), "Traverse must start traverse(t.root, t.height, fn)")
		}
	}
	// ---------------- who writes the tombstone
	{
		n := 0
		for _, f := range all {
			for _, in := range path.Instrs(f) {
				st, ok := in.(*ssa.Store)
				if !ok {
					continue
				}
				fa, ok := st.Addr.(*ssa.FieldAddr)
				if !ok || !isFieldOf(fa, "entry", "isRemoved") {
					continue
				}
				n++
				okW := ninsert != nil && f == ninsert && st.Val == ssa.Value(paramByName(ninsert, "isRemoved"))
				c.ob("AG2", p.FuncName(f), "tombstone written", p.InstrPos(st), okW, "entry.isRemoved must be written only by insert's overwrite branch, from its isRemoved parameter")
			}
		}
		c.ob("AG2", "btree.(*node).insert", "tombstone writer exists", "-", n >= 1, "no function writes entry.isRemoved: Remove cannot take effect")
	}
	// ---------------- insert: leaf overwrite decided by key equality alone
	if ninsert != nil {
		fn := ninsert
		fname := p.FuncName(fn)
		keyP, valP := paramByName(fn, "key"), paramByName(fn, "val")
		var mInc *ssa.Store
		for _, st := range fieldStores([]*ssa.Function{fn}, "node", "m") {
			mInc = st
		}
		c.ob("AG4", fname, "entry count step", c.fpos(fn), mInc != nil, "insert never increments node.m")
		// Equal(key, children[j].key) tests in the leaf loop
		nEq := 0
		for _, b := range fn.Blocks {
			iff := path.BlockIf(b)
			if iff == nil {
				continue
			}
			v, _, _ := condEdge(b, 0)
			call, ok := v.(*ssa.Call)
			if !ok || path.StaticCallee(call) != equalFn {
				continue
			}
			a := call.Call.Args
			node, idx, okE := entryField(a[1], "key")
			if !okE || a[0] != ssa.Value(keyP) {
				node, idx, okE = entryField(a[0], "key")
				if !okE || a[1] != ssa.Value(keyP) {
					continue
				}
			}
			nEq++
			// the true edge
			tIdx := 0
			if _, truth, _ := condEdge(b, 0); !truth {
				tIdx = 1
			}
			tb := b.Succs[tIdx]
			// from the equal edge the shifting insertion (m++) must be unreachable
			seen := map[*ssa.BasicBlock]bool{}
			var visit func(x *ssa.BasicBlock)
			visit = func(x *ssa.BasicBlock) {
				if seen[x] {
					return
				}
				seen[x] = true
				for _, s := range x.Succs {
					visit(s)
				}
			}
			visit(tb)
			reach := mInc != nil && seen[mInc.Block()]
			c.ob("AG3", fname, "equal key is overwritten, never inserted again", p.InstrPos(iff), !reach, "from the edge on which the key equals an existing leaf entry the shifting insertion is reachable: the key can be stored twice (e.g. when the overwrite is skipped for a tombstoned entry)")
			// on that edge: value and tombstone of that same entry are stored
			okVal, okTomb := false, false
			for x := range seen {
				for _, in := range x.Instrs {
					st, ok := in.(*ssa.Store)
					if !ok {
						continue
					}
					fa, ok := st.Addr.(*ssa.FieldAddr)
					if !ok {
						continue
					}
					ia, ok := fa.X.(*ssa.IndexAddr)
					if !ok || ia.Index != idx {
						continue
					}
					ca, ok := ia.X.(*ssa.FieldAddr)
					if !ok || ca.X != node {
						continue
					}
					if isFieldOf(fa, "entry", "value") && st.Val == ssa.Value(valP) && x.Dominates(x) && tb.Dominates(x) {
						okVal = true
					}
					if isFieldOf(fa, "entry", "isRemoved") && tb.Dominates(x) {
						okTomb = true
					}
				}
			}
			c.ob("PV2", fname, "overwrite stores the new value", p.InstrPos(iff), okVal, "the equal-key branch does not store val into the matching entry")
			c.ob("AG2", fname, "overwrite stores the tombstone flag", p.InstrPos(iff), okTomb, "the equal-key branch does not store isRemoved into the matching entry: Put cannot revive and Remove cannot bury the key")
			x := newPathCtx(p)
			c.ob("AG3", fname, "overwrite only in leaves", p.InstrPos(iff), hasFact(edgeFacts(x, fn, b), "height", "==", "0"), "the equality test runs on a node not known to be external")
		}
		c.ob("AG3", fname, "leaf equality test", c.fpos(fn), nEq == 1, "insert must compare the key for equality with the leaf entries at exactly one site")
	}
	// ---------------- AG3 descent agreement (search, insert)
	for _, fn := range []*ssa.Function{nsearch, ninsert} {
		if fn == nil {
			continue
		}
		fname := p.FuncName(fn)
		keyP := paramByName(fn, "key")
		hIdx := -1
		for i, prm := range fn.Params {
			if prm.Name() == "height" {
				hIdx = i
			}
		}
		nrec := 0
		for _, call := range callsTo(fn, fn) {
			nrec++
			a := call.Common().Args
			var idx ssa.Value
			okN := false
			if u, ok := a[0].(*ssa.UnOp); ok && u.Op == token.MUL {
				if fa, ok := u.X.(*ssa.FieldAddr); ok && isFieldOf(fa, "entry", "next") {
					if ia, ok := fa.X.(*ssa.IndexAddr); ok {
						if ca, ok := ia.X.(*ssa.FieldAddr); ok && isFieldOf(ca, "node", "children") && ca.X == ssa.Value(fn.Params[0]) {
							okN = true
							idx = ia.Index
						}
					}
				}
			}
			x := newPathCtx(p)
			okArgs := hIdx >= 0 && x.path(a[hIdx]) == "(height-1)"
			for i, prm := range fn.Params {
				if prm == keyP && a[i] != ssa.Value(keyP) {
					okArgs = false
				}
			}
			c.ob("AG3", fname, "descent into children[i].next with height-1", p.InstrPos(call), okN && okArgs, "the descent must continue in n.children[i].next with height-1 and the same key")
			if !okN {
				continue
			}
			isNext := func(v ssa.Value) bool {
				bo, ok := v.(*ssa.BinOp)
				if !ok || bo.Op != token.ADD || bo.X != idx {
					return false
				}
				k, ok := path.IntConst(bo.Y)
				return ok && k == 1
			}
			// with the edges (i+1 == m) true and Less(key, children[i+1].key) true cut, the call must be unreachable
			cut := cutEdges(func(v ssa.Value, truth bool) bool {
				if !truth {
					return false
				}
				if bo, ok := v.(*ssa.BinOp); ok && bo.Op == token.EQL {
					if (isNext(bo.X) && isLoadOfField(bo.Y, "node", "m")) || (isNext(bo.Y) && isLoadOfField(bo.X, "node", "m")) {
						return true
					}
				}
				if cl, ok := v.(*ssa.Call); ok && path.StaticCallee(cl) == lessFn {
					ca := cl.Call.Args
					if ca[0] == ssa.Value(keyP) {
						if nd, i2, ok := entryField(ca[1], "key"); ok && nd == ssa.Value(fn.Params[0]) && isNext(i2) {
							return true
						}
					}
				}
				return false
			})
			reach := reachableAvoiding(fn, cut, nil)
			c.ob("AG3", fname, "child chosen by (i+1 == m || key < children[i+1].key)", p.InstrPos(call), !reach[call.Block()],
				"the subtree is entered on a path that passes neither 'last child' (i+1 == n.m) nor 'key < next separator': search and insert must pick the last child whose separator is <= key")
			c.ob("PT5", fname, "children scanned forward", p.InstrPos(call), isForwardInduction(idx), "the separators must be scanned by a forward loop i = 0, 1, ...")
			x2 := newPathCtx(p)
			c.ob("AG3", fname, "descent only in internal nodes", p.InstrPos(call), hasFact(edgeFacts(x2, fn, call.Block()), "height", "!=", "0"), "the descent runs on a node not known to be internal (height != 0)")
		}
		c.ob("AG3", fname, "one descent site", c.fpos(fn), nrec == 1, "exactly one recursive descent is expected")
	}
	// ---------------- every entry of a node is examined: the three scans over children run i = 0 .. m-1
	for _, fn := range []*ssa.Function{nsearch, ninsert, ftrav} {
		if fn == nil {
			continue
		}
		fname := p.FuncName(fn)
		x := newPathCtx(p)
		nScan := 0
		seen := map[ssa.Value]bool{}
		for _, in := range path.Instrs(fn) {
			ia, ok := in.(*ssa.IndexAddr)
			if !ok {
				continue
			}
			ca, ok := ia.X.(*ssa.FieldAddr)
			if !ok || !isFieldOf(ca, "node", "children") {
				continue
			}
			ph, ok := ia.Index.(*ssa.Phi)
			if !ok || seen[ph] || phiStep(ph) != +1 {
				continue
			}
			seen[ph] = true
			nScan++
			k, isK := path.IntConst(phiInit(ph))
			bound := guardedByHeader(ph, func(cd path.Cond) bool {
				return cd.Op == token.LSS && cd.X == ssa.Value(ph) && (x.path(cd.Y) == "n.m" || isLoadOfField(cd.Y, "node", "m"))
			})
			c.ob("PT5", fname, "entries scanned from 0 while i < m", p.InstrPos(ia), isK && k == 0 && bound, "a scan over a node's entries does not start at 0 or is not bounded by i < n.m: entries are skipped")
		}
		c.ob("PT5", fname, "entry scans", c.fpos(fn), nScan >= 1, "no forward scan over the node's entries found")
	}
	// Put inserts on every path; who writes the node arrays
	{
		isIns := func(in ssa.Instruction) bool {
			call, ok := in.(ssa.CallInstruction)
			return ok && ninsert != nil && path.StaticCallee(call) == ninsert
		}
		mn, mx := path.MinCount(fPut, isIns), path.MaxCount(fPut, isIns)
		c.ob("PT1", p.FuncName(fPut), "inserts exactly once on every path", c.fpos(fPut), mn == 1 && mx == 1, fmt.Sprintf("Put calls insert %d..%s times depending on the path", mn, countStr(mx)))
		writers := map[string]bool{"insert": true, "split": true, "Put": true, "newNode": true, "New": true}
		for _, f := range all {
			for _, in := range path.Instrs(f) {
				st, ok := in.(*ssa.Store)
				if !ok {
					continue
				}
				isNodeWrite := false
				switch a := st.Addr.(type) {
				case *ssa.FieldAddr:
					if isFieldOf(a, "node", "m") || isFieldOf(a, "entry", "key") || isFieldOf(a, "entry", "next") || isFieldOf(a, "entry", "value") {
						isNodeWrite = true
					}
				case *ssa.IndexAddr:
					if ca, ok := a.X.(*ssa.FieldAddr); ok && isFieldOf(ca, "node", "children") {
						isNodeWrite = true
					}
				}
				if !isNodeWrite {
					continue
				}
				if al, ok := rootAlloc(st.Addr); ok && !al.Heap {
					continue // a local entry literal
				}
				c.ob("AG1", p.FuncName(f), "writes node entries", p.InstrPos(st), writers[f.Name()], "node entries are written by a function the rules do not cover")
			}
		}
	}

	// ---------------- split conserves the upper half: every entry n.children[m+i] is copied to
	// h.children[i] for i = 0 .. m-1, unconditionally, and both halves get m = maxChildren/2
	if fSplit := c.helper(T + "split"); fSplit != nil {
		fn := fSplit
		fname := p.FuncName(fn)
		x := newPathCtx(p)
		var sib ssa.Value
		newNodeFn := p.Func("btree.newNode")
		for _, call := range callsTo(fn, newNodeFn) {
			sib = call.(ssa.Value)
			k, ok := path.IntConst(call.Common().Args[0])
			c.ob("AG4", fname, "sibling holds half the entries", p.InstrPos(call), ok && k == 2, "the new sibling must be created with m = maxChildren/2")
		}
		c.ob("AG4", fname, "one sibling", c.fpos(fn), sib != nil, "split must create the sibling with newNode(maxChildren/2)")
		for _, st := range fieldStores([]*ssa.Function{fn}, "node", "m") {
			k, ok := path.IntConst(st.Val)
			base := st.Addr.(*ssa.FieldAddr).X
			c.ob("AG4", fname, "entry count halved", p.InstrPos(st), ok && k == 2 && base == ssa.Value(fn.Params[1]), "the split node must keep exactly maxChildren/2 entries")
		}
		nCopy := 0
		for _, in := range path.Instrs(fn) {
			st, ok := in.(*ssa.Store)
			if !ok {
				continue
			}
			ia, ok := st.Addr.(*ssa.IndexAddr)
			if !ok {
				continue
			}
			ca, ok := ia.X.(*ssa.FieldAddr)
			if !ok || !isFieldOf(ca, "node", "children") {
				continue
			}
			nCopy++
			okDst := ca.X == sib && isForwardInduction(ia.Index)
			okSrc := false
			if lu, ok := st.Val.(*ssa.UnOp); ok {
				if sa, ok := lu.X.(*ssa.IndexAddr); ok {
					if sc, ok := sa.X.(*ssa.FieldAddr); ok && isFieldOf(sc, "node", "children") && sc.X == ssa.Value(fn.Params[1]) {
						if bo, ok := sa.Index.(*ssa.BinOp); ok && bo.Op == token.ADD {
							a, b := bo.X, bo.Y
							if b != ia.Index {
								a, b = b, a
							}
							okSrc = b == ia.Index && isLoadOfField(a, "node", "m")
						}
					}
				}
			}
			// the same copy written as a range over the upper half n.children[n.m:]:
			// same index on both sides, and the slice holds exactly m entries
			// (array length = 2 * the constant stored to n.m)
			rangeForm := false
			if lu, ok := st.Val.(*ssa.UnOp); ok && !okSrc {
				if sa, ok := lu.X.(*ssa.IndexAddr); ok && sa.Index == ia.Index {
					if sl, ok := sa.X.(*ssa.Slice); ok && sl.High == nil && sl.Low != nil && isLoadOfField(sl.Low, "node", "m") {
						if sc, ok := sl.X.(*ssa.FieldAddr); ok && isFieldOf(sc, "node", "children") && sc.X == ssa.Value(fn.Params[1]) {
							if si, ok := classifyScan(x, fn, ia.Index, sl); ok && si.dir == +1 && ca.X == sib {
								if arr, ok := sc.Type().(*types.Pointer).Elem().Underlying().(*types.Array); ok {
									for _, ms := range fieldStores([]*ssa.Function{fn}, "node", "m") {
										if k, ok := path.IntConst(ms.Val); ok && 2*k == arr.Len() && ms.Block().Dominates(st.Block()) {
											rangeForm = true
										}
									}
								}
							}
						}
					}
				}
			}
			if rangeForm {
				okDst, okSrc = true, true
			}
			c.ob("PV2", fname, "upper half copied entry by entry", p.InstrPos(st), okDst && okSrc, "split must copy n.children[n.m+i] into sibling.children[i] with i scanning forward")
			// unconditional within the loop: no per-entry decision
			decs := 0
			for _, g := range path.Guards(fn, st.Block()) {
				ib := g.Block()
				if len(path.NaturalLoop(ib)) > 0 {
					continue // the loop's own continuation test
				}
				decs++
			}
			c.ob("PV3", fname, "every entry of the upper half is copied", p.InstrPos(st), decs == 0 && loopDepth(fn, st.Block()) == 1, "the copy is conditional: entries (e.g. tombstoned ones) can be dropped, which leaves the sibling short or empty while its first key is still used as the separator")
			// loop bound i < n.m
			okB := guardedBy(fn, st.Block(), func(cd path.Cond, truth bool) bool {
				return normCmp(cd.Op, truth) == "<" && cd.X == ia.Index && x.path(cd.Y) == "n.m"
			})
			c.ob("PT5", fname, "copies m entries", p.InstrPos(st), okB || rangeForm, "the copy loop must run while i < n.m")
		}
		c.ob("PV2", fname, "one copy site", c.fpos(fn), nCopy == 1, "expected exactly one entry copy in split")
		for _, b := range fn.Blocks {
			if rt, ok := b.Instrs[len(b.Instrs)-1].(*ssa.Return); ok {
				c.ob("PV1", fname, "returns the sibling", p.InstrPos(rt), rt.Results[0] == sib, "split must return the new sibling")
			}
		}
	}

	// ---------------- Get / Size / IsEmpty / Height
	{
		fn := fGet
		fname := p.FuncName(fn)
		okG := false
		for _, in := range path.Instrs(fn) {
			ret, ok := in.(*ssa.Return)
			if !ok || len(ret.Results) != 2 {
				continue
			}
			e0, ok0 := ret.Results[0].(*ssa.Extract)
			e1, ok1 := ret.Results[1].(*ssa.Extract)
			if ok0 && ok1 && e0.Tuple == e1.Tuple && e0.Index == 0 && e1.Index == 1 {
				if call, ok := e0.Tuple.(*ssa.Call); ok && nsearch != nil && path.StaticCallee(call) == nsearch {
					a := call.Call.Args
					if isLoadOfField(a[0], "BTree", "root") && a[2] == ssa.Value(paramByName(fn, "key")) && isLoadOfField(a[3], "BTree", "height") {
						okG = true
						continue
					}
				}
			}
			okG = false
			c.ob("PV1", fname, "result", p.InstrPos(ret), false, "Get returns something other than the unmodified result of root.search(t, key, t.height)")
		}
		c.ob("PV1", fname, "Get is the search from the root", c.fpos(fn), okG, "Get must return root.search(t, key, t.height) unmodified")
		ret := accessorReturn(fSize)
		c.ob("CM1", p.FuncName(fSize), "Size reports the counter", c.fpos(fSize), ret != nil && isLoadOfField(ret, "BTree", "n"), "Size must return BTree.n")
		ret = accessorReturn(fHeight)
		c.ob("CM1", p.FuncName(fHeight), "Height reports the level count", c.fpos(fHeight), ret != nil && isLoadOfField(ret, "BTree", "height"), "Height must return BTree.height")
		ret = accessorReturn(fEmpty)
		x := newPathCtx(p)
		got := ""
		if ret != nil {
			got = x.path(ret)
		}
		c.ob("CM1", p.FuncName(fEmpty), "IsEmpty is Size == 0", c.fpos(fEmpty), got == "(t.n==0)" || got == "(0==t.n)" || got == "(t.n<=0)" || got == "(t.n<1)", fmt.Sprintf("IsEmpty returns %q, expected Size() == 0", got))
	}
	// ---------------- AG4 counters
	isLookup := func(v ssa.Value, keyP *ssa.Parameter) bool { // v = ok of Get(key) / search(..key..)
		ex, ok := v.(*ssa.Extract)
		if !ok || ex.Index != 1 {
			return false
		}
		call, ok := ex.Tuple.(*ssa.Call)
		if !ok {
			return false
		}
		cal := path.StaticCallee(call)
		if cal == fGet {
			return call.Call.Args[1] == ssa.Value(keyP)
		}
		if nsearch != nil && cal == nsearch {
			return call.Call.Args[2] == ssa.Value(keyP) && isLoadOfField(call.Call.Args[0], "BTree", "root") && isLoadOfField(call.Call.Args[3], "BTree", "height")
		}
		return false
	}
	for _, st := range fieldStores(all, "BTree", "n") {
		fn := st.Parent()
		fname := p.FuncName(fn)
		step := ""
		if bo, ok := st.Val.(*ssa.BinOp); ok && isLoadOfField(bo.X, "BTree", "n") {
			if k, ok := path.IntConst(bo.Y); ok && k == 1 {
				step = bo.Op.String()
			}
		}
		keyP := paramByName(fn, "key")
		if keyP == nil || (fn != fPut && fn != fRemove) {
			c.ob("AG4", fname, "counter written", p.InstrPos(st), false, "BTree.n is written outside Put and Remove")
			continue
		}
		wantStep := "+"
		if fn == fRemove {
			wantStep = "-"
		}
		c.ob("AG4", fname, "counter step", p.InstrPos(st), step == wantStep, "Put must increment and Remove decrement the key count by exactly one")
		// edges that prove absence / presence of the key
		absence := cutEdges(func(v ssa.Value, truth bool) bool { return isLookup(v, keyP) && !truth })
		anyTombstoneLoad := func(v ssa.Value) bool {
			if _, _, ok := isRemovedTest(v); ok {
				return true
			}
			if u, ok := v.(*ssa.UnOp); ok && u.Op == token.MUL {
				if fa, ok := u.X.(*ssa.FieldAddr); ok && isFieldOf(fa, "entry", "isRemoved") {
					return true
				}
			}
			return false
		}
		presence := cutEdges(func(v ssa.Value, truth bool) bool {
			return (isLookup(v, keyP) && truth) || (anyTombstoneLoad(v) && !truth)
		})
		var ins []ssa.CallInstruction
		for _, call := range callsTo(fn, ninsert) {
			ins = append(ins, call)
		}
		c.ob("AG4", fname, "insert call", c.fpos(fn), len(ins) == 1, "exactly one call of insert is expected")
		if fn == fPut {
			reachA := reachableAvoiding(fn, absence, nil)
			c.ob("AG4", fname, "count only absent keys", p.InstrPos(st), !reachA[st.Block()], "the increment is reachable without passing the 'lookup of the key found nothing' edge: re-putting an existing key is counted again")
			reachB := reachableAvoiding(fn, presence, map[*ssa.BasicBlock]bool{st.Block(): true})
			under := false
			for _, call := range ins {
				if reachB[call.Block()] && call.Block() != st.Block() {
					under = true
				}
			}
			c.ob("AG4", fname, "every new key is counted", p.InstrPos(st), !under, "the insertion is reachable on a path that neither increments the counter nor passes the 'key found' edge")
		} else {
			reachA := reachableAvoiding(fn, presence, nil)
			c.ob("AG4", fname, "uncount only live keys", p.InstrPos(st), !reachA[st.Block()], "the decrement is reachable without passing the 'lookup of the key found a live entry' edge: removing an absent or already removed key changes Size")
			reachB := reachableAvoiding(fn, presence, nil)
			over := false
			for _, call := range ins {
				if reachB[call.Block()] {
					over = true
				}
			}
			c.ob("AG4", fname, "tombstone only live keys", p.InstrPos(st), !over, "the tombstoning insert is reachable for a key that was not found live: an absent key would be inserted as a tombstone")
			// decrement and tombstoning happen together
			reachC := reachableAvoiding(fn, nil, map[*ssa.BasicBlock]bool{st.Block(): true})
			skip := false
			for _, call := range ins {
				if reachC[call.Block()] && call.Block() != st.Block() {
					skip = true
				}
			}
			c.ob("AG4", fname, "tombstone and decrement together", p.InstrPos(st), !skip, "the tombstoning insert is reachable around the decrement")
		}
		// arguments of the insert
		for _, call := range ins {
			a := call.Common().Args
			if len(a) != 6 {
				c.und("AG2", fname, "insert from the root with the right tombstone flag", p.InstrPos(call), "insert no longer takes (t, key, val, height, isRemoved): the tombstone protocol the rules are phrased over changed")
				continue
			}
			bc, isC := path.BoolConst(a[5])
			okA := isLoadOfField(a[0], "BTree", "root") && a[2] == ssa.Value(keyP) && isLoadOfField(a[4], "BTree", "height") && isC && bc == (fn == fRemove)
			c.ob("AG2", fname, "insert from the root with the right tombstone flag", p.InstrPos(call), okA, "Put must call root.insert(t, key, val, t.height, false) and Remove root.insert(t, key, _, t.height, true)")
		}
	}
	// ---------------- Remove gives up only for a key the lookup did not find
	if keyP := paramByName(fRemove, "key"); keyP != nil && ninsert != nil {
		fn := fRemove
		absence := cutEdges(func(v ssa.Value, truth bool) bool { return isLookup(v, keyP) && !truth })
		stop := map[*ssa.BasicBlock]bool{}
		for _, call := range callsTo(fn, ninsert) {
			stop[call.Block()] = true
		}
		reach := reachableAvoiding(fn, absence, stop)
		for _, b := range fn.Blocks {
			rt, ok := b.Instrs[len(b.Instrs)-1].(*ssa.Return)
			if !ok || b == fn.Recover || !reach[b] || stop[b] {
				continue
			}
			c.ob("PT3", p.FuncName(fn), "gives up only for an absent key", p.InstrPos(rt), false, "Remove returns without tombstoning on a path that has not passed the 'lookup of the key found nothing' edge: a present key stays in the tree")
		}
		c.ob("PT3", p.FuncName(fn), "tombstoning reachable", c.fpos(fn), len(stop) >= 1, "Remove never reaches the tombstoning insert")
	}
	// ---------------- height only on a root split
	{
		sts := fieldStores(all, "BTree", "height")
		c.ob("PT3", p.FuncName(fPut), "height writer", c.fpos(fPut), len(sts) == 1, "BTree.height must be written at exactly one site")
		for _, st := range sts {
			fn := st.Parent()
			fname := p.FuncName(fn)
			inc := false
			if bo, ok := st.Val.(*ssa.BinOp); ok && bo.Op == token.ADD && isLoadOfField(bo.X, "BTree", "height") {
				if k, ok := path.IntConst(bo.Y); ok && k == 1 {
					inc = true
				}
			}
			// dominated by "insert's result != nil"
			split := guardedBy(fn, st.Block(), func(cd path.Cond, truth bool) bool {
				v := cd.X
				if path.IsNil(v) {
					v = cd.Y
				} else if !path.IsNil(cd.Y) {
					return false
				}
				call, ok := v.(*ssa.Call)
				if !ok || ninsert == nil || path.StaticCallee(call) != ninsert {
					return false
				}
				return (cd.Op == token.NEQ) == truth
			})
			c.ob("PT3", fname, "height grows by one, only when the root split", p.InstrPos(st), fn == fPut && inc && split, "height must be incremented by one, in Put, on the path where insert returned a split node")
			// root replaced in the same region with two children: old root and the split node
			okRoot := false
			for _, rs := range fieldStores([]*ssa.Function{fn}, "BTree", "root") {
				if rs.Block() == st.Block() || rs.Block().Dominates(st.Block()) || st.Block().Dominates(rs.Block()) {
					okRoot = true
				}
			}
			c.ob("PT3", fname, "root replaced with the height", p.InstrPos(st), okRoot, "the height changes without the root being replaced on the same path")
		}
		for _, rs := range fieldStores(all, "BTree", "root") {
			fn := rs.Parent()
			ok := fn == fPut || fn.Name() == "New"
			c.ob("AG1", p.FuncName(fn), "root written", p.InstrPos(rs), ok, "BTree.root is written outside New and Put")
		}
	}
}

// entryOrCopyField: v is field `field` of n.children[i], read directly or through
// a local by-value copy of the entry.
func entryOrCopyField(v ssa.Value, field string) (ssa.Value, ssa.Value, bool) {
	fromAddr := childrenAt
	switch x := v.(type) {
	case *ssa.UnOp:
		if x.Op != token.MUL {
			return nil, nil, false
		}
		fa, ok := x.X.(*ssa.FieldAddr)
		if !ok || !isFieldOf(fa, "entry", field) {
			return nil, nil, false
		}
		if n, i, ok := fromAddr(fa.X); ok {
			return n, i, true
		}
		if al, ok := fa.X.(*ssa.Alloc); ok {
			for _, rf := range *al.Referrers() {
				if st, ok := rf.(*ssa.Store); ok && st.Addr == ssa.Value(al) {
					if lu, ok := st.Val.(*ssa.UnOp); ok && lu.Op == token.MUL {
						return fromAddr(lu.X)
					}
				}
			}
		}
	case *ssa.Field:
		if fieldName(x.X.Type(), x.Field) != field {
			return nil, nil, false
		}
		if lu, ok := x.X.(*ssa.UnOp); ok && lu.Op == token.MUL {
			return fromAddr(lu.X)
		}
	}
	return nil, nil, false
}

// isForwardInduction: v is a phi with initial value 0 whose other edges are v+1.
func isForwardInduction(v ssa.Value) bool {
	ph, ok := v.(*ssa.Phi)
	if !ok {
		return false
	}
	zero, inc := 0, 0
	for _, e := range ph.Edges {
		if k, ok := path.IntConst(e); ok && k == 0 {
			zero++
			continue
		}
		if bo, ok := e.(*ssa.BinOp); ok && bo.Op == token.ADD && bo.X == ssa.Value(ph) {
			if k, ok := path.IntConst(bo.Y); ok && k == 1 {
				inc++
				continue
			}
		}
		return false
	}
	return zero == 1 && inc >= 1
}

// rootAlloc: the Alloc an address is derived from (through FieldAddr/IndexAddr), if any.
func rootAlloc(v ssa.Value) (*ssa.Alloc, bool) {
	for i := 0; i < 6; i++ {
		switch x := v.(type) {
		case *ssa.Alloc:
			return x, true
		case *ssa.FieldAddr:
			v = x.X
		case *ssa.IndexAddr:
			v = x.X
		default:
			return nil, false
		}
	}
	return nil, false
}

// childrenAt: addr is &X.children[idx], indexed directly or through a prefix slice
// X.children[:k] (same coordinates); returns (X, idx).
func childrenAt(addr ssa.Value) (ssa.Value, ssa.Value, bool) {
	ia, ok := addr.(*ssa.IndexAddr)
	if !ok {
		return nil, nil, false
	}
	base := ia.X
	if sl, ok := base.(*ssa.Slice); ok && sl.Low == nil {
		base = sl.X
	}
	ca, ok := base.(*ssa.FieldAddr)
	if !ok || !isFieldOf(ca, "node", "children") {
		return nil, nil, false
	}
	return ca.X, ia.Index, true
}
