package props

import (
	"fmt"
	"go/constant"
	"go/token"
	"go/types"

	"golang.org/x/tools/go/ssa"

	"gogucheck/path"
)

// OD2: comparison-only functions against their defining inequality.
//
// A function whose body consists only of comparisons between its numeric
// parameters (and integer constants), negation, branches, phis, calls of a
// comparator parameter and returns of parameters / negated parameters / constants
// is completely determined by the order type of its arguments. The rule first
// checks that the body is of that form (anything else is undecided) and then
// tabulates the function over representatives of every order type (integers in
// [-2,2] per parameter: closed under negation, covers every weak ordering of up to
// three values relative to each other and to 0) and compares with the specification.

type od2Env struct {
	params map[*ssa.Parameter]int64
	comp   func(a, b int64) bool // oracle for calls of a func-typed parameter
	// inModule, when set, lets the body call other functions of the module that are
	// themselves of the accepted form (InRange written on top of Clamp): they are
	// interpreted in turn, to a small depth
	inModule func(*ssa.Function) bool
	depth    int
	// scale: the parameters range over a dense order (a type parameter that admits
	// floats): representatives are given in units of 1/scale and every constant of
	// such a type in the body is multiplied by scale, so that values strictly between
	// two consecutive integer constants are represented (0 < x < 1)
	scale int64
}

// od2Dense: constants of this type are in the units of the parameters.
func od2Dense(t types.Type) bool {
	if _, ok := t.(*types.TypeParam); ok {
		return true
	}
	b, ok := t.Underlying().(*types.Basic)
	return ok && b.Info()&types.IsFloat != 0
}

type od2Val struct {
	isBool bool
	b      bool
	n      int64
}

// od2Eval interprets fn under env; ok=false when the body leaves the accepted form.
func od2Eval(fn *ssa.Function, env od2Env) (res od2Val, ok bool, why string) {
	vals := map[ssa.Value]od2Val{}
	var get func(v ssa.Value) (od2Val, bool)
	get = func(v ssa.Value) (od2Val, bool) {
		switch x := v.(type) {
		case *ssa.Parameter:
			n, ok := env.params[x]
			return od2Val{n: n}, ok
		case *ssa.Const:
			if x.Value == nil {
				return od2Val{}, false
			}
			sc := int64(1)
			if env.scale > 1 && od2Dense(x.Type()) {
				sc = env.scale
			}
			switch x.Value.Kind() {
			case constant.Int:
				n, exact := constant.Int64Val(x.Value)
				if sc > 1 && (n > 1 || n < -1) {
					// a constant of the parameters' type beyond +-1: the representatives
					// (-2 .. 2) no longer have a value on both sides of it
					return od2Val{}, false
				}
				return od2Val{n: n * sc}, exact
			case constant.Bool:
				return od2Val{isBool: true, b: constant.BoolVal(x.Value)}, true
			case constant.Float:
				f, _ := constant.Float64Val(x.Value)
				f *= float64(sc)
				if f == float64(int64(f)) {
					return od2Val{n: int64(f)}, true
				}
			}
			return od2Val{}, false
		}
		r, ok := vals[v]
		return r, ok
	}
	if len(fn.Blocks) == 0 {
		return od2Val{}, false, "no body"
	}
	b := fn.Blocks[0]
	var prev *ssa.BasicBlock
	for steps := 0; steps < 200; steps++ {
		for _, in := range b.Instrs {
			switch x := in.(type) {
			case *ssa.Phi:
				for i, p := range b.Preds {
					if p == prev {
						v, ok := get(x.Edges[i])
						if !ok {
							return od2Val{}, false, "phi operand outside the accepted form"
						}
						vals[x] = v
					}
				}
			case *ssa.BinOp:
				l, ok1 := get(x.X)
				r, ok2 := get(x.Y)
				if !ok1 || !ok2 || l.isBool || r.isBool {
					return od2Val{}, false, "operand of " + x.Op.String() + " outside the accepted form"
				}
				var bv bool
				switch x.Op {
				case token.LSS:
					bv = l.n < r.n
				case token.LEQ:
					bv = l.n <= r.n
				case token.GTR:
					bv = l.n > r.n
				case token.GEQ:
					bv = l.n >= r.n
				case token.EQL:
					bv = l.n == r.n
				case token.NEQ:
					bv = l.n != r.n
				default:
					return od2Val{}, false, "arithmetic " + x.Op.String() + " (not comparison-only)"
				}
				vals[x] = od2Val{isBool: true, b: bv}
			case *ssa.UnOp:
				o, ok := get(x.X)
				if !ok {
					return od2Val{}, false, "unary operand outside the accepted form"
				}
				switch x.Op {
				case token.SUB:
					vals[x] = od2Val{n: -o.n}
				case token.NOT:
					vals[x] = od2Val{isBool: true, b: !o.b}
				default:
					return od2Val{}, false, "unary " + x.Op.String()
				}
			case *ssa.Call:
				prm, isP := x.Call.Value.(*ssa.Parameter)
				if callee := path.StaticCallee(x); !isP && callee != nil && env.inModule != nil && env.inModule(callee) && env.depth < 3 && len(callee.Params) == len(x.Call.Args) && len(callee.Blocks) > 0 {
					sub := od2Env{params: map[*ssa.Parameter]int64{}, comp: env.comp, inModule: env.inModule, depth: env.depth + 1, scale: env.scale}
					okArgs := true
					for i, a := range x.Call.Args {
						v, ok := get(a)
						if !ok || v.isBool {
							if _, isFn := a.Type().Underlying().(*types.Signature); isFn {
								continue // the comparator handed on
							}
							okArgs = false
							break
						}
						sub.params[callee.Params[i]] = v.n
					}
					if !okArgs {
						return od2Val{}, false, "argument of " + callee.Name() + " outside the accepted form"
					}
					res, ok, why := od2Eval(callee, sub)
					if !ok {
						return od2Val{}, false, callee.Name() + ": " + why
					}
					vals[x] = res
					continue
				}
				if !isP || env.comp == nil || len(x.Call.Args) != 2 {
					return od2Val{}, false, "call outside the accepted form"
				}
				_ = prm
				l, ok1 := get(x.Call.Args[0])
				r, ok2 := get(x.Call.Args[1])
				if !ok1 || !ok2 {
					return od2Val{}, false, "comparator argument outside the accepted form"
				}
				vals[x] = od2Val{isBool: true, b: env.comp(l.n, r.n)}
			case *ssa.If:
				cv, ok := get(x.Cond)
				if !ok || !cv.isBool {
					return od2Val{}, false, "branch condition outside the accepted form"
				}
				prev = b
				if cv.b {
					b = b.Succs[0]
				} else {
					b = b.Succs[1]
				}
			case *ssa.Jump:
				prev = b
				b = b.Succs[0]
			case *ssa.Return:
				if len(x.Results) != 1 {
					return od2Val{}, false, "not a single result"
				}
				v, ok := get(x.Results[0])
				if !ok {
					return od2Val{}, false, "returned value outside the accepted form"
				}
				return v, true, ""
			case *ssa.DebugRef:
			default:
				return od2Val{}, false, fmt.Sprintf("instruction %T (not comparison-only)", in)
			}
			if _, isIf := in.(*ssa.If); isIf {
				break
			}
			if _, isJ := in.(*ssa.Jump); isJ {
				break
			}
		}
	}
	return od2Val{}, false, "did not terminate (loop)"
}

type od2Spec struct {
	name   string
	nNum   int                                             // numeric parameters (the first nNum)
	comp   bool                                            // last parameter is a comparator
	domain func(a []int64) bool                            // restriction of the specification's domain (nil = all)
	want   func(a []int64, c func(x, y int64) bool) od2Val // specification
}

func od2Check(c rc, spec od2Spec) {
	fn := c.fn(spec.name)
	if fn == nil {
		return
	}
	if len(fn.Params) != spec.nNum+map[bool]int{true: 1, false: 0}[spec.comp] {
		c.und("OD2", spec.name, "signature", c.fpos(fn), "the function's parameters changed; the specification table no longer applies")
		return
	}
	reps := []int64{-2, -1, 0, 1, 2}
	scale := int64(1)
	if spec.nNum > 0 && od2Dense(fn.Params[0].Type()) {
		// a dense order: half units, so that the open interval between two consecutive
		// integer constants of the body has a representative
		scale = 2
		reps = []int64{-4, -3, -2, -1, 0, 1, 2, 3, 4}
	}
	resScale := int64(1)
	if od2Dense(fn.Signature.Results().At(0).Type()) {
		resScale = scale
	}
	// comparator oracles: the four boolean pairs (comp(a,b), comp(b,a)) are produced by <, >, never, always
	oracles := []func(x, y int64) bool{nil}
	if spec.comp {
		oracles = []func(x, y int64) bool{
			func(x, y int64) bool { return x < y },
			func(x, y int64) bool { return x > y },
			func(x, y int64) bool { return false },
			func(x, y int64) bool { return x <= y },
		}
	}
	args := make([]int64, spec.nNum)
	bad := 0
	n := 0
	var rec func(i int)
	rec = func(i int) {
		if i == spec.nNum {
			if spec.domain != nil && !spec.domain(args) {
				return
			}
			for oi, o := range oracles {
				env := od2Env{params: map[*ssa.Parameter]int64{}, comp: o, inModule: c.p.InModule, scale: scale}
				for k := 0; k < spec.nNum; k++ {
					env.params[fn.Params[k]] = args[k]
				}
				got, ok, why := od2Eval(fn, env)
				n++
				if !ok {
					if bad == 0 {
						c.und("OD2", spec.name, "comparison-only form", c.fpos(fn), "the function is no longer built from comparisons of its parameters only ("+why+"); its table cannot be computed")
					}
					bad++
					continue
				}
				want := spec.want(args, o)
				okV := got.isBool == want.isBool && got.b == want.b && got.n == want.n
				c.r.Obligation("OD2", okV, map[string]any{"rule": "OD2", "function": spec.name, "order_type_representative": append([]int64(nil), args...), "oracle": oi, "ok": okV})
				if !okV {
					bad++
					if bad <= 1 {
						c.r.Violation(coreDiag("OD2", spec.name, "defining inequality", c.fpos(fn),
							fmt.Sprintf("for arguments ordered like %s (comparator case %d) the function yields %s, its definition requires %s", od2Show(args, scale), oi, od2Res(got, resScale), od2Res(want, resScale))))
					}
				}
			}
			return
		}
		for _, r := range reps {
			args[i] = r
			rec(i + 1)
		}
	}
	rec(0)
	_ = path.Unbounded
}

func od2Str(v od2Val) string {
	if v.isBool {
		return fmt.Sprint(v.b)
	}
	return fmt.Sprint(v.n)
}

// od2Show prints representatives in the units of the source (half units when the
// parameters range over a dense order).
func od2Show(a []int64, scale int64) string {
	out := "["
	for i, x := range a {
		if i > 0 {
			out += " "
		}
		out += fmt.Sprint(float64(x) / float64(scale))
	}
	return out + "]"
}

func od2Res(v od2Val, scale int64) string {
	if v.isBool {
		return fmt.Sprint(v.b)
	}
	return fmt.Sprint(float64(v.n) / float64(scale))
}
