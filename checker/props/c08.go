package props

import (
	"fmt"
	"go/token"
	"go/types"
	"sort"
	"strings"

	"golang.org/x/tools/go/ssa"

	"gogucheck/core"
	"gogucheck/lockset"
	"gogucheck/order"
	"gogucheck/path"
)

func init() {
	register(&Check{
		ID: "C08",
		Explanation: "Error discipline and decision logic of cache/cache.go, decided structurally: ER1 no error result of an in-module callee is dropped by a function that itself returns error; ER2 a return reached " +
			"only when a callee failed does not return the constant nil error; ER3 errors.Unwrap is never applied to a result of errors.Join (it yields nil for every joined error); OD1 every decision that reads " +
			"Item.expiration (Get's 'expired' answer, DeleteExpired's deletion, IsExpired's true answer) is tabulated over the abstract points {-1, 0, 0<e<now, e=now, e>now} the writer can store and the tables " +
			"must agree (finite order abstraction, engine E6); OD3 IsExpired's true answer is feasible under the callee return summaries; PT3 the janitor goroutine is started only under cleanupTime > 0 and its only " +
			"access to the cache is DeleteExpired (AG1); Set reaches its store on no path on which the lookup found a live entry, Update reaches its store on every feasible path; Delete/get address the entry " +
			"under the caller's key. WR1 what put leaves under the key carries nothing over from the entry it replaces (a fresh allocation, or an item written in place whose deadline is stored on every path). Locking and atomicity are C01/C02. Everything genuinely timed is not decided.",
		Assumptions: []string{"go/ssa faithful to the source", "errors.Join/Unwrap contracts", "time.Now is monotone enough that 'now' exceeds every small constant"},
		NotDecided:  []string{"liveness at every instant before the deadline", "cleanup within about one interval", "strictness at the exact deadline nanosecond", "scheduling of the janitor"},
		Run:         runC08,
	})
}

func errorResultIndex(sig *types.Signature) int {
	n := sig.Results().Len()
	if n == 0 {
		return -1
	}
	if t := sig.Results().At(n - 1).Type(); types.Identical(t, types.Universe.Lookup("error").Type()) {
		return n - 1
	}
	return -1
}

// er1: dropped error results of in-module callees, in functions that return error.
func er1(p *core.Program, r *core.Report, fns []*ssa.Function) {
	for _, fn := range fns {
		if errorResultIndex(fn.Signature) < 0 {
			continue
		}
		name := p.FuncName(fn)
		for _, in := range path.Instrs(fn) {
			call, ok := in.(*ssa.Call)
			if !ok {
				continue
			}
			callee := path.StaticCallee(call)
			if callee == nil || !p.InModule(callee) {
				continue
			}
			ei := errorResultIndex(callee.Signature)
			if ei < 0 {
				continue
			}
			used := false
			if callee.Signature.Results().Len() == 1 {
				used = len(*call.Referrers()) > 0
			} else {
				for _, ref := range *call.Referrers() {
					if ex, ok := ref.(*ssa.Extract); ok && ex.Index == ei && len(*ex.Referrers()) > 0 {
						used = true
					}
				}
			}
			r.Obligation("ER1", used, map[string]any{"rule": "ER1", "function": name, "callee": p.FuncName(callee), "at": p.InstrPos(in), "error_used": used})
			if !used {
				r.Violation(core.Diag{Rule: "ER1", Func: name, Object: "dropped error of " + p.FuncName(callee), Pos: p.InstrPos(in),
					Reason: "the error returned by " + p.FuncName(callee) + " is discarded: a rejected value or duplicate key is not reported to the caller"})
			}
		}
	}
}

// er2: returns dominated by "callee error != nil" must not return the nil constant.
func er2(p *core.Program, r *core.Report, fns []*ssa.Function) {
	for _, fn := range fns {
		ei := errorResultIndex(fn.Signature)
		if ei < 0 {
			continue
		}
		name := p.FuncName(fn)
		for _, b := range fn.Blocks {
			ret, ok := b.Instrs[len(b.Instrs)-1].(*ssa.Return)
			if !ok || len(ret.Results) <= ei {
				continue
			}
			for _, g := range path.Guards(fn, b) {
				x, nonNilOnTrue, ok := path.NilTestOf(g.If)
				if !ok {
					continue
				}
				if _, isErr := x.Type().Underlying().(*types.Interface); !isErr || !types.Identical(x.Type(), types.Universe.Lookup("error").Type()) {
					continue
				}
				// is x the error result of a call?
				fromCall := false
				for _, o := range path.Origins(x) {
					switch v := o.(type) {
					case *ssa.Call:
						fromCall = true
					case *ssa.Extract:
						if _, ok := v.Tuple.(*ssa.Call); ok {
							fromCall = true
						}
					}
				}
				if !fromCall {
					continue
				}
				failed := (g.Idx == 0) == nonNilOnTrue // this edge means "err != nil"
				if !failed {
					continue
				}
				okR := !path.IsNil(path.ReturnValues(ret)[ei])
				r.Obligation("ER2", okR, map[string]any{"rule": "ER2", "function": name, "at": p.InstrPos(ret), "returns_non_nil_error_on_failure_path": okR})
				if !okR {
					r.Violation(core.Diag{Rule: "ER2", Func: name, Object: "nil error on failure path", Pos: p.InstrPos(ret),
						Reason: "this return is reached only when a callee reported an error, yet it returns the constant nil error (shadowed or forgotten error variable): the failure is silent"})
				}
			}
		}
	}
}

// er3: errors.Unwrap applied to errors.Join.
func er3(p *core.Program, r *core.Report, fns []*ssa.Function) {
	for _, fn := range fns {
		name := p.FuncName(fn)
		for _, in := range path.Instrs(fn) {
			if !path.IsCallTo(in, "errors", "Unwrap") {
				continue
			}
			c := in.(ssa.CallInstruction)
			joined := false
			for _, o := range path.Origins(c.Common().Args[0]) {
				if oc, ok := o.(*ssa.Call); ok && path.IsCallTo(oc, "errors", "Join") {
					joined = true
				}
			}
			r.Obligation("ER3", !joined, map[string]any{"rule": "ER3", "function": name, "at": p.InstrPos(in), "unwraps_joined_error": joined})
			if joined {
				r.Violation(core.Diag{Rule: "ER3", Func: name, Object: "Unwrap(Join)", Pos: p.InstrPos(in),
					Reason: "errors.Unwrap is applied to a result of errors.Join; Unwrap returns nil for every joined error, so the collected errors are lost"})
			}
		}
	}
}

func isExpirationLoad(v ssa.Value) bool {
	u, ok := v.(*ssa.UnOp)
	if !ok || u.Op != token.MUL {
		return false
	}
	f, ok := slotOf(u.X, "Item")
	return ok && f == "expiration"
}

func isClockValue(v ssa.Value) bool {
	for _, o := range path.Origins(v) {
		// a variable captured by a closure: what the enclosing function bound to it
		if fv, isFV := o.(*ssa.FreeVar); isFV {
			if !freeVarIsClock(fv) {
				return false
			}
			continue
		}
		if u, isLoad := o.(*ssa.UnOp); isLoad && u.Op == token.MUL {
			if fv, isFV := u.X.(*ssa.FreeVar); isFV {
				if !freeVarIsClock(fv) {
					return false
				}
				continue
			}
		}
		c, ok := o.(*ssa.Call)
		if !ok || !path.IsCallTo(c, "time", "Time.UnixNano") {
			return false
		}
		// receiver must come from time.Now() (directly, not Now().Add(d))
		rc, ok := c.Call.Args[0].(*ssa.Call)
		if !ok || !path.IsCallTo(rc, "time", "Now") {
			return false
		}
	}
	return true
}

// freeVarIsClock: every closure creation binds the captured variable to a clock value
// (directly, or to a local cell whose only stores are clock values).
func freeVarIsClock(fv *ssa.FreeVar) bool {
	fn := fv.Parent()
	par := fn.Parent()
	if par == nil {
		return false
	}
	idx := -1
	for i, f := range fn.FreeVars {
		if f == fv {
			idx = i
		}
	}
	n := 0
	for _, in := range path.Instrs(par) {
		mc, ok := in.(*ssa.MakeClosure)
		if !ok || mc.Fn != ssa.Value(fn) || idx >= len(mc.Bindings) {
			continue
		}
		n++
		b := mc.Bindings[idx]
		if al, isCell := b.(*ssa.Alloc); isCell {
			stores := 0
			for _, rf := range *al.Referrers() {
				if st, ok := rf.(*ssa.Store); ok && st.Addr == ssa.Value(al) {
					stores++
					if !isClockValue(st.Val) {
						return false
					}
				}
			}
			if stores == 0 {
				return false
			}
			continue
		}
		if !isClockValue(b) {
			return false
		}
	}
	return n > 0
}

func runC08(p *core.Program, r *core.Report) {
	noSingledOutValue(rc{p, r}, []string{"cache/cache.go"}, nil)
	fns := p.FuncsInFiles("cache/cache.go")
	if len(fns) < 15 {
		r.Fatal("vacuous: %d functions found in cache/cache.go, floor is 15", len(fns))
	}
	for _, fn := range fns {
		r.Functions[p.FuncName(fn)] = true
	}
	er1(p, r, fns)
	er2(p, r, fns)
	er3(p, r, fns)

	excl := func(callee *ssa.Function) [][2]int { return lockset.ExclusivePairs(p, callee) }
	expiryAgreement(p, r, fns)
	c08Store(p, r, fns)

	// ---- OD3: a boolean API's "true" answer must be feasible
	if fn := mustFunc(p, r, "cache.(*Cache).IsExpired"); fn != nil {
		feasibleTrue := false
		path.WalkFeasible(fn, excl, func(b *ssa.BasicBlock, f path.NilFacts) {
			if ret, ok := b.Instrs[len(b.Instrs)-1].(*ssa.Return); ok && len(ret.Results) == 1 {
				for _, o := range path.Origins(path.ReturnValues(ret)[0]) {
					if v, isC := path.BoolConst(o); !isC || v {
						feasibleTrue = true
					}
				}
			}
		})
		// ... and the true answer is given only on a path that compared the entry's deadline
		// (OD1 tabulates those comparisons; a true that no such comparison guards is not a
		// statement about the entry at all)
		readsDeadline := func(v ssa.Value) bool {
			for _, o := range valueOrigins(v) {
				if u, ok := o.(*ssa.UnOp); ok && u.Op == token.MUL {
					if f, ok := slotOf(u.X, "Item"); ok && f == "expiration" {
						return true
					}
				}
			}
			return false
		}
		for _, alt := range returnAlternatives(fn, 0) {
			if bc, isC := path.BoolConst(alt.val); !isC || !bc {
				continue
			}
			okT := guardedBy(fn, alt.blk, func(cd path.Cond, truth bool) bool { return readsDeadline(cd.X) || readsDeadline(cd.Y) })
			r.Obligation("OD3", okT, map[string]any{"rule": "OD3", "function": "cache.(*Cache).IsExpired", "what": "true only after comparing the entry's deadline", "at": p.InstrPos(alt.ret), "ok": okT})
			if !okT {
				r.Violation(core.Diag{Rule: "OD3", Func: "cache.(*Cache).IsExpired", Object: "true answer guarded by the deadline", Pos: p.InstrPos(alt.ret), Reason: "IsExpired answers true on a path that never compared the entry's deadline: live entries (or absent keys) are reported as expired"})
			}
		}
		r.Obligation("OD3", feasibleTrue, map[string]any{"rule": "OD3", "function": "cache.(*Cache).IsExpired", "true_answer_feasible": feasibleTrue})
		if !feasibleTrue {
			r.Violation(core.Diag{Rule: "OD3", Func: "cache.(*Cache).IsExpired", Object: "true answer", Pos: p.Pos(fn.Pos()),
				Reason: "the only 'return true' is guarded by a combination of results its callee never produces (item != nil together with err != nil): IsExpired can never report true"})
		}
	}

	// ---- janitor
	if fn := mustFunc(p, r, "cache.New"); fn != nil {
		found := 0
		for _, in := range path.Instrs(fn) {
			g, ok := in.(*ssa.Go)
			if !ok {
				continue
			}
			found++
			ct := paramByName(fn, "cleanupTime")
			guarded := false
			for _, gd := range path.Guards(fn, in.Block()) {
				cd, ok := path.CondOf(gd.If)
				if !ok || cd.Neg {
					continue
				}
				zeroY, okY := path.IntConst(cd.Y)
				zeroX, okX := path.IntConst(cd.X)
				switch {
				case cd.Op == token.GTR && cd.X == ssa.Value(ct) && okY && zeroY >= 0 && gd.Idx == 0,
					cd.Op == token.LSS && cd.Y == ssa.Value(ct) && okX && zeroX >= 0 && gd.Idx == 0,
					cd.Op == token.LEQ && cd.X == ssa.Value(ct) && okY && zeroY >= 0 && gd.Idx == 1,
					cd.Op == token.GEQ && cd.Y == ssa.Value(ct) && okX && zeroX >= 0 && gd.Idx == 1:
					guarded = true
				}
			}
			// ... and exactly then: no other condition decides whether it starts
			for _, gd := range path.Guards(fn, in.Block()) {
				if gd.Threaded {
					continue // a flag: what it stands for is listed in its place
				}
				cd, ok := path.CondOf(gd.If)
				onInterval := ok && (cd.X == ssa.Value(ct) || cd.Y == ssa.Value(ct))
				if !onInterval {
					r.Obligation("PT3", false, nil)
					r.Violation(core.Diag{Rule: "PT3", Func: "cache.New", Object: "janitor condition", Pos: p.Pos(fn.Pos()),
						Reason: "whether the cleanup goroutine starts depends on something other than the cleanup interval: with a positive interval configured expired entries may never be removed"})
				}
			}
			r.Obligation("PT3", guarded, map[string]any{"rule": "PT3", "what": "janitor started only for a positive cleanup interval", "at": p.InstrPos(g), "ok": guarded})
			if !guarded {
				r.Violation(core.Diag{Rule: "PT3", Func: "cache.New", Object: "janitor start", Pos: p.InstrPos(g),
					Reason: "the cleanup goroutine is not started under 'cleanupTime > 0': a non-positive interval panics in time.NewTicker (or no cleanup runs although one is configured)"})
			}
		}
		if found == 0 {
			r.Obligation("PT3", false, nil)
			r.Violation(core.Diag{Rule: "PT3", Func: "cache.New", Object: "janitor start", Pos: p.Pos(fn.Pos()), Reason: "no cleanup goroutine is started although background cleanup is documented"})
		}
	}
	if fn := mustFunc(p, r, "cache.(*cache).cleanup"); fn != nil {
		var callees []string
		for _, in := range path.Instrs(fn) {
			if c, ok := in.(ssa.CallInstruction); ok {
				if callee := path.StaticCallee(c); callee != nil && p.InModule(callee) {
					callees = append(callees, p.FuncName(callee))
				}
			}
		}
		sort.Strings(callees)
		ok := len(callees) >= 1
		for _, c := range callees {
			if c != "cache.(*cache).DeleteExpired" {
				ok = false
			}
		}
		r.Obligation("AG1", ok, map[string]any{"rule": "AG1", "what": "the janitor touches the cache only through DeleteExpired", "callees": callees})
		if !ok {
			r.Violation(core.Diag{Rule: "AG1", Func: "cache.(*cache).cleanup", Object: "janitor callees", Pos: p.Pos(fn.Pos()),
				Reason: "the cleanup goroutine calls " + strings.Join(callees, ", ") + "; it must remove entries only through the locked expiry scan DeleteExpired"})
		}
		// ticker period is the configured interval
		for _, in := range path.Instrs(fn) {
			if path.IsCallTo(in, "time", "NewTicker") {
				c := in.(ssa.CallInstruction)
				okP := false
				if u, isU := c.Common().Args[0].(*ssa.UnOp); isU && u.Op == token.MUL {
					if f, ok := slotOf(u.X, "cache"); ok && f == "cleanupInt" {
						okP = true
					}
				}
				r.Obligation("AG1", okP, map[string]any{"rule": "AG1", "what": "ticker period is the configured cleanup interval", "ok": okP})
				if !okP {
					r.Violation(core.Diag{Rule: "AG1", Func: "cache.(*cache).cleanup", Object: "ticker period", Pos: p.InstrPos(in), Reason: "the cleanup ticker does not use the configured cleanup interval"})
				}
			}
		}
	}

	cacheSetRule(p, r)
	storeCall := func(in ssa.Instruction) bool {
		return path.IsCallTo(in, cachePkg(p), "Cache.put") || path.IsCallTo(in, cachePkg(p), "Cache.add")
	}
	if fn := mustFunc(p, r, "cache.(*Cache).Update"); fn != nil {
		skipped := false
		path.WalkFeasible(fn, excl, func(b *ssa.BasicBlock, f path.NilFacts) {
			if _, ok := b.Instrs[len(b.Instrs)-1].(*ssa.Return); !ok {
				return
			}
			// a feasible return: some store call must dominate it
			has := false
			for _, in := range path.Instrs(fn) {
				if storeCall(in) && (in.Block() == b || in.Block().Dominates(b)) {
					has = true
				}
			}
			if !has {
				skipped = true
			}
		})
		r.Obligation("PT2", !skipped, map[string]any{"rule": "PT2", "function": "cache.(*Cache).Update", "what": "every feasible path stores", "ok": !skipped})
		if skipped {
			r.Violation(core.Diag{Rule: "PT2", Func: "cache.(*Cache).Update", Object: "store on every path", Pos: p.Pos(fn.Pos()),
				Reason: "some feasible path through Update returns without storing: Update must always store (only the value check inside the store may reject)"})
		}
	}
	// ---- delete / get address the caller's key
	for _, spec := range []struct{ fn, what string }{{"cache.(*cache).delete", "delete"}, {"cache.(*Cache).get", "lookup"}} {
		fn := mustFunc(p, r, spec.fn)
		if fn == nil {
			continue
		}
		keyPar := paramByName(fn, "key")
		for _, in := range path.Instrs(fn) {
			var k ssa.Value
			switch x := in.(type) {
			case *ssa.Lookup:
				if _, isMap := x.X.Type().Underlying().(*types.Map); isMap {
					k = x.Index
				}
			case *ssa.Call:
				if b, ok := x.Call.Value.(*ssa.Builtin); ok && b.Name() == "delete" {
					k = x.Call.Args[1]
				}
			}
			if k == nil {
				continue
			}
			ok := keyPar != nil && k == ssa.Value(keyPar)
			r.Obligation("PV2", ok, map[string]any{"rule": "PV2", "function": spec.fn, "what": spec.what + " addresses the caller's key", "at": p.InstrPos(in), "ok": ok})
			if !ok {
				r.Violation(core.Diag{Rule: "PV2", Func: spec.fn, Object: spec.what + " key", Pos: p.InstrPos(in), Reason: "the map is addressed with something other than the key parameter"})
			}
		}
	}
	// ---- CM1: Count reports the size of the item map: either len(items) itself, or a
	// counter whose every increment is dominated by "key absent from the map" and every
	// decrement by "key present in the map" (tests on the map itself, not on the
	// liveness lookup, which also answers nil for expired entries that are still stored)
	if fn := mustFunc(p, r, "cache.(*Cache).Count"); fn != nil {
		fromMap := false
		counter := ""
		for _, in := range path.Instrs(fn) {
			c, ok := in.(*ssa.Call)
			if !ok {
				continue
			}
			if b, isB := c.Call.Value.(*ssa.Builtin); isB && b.Name() == "len" && loadOfSlot(c.Call.Args[0], "cache", "items") {
				fromMap = true
			}
			for _, a := range c.Call.Args {
				if f, ok := slotOf(a, "cache"); ok && f != "items" && f != "mu" {
					counter = f
				}
			}
		}
		for _, in := range path.Instrs(fn) {
			if u, ok := in.(*ssa.UnOp); ok && u.Op == token.MUL {
				if f, ok := slotOf(u.X, "cache"); ok && f != "items" && f != "mu" {
					if _, isInt := u.Type().Underlying().(*types.Basic); isInt {
						counter = f
					}
				}
			}
		}
		switch {
		case fromMap:
			// ... and nothing else: every return hands back len(items) itself
			okAll := true
			var at ssa.Instruction
			for _, b := range fn.Blocks {
				rt, isRet := b.Instrs[len(b.Instrs)-1].(*ssa.Return)
				if !isRet || b == fn.Recover {
					continue
				}
				for _, o := range valueOrigins(path.ReturnValues(rt)[0]) {
					c, isCall := o.(*ssa.Call)
					bi, isB := (*ssa.Builtin)(nil), false
					if isCall {
						bi, isB = c.Call.Value.(*ssa.Builtin)
					}
					if !isCall || !isB || bi.Name() != "len" || !loadOfSlot(c.Call.Args[0], "cache", "items") {
						okAll, at = false, rt
					}
				}
			}
			r.Obligation("CM1", okAll, map[string]any{"rule": "CM1", "function": "cache.(*Cache).Count", "derives_from": "len(items)"})
			if !okAll {
				r.Violation(core.Diag{Rule: "CM1", Func: "cache.(*Cache).Count", Object: "count source", Pos: p.InstrPos(at), Reason: "a return of Count hands back something other than len(items)"})
			}
		case counter == "":
			r.Obligation("CM1", false, nil)
			r.Undecided(core.Diag{Rule: "CM1", Func: "cache.(*Cache).Count", Object: "count source", Pos: p.Pos(fn.Pos()), Reason: "Count derives neither from len(items) nor from a counter field of the cache"})
		default:
			absent := func(g *ssa.Function, b *ssa.BasicBlock, want bool) bool {
				for _, gd := range path.Guards(g, b) {
					c := gd.If.Cond
					neg := false
					if u, ok := c.(*ssa.UnOp); ok && u.Op == token.NOT {
						neg, c = true, u.X
					}
					ex, ok := c.(*ssa.Extract)
					if !ok || ex.Index != 1 {
						continue
					}
					lk, ok := ex.Tuple.(*ssa.Lookup)
					if !ok || !loadOfSlot(lk.X, "cache", "items") {
						continue
					}
					present := (gd.Idx == 0) != neg
					if present == want {
						return true
					}
				}
				return false
			}
			for _, g := range fns {
				for _, in := range path.Instrs(g) {
					delta, isUpd := int64(0), false
					switch x := in.(type) {
					case *ssa.Call:
						if len(x.Call.Args) == 2 {
							if f, ok := slotOf(x.Call.Args[0], "cache"); ok && f == counter && path.StaticCallee(x) != nil && path.StaticCallee(x).Name() == "Add" {
								if d, ok := path.IntConst(x.Call.Args[1]); ok {
									delta, isUpd = d, true
								}
							}
						}
					case *ssa.Store:
						if f, ok := slotOf(x.Addr, "cache"); ok && f == counter {
							if bo, ok := x.Val.(*ssa.BinOp); ok {
								if d, ok := path.IntConst(bo.Y); ok {
									if bo.Op == token.SUB {
										d = -d
									}
									delta, isUpd = d, true
								}
							}
						}
					}
					if !isUpd || delta == 0 {
						continue
					}
					ok := absent(g, in.Block(), delta < 0)
					r.Obligation("CM1", ok, map[string]any{"rule": "CM1", "function": p.FuncName(g), "counter": counter, "delta": delta, "tied_to_map_membership": ok, "at": p.InstrPos(in)})
					if !ok {
						r.Violation(core.Diag{Rule: "CM1", Func: p.FuncName(g), Object: "counter cache." + counter, Pos: p.InstrPos(in),
							Reason: "Count reports a separate counter, and this update of it is not dominated by a membership test on the item map itself (an expired but still stored entry is 'absent' for the liveness lookup, not for the map): Count drifts away from the map"})
					}
				}
			}
		}
	}

	// ---- the janitor runs concurrently by design: the store/expire/cleanup semantics
	// above only hold if each cache operation is one atomic step (engine E1, rules
	// AT1/AT2 restricted to the cache type; the full lock discipline is C01/C02)
	res := runLockset(p)
	emitLockset(res, r, map[string]bool{"AT1": true, "AT2": true}, map[string]bool{"cache": true})
	r.Floor("OD1", 10)
	r.Floor("ER1", 3)
}

// expiryAgreement is rule OD1: every decision that reads Item.expiration is
// tabulated over the abstract points the writer can store; the tables must agree
// with the lookup's.
func expiryAgreement(p *core.Program, r *core.Report, fns []*ssa.Function) {
	cl := &order.Classifier{IsField: isExpirationLoad, IsClock: isClockValue}
	// closures count as functions of their own (a predicate handed to maps.DeleteFunc
	// decides about expiry like DeleteExpired's loop body did)
	{
		var all []*ssa.Function
		var addf func(f *ssa.Function)
		addf = func(f *ssa.Function) {
			all = append(all, f)
			for _, a := range f.AnonFuncs {
				addf(a)
			}
		}
		for _, f := range fns {
			addf(f)
		}
		fns = all
	}

	// ---- which points can the writer store?
	writer := map[order.Point]bool{}
	for _, fn := range fns {
		for _, in := range path.Instrs(fn) {
			st, ok := in.(*ssa.Store)
			if !ok {
				continue
			}
			if f, ok := slotOf(st.Addr, "Item"); !ok || f != "expiration" {
				continue
			}
			for _, o := range path.Origins(st.Val) {
				if cv, ok := o.(*ssa.Convert); ok {
					o = cv.X
				}
				if c, ok := path.IntConst(o); ok {
					switch {
					case c == -1:
						writer[order.Neg1] = true
					case c == 0:
						writer[order.Zero] = true
					case c > 0:
						writer[order.PosLT], writer[order.PosEQ], writer[order.PosGT] = true, true, true
					default:
						r.Undecided(core.Diag{Rule: "OD1", Func: p.FuncName(fn), Object: "stored expiration", Pos: p.InstrPos(in), Reason: fmt.Sprintf("constant deadline %d outside the abstract points", c)})
					}
				} else {
					// a computed deadline (time.Now().Add(d).UnixNano()): positive, anywhere relative to a later clock reading
					writer[order.PosLT], writer[order.PosEQ], writer[order.PosGT] = true, true, true
				}
			}
		}
	}
	if len(writer) == 0 {
		r.Fatal("unresolved-anchor: no store to Item.expiration found")
		return
	}
	var wpts []order.Point
	for _, pt := range order.Points {
		if writer[pt] {
			wpts = append(wpts, pt)
		}
	}

	// ---- decisions
	type decision struct {
		fn      *ssa.Function
		kind    string // "get", "delete", "isexpired"
		expired func(pt order.Point) (yes, no bool)
	}
	// region of fn where an entry exists: blocks dominated by a block that loads the field
	entryRegion := func(fn *ssa.Function) func(b *ssa.BasicBlock) bool {
		var loads []*ssa.BasicBlock
		for _, in := range path.Instrs(fn) {
			if v, ok := in.(ssa.Value); ok && isExpirationLoad(v) {
				loads = append(loads, in.Block())
			}
		}
		return func(b *ssa.BasicBlock) bool {
			for _, l := range loads {
				if l == b || l.Dominates(b) {
					return true
				}
			}
			return false
		}
	}
	var decisions []decision
	readers := 0
	for _, fn := range fns {
		fn := fn
		hasLoad := false
		for _, in := range path.Instrs(fn) {
			if v, ok := in.(ssa.Value); ok && isExpirationLoad(v) {
				hasLoad = true
			}
		}
		if !hasLoad {
			continue
		}
		readers++
		inRegion := entryRegion(fn)
		name := p.FuncName(fn)
		// classify by what the function decides
		var delCalls, trueRets, itemRets []ssa.Instruction
		for _, in := range path.Instrs(fn) {
			if !inRegion(in.Block()) {
				continue
			}
			if path.IsCallTo(in, cachePkg(p), "cache.delete") {
				delCalls = append(delCalls, in)
			}
			if c, ok := in.(*ssa.Call); ok {
				// deleting directly, or collecting the key for a later deletion
				if b, ok := c.Call.Value.(*ssa.Builtin); ok && (b.Name() == "delete" || b.Name() == "append") {
					delCalls = append(delCalls, in)
				}
			}
			if ret, ok := in.(*ssa.Return); ok {
				if len(ret.Results) == 1 && false {
					if _, isBool := ret.Results[0].Type().Underlying().(*types.Basic); isBool {
						trueRets = append(trueRets, in)
					}
				}
				if len(ret.Results) == 2 {
					if _, isPtr := ret.Results[0].Type().Underlying().(*types.Pointer); isPtr {
						itemRets = append(itemRets, in)
					}
				}
			}
		}
		// boolean answers: every return of the function (which of them an existing
		// entry can reach is decided per point, from the blocks reading the deadline)
		for _, in := range path.Instrs(fn) {
			if ret, ok := in.(*ssa.Return); ok && len(ret.Results) == 1 {
				if bt, isBool := ret.Results[0].Type().Underlying().(*types.Basic); isBool && bt.Kind() == types.Bool {
					trueRets = append(trueRets, in)
				}
			}
		}
		switch {
		case len(delCalls) > 0:
			decisions = append(decisions, decision{fn: fn, kind: "delete", expired: func(pt order.Point) (bool, bool) {
				reach := cl.Reach(fn, pt)
				yes := false
				for _, d := range delCalls {
					if reach[d.Block()] {
						yes = true
					}
				}
				return yes, !yes
			}})
		case len(itemRets) > 0:
			decisions = append(decisions, decision{fn: fn, kind: "get", expired: func(pt order.Point) (bool, bool) {
				reach := cl.Reach(fn, pt)
				yes, no := false, false
				for _, in := range itemRets {
					if !reach[in.Block()] {
						continue
					}
					if path.IsNil(path.ReturnValues(in.(*ssa.Return))[0]) {
						yes = true
					} else {
						no = true
					}
				}
				return yes, no
			}})
		case len(trueRets) > 0:
			decisions = append(decisions, decision{fn: fn, kind: "isexpired", expired: func(pt order.Point) (bool, bool) {
				// which answers can an existing entry with its deadline at pt get:
				// follow the edges from the blocks that read the deadline
				var starts []*ssa.BasicBlock
				for _, in := range path.Instrs(fn) {
					if v, ok := in.(ssa.Value); ok && isExpirationLoad(v) {
						starts = append(starts, in.Block())
					}
				}
				// only the first reads: a read behind another read is reached through it
				var first []*ssa.BasicBlock
				for _, b := range starts {
					dominated := false
					for _, o := range starts {
						if o != b && o.Dominates(b) {
							dominated = true
						}
					}
					if !dominated {
						first = append(first, b)
					}
				}
				reach, edges := cl.ReachFrom(first, pt)
				yes, no := false, false
				for _, in := range trueRets {
					if !reach[in.Block()] {
						continue
					}
					y, n := cl.Answers(path.ReturnValues(in.(*ssa.Return))[0], pt, edges)
					yes = yes || y
					no = no || n
				}
				// no 'true' answer reachable for an existing entry: the function falls
				// through to its negative answer
				if !yes {
					no = true
				}
				return yes, no
			}})
		default:
			r.Undecided(core.Diag{Rule: "OD1", Func: name, Object: "expiry decision", Pos: p.Pos(fn.Pos()),
				Reason: "the function reads Item.expiration but its decision is none of the recognised kinds (lookup result, deletion, boolean answer)"})
		}
	}
	// the reference is the lookup ("get" kind)
	var ref *decision
	for i := range decisions {
		if decisions[i].kind == "get" {
			ref = &decisions[i]
		}
	}
	if ref == nil {
		r.Fatal("unresolved-anchor: no lookup function deciding on Item.expiration found")
		return
	}
	table := map[string]map[string]string{}
	verdict := func(yes, no bool) string {
		switch {
		case yes && !no:
			return "expired"
		case no && !yes:
			return "live"
		case yes && no:
			return "either"
		}
		return "unreachable"
	}
	for _, d := range decisions {
		row := map[string]string{}
		for _, pt := range wpts {
			y, n := d.expired(pt)
			row[pt.String()] = verdict(y, n)
		}
		table[p.FuncName(d.fn)] = row
	}
	r.Extra["expiry_decision_table"] = table
	for _, d := range decisions {
		if d.fn == ref.fn {
			for _, pt := range wpts {
				y, n := d.expired(pt)
				ok := y != n
				r.Obligation("OD1", ok, map[string]any{"rule": "OD1", "function": p.FuncName(d.fn), "point": pt.String(), "verdict": verdict(y, n)})
				if !ok {
					r.Undecided(core.Diag{Rule: "OD1", Func: p.FuncName(d.fn), Object: "lookup at " + pt.String(), Pos: p.Pos(d.fn.Pos()), Reason: "the lookup's answer at this point is not determined by comparisons of the deadline with constants and the clock"})
				}
			}
			continue
		}
		name := p.FuncName(d.fn)
		for _, pt := range wpts {
			ry, rn := ref.expired(pt)
			y, n := d.expired(pt)
			ok := verdict(ry, rn) == verdict(y, n)
			r.Obligation("OD1", ok, map[string]any{"rule": "OD1", "function": name, "point": pt.String(), "verdict": verdict(y, n), "lookup_verdict": verdict(ry, rn)})
			if !ok {
				what := map[string]string{"delete": "removes", "isexpired": "reports as expired"}[d.kind]
				r.Violation(core.Diag{Rule: "OD1", Func: name, Object: "expiry predicate at " + pt.String(), Pos: p.Pos(d.fn.Pos()),
					Reason: fmt.Sprintf("at %s this function treats the entry as '%s' but the lookup (%s) treats it as '%s': 'expired' does not mean the same thing everywhere (%s an entry the lookup serves, or the reverse)",
						pt, verdict(y, n), p.FuncName(ref.fn), verdict(ry, rn), what)})
			}
		}
	}
	if readers < 3 {
		r.Fatal("vacuous: %d functions read Item.expiration, floor is 3 (lookup, DeleteExpired, IsExpired)", readers)
	}

}

// c08Store: who may reach the store primitive, and a rejected store leaves no trace.
func c08Store(p *core.Program, r *core.Report, fns []*ssa.Function) {
	c := rc{p, r}
	{
		c := rc{p, r}
		noAnswerBeforeTheScan(c, "cache.(*cache).DeleteExpired", "cache.(*Cache).MapToCache")
		if sd, set := p.Func("cache.(*Cache).SetDefault"), p.Func("cache.(*Cache).Set"); sd != nil && set != nil {
			okW, _ := returnsCallUnmodified(sd, set)
			c.ob("PV1", "cache.(*Cache).SetDefault", "SetDefault is Set with the default duration", c.fpos(sd), okW, "SetDefault returns something other than the result of Set: some values are silently not stored")
		}
		copiesWholeMap(c, "cache.(*Cache).List")
		workOnEveryPath(c, "cache.(*Cache).Flush", "map reset on every path", "cache", "items", nil, "Flush returns on a path that keeps the entries")
	}
	const T = "cache.(*Cache)."
	put, add, set, update := c.helper(T+"put"), c.helper(T+"add"), c.fn(T+"Set"), c.fn(T+"Update")
	if put == nil || set == nil || update == nil {
		return
	}
	// durations are classed as negative, zero or positive and nothing finer: every
	// comparison of a time.Duration with a literal in put and New separates ..-1 | 0.. or
	// ..0 | 1.. (or tests for 0 or -1, the two named sentinels)
	for _, fn := range []*ssa.Function{put, c.helper("cache.New"), c.helper("cache.newCache")} {
		if fn == nil {
			continue
		}
		for _, in := range path.Instrs(fn) {
			bo, ok := in.(*ssa.BinOp)
			if !ok {
				continue
			}
			isDur := func(v ssa.Value) bool {
				nm, ok := v.Type().(*types.Named)
				return ok && nm.Obj().Name() == "Duration" && nm.Obj().Pkg() != nil && nm.Obj().Pkg().Path() == "time"
			}
			op, x, y := bo.Op, bo.X, bo.Y
			if _, isC := x.(*ssa.Const); isC {
				x, y = y, x
				switch op {
				case token.LSS:
					op = token.GTR
				case token.LEQ:
					op = token.GEQ
				case token.GTR:
					op = token.LSS
				case token.GEQ:
					op = token.LEQ
				}
			}
			k, isK := path.IntConst(y)
			if !isK || !isDur(x) {
				continue
			}
			okB := false
			switch op {
			case token.GTR, token.LEQ: // boundary k | k+1
				okB = k == -1 || k == 0
			case token.GEQ, token.LSS: // boundary k-1 | k
				okB = k == 0 || k == 1
			case token.EQL, token.NEQ:
				okB = k == 0 || k == -1
			default:
				continue
			}
			c.ob("OD1", p.FuncName(fn), "durations classed by sign only", p.InstrPos(bo), okB, fmt.Sprintf("a duration is compared with the literal %d: some positive durations get no deadline (or some non-positive ones do)", k))
		}
	}
	// Get answers what the expiry-aware lookup found, nothing else
	if fget, hget := c.fn(T+"Get"), c.helper(T+"get"); fget != nil && hget != nil {
		okW, at := returnsCallUnmodified(fget, hget)
		pos := c.fpos(fget)
		if at != nil {
			pos = p.InstrPos(at)
		}
		c.ob("PV1", p.FuncName(fget), "Get answers what the lookup found", pos, okW, "Get returns something other than the unmodified results of get(key): an answer that depends on other state is not the entry's")
	}
	// AG1: every insertion that is not an Update goes through Set's liveness test:
	// put is called only by Set and add, add only by Update
	for _, f := range fns {
		for _, call := range callsTo(f, put) {
			ok := f == set || (add != nil && f == add)
			c.ob("AG1", p.FuncName(f), "calls the store primitive", p.InstrPos(call), ok, "the store primitive put is reached from a method other than Set (which first tests for a live entry) and add/Update: an existing live key can be overwritten silently instead of being reported")
		}
		if add != nil {
			for _, call := range callsTo(f, add) {
				c.ob("AG1", p.FuncName(f), "calls the unconditional store", p.InstrPos(call), f == update, "the unconditional store add is called from a method other than Update")
			}
		}
	}
	// ER5: put writes cache state only after every validation passed: no write can reach an error return
	isWrite := func(in ssa.Instruction) bool {
		switch x := in.(type) {
		case *ssa.MapUpdate:
			return isLoadOfField(x.Map, "cache", "items")
		case *ssa.Store:
			if fa, ok := x.Addr.(*ssa.FieldAddr); ok {
				if n := namedOf(fa.X.Type()); n != nil && n.Obj().Name() == "Item" {
					if al, isAl := fa.X.(*ssa.Alloc); isAl && al.Heap {
						return false // the literal of a new item that is not yet in the map
					}
					return true
				}
			}
		}
		return false
	}
	nW := 0
	for _, in := range path.Instrs(put) {
		if !isWrite(in) {
			continue
		}
		nW++
		leak := path.CanReachWithout(in, func(i ssa.Instruction) bool {
			rt, ok := i.(*ssa.Return)
			return ok && len(rt.Results) == 1 && !path.IsNil(rt.Results[0])
		}, func(ssa.Instruction) bool { return false })
		c.ob("ER5", p.FuncName(put), "a rejected store leaves no trace", p.InstrPos(in), !leak, "cache state is written on a path that can still end in an error return: a rejected value (or duplicate) changes the entry although an error is reported")
	}
	c.ob("ER5", p.FuncName(put), "store site", c.fpos(put), nW >= 1, "put never writes the cache")
	// WR1: what put leaves under the key carries no state of the entry it replaces. The
	// item stored into items is a fresh allocation (its unwritten fields are zero: "never
	// expires" for d == 0), or - if an existing item can be reused - its expiration is
	// written on every path to the successful return.
	for _, in := range path.Instrs(put) {
		var stored ssa.Value
		switch x := in.(type) {
		case *ssa.MapUpdate:
			if isLoadOfField(x.Map, "cache", "items") {
				stored = x.Value
			}
		}
		if stored == nil {
			continue
		}
		fresh := true
		for _, o := range valueOrigins(stored) {
			if al, ok := o.(*ssa.Alloc); !ok || !al.Heap {
				fresh = false
			}
		}
		okW := fresh
		if !fresh {
			isExp := func(i ssa.Instruction) bool {
				st, ok := i.(*ssa.Store)
				if !ok {
					return false
				}
				f, ok := slotOf(st.Addr, "Item")
				return ok && f == "expiration"
			}
			okW = path.MinCount(put, isExp) >= 1
		}
		c.ob("WR1", p.FuncName(put), "the stored entry carries nothing over from the one it replaces", p.InstrPos(in), okW, "put stores an item that can be the entry already held under the key, and does not write its deadline on every path (the d == 0 'never expires' case keeps the old deadline): an overwritten entry inherits the expiry of the entry it replaced")
	}
	// ... and nothing else in put may write an item that is already in the map
	for _, in := range path.Instrs(put) {
		st, ok := in.(*ssa.Store)
		if !ok {
			continue
		}
		fa, ok := st.Addr.(*ssa.FieldAddr)
		if !ok {
			continue
		}
		if n := namedOf(fa.X.Type()); n == nil || n.Obj().Name() != "Item" {
			continue
		}
		freshBase := true
		for _, o := range valueOrigins(fa.X) {
			if al, ok := o.(*ssa.Alloc); !ok || !al.Heap {
				freshBase = false
			}
		}
		if freshBase {
			continue
		}
		isExp := func(i ssa.Instruction) bool {
			s2, ok := i.(*ssa.Store)
			if !ok {
				return false
			}
			f, ok := slotOf(s2.Addr, "Item")
			return ok && f == "expiration"
		}
		c.ob("WR1", p.FuncName(put), "an item written in place gets its deadline on every path", p.InstrPos(st), path.MinCount(put, isExp) >= 1, "put writes into an item that may already be in the map without setting its deadline on every path: the d == 0 'never expires' case keeps the deadline of the replaced entry")
	}
}

// cacheSetRule (shared by C08 and C17): Set decides "already there" through the
// expiry-aware lookup of its own key, and its store is unreachable when that lookup
// found a live entry.  For C17 this is what lets SetDefault replace an expired entry
// with the freshly computed value.
func cacheSetRule(p *core.Program, r *core.Report) {
	excl := func(callee *ssa.Function) [][2]int { return lockset.ExclusivePairs(p, callee) }
	// ---- Set: the store is unreachable when the lookup found a live entry; Update: every feasible path stores
	storeCall := func(in ssa.Instruction) bool {
		return path.IsCallTo(in, cachePkg(p), "Cache.put") || path.IsCallTo(in, cachePkg(p), "Cache.add")
	}
	lookupCall := func(in ssa.Instruction) bool {
		return path.IsCallTo(in, cachePkg(p), "Cache.get") || path.IsCallTo(in, cachePkg(p), "Cache.Get")
	}
	if fn := mustFunc(p, r, "cache.(*Cache).Set"); fn != nil {
		var look *ssa.Call
		for _, in := range path.Instrs(fn) {
			if lookupCall(in) {
				look = in.(*ssa.Call)
				break
			}
		}
		keyPar := paramByName(fn, "key")
		okLook := look != nil && keyPar != nil && len(look.Call.Args) == 2 && look.Call.Args[1] == ssa.Value(keyPar)
		r.Obligation("PT3", okLook, map[string]any{"rule": "PT3", "function": "cache.(*Cache).Set", "what": "Set looks its own key up first", "ok": okLook})
		if !okLook {
			r.Violation(core.Diag{Rule: "PT3", Func: "cache.(*Cache).Set", Object: "liveness test", Pos: p.Pos(fn.Pos()), Reason: "Set does not look its key up before storing: a live entry would be overwritten"})
		} else {
			var item, errv ssa.Value
			for _, ref := range *look.Referrers() {
				if ex, ok := ref.(*ssa.Extract); ok {
					if ex.Index == 0 {
						item = ex
					} else {
						errv = ex
					}
				}
			}
			bad := false
			stores := 0
			path.WalkFeasible(fn, excl, func(b *ssa.BasicBlock, f path.NilFacts) {
				for _, in := range b.Instrs {
					if storeCall(in) {
						stores++
						c := in.(ssa.CallInstruction)
						if len(c.Common().Args) < 2 || c.Common().Args[1] != ssa.Value(keyPar) {
							bad = true
						}
						// live entry: item != nil (which implies err == nil)
						if item != nil {
							// on every path to the store the lookup must be known to have
							// found no live entry: item == nil, or err != nil
							absent := false
							if v, known := f[item]; known && !v {
								absent = true
							}
							if errv != nil {
								if v, known := f[errv]; known && v {
									absent = true
								}
							}
							if !absent || !look.Block().Dominates(b) {
								bad = true
							}
						}
					}
				}
			})
			ok := !bad && stores > 0 && item != nil
			r.Obligation("PT3", ok, map[string]any{"rule": "PT3", "function": "cache.(*Cache).Set", "what": "store unreachable when the lookup found a live entry", "ok": ok})
			if !ok {
				r.Violation(core.Diag{Rule: "PT3", Func: "cache.(*Cache).Set", Object: "store guard", Pos: p.Pos(fn.Pos()),
					Reason: "Set can reach its store although the lookup of the same key returned a live entry (or without looking the key up): an existing entry is overwritten instead of being rejected with an error"})
			}
		}
	}
}
