package props

import (
	"fmt"
	"go/token"
	"go/types"

	"golang.org/x/tools/go/ssa"

	"gogucheck/core"
	"gogucheck/path"
)

// funcParam returns the first parameter of function type.
func funcParam(fn *ssa.Function) *ssa.Parameter {
	for _, p := range fn.Params {
		if _, ok := p.Type().Underlying().(*types.Signature); ok {
			return p
		}
	}
	return nil
}

func paramByName(fn *ssa.Function, name string) *ssa.Parameter {
	for _, p := range fn.Params {
		if p.Name() == name {
			return p
		}
	}
	return nil
}

func mustFunc(p *core.Program, r *core.Report, name string) *ssa.Function {
	fn := p.Func(name)
	if fn == nil || len(fn.Blocks) == 0 {
		r.Fatal("unresolved-anchor: function %s not found in the current tree", name)
		return nil
	}
	r.Functions[name] = true
	return fn
}

func isCallOf(al map[ssa.Value]bool) func(ssa.Instruction) bool {
	return func(in ssa.Instruction) bool {
		c, ok := in.(ssa.CallInstruction)
		return ok && !c.Common().IsInvoke() && al[c.Common().Value]
	}
}

// callbackCountRule: PT1 - at most max calls of the callback on every path of fn
// (closures included: a call inside a closure counts at the closure's creation...
// no closure calls the callback in this file; a callback reaching a closure is
// reported as undecided).
func callbackAtMostOnce(p *core.Program, r *core.Report, fn *ssa.Function, cb *ssa.Parameter) (int, []ssa.CallInstruction) {
	name := p.FuncName(fn)
	al := path.Aliases(fn, cb, true)
	calls := path.CallsOfValue(fn, cb, true)
	for _, c := range calls {
		if c.Parent() != fn {
			r.Undecided(core.Diag{Rule: "PT1", Func: name, Object: "callback " + cb.Name(), Pos: p.InstrPos(c), Reason: "the callback is invoked inside a closure; call counting is per function"})
		}
	}
	n := path.MaxCount(fn, isCallOf(al))
	ok := n <= 1
	r.Obligation("PT1", ok, map[string]any{"rule": "PT1", "function": name, "callback": cb.Name(), "call_sites": len(calls), "max_calls_on_a_path": countStr(n)})
	if !ok {
		pos := p.Pos(fn.Pos())
		if len(calls) > 0 {
			pos = p.InstrPos(calls[len(calls)-1])
		}
		r.Violation(core.Diag{Rule: "PT1", Func: name, Object: "callback " + cb.Name(), Pos: pos,
			Reason: fmt.Sprintf("the callback can run %s times on one path (at most once is promised)", countStr(n))})
	}
	return n, calls
}

func countStr(n int) string {
	if n >= path.Unbounded {
		return "unboundedly many"
	}
	return fmt.Sprint(n)
}

// loadsOf: loads through pointer value ptr (or its aliases).
func isLoadOf(al map[ssa.Value]bool, v ssa.Value) bool {
	u, ok := v.(*ssa.UnOp)
	return ok && u.Op == token.MUL && al[u.X]
}

func init() {
	register(&Check{
		ID: "C18",
		Explanation: "Call-count and ordering rules on the SSA control-flow graph of After, Before, Once, Retry and RetryWithDelay (engine E4): PT1 the callback runs at most once on every path (longest-path count on " +
			"the acyclic condensation; a call on a cycle counts as unbounded); the caller-owned counter is decremented exactly once on every path; every callback call is guarded by a comparison of the counter with a constant; " +
			"Once stores and returns the result of the one call and calls nothing on the hit path; PT4 the retry loops test an induction variable (init 0, +1 on the only back edge) against the parameter n before every " +
			"callback call, leave the loop on the first nil error, and return the induction variable and the last error; PT2 every path from one callback call to the next crosses a wait on the delay parameter. " +
			"Decides call counts and ordering, not the After/Before thresholds or wall-clock delays.",
		Assumptions: []string{"go/ssa faithful to the source", "time.After/time.Sleep contracts", "cache.Set/Get behave as C08 states"},
		NotDecided:  []string{"the exact thresholds of After/Before beyond their side (arithmetic on the caller-owned counter across calls)", "lifetime of the 'func' cache entry (C08)", "wall-clock delays"},
		Run:         runC18,
	})
}

func runC18(p *core.Program, r *core.Report) {
	noSingledOutValue(rc{p, r}, []string{"func.go"}, nil)
	noAnswerBeforeTheScan(rc{p, r}, "gogu.(RType).Retry", "gogu.(RType).RetryWithDelay")
	// ---- Once
	if fn := mustFunc(p, r, "gogu.Once"); fn != nil {
		name := "gogu.Once"
		cb := funcParam(fn)
		if cb == nil {
			r.Fatal("gogu.Once has no callback parameter")
		} else {
			_, calls := callbackAtMostOnce(p, r, fn, cb)
			// hit path calls nothing: every callback call is dominated by "lookup result == nil"
			for _, c := range calls {
				if c.Parent() != fn {
					continue
				}
				guarded := false
				for _, g := range path.Guards(fn, c.Block()) {
					if cd, ok := path.CondOf(g.If); ok && (cd.Op == token.EQL || cd.Op == token.NEQ) && (path.IsNil(cd.Y) || path.IsNil(cd.X)) {
						isEq := (cd.Op == token.EQL) != cd.Neg
						if (isEq && g.Idx == 0) || (!isEq && g.Idx == 1) {
							x := cd.X
							if path.IsNil(x) {
								x = cd.Y
							}
							if ex, ok := x.(*ssa.Extract); ok {
								if call, ok := ex.Tuple.(*ssa.Call); ok && path.IsCallTo(call, p.ModulePath+"/cache", "Cache.Get") {
									guarded = true
								}
							}
						}
					}
				}
				r.Obligation("PT3", guarded, map[string]any{"rule": "PT3", "function": name, "what": "callback only on the miss path", "at": p.InstrPos(c), "ok": guarded})
				if !guarded {
					r.Violation(core.Diag{Rule: "PT3", Func: name, Object: "callback on hit path", Pos: p.InstrPos(c),
						Reason: "a callback call is not dominated by the 'cache lookup returned nil' edge: the callback can run although a value is cached"})
				}
			}
			// PV1: on paths that call the callback, the stored and the returned value are that call's result
			al := path.Aliases(fn, cb, false)
			for _, b := range fn.Blocks {
				ret, ok := b.Instrs[len(b.Instrs)-1].(*ssa.Return)
				if !ok || len(ret.Results) != 1 {
					continue
				}
				// does a callback call reach this return?
				var reaching []ssa.Value
				for _, c := range calls {
					if c.Parent() == fn && (c.Block() == b || c.Block().Dominates(b)) {
						if v, ok := c.(ssa.Value); ok {
							reaching = append(reaching, v)
						}
					}
				}
				if len(reaching) == 0 {
					continue
				}
				okRet := false
				for _, o := range path.Origins(ret.Results[0]) {
					for _, v := range reaching {
						if o == v {
							okRet = true
						}
					}
				}
				_ = al
				r.Obligation("PV1", okRet, map[string]any{"rule": "PV1", "function": name, "what": "miss path returns the result of the callback call", "at": p.InstrPos(ret), "ok": okRet})
				if !okRet {
					r.Violation(core.Diag{Rule: "PV1", Func: name, Object: "returned value", Pos: p.InstrPos(ret),
						Reason: "the value returned on the miss path is not the result of the (single) callback call"})
				}
			}
			// the value stored in the cache on the miss path is a callback result
			for _, in := range path.Instrs(fn) {
				if path.IsCallTo(in, p.ModulePath+"/cache", "Cache.Set") || path.IsCallTo(in, p.ModulePath+"/cache", "Cache.SetDefault") || path.IsCallTo(in, p.ModulePath+"/cache", "Cache.Update") {
					c := in.(ssa.CallInstruction)
					args := c.Common().Args
					okSt := false
					if len(args) >= 3 {
						for _, o := range path.Origins(args[2]) {
							if cc, ok := o.(*ssa.Call); ok && al[cc.Call.Value] {
								okSt = true
							}
						}
					}
					r.Obligation("PV1", okSt, map[string]any{"rule": "PV1", "function": name, "what": "cached value is the callback's result", "at": p.InstrPos(in), "ok": okSt})
					if !okSt {
						r.Violation(core.Diag{Rule: "PV1", Func: name, Object: "cached value", Pos: p.InstrPos(in), Reason: "the value stored in the cache is not the result of the callback call"})
					}
				}
			}
		}
	}
	// ---- Once / Before: a return that no callback call of this invocation reaches hands
	// out the memoized value - Val() of the item the cache lookup returned
	for _, name := range []string{"gogu.Once", "gogu.Before"} {
		fn := p.Func(name)
		if fn == nil {
			continue
		}
		cb := funcParam(fn)
		if cb == nil {
			continue
		}
		calls := path.CallsOfValue(fn, cb, true)
		for _, alt := range returnAlternatives(fn, 0) {
			fresh := false
			for _, c := range calls {
				if c.Parent() == fn && (c.Block() == alt.blk || c.Block().Dominates(alt.blk)) {
					fresh = true
				}
			}
			if fresh {
				continue
			}
			okV := false
			if vc, ok := alt.val.(*ssa.Call); ok && path.IsCallTo(vc, p.ModulePath+"/cache", "Item.Val") && len(vc.Call.Args) == 1 {
				for _, o := range path.Origins(vc.Call.Args[0]) {
					okV = false
					if ex, ok := o.(*ssa.Extract); ok && ex.Index == 0 {
						if gc, ok := ex.Tuple.(*ssa.Call); ok && path.IsCallTo(gc, p.ModulePath+"/cache", "Cache.Get") {
							okV = true
							continue
						}
					}
					break
				}
			}
			r.Obligation("PV1", okV, map[string]any{"rule": "PV1", "function": name, "what": "without a fresh run the memoized value is returned", "at": p.InstrPos(alt.ret), "ok": okV})
			if !okV {
				r.Violation(core.Diag{Rule: "PV1", Func: name, Object: "memoized value", Pos: p.InstrPos(alt.ret),
					Reason: "a return that no callback call of this invocation reaches does not hand out Val() of the item the cache lookup returned (the result of the last run)"})
			}
		}
	}
	// ---- After / Before
	for _, name := range []string{"gogu.After", "gogu.Before"} {
		fn := mustFunc(p, r, name)
		if fn == nil {
			continue
		}
		cb := funcParam(fn)
		cnt := paramByName(fn, "n")
		if cb == nil || cnt == nil {
			r.Fatal("%s: callback or counter parameter not found", name)
			continue
		}
		_, calls := callbackAtMostOnce(p, r, fn, cb)
		cal := path.Aliases(fn, cnt, false)
		isCntStore := func(in ssa.Instruction) bool {
			st, ok := in.(*ssa.Store)
			return ok && cal[st.Addr]
		}
		max, min := path.MaxCount(fn, isCntStore), path.MinCount(fn, isCntStore)
		ok := max == 1 && min == 1
		r.Obligation("PT1", ok, map[string]any{"rule": "PT1", "function": name, "what": "counter decremented exactly once on every path", "min": min, "max": countStr(max)})
		if !ok {
			r.Violation(core.Diag{Rule: "PT1", Func: name, Object: "counter *n", Pos: p.Pos(fn.Pos()),
				Reason: fmt.Sprintf("the caller's counter is stored %d..%s times depending on the path (exactly once is required)", min, countStr(max))})
		}
		// the store is a decrement by one of the loaded counter
		for _, in := range path.Instrs(fn) {
			st, isSt := in.(*ssa.Store)
			if !isSt || !cal[st.Addr] {
				continue
			}
			dec := false
			if bo, ok := st.Val.(*ssa.BinOp); ok && bo.Op == token.SUB && isLoadOf(cal, bo.X) {
				if c, ok := path.IntConst(bo.Y); ok && c == 1 {
					dec = true
				}
			}
			r.Obligation("PT1", dec, map[string]any{"rule": "PT1", "function": name, "what": "counter store is *n - 1", "at": p.InstrPos(in), "ok": dec})
			if !dec {
				r.Violation(core.Diag{Rule: "PT1", Func: name, Object: "counter step", Pos: p.InstrPos(in), Reason: "the counter is not decremented by exactly one"})
			}
		}
		// each callback call is guarded by a comparison of the counter with a constant
		for _, c := range calls {
			if c.Parent() != fn {
				continue
			}
			guarded := false
			order := ""
			for _, g := range path.Guards(fn, c.Block()) {
				cd, ok := path.CondOf(g.If)
				if !ok {
					continue
				}
				var ld ssa.Value
				if _, isC := path.IntConst(cd.Y); isC && isLoadOf(cal, cd.X) {
					ld = cd.X
				} else if _, isC := path.IntConst(cd.X); isC && isLoadOf(cal, cd.Y) {
					ld = cd.Y
				}
				if ld == nil {
					continue
				}
				guarded = true
				// was the counter loaded before or after the decrement?
				after := false
				for _, in := range path.Instrs(fn) {
					if isCntStore(in) {
						sb, lb := in.Block(), ld.(ssa.Instruction).Block()
						if sb == lb {
							for _, x := range sb.Instrs {
								if x == in {
									after = true
									break
								}
								if x == ld.(ssa.Instruction) {
									break
								}
							}
						} else if sb.Dominates(lb) {
							after = true
						}
					}
				}
				if after {
					order = "compared after the decrement"
				} else {
					order = "compared before the decrement"
				}
			}
			want := "compared before the decrement"
			if name == "gogu.Before" {
				want = "compared after the decrement"
			}
			// which side of the threshold: Before runs the callback only while the
			// decremented counter is known to be >= 0 (never for n <= 0, never again once
			// the count is used up); After only when the counter is known to be <= 0
			{
				const none = int64(1) << 40
				lb, ub := -none, none
				for _, g := range path.Guards(fn, c.Block()) {
					cd, ok := path.CondOf(g.If)
					if !ok {
						continue
					}
					truth := g.Idx == 0
					if cd.Neg {
						truth = !truth
					}
					rel := normCmp(cd.Op, truth)
					var k int64
					if kk, isC := path.IntConst(cd.Y); isC && isLoadOf(cal, cd.X) {
						k = kk
					} else if kk, isC := path.IntConst(cd.X); isC && isLoadOf(cal, cd.Y) {
						k = kk
						rel = flipRel(rel)
					} else {
						continue
					}
					switch rel {
					case ">":
						if k+1 > lb {
							lb = k + 1
						}
					case ">=":
						if k > lb {
							lb = k
						}
					case "<":
						if k-1 < ub {
							ub = k - 1
						}
					case "<=":
						if k < ub {
							ub = k
						}
					case "==":
						if k > lb {
							lb = k
						}
						if k < ub {
							ub = k
						}
					}
				}
				okSide := false
				side := ""
				if name == "gogu.Before" {
					okSide = lb >= 0
					side = "the callback can run although the decremented counter is not known to be >= 0: Before(n <= 0) must never run it, and it must not run again once the n calls are used up"
				} else {
					okSide = ub <= 0
					side = "the callback can run although the counter is not known to be <= 0: After must suppress it for the first n calls"
				}
				r.Obligation("PT3", okSide, map[string]any{"rule": "PT3", "function": name, "what": "callback on the right side of the threshold", "at": p.InstrPos(c), "ok": okSide})
				if !okSide {
					r.Violation(core.Diag{Rule: "PT3", Func: name, Object: "threshold side", Pos: p.InstrPos(c), Reason: side})
				}
			}
			okG := guarded && order == want
			r.Obligation("PT3", okG, map[string]any{"rule": "PT3", "function": name, "what": "callback guarded by counter comparison", "at": p.InstrPos(c), "order": order, "ok": okG})
			if !okG {
				reason := "a callback call is not guarded by a comparison of the counter with a constant"
				if guarded {
					reason = "the counter is " + order + " but this function must have it " + want
				}
				r.Violation(core.Diag{Rule: "PT3", Func: name, Object: "callback guard", Pos: p.InstrPos(c), Reason: reason})
			}
		}
	}
	// ---- Retry / RetryWithDelay
	for _, name := range []string{"gogu.(RType).Retry", "gogu.(RType).RetryWithDelay"} {
		fn := mustFunc(p, r, name)
		if fn == nil {
			continue
		}
		cb := funcParam(fn)
		nPar := paramByName(fn, "n")
		if cb == nil || nPar == nil {
			r.Fatal("%s: callback or n parameter not found", name)
			continue
		}
		al := path.Aliases(fn, cb, true)
		calls := path.CallsOfValue(fn, cb, true)
		if len(calls) != 1 || calls[0].Parent() != fn {
			r.Undecided(core.Diag{Rule: "PT4", Func: name, Object: "retry loop", Pos: p.Pos(fn.Pos()),
				Reason: fmt.Sprintf("%d call sites of the callback; the bounded-loop rule expects exactly one, inside the retry loop", len(calls))})
			continue
		}
		call := calls[0]
		cv := call.(ssa.Value)
		loop := path.LoopBlocks(call.Block())
		// find the loop test: an If inside the loop with an exit edge comparing an induction phi with n
		var ind *ssa.Phi
		okLoop := false
		why := "the callback call is not inside a loop"
		if len(loop) > 0 && loop[call.Block()] {
			why = "no loop test of the form 'i < n' (i: 0, +1) guards the callback call"
			for b := range loop {
				iff := path.BlockIf(b)
				if iff == nil {
					continue
				}
				cd, ok := path.CondOf(iff)
				if !ok {
					continue
				}
				// the edge on which the loop goes on, and the relation that holds on it
				// (for i < n {..}  and  for { if i >= n { break } .. }  are the same test)
				stay := -1
				switch {
				case loop[b.Succs[0]] && !loop[b.Succs[1]]:
					stay = 0
				case loop[b.Succs[1]] && !loop[b.Succs[0]]:
					stay = 1
				}
				if stay < 0 {
					continue
				}
				truth := stay == 0
				if cd.Neg {
					truth = !truth
				}
				rel := normCmp(cd.Op, truth)
				var phi *ssa.Phi
				var wantInit int64
				switch {
				case rel == "<" && cd.Y == ssa.Value(nPar):
					phi, _ = cd.X.(*ssa.Phi)
					wantInit = 0
				case rel == ">" && cd.X == ssa.Value(nPar):
					phi, _ = cd.Y.(*ssa.Phi)
					wantInit = 0
				case rel == "<=" && cd.Y == ssa.Value(nPar):
					phi, _ = cd.X.(*ssa.Phi)
					wantInit = 1
				case rel == ">=" && cd.X == ssa.Value(nPar):
					phi, _ = cd.Y.(*ssa.Phi)
					wantInit = 1
				}
				if phi == nil || len(phi.Edges) < 2 || !loop[phi.Block()] {
					continue
				}
				// edges: constant init from outside the loop, "+1" on every back edge
				initOK, stepOK := true, true
				nIn, nOut := 0, 0
				for i, e := range phi.Edges {
					pred := phi.Block().Preds[i]
					if !loop[pred] {
						nOut++
						if c, ok := path.IntConst(e); !ok || c != wantInit {
							initOK = false
						}
					} else {
						nIn++
						bo, ok := e.(*ssa.BinOp)
						if !ok || bo.Op != token.ADD || bo.X != ssa.Value(phi) {
							stepOK = false
						} else if c, ok := path.IntConst(bo.Y); !ok || c != 1 {
							stepOK = false
						}
					}
				}
				if nIn == 0 || nOut == 0 {
					initOK = false
				}
				if !initOK || !stepOK {
					why = "the loop counter is not initialised to a constant and incremented by one on the only back edge"
					continue
				}
				// the stay edge must dominate the call; the other edge leaves the loop
				if path.EdgeDominates(b, stay, call.Block()) {
					ind = phi
					okLoop = true
				}
			}
		}
		r.Obligation("PT4", okLoop, map[string]any{"rule": "PT4", "function": name, "what": "callback inside a loop bounded by n (i from 0, i < n, i+1)", "at": p.InstrPos(call), "ok": okLoop})
		if !okLoop {
			r.Violation(core.Diag{Rule: "PT4", Func: name, Object: "retry bound", Pos: p.InstrPos(call), Reason: why + ": the callback may run more than n times or for n <= 0"})
			continue
		}
		// stop at the first success: an If on "call result == nil" whose nil edge leaves the loop
		stop := false
		for b := range loop {
			iff := path.BlockIf(b)
			if iff == nil {
				continue
			}
			cd, ok := path.CondOf(iff)
			if !ok || !(cd.Op == token.EQL || cd.Op == token.NEQ) {
				continue
			}
			x := cd.X
			if path.IsNil(x) {
				x = cd.Y
			} else if !path.IsNil(cd.Y) {
				continue
			}
			isRes := false
			for _, o := range path.Origins(x) {
				if o == cv {
					isRes = true
				}
			}
			if !isRes {
				continue
			}
			isEq := (cd.Op == token.EQL) != cd.Neg
			nilIdx := 1
			if isEq {
				nilIdx = 0
			}
			if !loop[b.Succs[nilIdx]] && loop[b.Succs[1-nilIdx]] {
				stop = true
			}
		}
		// ER4: on the success exit the error handed back is nil (the constant, or the value just tested)
		for b := range loop {
			iff := path.BlockIf(b)
			if iff == nil {
				continue
			}
			x, nonNilOnTrue, ok := path.NilTestOf(iff)
			if !ok {
				continue
			}
			isRes := false
			for _, o := range path.Origins(x) {
				if o == cv {
					isRes = true
				}
			}
			if !isRes {
				continue
			}
			nilIdx := 0
			if nonNilOnTrue {
				nilIdx = 1
			}
			if loop[b.Succs[nilIdx]] {
				continue
			}
			// follow the success edge to the return, resolving phis by incoming edge
			pred, cur := b, b.Succs[nilIdx]
			var got ssa.Value
			var at ssa.Instruction
			for steps := 0; steps < 8 && cur != nil; steps++ {
				last := cur.Instrs[len(cur.Instrs)-1]
				if ret, ok := last.(*ssa.Return); ok {
					v := ret.Results[len(ret.Results)-1]
					if phi, ok := v.(*ssa.Phi); ok && phi.Block() == cur {
						for i, pb := range cur.Preds {
							if pb == pred {
								v = phi.Edges[i]
							}
						}
					}
					got, at = v, ret
					break
				}
				if _, ok := last.(*ssa.Jump); ok {
					pred, cur = cur, cur.Succs[0]
					continue
				}
				break
			}
			if got == nil {
				continue
			}
			okE := path.IsNil(got) || got == x
			r.Obligation("ER4", okE, map[string]any{"rule": "ER4", "function": name, "what": "success exit returns a nil error", "at": p.InstrPos(at), "ok": okE})
			if !okE {
				r.Violation(core.Diag{Rule: "ER4", Func: name, Object: "error on success", Pos: p.InstrPos(at),
					Reason: "the return reached when the callback succeeded hands back an error value that is neither the nil constant nor the result just tested: a stale failure is reported after a successful attempt"})
			}
		}
		r.Obligation("PT3", stop, map[string]any{"rule": "PT3", "function": name, "what": "loop left on the first nil error", "ok": stop})
		if !stop {
			r.Violation(core.Diag{Rule: "PT3", Func: name, Object: "stop at success", Pos: p.InstrPos(call), Reason: "no branch on 'callback result == nil' leaves the retry loop: the callback keeps being called after it succeeded"})
		}
		// returned counter and error
		for _, b := range fn.Blocks {
			ret, ok := b.Instrs[len(b.Instrs)-1].(*ssa.Return)
			if !ok {
				continue
			}
			nres := len(ret.Results)
			if nres < 2 {
				continue
			}
			cntRes, errRes := ret.Results[nres-2], ret.Results[nres-1]
			okCnt := false
			for _, o := range path.Origins(cntRes) {
				if o == ssa.Value(ind) {
					okCnt = true
				}
				if c, isC := path.IntConst(o); isC && c == 0 && !b.Dominates(call.Block()) && !call.Block().Dominates(b) {
					okCnt = true // early rejection before the loop returns the zero counter
				}
			}
			if p2, ok := cntRes.(*ssa.Phi); ok && p2 == ind {
				okCnt = true
			}
			okErr := true
			for _, o := range path.Origins(errRes) {
				if path.IsNil(o) || o == cv {
					continue
				}
				// an error constructed before the loop (argument rejection) is fine when the callback cannot have run
				if call.Block().Dominates(b) || loopReaches(loop, b) {
					okErr = false
				} else {
					// ... and only a negative count is rejected: with n == 0 nothing fails
					neg := guardedBy(fn, b, func(cd path.Cond, truth bool) bool {
						k, isK := path.IntConst(cd.Y)
						rel := normCmp(cd.Op, truth)
						return cd.X == ssa.Value(nPar) && isK && ((rel == "<" && k == 0) || (rel == "<=" && k == -1))
					})
					r.Obligation("ER4", neg, map[string]any{"rule": "ER4", "function": name, "what": "only a negative count is rejected", "at": p.InstrPos(ret), "ok": neg})
					if !neg {
						r.Violation(core.Diag{Rule: "ER4", Func: name, Object: "argument rejection", Pos: p.InstrPos(ret), Reason: "an error is made up before the first attempt on a path where n is not known to be negative: Retry(0) must make no attempt and report (0, nil)"})
					}
				}
			}
			r.Obligation("PV1", okCnt && okErr, map[string]any{"rule": "PV1", "function": name, "what": "returns the attempt counter and the last error", "at": p.InstrPos(ret), "ok": okCnt && okErr})
			if !okCnt {
				r.Violation(core.Diag{Rule: "PV1", Func: name, Object: "returned attempts", Pos: p.InstrPos(ret), Reason: "the returned attempt count is not the loop counter"})
			}
			if !okErr {
				r.Violation(core.Diag{Rule: "PV1", Func: name, Object: "returned error", Pos: p.InstrPos(ret), Reason: "the returned error is neither nil nor the callback's last result"})
			}
		}
		// wait between attempts
		if name == "gogu.(RType).RetryWithDelay" {
			dPar := paramByName(fn, "delay")
			isWait := func(in ssa.Instruction) bool {
				// <-time.After(delay)  or  time.Sleep(delay)
				if u, ok := in.(*ssa.UnOp); ok && u.Op == token.ARROW {
					if c, ok := u.X.(*ssa.Call); ok && path.IsCallTo(c, "time", "After") && len(c.Call.Args) == 1 && c.Call.Args[0] == ssa.Value(dPar) {
						return true
					}
				}
				if path.IsCallTo(in, "time", "Sleep") {
					c := in.(ssa.CallInstruction)
					return len(c.Common().Args) == 1 && c.Common().Args[0] == ssa.Value(dPar)
				}
				return false
			}
			isCall := func(in ssa.Instruction) bool { return in == call.(ssa.Instruction) }
			skips := dPar == nil || path.CanReachWithout(call.(ssa.Instruction), isCall, isWait)
			r.Obligation("PT2", !skips, map[string]any{"rule": "PT2", "function": name, "what": "every path from one attempt to the next waits for the delay parameter", "ok": !skips})
			if skips {
				r.Violation(core.Diag{Rule: "PT2", Func: name, Object: "wait between attempts", Pos: p.InstrPos(call),
					Reason: "some path leads from one callback call to the next without waiting on time.After(delay)/time.Sleep(delay) with the delay parameter"})
			}
		}
		_ = al
	}
	// the layer below: Before and Once answer from a cache entry stored without a
	// deadline; that entry must stay - 'expired' has to mean the same thing for the
	// lookup and for the background cleanup (OD1 of the cache, shared with C08/C17)
	expiryAgreement(p, r, p.FuncsInFiles("cache/cache.go"))
	// ... and Set (whose error Before and Once ignore) must store whenever the lookup
	// of the key finds no live entry, in particular over an expired, unswept one
	cacheSetRule(p, r)
	r.Floor("PT1", 5)
	r.Floor("PT4", 2)
}

func loopReaches(loop map[*ssa.BasicBlock]bool, b *ssa.BasicBlock) bool {
	for _, p := range b.Preds {
		if loop[p] {
			return true
		}
	}
	return false
}
