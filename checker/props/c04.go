package props

import (
	"fmt"
	"go/token"
	"go/types"

	"golang.org/x/tools/go/ssa"

	"gogucheck/core"
	"gogucheck/path"
)

func init() {
	register(&Check{
		ID: "C04",
		Explanation: "Structural rules over bstree/bstree.go (engines E7/E4): AG3 get, upsert and delete take Left exactly where Compare(key, n.Key, b.comp) == 1, Right where it is -1 and treat the remaining outcome as the hit, on the node whose key was compared, and traverse emits Left subtree, node, Right subtree; " +
			"PT3 'no subtree is lost': every return of delete hands back the node itself, or a child while the other child is known nil, or nil while both are known nil, and a recursion's result is stored back into the field it descended through; " +
			"the two-child case copies key and value of one successor node obtained by min() of the right subtree and then deletes that key from the right subtree (PV2); AG4 every size increment sits with the linking of a NewNode(key, val) into a slot known nil, every decrement must be reachable only through err == nil of the deletion; " +
			"values are written only at a node reached by the descent; SI1 the container's state is exactly {mu, comp, root, size} - results cannot depend on state the rules do not track. Decides these necessary conditions, not the result of a concrete history.",
		Assumptions: []string{"go/ssa faithful to the source", "gogu.Compare(a,b,comp) is 1 iff comp(a,b), -1 iff comp(b,a) (C13 rule OD2)", "the comparator is a strict ordering"},
		NotDecided:  []string{"Get/Delete results for concrete histories", "that the successor splice preserves the search-tree invariant beyond the listed conditions"},
		Run:         runC04,
	})
}

// stateInventory (SI1): the struct type named typ in package pkg has exactly the
// fields listed; any other field that is read by a function of the files in scope is
// state the rules do not track.
func stateInventory(c rc, pkg, typ string, want []string, fns []*ssa.Function) {
	sp := c.p.SSAPkg[pkg]
	if sp == nil {
		c.r.Fatal("unresolved-anchor: package %s", pkg)
		return
	}
	tn, ok := sp.Members[typ].(*ssa.Type)
	if !ok {
		c.r.Fatal("unresolved-anchor: type %s.%s", pkg, typ)
		return
	}
	st, ok := tn.Type().Underlying().(*types.Struct)
	if !ok {
		c.r.Fatal("unresolved-anchor: %s.%s is not a struct", pkg, typ)
		return
	}
	wantSet := map[string]bool{}
	for _, w := range want {
		wantSet[w] = true
	}
	for i := 0; i < st.NumFields(); i++ {
		f := st.Field(i).Name()
		if wantSet[f] {
			c.ob("SI1", pkg+"."+typ, "field "+f, c.p.Pos(st.Field(i).Pos()), true, "")
			delete(wantSet, f)
			continue
		}
		// is the new field read anywhere?
		read := ""
		for _, fn := range fns {
			for _, in := range path.Instrs(fn) {
				if u, ok := in.(*ssa.UnOp); ok && u.Op == token.MUL {
					if fa, ok := u.X.(*ssa.FieldAddr); ok && isFieldOf(fa, typ, f) {
						read = c.p.FuncName(fn)
					}
				}
				if fa, ok := in.(*ssa.FieldAddr); ok && isFieldOf(fa, typ, f) {
					// address taken for a nested access
					for _, rf := range *fa.Referrers() {
						if _, isSt := rf.(*ssa.Store); !isSt {
							read = c.p.FuncName(fn)
						}
					}
				}
			}
		}
		if read != "" {
			c.und("SI1", pkg+"."+typ, "field "+f, c.p.Pos(st.Field(i).Pos()),
				fmt.Sprintf("the container has state the rules do not track (field %s, read in %s): results may depend on derived state whose coherence with the primary state is not decided", f, read))
		} else {
			c.ob("SI1", pkg+"."+typ, "field "+f, c.p.Pos(st.Field(i).Pos()), true, "")
		}
	}
	for w := range wantSet {
		c.ob("SI1", pkg+"."+typ, "field "+w, "-", false, "a state field the rules are phrased over no longer exists")
	}
}

func runC04(p *core.Program, r *core.Report) {
	c := rc{p, r}
	noSingledOutValue(c, []string{"bstree/bstree.go"}, nil)
	workOnEveryPath(c, "bstree.(*BsTree).Traverse", "traversal started on every path", "", "", []string{"traverse", "go func"}, "Traverse returns on a path that never starts the in-order walk: for some states nothing is visited")
	const T = "bstree.(*BsTree)."
	const N = "bstree.(*Node)."
	fGet, fUpsert, fDelete, fTraverse, fSize := c.fn(T+"Get"), c.fn(T+"Upsert"), c.fn(T+"Delete"), c.fn(T+"Traverse"), c.fn(T+"Size")
	for _, f := range []*ssa.Function{fGet, fUpsert, fDelete, fTraverse, fSize} {
		if f == nil {
			return
		}
	}
	nget, nupsert, ndelete, ntraverse, nmin := c.helper(N+"get"), c.helper(N+"upsert"), c.helper(N+"delete"), c.helper(N+"traverse"), c.helper(N+"min")
	newNode := c.helper("bstree.NewNode")
	compareFn := p.Func("gogu.Compare")
	if compareFn == nil {
		r.Fatal("unresolved-anchor: gogu.Compare")
		return
	}
	all := p.FuncsInFiles("bstree/bstree.go")
	var allDeep []*ssa.Function
	var addDeep func(f *ssa.Function)
	addDeep = func(f *ssa.Function) {
		allDeep = append(allDeep, f)
		for _, a := range f.AnonFuncs {
			addDeep(a)
		}
	}
	for _, f := range all {
		r.Functions[p.FuncName(f)] = true
		addDeep(f)
	}
	stateInventory(c, "bstree", "BsTree", []string{"mu", "comp", "root", "size"}, allDeep)
	stateInventory(c, "bstree", "Node", []string{"Left", "Right", "Item"}, allDeep)

	// keyLoadBase: v = load of <base>.Item.Key (or <base>.Key)
	keyLoadBase := func(v ssa.Value) (ssa.Value, bool) {
		u, ok := v.(*ssa.UnOp)
		if !ok || u.Op != token.MUL {
			return nil, false
		}
		fa, ok := u.X.(*ssa.FieldAddr)
		if !ok || fieldName(fa.X.Type(), fa.Field) != "Key" {
			return nil, false
		}
		if fa2, ok := fa.X.(*ssa.FieldAddr); ok && isFieldOf(fa2, "Node", "Item") {
			return fa2.X, true
		}
		return nil, false
	}
	// cmpOutcome: the set of Compare(key, base.Key, b.comp) outcomes possible at block b
	// encoded as bits: 1 -> ordLT (key first), 0 -> ordEQ, -1 -> ordGT
	bitOf := func(k int64) int {
		switch k {
		case 1:
			return ordLT
		case 0:
			return ordEQ
		case -1:
			return ordGT
		}
		return 0
	}
	cmpOutcome := func(fn *ssa.Function, b *ssa.BasicBlock, keyV ssa.Value, base ssa.Value) int {
		set := ordLT | ordEQ | ordGT
		for _, g := range path.Guards(fn, b) {
			cd, ok := path.CondOf(g.If)
			if !ok || (cd.Op != token.EQL && cd.Op != token.NEQ) {
				continue
			}
			call, isCall := cd.X.(*ssa.Call)
			kv := cd.Y
			if !isCall {
				call, isCall = cd.Y.(*ssa.Call)
				kv = cd.X
			}
			if !isCall || path.StaticCallee(call) != compareFn {
				continue
			}
			k, ok := path.IntConst(kv)
			if !ok || bitOf(k) == 0 {
				continue
			}
			a := call.Call.Args
			nb, okB := keyLoadBase(a[1])
			if a[0] != keyV || !okB || nb != base || !isLoadOfField(a[2], "BsTree", "comp") {
				continue
			}
			truth := g.Idx == 0
			if cd.Neg {
				truth = !truth
			}
			if (cd.Op == token.EQL) == truth {
				set &= bitOf(k)
			} else {
				set &^= bitOf(k)
			}
		}
		return set
	}
	outName := func(s int) string {
		n := ""
		if s&ordLT != 0 {
			n += "{1}"
		}
		if s&ordEQ != 0 {
			n += "{0}"
		}
		if s&ordGT != 0 {
			n += "{-1}"
		}
		return n
	}

	// ---------------- AG3 descent agreement
	for _, fn := range []*ssa.Function{nget, nupsert, ndelete} {
		if fn == nil {
			continue
		}
		fname := p.FuncName(fn)
		keyP := paramByName(fn, "key")
		self := ssa.Value(fn.Params[0])
		if fn == nget || fn == nupsert {
			self = descentNode(fn)
		}
		nacc := 0
		for _, in := range path.Instrs(fn) {
			fa, ok := in.(*ssa.FieldAddr)
			if !ok || fa.X != self {
				continue
			}
			field := ""
			if isFieldOf(fa, "Node", "Left") {
				field = "Left"
			} else if isFieldOf(fa, "Node", "Right") {
				field = "Right"
			} else {
				continue
			}
			got := cmpOutcome(fn, fa.Block(), keyP, self)
			if got == ordEQ || got == (ordEQ|ordGT) || got == (ordLT|ordEQ|ordGT) {
				// the hit region of delete inspects both children; not a descent
				if fn == ndelete && got&ordEQ != 0 && !(got == ordLT || got == ordGT) {
					continue
				}
			}
			nacc++
			want := ordLT
			if field == "Right" {
				want = ordGT
			}
			c.ob("AG3", fname, "child "+field, p.InstrPos(fa), got == want,
				fmt.Sprintf("child %s is taken where Compare(key, n.Key, b.comp) is in %s; every descent must take Left for outcome 1 and Right for outcome -1", field, outName(got)))
		}
		c.ob("AG3", fname, "descent sites", c.fpos(fn), nacc >= 2, "fewer than two child accesses found in a descent function")
		// recursive calls: same key (except the successor deletion), receiver = load of the child whose region we are in
		for _, call := range callsTo(fn, fn) {
			a := call.Common().Args
			u, ok := a[0].(*ssa.UnOp)
			var fa *ssa.FieldAddr
			if ok {
				fa, _ = u.X.(*ssa.FieldAddr)
			}
			if fa == nil || fa.X != self {
				c.und("AG3", fname, "recursion receiver", p.InstrPos(call), "the recursion does not continue in a child of the node compared")
				continue
			}
			got := cmpOutcome(fn, call.Block(), keyP, self)
			keyArg := a[2]
			if got == ordLT || got == ordGT {
				c.ob("AG3", fname, "recursion keeps the key", p.InstrPos(call), keyArg == ssa.Value(keyP), "the descent must continue with the same key")
			}
		}
	}
	// get and delete are called on children without a nil test at the call: the receiver
	// is dereferenced only where it is known to be non-nil
	for _, fn := range []*ssa.Function{nget, ndelete} {
		if fn == nil {
			continue
		}
		self := ssa.Value(fn.Params[0])
		if fn == nget {
			self = descentNode(fn)
		}
		x := newPathCtx(p)
		bad := 0
		var at ssa.Instruction
		for _, in := range path.Instrs(fn) {
			fa, ok := in.(*ssa.FieldAddr)
			if !ok || fa.X != self {
				continue
			}
			nonNil := guardedBy(fn, fa.Block(), func(cd path.Cond, truth bool) bool {
				return normCmp(cd.Op, truth) == "!=" && cd.X == self && path.IsNil(cd.Y)
			}) || hasFact(edgeFacts(x, fn, fa.Block()), "n", "!=", "zero")
			if !nonNil {
				bad++
				at = in
			}
		}
		pos := c.fpos(fn)
		if at != nil {
			pos = p.InstrPos(at)
		}
		c.ob("PT3", p.FuncName(fn), "receiver dereferenced only when non-nil", pos, bad == 0, "a field of n is read on a path where n is not known to be non-nil: the descent reaches nil children, so an absent key panics instead of being reported")
	}
	// hit of get returns the node's item; miss returns the not-found error
	if nget != nil {
		fn := nget
		fname := p.FuncName(fn)
		self := descentNode(fn)
		for _, b := range fn.Blocks {
			ret, ok := b.Instrs[len(b.Instrs)-1].(*ssa.Return)
			if !ok || len(ret.Results) != 2 {
				continue
			}
			if ex, ok := ret.Results[0].(*ssa.Extract); ok {
				if call, ok := ex.Tuple.(*ssa.Call); ok && path.StaticCallee(call) == fn {
					e1, ok1 := ret.Results[1].(*ssa.Extract)
					c.ob("AG3", fname, "subtree answer returned unmodified", p.InstrPos(ret), ok1 && e1.Tuple == ex.Tuple && ex.Index == 0 && e1.Index == 1, "a descent must return the recursion's result unmodified")
					continue
				}
			}
			if path.IsNil(ret.Results[1]) {
				okItem := false
				if u, ok := ret.Results[0].(*ssa.UnOp); ok && u.Op == token.MUL {
					if fa, ok := u.X.(*ssa.FieldAddr); ok && isFieldOf(fa, "Node", "Item") && fa.X == self {
						okItem = true
					}
				}
				c.ob("PV2", fname, "hit returns the node's item", p.InstrPos(ret), okItem && cmpOutcome(fn, b, paramByName(fn, "key"), self) == ordEQ, "the hit must return n.Item where neither Compare outcome 1 nor -1 holds")
			} else {
				x := newPathCtx(p)
				nilNode := hasFact(edgeFacts(x, fn, b), "n", "==", "zero") || guardedBy(fn, b, func(cd path.Cond, truth bool) bool {
					return normCmp(cd.Op, truth) == "==" && cd.X == self && path.IsNil(cd.Y)
				})
				c.ob("PT3", fname, "error only for a nil subtree", p.InstrPos(ret), nilNode, "get reports not-found on a path other than the nil subtree")
			}
		}
		// Get delegates to root.get(b, key)
		okG := false
		for _, call := range callsTo(fGet, fn) {
			a := call.Common().Args
			if isLoadOfField(a[0], "BsTree", "root") && a[2] == ssa.Value(paramByName(fGet, "key")) {
				okG = true
			}
		}
		c.ob("PV1", p.FuncName(fGet), "Get is the descent from the root", c.fpos(fGet), okG, "Get must return root.get(b, key)")
		// ... and answers with nothing else: every return hands back both results of that
		// call, unmodified (no early answer that depends on some other state)
		for _, b := range fGet.Blocks {
			rt, ok := b.Instrs[len(b.Instrs)-1].(*ssa.Return)
			if !ok || b == fGet.Recover {
				continue
			}
			rv := path.ReturnValues(rt)
			okR := false
			if len(rv) == 2 {
				e0, ok0 := path.Unspill(rv[0]).(*ssa.Extract)
				e1, ok1 := path.Unspill(rv[1]).(*ssa.Extract)
				if ok0 && ok1 && e0.Tuple == e1.Tuple && e0.Index == 0 && e1.Index == 1 {
					if call, ok := e0.Tuple.(*ssa.Call); ok && path.StaticCallee(call) == fn {
						okR = true
					}
				}
			}
			c.ob("PV1", p.FuncName(fGet), "Get answers what the descent found", p.InstrPos(rt), okR, "Get returns something other than the unmodified result of root.get(b, key): an answer that depends on other state (the size, a cache, a special key) is not the tree's")
		}
	}

	// ---------------- traverse order and pairing
	if ntraverse != nil {
		fn := ntraverse
		fname := p.FuncName(fn)
		self := ssa.Value(fn.Params[0])
		var callL, callR ssa.CallInstruction
		var send *ssa.Send
		nrec, nsend := 0, 0
		for _, in := range path.Instrs(fn) {
			switch x := in.(type) {
			case *ssa.Send:
				send = x
				nsend++
			case ssa.CallInstruction:
				if path.StaticCallee(x) != fn {
					continue
				}
				nrec++
				if u, ok := x.Common().Args[0].(*ssa.UnOp); ok {
					if fa, ok := u.X.(*ssa.FieldAddr); ok && fa.X == self {
						if isFieldOf(fa, "Node", "Left") {
							callL = x
						}
						if isFieldOf(fa, "Node", "Right") {
							callR = x
						}
					}
				}
			}
		}
		okOrder := callL != nil && callR != nil && send != nil && nrec == 2 && nsend == 1
		if okOrder {
			idx := map[ssa.Instruction]int{}
			sameBlock := callL.Block() == send.Block() && send.Block() == callR.Block()
			for i, in := range send.Block().Instrs {
				idx[in] = i
			}
			if sameBlock {
				okOrder = idx[callL] < idx[send] && idx[send] < idx[callR]
			} else {
				okOrder = callL.Block().Dominates(send.Block()) && send.Block().Dominates(callR.Block()) && callL.Block() != callR.Block()
			}
		}
		c.ob("AG3", fname, "in-order: Left, node, Right", c.fpos(fn), okOrder, "traverse must emit the left subtree, then the node, then the right subtree, each exactly once")
		if send != nil {
			// the item sent pairs Key and Val of the node itself
			okPair := false
			switch v := send.X.(type) {
			case *ssa.UnOp:
				if al, ok := v.X.(*ssa.Alloc); ok {
					kOK, vOK, bad := false, false, false
					for _, rf := range *al.Referrers() {
						fa, ok := rf.(*ssa.FieldAddr)
						if !ok {
							if st, ok := rf.(*ssa.Store); ok && st.Addr == ssa.Value(al) {
								bad = true // whole-struct store from elsewhere
							}
							continue
						}
						for _, r2 := range *fa.Referrers() {
							st, ok := r2.(*ssa.Store)
							if !ok {
								continue
							}
							nm := fieldName(fa.X.Type(), fa.Field)
							good := false
							if lb, ok := keyLoadBase(st.Val); ok && nm == "Key" && lb == self {
								kOK, good = true, true
							}
							if u, ok := st.Val.(*ssa.UnOp); ok && nm == "Val" {
								if f2, ok := u.X.(*ssa.FieldAddr); ok && fieldName(f2.X.Type(), f2.Field) == "Val" {
									if f3, ok := f2.X.(*ssa.FieldAddr); ok && f3.X == self {
										vOK, good = true, true
									}
								}
							}
							if !good {
								bad = true
							}
						}
					}
					okPair = kOK && vOK && !bad
				}
				if fa, ok := v.X.(*ssa.FieldAddr); ok && isFieldOf(fa, "Node", "Item") && fa.X == self {
					okPair = true
				}
			}
			c.ob("PV2", fname, "emitted item is the node's key and value", p.InstrPos(send), okPair, "the item sent does not pair Key and Val of the node being visited")
		}
	}
	// Traverse: visitor only on items received from the channel that root.traverse fills
	{
		fn := fTraverse
		fname := p.FuncName(fn)
		cb := funcParam(fn)
		okV := true
		n := 0
		for _, call := range path.CallsOfValue(fn, cb, true) {
			n++
			a := call.Common().Args
			good := false
			if len(a) == 1 {
				for _, o := range path.Origins(a[0]) {
					if ex, ok := o.(*ssa.Extract); ok {
						if u, ok := ex.Tuple.(*ssa.UnOp); ok && u.Op == token.ARROW {
							good = true
						}
					}
					if u, ok := o.(*ssa.UnOp); ok && u.Op == token.ARROW {
						good = true
					}
				}
			}
			if !good {
				okV = false
			}
		}
		c.ob("PV1", fname, "visitor fed by the traversal", c.fpos(fn), okV && n == 1, "Traverse must hand the visitor exactly the items received from the in-order traversal of the tree")
		okRoot := false
		if ntraverse != nil {
			for _, f := range allDeep {
				for _, call := range callsTo(f, ntraverse) {
					if f != ntraverse && isLoadOfField(call.Common().Args[0], "BsTree", "root") {
						okRoot = true
					}
				}
			}
		}
		c.ob("PV1", fname, "traversal starts at the root", c.fpos(fn), okRoot, "the in-order traversal must start at b.root")
	}

	// ---------------- delete: no subtree lost, successor copy
	if ndelete != nil {
		fn := ndelete
		fname := p.FuncName(fn)
		self := ssa.Value(fn.Params[0])
		x := newPathCtx(p)
		childLoad := func(v ssa.Value) string {
			u, ok := v.(*ssa.UnOp)
			if !ok || u.Op != token.MUL {
				return ""
			}
			fa, ok := u.X.(*ssa.FieldAddr)
			if !ok || fa.X != self {
				return ""
			}
			if isFieldOf(fa, "Node", "Left") {
				return "Left"
			}
			if isFieldOf(fa, "Node", "Right") {
				return "Right"
			}
			return ""
		}
		for _, b := range fn.Blocks {
			ret, ok := b.Instrs[len(b.Instrs)-1].(*ssa.Return)
			if !ok || len(ret.Results) != 2 {
				continue
			}
			fs := edgeFacts(x, fn, b)
			if hasFact(fs, "n", "==", "zero") {
				c.ob("PT3", fname, "nil subtree reports not-found", p.InstrPos(ret), path.IsNil(ret.Results[0]) && !path.IsNil(ret.Results[1]), "delete on a nil subtree must return (nil, not-found error)")
				continue
			}
			rv := ret.Results[0]
			if rv == self {
				c.ob("PT3", fname, "subtree kept", p.InstrPos(ret), true, "")
				// keeping n is right only after the deletion went on below it: the error
				// handed up is the one a recursive delete (into a child of n) reported
				okRec := false
				for _, o := range path.Origins(ret.Results[1]) {
					if ex, ok := o.(*ssa.Extract); ok && ex.Index == 1 {
						if call, ok := ex.Tuple.(*ssa.Call); ok && path.StaticCallee(call) == fn && (call.Block() == b || call.Block().Dominates(b)) {
							okRec = true
						}
					}
				}
				c.ob("PT3", fname, "n kept only after deleting below it", p.InstrPos(ret), okRec, "delete returns n unchanged without having continued the deletion in one of its subtrees (and without reporting that subtree's verdict): the key is not removed and no error is reported")
				continue
			}
			kept := childLoad(rv)
			okKeep := true
			why := ""
			for _, f := range []string{"Left", "Right"} {
				if f == kept {
					continue
				}
				if !hasFact(fs, "n."+f, "==", "zero") {
					okKeep = false
					why += " " + f
				}
			}
			if kept == "" && !path.IsNil(rv) {
				okKeep = false
				why = " (returned node is neither n, a child of n, nor nil)"
			}
			c.ob("PT3", fname, "no subtree lost", p.InstrPos(ret), okKeep,
				"delete returns a replacement for n that drops the subtree(s)"+why+" without a dominating test that they are nil: keys other than the deleted one disappear")
			if okKeep && !path.IsNil(ret.Results[1]) {
				c.ob("PT3", fname, "successful unlink reports nil error", p.InstrPos(ret), false, "the unlinking return must report a nil error")
			}
		}
		// the four shapes of the node that holds the key: which return each shape can reach.
		// The tests on n.Left / n.Right are evaluated for each of the four combinations
		// (nil / non-nil), every other branch is followed both ways.
		{
			isChildNilTest := func(v ssa.Value) (field string, eqNil bool, ok bool) {
				bo, isB := v.(*ssa.BinOp)
				if !isB || (bo.Op != token.EQL && bo.Op != token.NEQ) {
					return "", false, false
				}
				var ld ssa.Value
				switch {
				case path.IsNil(bo.Y):
					ld = bo.X
				case path.IsNil(bo.X):
					ld = bo.Y
				default:
					return "", false, false
				}
				f := childLoad(ld)
				if f == "" {
					return "", false, false
				}
				return f, bo.Op == token.EQL, true
			}
			for _, shape := range []struct {
				lnil, rnil bool
				want       string
			}{{true, true, "nil"}, {false, true, "Left"}, {true, false, "Right"}, {false, false, "n"}} {
				seen := map[*ssa.BasicBlock]bool{}
				type edge struct{ p, b *ssa.BasicBlock }
				seenE := map[edge]bool{}
				// evalB: the truth of a boolean value under this shape, when it is made of
				// nil tests of n.Left / n.Right (through !, and through the merged value of
				// `a && b` / `a || b`, which depends on the edge the block was entered by)
				var evalB func(v ssa.Value, pred *ssa.BasicBlock) (val, known bool)
				evalB = func(v ssa.Value, pred *ssa.BasicBlock) (bool, bool) {
					if u, ok := v.(*ssa.UnOp); ok && u.Op == token.NOT {
						val, known := evalB(u.X, pred)
						return !val, known
					}
					if bc, ok := path.BoolConst(v); ok {
						return bc, true
					}
					if f, eqNil, ok := isChildNilTest(v); ok {
						isNil := shape.lnil
						if f == "Right" {
							isNil = shape.rnil
						}
						return isNil == eqNil, true
					}
					if ph, ok := v.(*ssa.Phi); ok && pred != nil {
						for i, pp := range ph.Block().Preds {
							if pp == pred {
								// the operand was computed in (or before) the predecessor
								return evalB(ph.Edges[i], nil)
							}
						}
					}
					return false, false
				}
				var reach func(pred, b *ssa.BasicBlock)
				reach = func(pred, b *ssa.BasicBlock) {
					if seenE[edge{pred, b}] {
						return
					}
					seenE[edge{pred, b}] = true
					seen[b] = true
					succs := b.Succs
					if iff := path.BlockIf(b); iff != nil && len(b.Succs) == 2 {
						if val, known := evalB(iff.Cond, pred); known {
							if val {
								succs = b.Succs[:1]
							} else {
								succs = b.Succs[1:2]
							}
						}
					}
					for _, sc := range succs {
						reach(b, sc)
					}
				}
				reach(nil, fn.Blocks[0])
				name := map[bool]string{true: "nil", false: "set"}
				label := "Left " + name[shape.lnil] + ", Right " + name[shape.rnil]
				n := 0
				for _, b := range fn.Blocks {
					ret, ok := b.Instrs[len(b.Instrs)-1].(*ssa.Return)
					if !ok || len(ret.Results) != 2 || !seen[b] {
						continue
					}
					// only the returns of the node that holds the key
					if cmpOutcome(fn, b, paramByName(fn, "key"), self) != ordEQ {
						continue
					}
					if hasFact(edgeFacts(x, fn, b), "n", "==", "zero") {
						continue
					}
					n++
					rv := ret.Results[0]
					got := childLoad(rv)
					switch {
					case rv == self:
						got = "n"
					case path.IsNil(rv):
						got = "nil"
					}
					// a child that is nil in this shape is nil
					if (got == "Left" && shape.lnil) || (got == "Right" && shape.rnil) {
						got = "nil"
					}
					c.ob("PT3", fname, "shape "+label+" returns "+shape.want, p.InstrPos(ret), got == shape.want,
						fmt.Sprintf("for a node holding the key with %s delete can return %q; it must return %s (nil for a leaf, the only child, or n after the successor took its place)", label, got, shape.want))
				}
				c.ob("PT3", fname, "shape "+label+" handled", c.fpos(fn), n >= 1, "no return of the key-holding node is reachable for this shape")
				// the successor is looked up only where there is a right subtree
				if nmin != nil && shape.rnil {
					for _, mc := range callsTo(fn, nmin) {
						c.ob("PT3", fname, "successor only with a right subtree ("+label+")", p.InstrPos(mc), !seen[mc.Block()], "the successor lookup n.Right.min() is reachable for a node without a right subtree: nil dereference")
					}
				}
			}
		}
		// recursion results are stored back into the field descended through, and the error is passed up
		for _, call := range callsTo(fn, fn) {
			cv := call.(ssa.Value)
			a := call.Common().Args
			from := childLoad(a[0])
			stored := ""
			for _, rf := range *cv.Referrers() {
				ex, ok := rf.(*ssa.Extract)
				if !ok || ex.Index != 0 {
					continue
				}
				for _, r2 := range *ex.Referrers() {
					if st, ok := r2.(*ssa.Store); ok {
						if fa, ok := st.Addr.(*ssa.FieldAddr); ok && fa.X == self {
							stored = fieldName(fa.X.Type(), fa.Field)
						}
					}
				}
			}
			c.ob("PT3", fname, "recursion result stored back", p.InstrPos(call), from != "" && stored == from, fmt.Sprintf("the subtree returned by the recursion into %s is stored into %q: it must replace the child it was computed from", from, stored))
		}
		// two-child case
		if nmin != nil {
			mins := callsTo(fn, nmin)
			c.ob("PV2", fname, "successor lookup", c.fpos(fn), len(mins) == 1, "exactly one successor lookup (min) is expected in delete")
			for _, mc := range mins {
				mv := mc.(ssa.Value)
				c.ob("PV2", fname, "successor is the minimum of the right subtree", p.InstrPos(mc), childLoad(mc.Common().Args[0]) == "Right", "the in-order successor must be taken from n.Right")
				kOK, vOK := false, false
				for _, in := range path.Instrs(fn) {
					st, ok := in.(*ssa.Store)
					if !ok {
						continue
					}
					fa, ok := st.Addr.(*ssa.FieldAddr)
					if !ok {
						continue
					}
					f2, ok := fa.X.(*ssa.FieldAddr)
					if !ok || f2.X != self || !isFieldOf(f2, "Node", "Item") {
						continue
					}
					nm := fieldName(fa.X.Type(), fa.Field)
					src := ""
					var srcBase ssa.Value
					if u, ok := st.Val.(*ssa.UnOp); ok && u.Op == token.MUL {
						if g, ok := u.X.(*ssa.FieldAddr); ok {
							src = fieldName(g.X.Type(), g.Field)
							if g2, ok := g.X.(*ssa.FieldAddr); ok {
								srcBase = g2.X
							}
						}
					}
					good := src == nm && srcBase == mv
					c.ob("PV2", fname, "successor "+nm+" copied from the successor node", p.InstrPos(st), good, "n."+nm+" must be overwritten with the same field of the successor node found by min()")
					if good && nm == "Key" {
						kOK = true
					}
					if good && nm == "Val" {
						vOK = true
					}
				}
				c.ob("PV2", fname, "successor key and value copied together", p.InstrPos(mc), kOK && vOK, "the two-child case must copy both Key and Val of the successor")
				// followed by deletion of the successor key from the right subtree
				okDel := false
				for _, call := range callsTo(fn, fn) {
					a := call.Common().Args
					if childLoad(a[0]) != "Right" {
						continue
					}
					if lb, ok := keyLoadBase(a[2]); ok && lb == mv && mc.Block().Dominates(call.Block()) {
						okDel = true
					}
				}
				c.ob("PV2", fname, "successor removed from the right subtree", p.InstrPos(mc), okDel, "after copying the successor its key must be deleted from n.Right")
			}
			// min follows Left only
			onlyLeft := true
			for _, in := range path.Instrs(nmin) {
				if fa, ok := in.(*ssa.FieldAddr); ok {
					if n := namedOf(fa.X.Type()); n != nil && n.Obj().Name() == "Node" && fieldName(fa.X.Type(), fa.Field) != "Left" {
						onlyLeft = false
					}
				}
			}
			c.ob("AG3", p.FuncName(nmin), "min follows Left links only", c.fpos(nmin), onlyLeft, "min must walk Left links only (Left holds the keys that come first)")
		}
		// Delete stores the new root
		okRoot := false
		for _, st := range fieldStores([]*ssa.Function{fDelete}, "BsTree", "root") {
			if ex, ok := st.Val.(*ssa.Extract); ok && ex.Index == 0 {
				if call, ok := ex.Tuple.(*ssa.Call); ok && path.StaticCallee(call) == fn && isLoadOfField(call.Call.Args[0], "BsTree", "root") && call.Call.Args[2] == ssa.Value(paramByName(fDelete, "key")) {
					okRoot = true
				}
			}
		}
		c.ob("PT3", p.FuncName(fDelete), "root replaced by the deletion's result", c.fpos(fDelete), okRoot, "Delete must store root.delete(b, key) back into b.root")
	}

	// ---------------- Delete's verdict is the descent's verdict
	if ndelete != nil {
		fn := fDelete
		for _, b := range fn.Blocks {
			rt, ok := b.Instrs[len(b.Instrs)-1].(*ssa.Return)
			if !ok || b == fn.Recover || len(rt.Results) != 1 {
				continue
			}
			okE := true
			n := 0
			for _, o := range valueOrigins(path.ReturnValues(rt)[0]) {
				if path.IsNil(o) {
					// the zero value of the declared err before the call; allowed only as an origin next to the call's result
					continue
				}
				n++
				ex, isEx := o.(*ssa.Extract)
				if !isEx || ex.Index != 1 {
					okE = false
					continue
				}
				call, isCall := ex.Tuple.(*ssa.Call)
				if !isCall || path.StaticCallee(call) != ndelete {
					okE = false
				}
			}
			c.ob("PV1", p.FuncName(fn), "reports what the descent found", p.InstrPos(rt), okE && n >= 1, "Delete returns an error that does not come from root.delete(b, key): presence is decided by something other than the tree (e.g. the size counter)")
		}
	}

	// ---------------- who writes values and links
	for _, f := range allDeep {
		for _, in := range path.Instrs(f) {
			st, ok := in.(*ssa.Store)
			if !ok {
				continue
			}
			fa, ok := st.Addr.(*ssa.FieldAddr)
			if !ok {
				continue
			}
			nm := fieldName(fa.X.Type(), fa.Field)
			var base ssa.Value
			if f2, ok := fa.X.(*ssa.FieldAddr); ok && isFieldOf(f2, "Node", "Item") && (nm == "Val" || nm == "Key") {
				base = f2.X
			} else if n := namedOf(fa.X.Type()); n != nil && n.Obj().Name() == "Node" && (nm == "Left" || nm == "Right") {
				base = fa.X
			} else {
				continue
			}
			okW := false
			if al, isAl := base.(*ssa.Alloc); isAl && al.Heap {
				okW = true // composite literal of a fresh node
			}
			if prm, isP := base.(*ssa.Parameter); isP && len(f.Params) > 0 && prm == f.Params[0] && (f == nupsert || f == ndelete) && f != nil {
				okW = true
			}
			if f == nupsert && f != nil && base == descentNode(f) {
				okW = true // the descent written as a loop: the cursor is the node reached
			}
			c.ob("AG1", p.FuncName(f), "write to Node."+nm, p.InstrPos(st), okW, "a node's "+nm+" is written through a pointer that is not the node reached by the descent (or a fresh node): cached or detached nodes can be updated instead of the tree")
		}
	}
	// upsert's value overwrite sits in the hit region
	if nupsert != nil {
		fn := nupsert
		for _, in := range path.Instrs(fn) {
			st, ok := in.(*ssa.Store)
			if !ok {
				continue
			}
			fa, ok := st.Addr.(*ssa.FieldAddr)
			if !ok || fieldName(fa.X.Type(), fa.Field) != "Val" {
				continue
			}
			if f2, ok := fa.X.(*ssa.FieldAddr); ok && f2.X == descentNode(fn) {
				extra := unaccountedGuard(fn, st.Block(), func(v ssa.Value) bool {
					if isNilTest(v) {
						return true
					}
					bo, ok := v.(*ssa.BinOp)
					if !ok {
						return false
					}
					for _, side := range []ssa.Value{bo.X, bo.Y} {
						if call, ok := side.(*ssa.Call); ok {
							if cal := call.Call.StaticCallee(); cal != nil && (cal.Name() == "Compare" || (cal.Origin() != nil && cal.Origin().Name() == "Compare")) {
								return true
							}
							if _, isFn := call.Call.Value.Type().Underlying().(*types.Signature); isFn && call.Call.StaticCallee() == nil {
								return true // the comparator itself
							}
						}
					}
					return false
				})
				c.ob("PV2", p.FuncName(fn), "value overwritten at every hit", p.InstrPos(st), extra == nil, "the overwrite of n.Val hangs on a branch that is neither a comparison outcome nor a nil test: in some states Upsert of an existing key keeps the old value")
				c.ob("PV2", p.FuncName(fn), "value overwritten at the hit only", p.InstrPos(st), cmpOutcome(fn, st.Block(), paramByName(fn, "key"), descentNode(fn)) == ordEQ && st.Val == ssa.Value(paramByName(fn, "val")),
					"upsert must overwrite n.Val with val exactly where neither Compare outcome 1 nor -1 holds")
			}
		}
	}

	// ---------------- AG4 size bookkeeping
	{
		sts := fieldStores(allDeep, "BsTree", "size")
		nInc := 0
		for _, st := range sts {
			fn := st.Parent()
			fname := p.FuncName(fn)
			step := ""
			if bo, ok := st.Val.(*ssa.BinOp); ok && isLoadOfField(bo.X, "BsTree", "size") {
				if k, ok := path.IntConst(bo.Y); ok && k == 1 {
					step = bo.Op.String()
				}
			}
			switch step {
			case "+":
				nInc++
				// same block links a NewNode(key,val) into a slot that is known nil
				linked := ""
				for _, in := range st.Block().Instrs {
					s2, ok := in.(*ssa.Store)
					if !ok {
						continue
					}
					call, ok := s2.Val.(*ssa.Call)
					if !ok || newNode == nil || path.StaticCallee(call) != newNode {
						continue
					}
					if call.Call.Args[0] != ssa.Value(paramByName(fn, "key")) || call.Call.Args[1] != ssa.Value(paramByName(fn, "val")) {
						continue
					}
					x := newPathCtx(p)
					slot := stripAmp(x.path(s2.Addr))
					if hasFact(edgeFacts(x, fn, st.Block()), slot, "==", "zero") {
						linked = slot
					}
					// the same by value identity (a slot of the loop cursor has no access path)
					if fa, ok := s2.Addr.(*ssa.FieldAddr); ok && linked == "" {
						if guardedBy(fn, st.Block(), func(cd path.Cond, truth bool) bool {
							if normCmp(cd.Op, truth) != "==" || !path.IsNil(cd.Y) {
								return false
							}
							u, ok := cd.X.(*ssa.UnOp)
							if !ok || u.Op != token.MUL {
								return false
							}
							f2, ok := u.X.(*ssa.FieldAddr)
							return ok && f2.X == fa.X && f2.Field == fa.Field
						}) {
							linked = "slot of the node reached"
						}
					}
				}
				c.ob("AG4", fname, "size++ with the linking of a new node", p.InstrPos(st), linked != "", "a size increment is not accompanied, in the same branch, by storing NewNode(key, val) into a slot known to be nil: the count and the number of nodes diverge")
			case "-":
				// reachable only through err == nil of the deletion
				isErrNil := func(v ssa.Value, truth bool) bool {
					bo, ok := v.(*ssa.BinOp)
					if !ok || (bo.Op != token.EQL && bo.Op != token.NEQ) {
						return false
					}
					e := bo.X
					if path.IsNil(e) {
						e = bo.Y
					} else if !path.IsNil(bo.Y) {
						return false
					}
					okE := false
					for _, o := range valueOrigins(e) {
						if ex, ok := o.(*ssa.Extract); ok && ex.Index == 1 {
							if call, ok := ex.Tuple.(*ssa.Call); ok && ndelete != nil && path.StaticCallee(call) == ndelete {
								okE = true
							}
						}
					}
					return okE && (bo.Op == token.EQL) == truth
				}
				reach := reachableAvoiding(fn, cutEdges(isErrNil), nil)
				c.ob("AG4", fname, "size-- only after a successful deletion", p.InstrPos(st), !reach[st.Block()], "the decrement is reachable without passing the 'deletion returned no error' edge: deleting an absent key makes Size wrong")
			default:
				c.ob("AG4", fname, "size step", p.InstrPos(st), false, "BsTree.size must change by exactly one")
			}
		}
		c.ob("AG4", "bstree.(*BsTree)", "increment sites", "-", nInc >= 3, "expected a size increment for each of the three linking sites (root, Left, Right)")
		ret := accessorReturnDefer(fSize)
		c.ob("CM1", p.FuncName(fSize), "Size reports the counter", c.fpos(fSize), ret != nil && isLoadOfField(ret, "BsTree", "size"), "Size must return BsTree.size")
	}
	// Upsert stores or descends exactly once on every path
	if nupsert != nil {
		isIns := func(in ssa.Instruction) bool {
			if call, ok := in.(ssa.CallInstruction); ok && path.StaticCallee(call) == nupsert {
				return true
			}
			if st, ok := in.(*ssa.Store); ok {
				if fa, ok := st.Addr.(*ssa.FieldAddr); ok && isFieldOf(fa, "BsTree", "root") {
					return true
				}
			}
			return false
		}
		mn, mx := path.MinCount(fUpsert, isIns), path.MaxCount(fUpsert, isIns)
		c.ob("PT1", p.FuncName(fUpsert), "inserts exactly once on every path", c.fpos(fUpsert), mn == 1 && mx == 1, fmt.Sprintf("Upsert links the root or descends %d..%s times depending on the path", mn, countStr(mx)))
	}
	// Upsert: empty tree links the root, otherwise descends from the root with key and val
	if nupsert != nil {
		okU := false
		for _, call := range callsTo(fUpsert, nupsert) {
			a := call.Common().Args
			if isLoadOfField(a[0], "BsTree", "root") && a[2] == ssa.Value(paramByName(fUpsert, "key")) && a[3] == ssa.Value(paramByName(fUpsert, "val")) {
				x := newPathCtx(p)
				if hasFact(edgeFacts(x, fUpsert, call.Block()), "b.root", "!=", "zero") {
					okU = true
				}
			}
		}
		c.ob("PV1", p.FuncName(fUpsert), "Upsert descends from the root", c.fpos(fUpsert), okU, "Upsert must call root.upsert(b, key, val) on a non-nil root")
	}
}

// descentNode: the node a lookup compares at - the receiver (the descent continues by
// a recursive call) or, when the descent is written as a loop, the loop variable that
// starts at the receiver and is replaced only by its own Left or Right child.
func descentNode(fn *ssa.Function) ssa.Value {
	self := ssa.Value(fn.Params[0])
	for _, in := range path.Instrs(fn) {
		ph, ok := in.(*ssa.Phi)
		if !ok || len(path.NaturalLoop(ph.Block())) == 0 || ph.Type() != self.Type() {
			continue
		}
		nSelf, nChild, other := 0, 0, 0
		for _, e := range ph.Edges {
			if e == self {
				nSelf++
				continue
			}
			if u, ok := e.(*ssa.UnOp); ok && u.Op == token.MUL {
				if fa, ok := u.X.(*ssa.FieldAddr); ok && fa.X == ssa.Value(ph) && (isFieldOf(fa, "Node", "Left") || isFieldOf(fa, "Node", "Right")) {
					nChild++
					continue
				}
			}
			other++
		}
		if nSelf == 1 && nChild >= 1 && other == 0 {
			return ph
		}
	}
	return self
}
