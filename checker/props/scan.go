package props

import (
	"fmt"
	"go/constant"
	"go/token"
	"go/types"
	"os"
	"sort"
	"strings"

	"golang.org/x/tools/go/ssa"

	"gogucheck/core"
	"gogucheck/path"
)

// ---------------------------------------------------------------------------
// PT5: canonical scans of a slice
// ---------------------------------------------------------------------------

type scanInfo struct {
	dir    int // +1 forward from 0, -1 backward from len-1
	idx    ssa.Value
	header *ssa.BasicBlock // block holding the loop condition
}

func isLenOfValue(pc *pathCtx, v ssa.Value, s ssa.Value) bool {
	sp := pc.path(s)
	if sp == "" {
		return false
	}
	return pc.path(v) == "len("+stripAmp(sp)+")"
}

// classifyScan recognises the three accepted complete scans of slice s through
// index value idx: the range loop, the forward for loop (0, i < len, +1) and the
// backward for loop (len-1, i >= 0, -1).
func classifyScan(pc *pathCtx, fn *ssa.Function, idx ssa.Value, s ssa.Value) (scanInfo, bool) {
	boundedBy := func(b *ssa.BasicBlock, pred func(cd path.Cond, truth bool) bool) bool {
		iff := path.BlockIf(b)
		if iff == nil {
			return false
		}
		cd, ok := path.CondOf(iff)
		if !ok {
			return false
		}
		// the loop continues on the true edge (accept negation and either operand order)
		return anyPresentation(cd, !cd.Neg, pred)
	}
	ltLen := func(iv ssa.Value) func(cd path.Cond, truth bool) bool {
		return func(cd path.Cond, truth bool) bool {
			if !truth {
				return false
			}
			if cd.Op == token.LSS && cd.X == iv && isLenOfValue(pc, cd.Y, s) {
				return true
			}
			if cd.Op == token.GTR && cd.Y == iv && isLenOfValue(pc, cd.X, s) {
				return true
			}
			return false
		}
	}
	// A: range loop  idx = phi + 1, phi = [-1, idx]
	if bo, ok := idx.(*ssa.BinOp); ok && bo.Op == token.ADD {
		if k, ok := path.IntConst(bo.Y); ok && k == 1 {
			if ph, ok := bo.X.(*ssa.Phi); ok && len(ph.Edges) >= 2 {
				init, back, other := 0, 0, 0
				for _, e := range ph.Edges {
					if c, ok := path.IntConst(e); ok && c == -1 {
						init++
					} else if e == idx {
						back++
					} else {
						other++
					}
				}
				if init == 1 && back >= 1 && other == 0 && boundedBy(bo.Block(), ltLen(idx)) {
					return scanInfo{dir: +1, idx: idx, header: bo.Block()}, true
				}
			}
		}
	}
	ph, ok := idx.(*ssa.Phi)
	if !ok {
		return scanInfo{}, false
	}
	var initV ssa.Value
	step := 0
	for _, e := range ph.Edges {
		if bo, ok := e.(*ssa.BinOp); ok && bo.X == ssa.Value(ph) && (bo.Op == token.ADD || bo.Op == token.SUB) {
			if k, ok := path.IntConst(bo.Y); ok && k == 1 {
				if bo.Op == token.ADD {
					step = +1
				} else {
					step = -1
				}
				continue
			}
		}
		if initV != nil {
			return scanInfo{}, false
		}
		initV = e
	}
	if initV == nil || step == 0 {
		return scanInfo{}, false
	}
	if step == +1 {
		if k, ok := path.IntConst(initV); !ok || k != 0 {
			return scanInfo{}, false
		}
		if boundedBy(ph.Block(), ltLen(ph)) {
			return scanInfo{dir: +1, idx: ph, header: ph.Block()}, true
		}
		return scanInfo{}, false
	}
	// backward: init = len(s)-1, guard idx >= 0
	sp := pc.path(s)
	if pc.path(initV) != "(len("+stripAmp(sp)+")-1)" {
		return scanInfo{}, false
	}
	ge0 := func(cd path.Cond, truth bool) bool {
		if !truth {
			return false
		}
		if cd.X == ssa.Value(ph) {
			if k, ok := path.IntConst(cd.Y); ok {
				return (cd.Op == token.GEQ && k == 0) || (cd.Op == token.GTR && k == -1)
			}
		}
		if cd.Y == ssa.Value(ph) {
			if k, ok := path.IntConst(cd.X); ok {
				return (cd.Op == token.LEQ && k == 0) || (cd.Op == token.LSS && k == -1)
			}
		}
		return false
	}
	if boundedBy(ph.Block(), ge0) {
		return scanInfo{dir: -1, idx: ph, header: ph.Block()}, true
	}
	return scanInfo{}, false
}

// elemReads lists the loads s[idx] of slice value s in fn (not in closures).
type elemRead struct {
	load *ssa.UnOp
	idx  ssa.Value
}

func elemReads(fn *ssa.Function, s ssa.Value) []elemRead {
	var out []elemRead
	for _, in := range path.Instrs(fn) {
		u, ok := in.(*ssa.UnOp)
		if !ok || u.Op != token.MUL {
			continue
		}
		ia, ok := u.X.(*ssa.IndexAddr)
		if !ok || ia.X != s {
			continue
		}
		out = append(out, elemRead{u, ia.Index})
	}
	return out
}

// ---------------------------------------------------------------------------
// helper hygiene: the helpers are functions of their arguments only
// ---------------------------------------------------------------------------

// hygiene checks, for every function declared in files: GS1 no reference to a
// package-level variable that is mutable shared state (anything but error values,
// compiled regular expressions and scalars that are never stored to), GS2 no
// goroutine is started.
func hygiene(c rc, files ...string) {
	fns := c.p.FuncsInFiles(files...)
	var deep []*ssa.Function
	var add func(f *ssa.Function)
	add = func(f *ssa.Function) {
		deep = append(deep, f)
		for _, a := range f.AnonFuncs {
			add(a)
		}
	}
	for _, f := range fns {
		add(f)
	}
	// stores to globals anywhere in the module outside package initialisers
	stored := map[*ssa.Global]string{}
	for _, f := range c.p.Funcs {
		if f.Name() == "init" {
			continue
		}
		for _, in := range path.Instrs(f) {
			if st, ok := in.(*ssa.Store); ok {
				if g, ok := st.Addr.(*ssa.Global); ok {
					stored[g] = c.p.FuncName(f)
				}
			}
		}
	}
	n := 0
	for _, f := range deep {
		fname := c.p.FuncName(f)
		seen := map[*ssa.Global]bool{}
		for _, in := range path.Instrs(f) {
			if _, ok := in.(*ssa.Go); ok {
				n++
				c.ob("GS2", fname, "starts a goroutine", c.p.InstrPos(in), false, "a helper starts goroutines: the order (and with it the result) of its work depends on the schedule")
			}
			var ops [12]*ssa.Value
			for _, op := range in.Operands(ops[:0]) {
				if op == nil || *op == nil {
					continue
				}
				g, ok := (*op).(*ssa.Global)
				if !ok || seen[g] || !globalInModule(c.p, g) {
					continue
				}
				seen[g] = true
				n++
				t := g.Type().(*types.Pointer).Elem()
				okT := immutableGlobalType(t)
				where, isStored := stored[g]
				ok2 := okT && !isStored
				reason := "the helper uses package-level state " + g.Name() + " of type " + t.String() + ": its result can depend on earlier or concurrent calls (shared buffers, pools, caches)"
				if isStored {
					reason = "the helper uses package-level variable " + g.Name() + ", which is written by " + where + ": its result can depend on earlier or concurrent calls"
				}
				c.ob("GS1", fname, "global "+g.Name(), c.p.InstrPos(in), ok2, reason)
			}
		}
	}
	c.r.Count("GS1", 0)
	_ = n
}

func immutableGlobalType(t types.Type) bool {
	s := t.String()
	switch {
	case s == "error", s == "*regexp.Regexp":
		return true
	}
	switch u := t.Underlying().(type) {
	case *types.Basic:
		return true
	case *types.Interface:
		return s == "error"
	case *types.Pointer:
		return strings.HasSuffix(u.Elem().String(), "regexp.Regexp")
	}
	return false
}

// nonEmptyFact reports whether block b is dominated by a test that slice s is
// non-empty.
func nonEmptyFact(pc *pathCtx, fn *ssa.Function, b *ssa.BasicBlock, s ssa.Value) bool {
	sp := stripAmp(pc.path(s))
	if sp == "" {
		return false
	}
	fs := edgeFacts(pc, fn, b)
	ln := "len(" + sp + ")"
	return hasFact(fs, ln, ">", "0") || hasFact(fs, ln, "!=", "0") || hasFact(fs, ln, ">=", "1")
}

var _ = core.Canon

func globalInModule(p *core.Program, g *ssa.Global) bool {
	if g.Pkg == nil || g.Pkg.Pkg == nil {
		return false
	}
	pp := g.Pkg.Pkg.Path()
	return pp == p.ModulePath || strings.HasPrefix(pp, p.ModulePath+"/")
}

// noAnswerBeforeTheScan (PT5): a function that computes its answer by scanning its input
// must not answer on a path that has not reached a scan: every return is dominated by a
// loop header, or reports an error / rejection, or is guarded by a test that lets only an
// empty input through. What it excludes is the early special case - "for inputs of
// length 8 return the argument as it is" - which no rule about the loop body can see.
func noAnswerBeforeTheScan(c rc, names ...string) {
	errType := types.Universe.Lookup("error").Type()
	for _, name := range names {
		fn := c.p.Func(name)
		if fn == nil || len(fn.Blocks) == 0 {
			continue
		}
		var heads []*ssa.BasicBlock
		for _, h := range fn.Blocks {
			if len(path.NaturalLoop(h)) > 0 {
				heads = append(heads, h)
			}
		}
		if len(heads) == 0 {
			continue
		}
		for _, b := range fn.Blocks {
			rt, ok := b.Instrs[len(b.Instrs)-1].(*ssa.Return)
			if !ok || b == fn.Recover {
				continue
			}
			behind := false
			for _, h := range heads {
				if h == b || h.Dominates(b) || path.NaturalLoop(h)[b] {
					behind = true
				}
			}
			rv := path.ReturnValues(rt)
			isErr := false
			if n := len(rv); n > 0 && types.Identical(rv[n-1].Type(), errType) && !path.IsNil(rv[n-1]) {
				isErr = true
			}
			okR := behind || isErr || guardedByEmptyInput(fn, b)
			if !okR {
				// a return several paths merge into (`if len(s) > 0 { scan }; return acc`):
				// walking backwards, every way in comes out of a scan or through an edge
				// that only an empty input takes
				seen := map[*ssa.BasicBlock]bool{}
				var back func(x *ssa.BasicBlock) bool
				back = func(x *ssa.BasicBlock) bool {
					for _, h := range heads {
						if h == x || h.Dominates(x) || path.NaturalLoop(h)[x] {
							return true
						}
					}
					if seen[x] {
						return true
					}
					seen[x] = true
					if len(x.Preds) == 0 {
						return false
					}
					for _, pr := range x.Preds {
						if emptyInputEdge(fn, pr, x) {
							continue
						}
						if !back(pr) {
							return false
						}
					}
					return true
				}
				okR = back(b)
			}
			c.ob("PT5", name, "no answer in front of the scan", c.p.InstrPos(rt), okR, "a return is reachable that no scan of the input dominates, that reports no error and that is not guarded by an empty-input test: some inputs are answered without being looked at")
		}
	}
}

// workOnEveryPath (PT2): an operation's essential effect - the store, the call it exists
// for - lies on every path from its entry to a return (at least once); an early return
// that skips it for some state or argument is a silent no-op. stores of field `field` of
// type typ (when field != "") and calls of functions named in calls both count.
func workOnEveryPath(c rc, name, object, typ, field string, calls []string, reason string) {
	fn := c.p.Func(name)
	if fn == nil || len(fn.Blocks) == 0 {
		return
	}
	is := func(in ssa.Instruction) bool {
		switch x := in.(type) {
		case *ssa.Store:
			if field != "" {
				if fa, ok := x.Addr.(*ssa.FieldAddr); ok && isFieldOf(fa, typ, field) {
					return true
				}
			}
		case ssa.CallInstruction:
			if cal := path.StaticCallee(x); cal != nil {
				for _, n := range calls {
					if cal.Name() == n {
						return true
					}
				}
			}
			if mc, ok := x.Common().Value.(*ssa.MakeClosure); ok {
				if f, ok := mc.Fn.(*ssa.Function); ok {
					for _, n := range calls {
						if n == "go func" && f.Parent() == fn {
							return true
						}
					}
				}
			}
		}
		return false
	}
	c.ob("PT2", name, object, c.fpos(fn), path.MinCount(fn, is) >= 1, reason)
}

// resultUntouchedAfterTheScan (PV1): what a scanning helper has accumulated when its last
// loop is left is what it returns: behind the loops (blocks dominated by a loop header,
// outside every loop) nothing re-slices a value, stores into a slice or map element,
// appends, deletes or copies. Trimming, reordering or patching the finished result for
// particular sizes is invisible to every rule about the loop body.
func resultUntouchedAfterTheScan(c rc, names ...string) {
	for _, name := range names {
		fn := c.p.Func(name)
		if fn == nil || len(fn.Blocks) == 0 {
			continue
		}
		inLoop := map[*ssa.BasicBlock]bool{}
		var heads []*ssa.BasicBlock
		for _, h := range fn.Blocks {
			if l := path.NaturalLoop(h); len(l) > 0 {
				heads = append(heads, h)
				for b := range l {
					inLoop[b] = true
				}
			}
		}
		if len(heads) == 0 {
			continue
		}
		var bad ssa.Instruction
		what := ""
		for _, b := range fn.Blocks {
			if inLoop[b] || b == fn.Recover {
				continue
			}
			behind := false
			for _, h := range heads {
				if h.Dominates(b) {
					behind = true
				}
			}
			if !behind {
				continue
			}
			// the arm of a break taken inside the body belongs to the body (Find:
			// result[k] = v; break) and is judged by the rules about the body
			arm := len(b.Preds) > 0
			isHead := map[*ssa.BasicBlock]bool{}
			for _, h := range heads {
				isHead[h] = true
			}
			for _, pr := range b.Preds {
				if !inLoop[pr] || isHead[pr] {
					arm = false
				}
			}
			if arm {
				continue
			}
			for _, in := range b.Instrs {
				switch x := in.(type) {
				case *ssa.Slice:
					if _, isArr := x.X.Type().Underlying().(*types.Pointer); isArr {
						continue // slice literal: &[n]T{...}[:]
					}
					bad, what = in, "a re-slice"
				case *ssa.MapUpdate:
					bad, what = in, "a map update"
				case *ssa.Store:
					if _, ok := x.Addr.(*ssa.IndexAddr); ok {
						bad, what = in, "a store into an element"
					}
				case *ssa.Call:
					if bi, ok := x.Call.Value.(*ssa.Builtin); ok {
						switch bi.Name() {
						case "append", "delete", "copy":
							bad, what = in, "a call of "+bi.Name()
						}
					}
				}
			}
		}
		pos := c.fpos(fn)
		if bad != nil {
			pos = c.p.InstrPos(bad)
		}
		c.ob("PV1", name, "result untouched after the scan", pos, bad == nil, "behind its last loop the function performs "+what+": the accumulated result is trimmed, reordered or patched before it is returned")
	}
}

// copiesWholeMap (PV1): the function answers a fresh map that holds every entry of the
// map it ranges over: the value returned is a make(map) of its own; one range loop, left
// only when the range is exhausted, with no test inside it; the loop stores the key and
// value of the current entry, unconditionally; nothing else writes to or deletes from
// the copy.
func copiesWholeMap(c rc, name string) {
	fn := c.p.Func(name)
	if fn == nil || len(fn.Blocks) == 0 {
		return
	}
	fail := func(pos string, why string) {
		c.ob("PV1", name, "answers a copy of every entry", pos, false, why)
	}
	var mk *ssa.MakeMap
	for _, b := range fn.Blocks {
		rt, ok := b.Instrs[len(b.Instrs)-1].(*ssa.Return)
		if !ok || len(rt.Results) != 1 {
			continue
		}
		// maps.Clone(stored map) is the same copy, made by the library
		if call, isCall := path.Unspill(path.Strip(rt.Results[0])).(*ssa.Call); isCall && mk == nil {
			if cal := call.Call.StaticCallee(); cal != nil {
				if o := cal.Origin(); o != nil {
					cal = o
				}
				if cal.Pkg != nil && (cal.Pkg.Pkg.Path() == "maps" || cal.Pkg.Pkg.Path() == "golang.org/x/exp/maps") && cal.Name() == "Clone" && len(call.Call.Args) == 1 {
					if ld, isLd := path.Strip(call.Call.Args[0]).(*ssa.UnOp); isLd && ld.Op == token.MUL {
						if fa, isFa := ld.X.(*ssa.FieldAddr); isFa && rootedAtReceiver(fn, fa.X) {
							c.ob("PV1", name, "answers a copy of every entry", c.p.InstrPos(rt), true, "")
							continue
						}
					}
				}
			}
		}
		m, ok := path.Unspill(path.Strip(rt.Results[0])).(*ssa.MakeMap)
		if !ok || (mk != nil && m != mk) {
			fail(c.p.InstrPos(rt), "the value returned is not the one map the function makes")
			return
		}
		mk = m
	}
	if mk == nil {
		fail(c.fpos(fn), "no map of its own is returned")
		return
	}
	var hdr *ssa.BasicBlock
	var nx *ssa.Next
	for _, b := range fn.Blocks {
		for _, in := range b.Instrs {
			if n, ok := in.(*ssa.Next); ok && !n.IsString {
				if nx != nil {
					fail(c.p.InstrPos(n), "more than one range loop")
					return
				}
				nx, hdr = n, b
			}
		}
	}
	if nx == nil {
		// maps.Copy(copy, stored map) is the same loop, made by the library
		nCopy, other := 0, false
		for _, in := range path.Instrs(fn) {
			switch x := in.(type) {
			case *ssa.MapUpdate:
				other = other || path.Unspill(path.Strip(x.Map)) == ssa.Value(mk)
			case *ssa.Call:
				cal := x.Call.StaticCallee()
				if cal == nil {
					continue
				}
				if o := cal.Origin(); o != nil {
					cal = o
				}
				if cal.Pkg != nil && (cal.Pkg.Pkg.Path() == "maps" || cal.Pkg.Pkg.Path() == "golang.org/x/exp/maps") && cal.Name() == "Copy" && len(x.Call.Args) == 2 && path.Unspill(path.Strip(x.Call.Args[0])) == ssa.Value(mk) {
					if ld, isLd := path.Strip(x.Call.Args[1]).(*ssa.UnOp); isLd && ld.Op == token.MUL {
						if fa, isFa := ld.X.(*ssa.FieldAddr); isFa && rootedAtReceiver(fn, fa.X) && len(fn.Blocks) > 0 && x.Block() == fn.Blocks[0] {
							nCopy++
							continue
						}
					}
					other = true
				}
			}
		}
		if nCopy == 1 && !other {
			c.ob("PV1", name, "answers a copy of every entry", c.fpos(fn), true, "")
			return
		}
		fail(c.fpos(fn), "no range over the stored map")
		return
	}
	loop := path.NaturalLoop(hdr)
	for b := range loop {
		for _, s := range b.Succs {
			if !loop[s] && b != hdr {
				fail(c.p.InstrPos(b.Instrs[len(b.Instrs)-1]), "the copying loop is left before the range is exhausted: entries are missing from the answer")
				return
			}
		}
		if b != hdr && path.BlockIf(b) != nil {
			fail(c.p.InstrPos(b.Instrs[len(b.Instrs)-1]), "the copying loop decides per entry: some entries are not copied")
			return
		}
	}
	n := 0
	for _, in := range path.Instrs(fn) {
		switch x := in.(type) {
		case *ssa.MapUpdate:
			if path.Unspill(path.Strip(x.Map)) != ssa.Value(mk) {
				continue
			}
			k, okK := path.Strip(x.Key).(*ssa.Extract)
			okK = okK && k.Tuple == ssa.Value(nx) && k.Index == 1
			okV := false
			switch v := path.Strip(x.Value).(type) {
			case *ssa.Extract:
				okV = v.Tuple == ssa.Value(nx) && v.Index == 2
			case *ssa.Lookup: // copy[k] = stored[k]
				if rg, isRg := nx.Iter.(*ssa.Range); isRg && !v.CommaOk {
					ik, isK := path.Strip(v.Index).(*ssa.Extract)
					okV = isK && ik.Tuple == ssa.Value(nx) && ik.Index == 1 && sameLoad(v.X, rg.X)
				}
			}
			if !loop[in.Block()] || !okK || !okV {
				fail(c.p.InstrPos(in), "a store into the copy that is not 'copy[key] = value' of the current entry")
				return
			}
			n++
		case *ssa.Call:
			if bi, ok := x.Call.Value.(*ssa.Builtin); ok && bi.Name() == "delete" && path.Unspill(path.Strip(x.Call.Args[0])) == ssa.Value(mk) {
				fail(c.p.InstrPos(in), "entries are deleted from the copy")
				return
			}
		}
	}
	c.ob("PV1", name, "answers a copy of every entry", c.fpos(fn), n == 1, "the copying loop does not store the current entry exactly once")
}

// sameLoad: two reads of the same field of the same object (or the same value).
func sameLoad(a, b ssa.Value) bool {
	a, b = path.Strip(a), path.Strip(b)
	if a == b {
		return true
	}
	la, ok1 := a.(*ssa.UnOp)
	lb, ok2 := b.(*ssa.UnOp)
	if !ok1 || !ok2 || la.Op != token.MUL || lb.Op != token.MUL {
		return false
	}
	fa, ok1 := la.X.(*ssa.FieldAddr)
	fb, ok2 := lb.X.(*ssa.FieldAddr)
	return ok1 && ok2 && fa.Field == fb.Field && path.Unspill(path.Strip(fa.X)) == path.Unspill(path.Strip(fb.X))
}

// copiesWholeSlice (PV1): the function answers a full copy of a slice field of its
// receiver: make([]T, len(field)) filled by copy(dst, field), append(empty, field...) or
// slices.Clone(field), returned as it is - no re-slice, no store into it.
func copiesWholeSlice(c rc, name, typ, field string) {
	fn := c.p.Func(name)
	if fn == nil || len(fn.Blocks) == 0 {
		return
	}
	isField := func(v ssa.Value) bool { return isLoadOfField(path.Strip(v), typ, field) }
	nRet := 0
	for _, b := range fn.Blocks {
		rt, ok := b.Instrs[len(b.Instrs)-1].(*ssa.Return)
		if !ok || len(rt.Results) != 1 || b == fn.Recover {
			continue
		}
		nRet++
		okC := false
		why := "the value returned is not a copy made from the whole of " + field
		switch v := path.Unspill(path.Strip(rt.Results[0])).(type) {
		case *ssa.MakeSlice:
			okLen := false
			if call, isCall := path.Strip(v.Len).(*ssa.Call); isCall {
				if bi, isB := call.Call.Value.(*ssa.Builtin); isB && bi.Name() == "len" && isField(call.Call.Args[0]) {
					okLen = true
				}
			}
			nCopy, touched := 0, false
			for _, ref := range *v.Referrers() {
				switch x := ref.(type) {
				case *ssa.Call:
					if bi, isB := x.Call.Value.(*ssa.Builtin); isB && bi.Name() == "copy" && x.Call.Args[0] == ssa.Value(v) && isField(x.Call.Args[1]) && x.Block().Dominates(b) {
						nCopy++
						continue
					}
					touched = true
				case *ssa.Return, *ssa.DebugRef:
				case *ssa.Store:
					if _, local := x.Addr.(*ssa.Alloc); !local || x.Val != ssa.Value(v) {
						touched = true // anything but the spill of the result in front of a deferred call
					}
				default:
					touched = true
				}
			}
			okC = okLen && nCopy == 1 && !touched
			if !okLen {
				why = "the copy is not made with len(" + field + ") cells"
			} else if touched {
				why = "the copy is re-sliced, written to or passed on before it is returned"
			}
		case *ssa.Call:
			if bi, isB := v.Call.Value.(*ssa.Builtin); isB && bi.Name() == "append" && len(v.Call.Args) == 2 && isField(v.Call.Args[1]) {
				switch a := path.Strip(v.Call.Args[0]).(type) {
				case *ssa.Const:
					okC = a.IsNil()
				case *ssa.MakeSlice:
					k, isK := path.IntConst(a.Len)
					okC = isK && k == 0
				}
			}
			if cal := v.Call.StaticCallee(); cal != nil {
				if o := cal.Origin(); o != nil {
					cal = o
				}
				if cal.Pkg != nil && (cal.Pkg.Pkg.Path() == "slices" || cal.Pkg.Pkg.Path() == "golang.org/x/exp/slices") && cal.Name() == "Clone" && len(v.Call.Args) == 1 && isField(v.Call.Args[0]) {
					okC = true
				}
			}
		}
		c.ob("PV1", name, "answers a copy of every element", c.p.InstrPos(rt), okC, why)
	}
	if nRet == 0 {
		c.ob("PV1", name, "answers a copy of every element", c.fpos(fn), false, "no return of one value")
	}
}

// rootedAtReceiver: v is the receiver, or a field (of a field ...) of it, read through
// embedded pointers.
func rootedAtReceiver(fn *ssa.Function, v ssa.Value) bool {
	if len(fn.Params) == 0 {
		return false
	}
	for i := 0; i < 8; i++ {
		v = path.Unspill(path.Strip(v))
		if v == ssa.Value(fn.Params[0]) {
			return true
		}
		switch x := v.(type) {
		case *ssa.UnOp:
			if x.Op != token.MUL {
				return false
			}
			v = x.X
		case *ssa.FieldAddr:
			v = x.X
		default:
			return false
		}
	}
	return false
}

// positionBlind (PT3): what these functions promise does not depend on where an element
// stands or on how many there are, so no decision taken per element (a branch inside a
// loop, other than the loop's own continuation test) may consult the position, a running
// count, or a length or capacity. "All but the fifth", "not when three were kept" and the
// like are invisible to the rules that only ask for the stated test to be present.
// Accepted: a comparison of the position with 0 (first-element initialisation).
func positionBlind(c rc, names ...string) {
	for _, name := range names {
		fn := c.p.Func(name)
		if fn == nil || len(fn.Blocks) == 0 {
			continue
		}
		isHead := map[*ssa.BasicBlock]bool{}
		inLoop := map[*ssa.BasicBlock]bool{}
		for _, h := range fn.Blocks {
			if l := path.NaturalLoop(h); len(l) > 0 {
				isHead[h] = true
				for b := range l {
					inLoop[b] = true
				}
			}
		}
		n := 0
		var bad ssa.Instruction
		what := ""
		for _, b := range fn.Blocks {
			iff := path.BlockIf(b)
			if iff == nil || !inLoop[b] || isHead[b] {
				continue
			}
			n++
			if w := positional(iff.Cond, map[ssa.Value]bool{}, 0); w != "" {
				if bo, ok := path.Strip(iff.Cond).(*ssa.BinOp); ok && (bo.Op == token.EQL || bo.Op == token.NEQ) {
					kx, isX := path.IntConst(bo.X)
					ky, isY := path.IntConst(bo.Y)
					if (isX && kx == 0 && isCounter(bo.Y)) || (isY && ky == 0 && isCounter(bo.X)) {
						continue
					}
				}
				bad, what = iff, w
			}
		}
		pos := c.fpos(fn)
		if bad != nil {
			pos = c.p.InstrPos(bad)
		}
		c.ob("PT3", name, "per-element decisions do not consult position or size", pos, bad == nil, "a branch inside the scan depends on "+what+": which elements count depends on where they stand or on how many there are, which the statement does not allow")
		_ = n
	}
}

// isCounter: a loop-carried integer stepped by a constant (the position of a scan or a
// running count).
func isCounter(v ssa.Value) bool {
	ph, ok := path.Strip(v).(*ssa.Phi)
	if !ok || !isIntType(ph.Type()) {
		return false
	}
	for _, e := range ph.Edges {
		if bo, ok := path.Strip(e).(*ssa.BinOp); ok && (bo.Op == token.ADD || bo.Op == token.SUB) {
			if _, isK := path.IntConst(bo.Y); isK && path.Strip(bo.X) == ssa.Value(ph) {
				return true
			}
			if _, isK := path.IntConst(bo.X); isK && path.Strip(bo.Y) == ssa.Value(ph) && bo.Op == token.ADD {
				return true
			}
		}
	}
	return false
}

func positional(v ssa.Value, seen map[ssa.Value]bool, depth int) string {
	v = path.Strip(v)
	if seen[v] || depth > 12 {
		return ""
	}
	seen[v] = true
	switch x := v.(type) {
	case *ssa.BinOp:
		if isCounter(x.X) && !isCounter(x) {
			// the step of a counter is not a use of it
		}
		if w := positional(x.X, seen, depth+1); w != "" {
			return w
		}
		return positional(x.Y, seen, depth+1)
	case *ssa.UnOp:
		if x.Op == token.NOT || x.Op == token.SUB {
			return positional(x.X, seen, depth+1)
		}
	case *ssa.Phi:
		if isCounter(x) {
			return "the position or a running count"
		}
		for _, e := range x.Edges {
			if w := positional(e, seen, depth+1); w != "" {
				return w
			}
		}
	case *ssa.Call:
		if bi, ok := x.Call.Value.(*ssa.Builtin); ok && (bi.Name() == "len" || bi.Name() == "cap") {
			return "a length or capacity"
		}
	case *ssa.Extract:
		// the index of a range over a string / the key of a map are values, not positions
	}
	return ""
}

// noSingledOutValue (PT3): no branch of these functions compares anything with an integer
// or duration literal that the statement gives no role to. Accepted without a list: -1, 0
// and 1 (emptiness, first element, the comparator's three answers, "no expiration"), 2 in
// an ordering test (fewer than two elements), the byte/rune constants of the text
// functions, and the named constants passed in accept. "Not when five are held", "except
// for one hour" single out one state or argument and are invisible to every rule that
// only asks for the stated tests to be present.
func noSingledOutValue(c rc, files []string, accept map[int64]string) {
	fns := c.p.FuncsInFiles(files...)
	sort.Slice(fns, func(i, j int) bool { return c.p.FuncName(fns[i]) < c.p.FuncName(fns[j]) })
	for _, fn := range fns {
		name := c.p.FuncName(fn)
		var bad ssa.Instruction
		val := int64(0)
		nCmp := 0
		check := func(in ssa.Instruction, op token.Token, k ssa.Value) {
			cst, ok := path.Strip(k).(*ssa.Const)
			if !ok || cst.Value == nil {
				return
			}
			b, isB := cst.Type().Underlying().(*types.Basic)
			if !isB || b.Info()&types.IsInteger == 0 || b.Kind() == types.Int32 || b.Kind() == types.Uint8 {
				if _, isTP := cst.Type().(*types.TypeParam); !isTP {
					return
				}
			}
			if nm, isN := cst.Type().(*types.Named); isN && nm.Obj().Pkg() != nil && nm.Obj().Pkg().Path() == "reflect" {
				return // reflect.Kind values are names, not quantities
			}
			v, isK := path.IntConst(cst)
			if !isK {
				return
			}
			nCmp++
			if v >= -1 && v <= 1 {
				return
			}
			if v == 2 && op != token.EQL && op != token.NEQ {
				return
			}
			if _, ok := accept[v]; ok {
				return
			}
			bad, val = in, v
		}
		for _, in := range path.Instrs(fn) {
			bo, ok := in.(*ssa.BinOp)
			if !ok {
				continue
			}
			switch bo.Op {
			case token.EQL, token.NEQ, token.LSS, token.LEQ, token.GTR, token.GEQ:
				// only comparisons a branch (or a returned/stored truth value) is made of
				check(in, bo.Op, bo.X)
				check(in, bo.Op, bo.Y)
			}
		}
		if nCmp == 0 && bad == nil {
			continue
		}
		pos := c.fpos(fn)
		if bad != nil {
			pos = c.p.InstrPos(bad)
		}
		c.ob("PT3", name, "no state or argument value singled out", pos, bad == nil, fmt.Sprintf("a comparison with the literal %d: the function treats one particular size, count or argument value differently from all others, which the statement gives no reason for", val))
	}
}

// namedIntConsts: the value of a package-level integer constant of the module, and its
// half (a node holds at most maxChildren entries and is split in two).
func namedIntConsts(p *core.Program, pkg, name string) map[int64]string {
	out := map[int64]string{}
	for _, pk := range p.SSA.AllPackages() {
		if pk.Pkg.Name() != pkg {
			continue
		}
		if cn, ok := pk.Pkg.Scope().Lookup(name).(*types.Const); ok {
			if v, exact := constant.Int64Val(constant.ToInt(cn.Val())); exact {
				out[v] = name
				out[v/2] = name + "/2"
			}
		}
	}
	return out
}

// unaccountedGuard: the first branch that block b hangs on and that accept does not
// recognise. Skipped: facts obtained by threading a flag, and the continuation tests of
// loops (a branch one of whose edges leaves the loop it stands in). The rules that ask for
// "the action is dominated by the stated test" are silent about a further conjunct; this
// is the converse: the action hangs on nothing but the stated tests.
func unaccountedGuard(fn *ssa.Function, b *ssa.BasicBlock, accept func(cond ssa.Value) bool) *ssa.If {
	loops := map[*ssa.BasicBlock]map[*ssa.BasicBlock]bool{}
	for _, h := range fn.Blocks {
		if l := path.NaturalLoop(h); len(l) > 0 {
			loops[h] = l
		}
	}
	for _, g := range path.Guards(fn, b) {
		if g.Synth || g.Threaded || g.If == nil || g.If.Block() == nil {
			continue
		}
		ib := g.If.Block()
		cont := false
		for _, l := range loops {
			if !l[ib] {
				continue
			}
			for _, s := range ib.Succs {
				if !l[s] {
					cont = true
				}
			}
		}
		if cont {
			continue
		}
		v := g.If.Cond
		for {
			if u, ok := v.(*ssa.UnOp); ok && u.Op == token.NOT {
				v = u.X
				continue
			}
			break
		}
		if !accept(v) {
			if os.Getenv("GOGU_DEBUG") != "" {
				fmt.Fprintf(os.Stderr, "unaccounted: %s in %s: %v = %T\n", fn.Name(), b, v, v)
			}
			return g.If
		}
	}
	return nil
}

func isNilTest(v ssa.Value) bool {
	bo, ok := v.(*ssa.BinOp)
	if !ok || (bo.Op != token.EQL && bo.Op != token.NEQ) {
		return false
	}
	cx, okX := bo.X.(*ssa.Const)
	cy, okY := bo.Y.(*ssa.Const)
	return (okX && cx.IsNil()) || (okY && cy.IsNil())
}

// sizeVsSmall: the container's own element count (len of a field of the receiver, or a
// size()/Size()/Len()/Count() method of the module on it) compared with 0 or 1.
func sizeVsSmall(fn *ssa.Function, v ssa.Value) bool {
	bo, ok := v.(*ssa.BinOp)
	if !ok {
		return false
	}
	isSize := func(x ssa.Value) bool {
		call, ok := path.Strip(x).(*ssa.Call)
		if !ok {
			return false
		}
		if bi, isB := call.Call.Value.(*ssa.Builtin); isB {
			if bi.Name() != "len" {
				return false
			}
			ld, isLd := path.Strip(call.Call.Args[0]).(*ssa.UnOp)
			if !isLd || ld.Op != token.MUL {
				return false
			}
			fa, isFa := ld.X.(*ssa.FieldAddr)
			return isFa && rootedAtReceiver(fn, fa.X)
		}
		cal := call.Call.StaticCallee()
		if cal == nil || len(call.Call.Args) != 1 || !rootedAtReceiver(fn, call.Call.Args[0]) {
			return false
		}
		if o := cal.Origin(); o != nil {
			cal = o
		}
		switch strings.ToLower(cal.Name()) {
		case "size", "len", "count":
			return true
		}
		return false
	}
	small := func(x ssa.Value) bool {
		k, ok := path.IntConst(x)
		return ok && (k == 0 || k == 1)
	}
	return (isSize(bo.X) && small(bo.Y)) || (isSize(bo.Y) && small(bo.X))
}
