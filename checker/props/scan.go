package props

import (
	"go/token"
	"go/types"
	"strings"

	"golang.org/x/tools/go/ssa"

	"gogucheck/core"
	"gogucheck/path"
)

// ---------------------------------------------------------------------------
// PT5: canonical scans of a slice
// ---------------------------------------------------------------------------

type scanInfo struct {
	dir    int // +1 forward from 0, -1 backward from len-1
	idx    ssa.Value
	header *ssa.BasicBlock // block holding the loop condition
}

func isLenOfValue(pc *pathCtx, v ssa.Value, s ssa.Value) bool {
	sp := pc.path(s)
	if sp == "" {
		return false
	}
	return pc.path(v) == "len("+stripAmp(sp)+")"
}

// classifyScan recognises the three accepted complete scans of slice s through
// index value idx: the range loop, the forward for loop (0, i < len, +1) and the
// backward for loop (len-1, i >= 0, -1).
func classifyScan(pc *pathCtx, fn *ssa.Function, idx ssa.Value, s ssa.Value) (scanInfo, bool) {
	boundedBy := func(b *ssa.BasicBlock, pred func(cd path.Cond, truth bool) bool) bool {
		iff := path.BlockIf(b)
		if iff == nil {
			return false
		}
		cd, ok := path.CondOf(iff)
		if !ok {
			return false
		}
		// the loop continues on the true edge (accept negation and either operand order)
		return anyPresentation(cd, !cd.Neg, pred)
	}
	ltLen := func(iv ssa.Value) func(cd path.Cond, truth bool) bool {
		return func(cd path.Cond, truth bool) bool {
			if !truth {
				return false
			}
			if cd.Op == token.LSS && cd.X == iv && isLenOfValue(pc, cd.Y, s) {
				return true
			}
			if cd.Op == token.GTR && cd.Y == iv && isLenOfValue(pc, cd.X, s) {
				return true
			}
			return false
		}
	}
	// A: range loop  idx = phi + 1, phi = [-1, idx]
	if bo, ok := idx.(*ssa.BinOp); ok && bo.Op == token.ADD {
		if k, ok := path.IntConst(bo.Y); ok && k == 1 {
			if ph, ok := bo.X.(*ssa.Phi); ok && len(ph.Edges) >= 2 {
				init, back, other := 0, 0, 0
				for _, e := range ph.Edges {
					if c, ok := path.IntConst(e); ok && c == -1 {
						init++
					} else if e == idx {
						back++
					} else {
						other++
					}
				}
				if init == 1 && back >= 1 && other == 0 && boundedBy(bo.Block(), ltLen(idx)) {
					return scanInfo{dir: +1, idx: idx, header: bo.Block()}, true
				}
			}
		}
	}
	ph, ok := idx.(*ssa.Phi)
	if !ok {
		return scanInfo{}, false
	}
	var initV ssa.Value
	step := 0
	for _, e := range ph.Edges {
		if bo, ok := e.(*ssa.BinOp); ok && bo.X == ssa.Value(ph) && (bo.Op == token.ADD || bo.Op == token.SUB) {
			if k, ok := path.IntConst(bo.Y); ok && k == 1 {
				if bo.Op == token.ADD {
					step = +1
				} else {
					step = -1
				}
				continue
			}
		}
		if initV != nil {
			return scanInfo{}, false
		}
		initV = e
	}
	if initV == nil || step == 0 {
		return scanInfo{}, false
	}
	if step == +1 {
		if k, ok := path.IntConst(initV); !ok || k != 0 {
			return scanInfo{}, false
		}
		if boundedBy(ph.Block(), ltLen(ph)) {
			return scanInfo{dir: +1, idx: ph, header: ph.Block()}, true
		}
		return scanInfo{}, false
	}
	// backward: init = len(s)-1, guard idx >= 0
	sp := pc.path(s)
	if pc.path(initV) != "(len("+stripAmp(sp)+")-1)" {
		return scanInfo{}, false
	}
	ge0 := func(cd path.Cond, truth bool) bool {
		if !truth {
			return false
		}
		if cd.X == ssa.Value(ph) {
			if k, ok := path.IntConst(cd.Y); ok {
				return (cd.Op == token.GEQ && k == 0) || (cd.Op == token.GTR && k == -1)
			}
		}
		if cd.Y == ssa.Value(ph) {
			if k, ok := path.IntConst(cd.X); ok {
				return (cd.Op == token.LEQ && k == 0) || (cd.Op == token.LSS && k == -1)
			}
		}
		return false
	}
	if boundedBy(ph.Block(), ge0) {
		return scanInfo{dir: -1, idx: ph, header: ph.Block()}, true
	}
	return scanInfo{}, false
}

// elemReads lists the loads s[idx] of slice value s in fn (not in closures).
type elemRead struct {
	load *ssa.UnOp
	idx  ssa.Value
}

func elemReads(fn *ssa.Function, s ssa.Value) []elemRead {
	var out []elemRead
	for _, in := range path.Instrs(fn) {
		u, ok := in.(*ssa.UnOp)
		if !ok || u.Op != token.MUL {
			continue
		}
		ia, ok := u.X.(*ssa.IndexAddr)
		if !ok || ia.X != s {
			continue
		}
		out = append(out, elemRead{u, ia.Index})
	}
	return out
}

// ---------------------------------------------------------------------------
// helper hygiene: the helpers are functions of their arguments only
// ---------------------------------------------------------------------------

// hygiene checks, for every function declared in files: GS1 no reference to a
// package-level variable that is mutable shared state (anything but error values,
// compiled regular expressions and scalars that are never stored to), GS2 no
// goroutine is started.
func hygiene(c rc, files ...string) {
	fns := c.p.FuncsInFiles(files...)
	var deep []*ssa.Function
	var add func(f *ssa.Function)
	add = func(f *ssa.Function) {
		deep = append(deep, f)
		for _, a := range f.AnonFuncs {
			add(a)
		}
	}
	for _, f := range fns {
		add(f)
	}
	// stores to globals anywhere in the module outside package initialisers
	stored := map[*ssa.Global]string{}
	for _, f := range c.p.Funcs {
		if f.Name() == "init" {
			continue
		}
		for _, in := range path.Instrs(f) {
			if st, ok := in.(*ssa.Store); ok {
				if g, ok := st.Addr.(*ssa.Global); ok {
					stored[g] = c.p.FuncName(f)
				}
			}
		}
	}
	n := 0
	for _, f := range deep {
		fname := c.p.FuncName(f)
		seen := map[*ssa.Global]bool{}
		for _, in := range path.Instrs(f) {
			if _, ok := in.(*ssa.Go); ok {
				n++
				c.ob("GS2", fname, "starts a goroutine", c.p.InstrPos(in), false, "a helper starts goroutines: the order (and with it the result) of its work depends on the schedule")
			}
			var ops [12]*ssa.Value
			for _, op := range in.Operands(ops[:0]) {
				if op == nil || *op == nil {
					continue
				}
				g, ok := (*op).(*ssa.Global)
				if !ok || seen[g] || !globalInModule(c.p, g) {
					continue
				}
				seen[g] = true
				n++
				t := g.Type().(*types.Pointer).Elem()
				okT := immutableGlobalType(t)
				where, isStored := stored[g]
				ok2 := okT && !isStored
				reason := "the helper uses package-level state " + g.Name() + " of type " + t.String() + ": its result can depend on earlier or concurrent calls (shared buffers, pools, caches)"
				if isStored {
					reason = "the helper uses package-level variable " + g.Name() + ", which is written by " + where + ": its result can depend on earlier or concurrent calls"
				}
				c.ob("GS1", fname, "global "+g.Name(), c.p.InstrPos(in), ok2, reason)
			}
		}
	}
	c.r.Count("GS1", 0)
	_ = n
}

func immutableGlobalType(t types.Type) bool {
	s := t.String()
	switch {
	case s == "error", s == "*regexp.Regexp":
		return true
	}
	switch u := t.Underlying().(type) {
	case *types.Basic:
		return true
	case *types.Interface:
		return s == "error"
	case *types.Pointer:
		return strings.HasSuffix(u.Elem().String(), "regexp.Regexp")
	}
	return false
}

// nonEmptyFact reports whether block b is dominated by a test that slice s is
// non-empty.
func nonEmptyFact(pc *pathCtx, fn *ssa.Function, b *ssa.BasicBlock, s ssa.Value) bool {
	sp := stripAmp(pc.path(s))
	if sp == "" {
		return false
	}
	fs := edgeFacts(pc, fn, b)
	ln := "len(" + sp + ")"
	return hasFact(fs, ln, ">", "0") || hasFact(fs, ln, "!=", "0") || hasFact(fs, ln, ">=", "1")
}

var _ = core.Canon

func globalInModule(p *core.Program, g *ssa.Global) bool {
	if g.Pkg == nil || g.Pkg.Pkg == nil {
		return false
	}
	pp := g.Pkg.Pkg.Path()
	return pp == p.ModulePath || strings.HasPrefix(pp, p.ModulePath+"/")
}

// noAnswerBeforeTheScan (PT5): a function that computes its answer by scanning its input
// must not answer on a path that has not reached a scan: every return is dominated by a
// loop header, or reports an error / rejection, or is guarded by a test that lets only an
// empty input through. What it excludes is the early special case - "for inputs of
// length 8 return the argument as it is" - which no rule about the loop body can see.
func noAnswerBeforeTheScan(c rc, names ...string) {
	errType := types.Universe.Lookup("error").Type()
	for _, name := range names {
		fn := c.p.Func(name)
		if fn == nil || len(fn.Blocks) == 0 {
			continue
		}
		var heads []*ssa.BasicBlock
		for _, h := range fn.Blocks {
			if len(path.NaturalLoop(h)) > 0 {
				heads = append(heads, h)
			}
		}
		if len(heads) == 0 {
			continue
		}
		for _, b := range fn.Blocks {
			rt, ok := b.Instrs[len(b.Instrs)-1].(*ssa.Return)
			if !ok || b == fn.Recover {
				continue
			}
			behind := false
			for _, h := range heads {
				if h == b || h.Dominates(b) || path.NaturalLoop(h)[b] {
					behind = true
				}
			}
			rv := path.ReturnValues(rt)
			isErr := false
			if n := len(rv); n > 0 && types.Identical(rv[n-1].Type(), errType) && !path.IsNil(rv[n-1]) {
				isErr = true
			}
			okR := behind || isErr || guardedByEmptyInput(fn, b)
			if !okR {
				// a return several paths merge into (`if len(s) > 0 { scan }; return acc`):
				// walking backwards, every way in comes out of a scan or through an edge
				// that only an empty input takes
				seen := map[*ssa.BasicBlock]bool{}
				var back func(x *ssa.BasicBlock) bool
				back = func(x *ssa.BasicBlock) bool {
					for _, h := range heads {
						if h == x || h.Dominates(x) || path.NaturalLoop(h)[x] {
							return true
						}
					}
					if seen[x] {
						return true
					}
					seen[x] = true
					if len(x.Preds) == 0 {
						return false
					}
					for _, pr := range x.Preds {
						if emptyInputEdge(fn, pr, x) {
							continue
						}
						if !back(pr) {
							return false
						}
					}
					return true
				}
				okR = back(b)
			}
			c.ob("PT5", name, "no answer in front of the scan", c.p.InstrPos(rt), okR, "a return is reachable that no scan of the input dominates, that reports no error and that is not guarded by an empty-input test: some inputs are answered without being looked at")
		}
	}
}

// workOnEveryPath (PT2): an operation's essential effect - the store, the call it exists
// for - lies on every path from its entry to a return (at least once); an early return
// that skips it for some state or argument is a silent no-op. stores of field `field` of
// type typ (when field != "") and calls of functions named in calls both count.
func workOnEveryPath(c rc, name, object, typ, field string, calls []string, reason string) {
	fn := c.p.Func(name)
	if fn == nil || len(fn.Blocks) == 0 {
		return
	}
	is := func(in ssa.Instruction) bool {
		switch x := in.(type) {
		case *ssa.Store:
			if field != "" {
				if fa, ok := x.Addr.(*ssa.FieldAddr); ok && isFieldOf(fa, typ, field) {
					return true
				}
			}
		case ssa.CallInstruction:
			if cal := path.StaticCallee(x); cal != nil {
				for _, n := range calls {
					if cal.Name() == n {
						return true
					}
				}
			}
			if mc, ok := x.Common().Value.(*ssa.MakeClosure); ok {
				if f, ok := mc.Fn.(*ssa.Function); ok {
					for _, n := range calls {
						if n == "go func" && f.Parent() == fn {
							return true
						}
					}
				}
			}
		}
		return false
	}
	c.ob("PT2", name, object, c.fpos(fn), path.MinCount(fn, is) >= 1, reason)
}
