package props

import (
	"gogucheck/core"
)

func init() {
	register(&Check{
		ID: "C20",
		Explanation: "Scheduling discipline of Delay, debounce and throttle, decided structurally: (engine E1) every access to debouncer.timer and throttler.last/waiting/stop holds the instance " +
			"lock (LK1/CV1), locks are balanced (LK2/LK3), cond.Wait sits in a loop that re-tests the predicate fields (CV2), every store that can end a wait is followed by a wake-up before the lock " +
			"is released (CV3), grant consumption and time stamping happen in one critical section (AT1); (engine E4/E7, added below when built) the callback flows only into time.AfterFunc with the " +
			"configured duration, a pending timer is stopped before it is replaced, the stop flag is monotone. Timing inequalities are not decided.",
		Assumptions: []string{"contracts of time.AfterFunc, time.Timer.Stop, sync.Cond, sync.Mutex"},
		NotDecided:  []string{"every wall-clock inequality", "races between Timer.Stop and an already firing timer", "trailing-mode rate (at most one permission per period)"},
		Run: func(p *core.Program, r *core.Report) {
			res := runLockset(p)
			checkGuardTable(res, r, funcTypes)
			emitLockset(res, r, map[string]bool{"LK1": true, "LK2": true, "LK3": true, "LK4": true, "AT1": true, "CV1": true, "CV2": true, "CV3": true}, funcTypes)
			r.Floor("LK1", 15)
			r.Floor("CV2", 1)
			r.Floor("CV3", 3)
			c20Extra(p, r)
		},
	})
}

var c20Extra = func(p *core.Program, r *core.Report) {}
