package props

import (
	"fmt"
	"go/token"
	"go/types"
	"strings"

	"golang.org/x/tools/go/ssa"

	"gogucheck/core"
	"gogucheck/path"
)

func init() {
	register(&Check{
		ID: "C20",
		Explanation: "Scheduling discipline of Delay, debounce and throttle, decided structurally: (engine E1) every access to debouncer.timer and throttler.last/waiting/stop holds the instance " +
			"lock (LK1/CV1), locks are balanced (LK2/LK3), cond.Wait sits in a loop that re-tests the predicate fields (CV2), every store that can end a wait is followed by a wake-up before the lock " +
			"is released (CV3), grant consumption and time stamping happen in one critical section (AT1); (engine E4/E7, added below when built) the callback flows only into time.AfterFunc with the " +
			"configured duration, a pending timer is stopped before it is replaced, the stop flag is monotone. Timing inequalities are not decided. GG4 one permission per period also for a Next that arrives after a trailing trigger: Next consumes only where the period is known to have elapsed (all eight assignments of stop / waiting / elapsed walked from the entry and from every return of cond.Wait), or Call never grants before it.",
		Assumptions: []string{"contracts of time.AfterFunc, time.Timer.Stop, sync.Cond, sync.Mutex"},
		NotDecided:  []string{"every wall-clock inequality", "races between Timer.Stop and an already firing timer"},
		Run: func(p *core.Program, r *core.Report) {
			res := runLockset(p)
			checkGuardTable(res, r, funcTypes)
			emitLockset(res, r, map[string]bool{"LK1": true, "LK2": true, "LK3": true, "LK4": true, "AT1": true, "AT2": true, "AT3": true, "CV1": true, "CV2": true, "CV3": true}, funcTypes)
			r.Floor("LK1", 15)
			r.Floor("CV2", 1)
			r.Floor("CV3", 3)
			c20Extra(p, r)
		},
	})
}

// slotOf: v is &x.F for a struct type named typ; returns the field name.
func slotOf(v ssa.Value, typ string) (string, bool) {
	fa, ok := v.(*ssa.FieldAddr)
	if !ok {
		return "", false
	}
	t := fa.X.Type()
	if pt, ok := t.Underlying().(*types.Pointer); ok {
		t = pt.Elem()
	}
	n, ok := t.(*types.Named)
	if !ok || n.Obj().Name() != typ {
		return "", false
	}
	st, ok := n.Underlying().(*types.Struct)
	if !ok {
		return "", false
	}
	return st.Field(fa.Field).Name(), true
}

// loadOfSlot: v is a load of slot typ.field.
func loadOfSlot(v ssa.Value, typ, field string) bool {
	u, ok := v.(*ssa.UnOp)
	if !ok || u.Op != token.MUL {
		return false
	}
	f, ok := slotOf(u.X, typ)
	return ok && f == field
}

func isAllocBase(v ssa.Value) bool {
	if fa, ok := v.(*ssa.FieldAddr); ok {
		_, isAlloc := fa.X.(*ssa.Alloc)
		return isAlloc
	}
	return false
}

// boolGuards: the (slot, value) pairs known on every path to target through
// branches on plain boolean loads of slots of typ: "if x.f" / "if !x.f".
func boolGuards(fn *ssa.Function, target *ssa.BasicBlock, typ string) map[string]bool {
	out := map[string]bool{}
	for _, g := range path.Guards(fn, target) {
		c := g.If.Cond
		neg := false
		for {
			if u, ok := c.(*ssa.UnOp); ok && u.Op == token.NOT {
				neg = !neg
				c = u.X
				continue
			}
			break
		}
		u, ok := c.(*ssa.UnOp)
		if !ok || u.Op != token.MUL {
			continue
		}
		if f, ok := slotOf(u.X, typ); ok {
			val := g.Idx == 0 // true edge: cond true
			if neg {
				val = !val
			}
			out[f] = val
		}
	}
	return out
}

func c20Extra(p *core.Program, r *core.Report) {
	// ---- AF1: Delay hands the callback to time.AfterFunc with the delay parameter, and nowhere else
	if fn := mustFunc(p, r, "gogu.Delay"); fn != nil {
		cb, d := funcParam(fn), paramByName(fn, "delay")
		ok := cb != nil && d != nil
		uses := 0
		if ok {
			for _, ref := range *cb.Referrers() {
				uses++
				c, isCall := ref.(*ssa.Call)
				if !isCall || !path.IsCallTo(c, "time", "AfterFunc") || len(c.Call.Args) != 2 || c.Call.Args[1] != ssa.Value(cb) || c.Call.Args[0] != ssa.Value(d) {
					ok = false
					r.Violation(core.Diag{Rule: "AF1", Func: "gogu.Delay", Object: "callback flow", Pos: p.InstrPos(ref),
						Reason: "the callback is used other than as the function argument of time.AfterFunc(delay, fn) with the delay parameter: it can run earlier than the configured wait"})
				}
			}
			if uses == 0 {
				ok = false
				r.Violation(core.Diag{Rule: "AF1", Func: "gogu.Delay", Object: "callback flow", Pos: p.Pos(fn.Pos()), Reason: "the callback is never scheduled"})
			}
		}
		r.Obligation("AF1", ok, map[string]any{"rule": "AF1", "function": "gogu.Delay", "uses_of_callback": uses, "ok": ok})
	}
	// ---- debouncer.add
	if fn := mustFunc(p, r, "gogu.(*debouncer).add"); fn != nil {
		name := "gogu.(*debouncer).add"
		cb := funcParam(fn)
		al := path.Aliases(fn, cb, true)
		// every AfterFunc in add (and its closures) uses the immutable duration slot
		sched := 0
		var timers []ssa.Value
		for _, in := range path.Instrs(fn) {
			if !path.IsCallTo(in, "time", "AfterFunc") {
				continue
			}
			c := in.(*ssa.Call)
			okDur := loadOfSlot(c.Call.Args[0], "debouncer", "duration")
			arg := c.Call.Args[1]
			okFn := al[arg]
			if mc, isMC := arg.(*ssa.MakeClosure); isMC && !okFn {
				// a closure that wraps the callback: it must call it at most once and be used nowhere else
				g := mc.Fn.(*ssa.Function)
				n := path.MaxCount(g, isCallOf(al))
				refs := 0
				for _, ref := range *mc.Referrers() {
					if ref != ssa.Instruction(c) {
						refs++
					}
				}
				okFn = n == 1 && refs == 0
			}
			if okFn {
				sched++
				timers = append(timers, c)
			}
			ok := okDur && okFn
			r.Obligation("AF1", ok, map[string]any{"rule": "AF1", "function": name, "at": p.InstrPos(in), "duration_is_configured_wait": okDur, "function_arg_is_callback": okFn})
			if !okDur {
				r.Violation(core.Diag{Rule: "AF1", Func: name, Object: "timer duration", Pos: p.InstrPos(in),
					Reason: "time.AfterFunc is not called with the debouncer's configured duration: the function can run sooner than the configured wait after the most recent call"})
			}
		}
		// the callback is never invoked synchronously in add
		for _, c := range path.CallsOfValue(fn, cb, true) {
			sync := c.Parent() == fn
			if !sync {
				// inside a closure: the closure must only be handed to AfterFunc
				mcOK := false
				for _, in := range path.Instrs(fn) {
					if mc, ok := in.(*ssa.MakeClosure); ok && mc.Fn == ssa.Value(c.Parent()) {
						mcOK = true
						for _, ref := range *mc.Referrers() {
							if !path.IsCallTo(ref, "time", "AfterFunc") {
								mcOK = false
							}
						}
					}
				}
				sync = !mcOK
			}
			r.Obligation("AF1", !sync, map[string]any{"rule": "AF1", "function": name, "what": "callback not invoked synchronously", "at": p.InstrPos(c), "ok": !sync})
			if sync {
				r.Violation(core.Diag{Rule: "AF1", Func: name, Object: "callback flow", Pos: p.InstrPos(c),
					Reason: "the debounced function is invoked outside a timer callback: it runs without waiting"})
			}
		}
		// PT2: a new timer holding the callback is stored on every path
		isNewTimerStore := func(in ssa.Instruction) bool {
			st, ok := in.(*ssa.Store)
			if !ok {
				return false
			}
			if f, ok := slotOf(st.Addr, "debouncer"); !ok || f != "timer" {
				return false
			}
			for _, t := range timers {
				if st.Val == t {
					return true
				}
			}
			return false
		}
		min := path.MinCount(fn, isNewTimerStore)
		ok := min >= 1 && sched >= 1
		r.Obligation("PT2", ok, map[string]any{"rule": "PT2", "function": name, "what": "every path schedules the callback and keeps the timer", "min_stores": min, "ok": ok})
		if !ok {
			r.Violation(core.Diag{Rule: "PT2", Func: name, Object: "schedule on every path", Pos: p.Pos(fn.Pos()),
				Reason: "some path through add does not schedule the function and store its timer: the function would never run although no further call or cancel arrives"})
		}
	}
	// duration slot written only from NewDebounce's wait parameter
	if fn := mustFunc(p, r, "gogu.NewDebounce"); fn != nil {
		w := paramByName(fn, "wait")
		n := 0
		for _, g := range p.Funcs {
			for _, in := range path.Instrs(g) {
				st, ok := in.(*ssa.Store)
				if !ok {
					continue
				}
				if f, ok := slotOf(st.Addr, "debouncer"); ok && f == "duration" {
					n++
					ok := g == fn && w != nil && st.Val == ssa.Value(w)
					r.Obligation("AF1", ok, map[string]any{"rule": "AF1", "function": p.FuncName(g), "what": "debouncer.duration is the wait parameter", "at": p.InstrPos(in), "ok": ok})
					if !ok {
						r.Violation(core.Diag{Rule: "AF1", Func: p.FuncName(g), Object: "configured duration", Pos: p.InstrPos(in),
							Reason: "debouncer.duration is written with something other than NewDebounce's wait parameter"})
					}
				}
			}
		}
		if n == 0 {
			r.Violation(core.Diag{Rule: "AF1", Func: "gogu.NewDebounce", Object: "configured duration", Pos: p.Pos(fn.Pos()), Reason: "debouncer.duration is never set from the wait parameter"})
		}
	}
	// ---- SR1 stop-before-replace: a store to debouncer.timer is reachable only through
	// Stop() of the old timer or through the "old timer == nil" edge
	for _, g := range p.Funcs {
		for _, in := range path.Instrs(g) {
			st, ok := in.(*ssa.Store)
			if !ok || isAllocBase(st.Addr) {
				continue
			}
			if f, ok := slotOf(st.Addr, "debouncer"); !ok || f != "timer" {
				continue
			}
			okS := stopBeforeStore(g, st)
			r.Obligation("SR1", okS, map[string]any{"rule": "SR1", "function": p.FuncName(g), "what": "pending timer stopped before the reference is replaced or cleared", "at": p.InstrPos(in), "ok": okS})
			if !okS {
				r.Violation(core.Diag{Rule: "SR1", Func: p.FuncName(g), Object: "store debouncer.timer", Pos: p.InstrPos(in),
					Reason: "the timer reference is replaced or cleared on a path that neither stopped the pending timer nor established that there is none: that timer can no longer be stopped and its function fires after cancel / a second time in the burst"})
			}
		}
	}
	// ---- throttler: monotone stop flag, grant guard, period stamp
	stampOK := 0
	for _, g := range p.Funcs {
		for _, in := range path.Instrs(g) {
			st, ok := in.(*ssa.Store)
			if !ok || isAllocBase(st.Addr) {
				continue
			}
			f, ok := slotOf(st.Addr, "throttler")
			if !ok {
				continue
			}
			gname := p.FuncName(g)
			switch f {
			case "stop":
				b, isC := path.BoolConst(st.Val)
				okM := isC && b
				r.Obligation("MF1", okM, map[string]any{"rule": "MF1", "function": gname, "what": "stop is only ever set to true", "at": p.InstrPos(in), "ok": okM})
				if !okM {
					r.Violation(core.Diag{Rule: "MF1", Func: gname, Object: "store throttler.stop", Pos: p.InstrPos(in),
						Reason: "the stop flag is stored something other than the constant true: after Cancel a pending or future Next could return true again"})
				}
			case "waiting":
				b, isC := path.BoolConst(st.Val)
				if isC && b {
					gs := boolGuards(g, in.Block(), "throttler")
					w, hasW := gs["waiting"]
					s, hasS := gs["stop"]
					okG := hasW && !w && hasS && !s
					r.Obligation("GG1", okG, map[string]any{"rule": "GG1", "function": gname, "what": "a permission is granted only when none is pending and the throttle is not cancelled", "at": p.InstrPos(in), "ok": okG})
					if !okG {
						r.Violation(core.Diag{Rule: "GG1", Func: gname, Object: "grant guard", Pos: p.InstrPos(in),
							Reason: "waiting = true is not dominated by the tests !waiting and !stop"})
					}
				}
				if isC && !b {
					// GG2: a permission is consumed only when the throttle is known not to be
					// cancelled - by a test of stop made after the last wait
					okC := freshNotStopped(g, in.Block(), in)
					r.Obligation("GG2", okC, map[string]any{"rule": "GG2", "function": gname, "what": "a permission is consumed only under !stop tested after the last wait", "at": p.InstrPos(in), "ok": okC})
					if !okC {
						r.Violation(core.Diag{Rule: "GG2", Func: gname, Object: "consume guard", Pos: p.InstrPos(in),
							Reason: "waiting = false is not dominated by a test of !stop made after the last cond.Wait: a permission that is pending when Cancel arrives is still consumed"})
					}
				}
			case "last":
				// TS1: the period starts where a permission is consumed: same block region as waiting = false, value time.Now()
				okV := false
				if c, ok := st.Val.(*ssa.Call); ok && path.IsCallTo(c, "time", "Now") {
					okV = true
				}
				consumes := false
				for _, in2 := range path.Instrs(g) {
					st2, ok := in2.(*ssa.Store)
					if !ok {
						continue
					}
					if f2, ok := slotOf(st2.Addr, "throttler"); ok && f2 == "waiting" {
						if b, isC := path.BoolConst(st2.Val); isC && !b {
							if in2.Block() == in.Block() || in2.Block().Dominates(in.Block()) || in.Block().Dominates(in2.Block()) {
								consumes = true
							}
						}
					}
				}
				okT := okV && consumes
				if okT {
					stampOK++
				}
				r.Obligation("TS1", okT, map[string]any{"rule": "TS1", "function": gname, "what": "period start stamped with time.Now() where the permission is consumed", "at": p.InstrPos(in), "ok": okT})
				if !okT {
					r.Violation(core.Diag{Rule: "TS1", Func: gname, Object: "store throttler.last", Pos: p.InstrPos(in),
						Reason: "the start of the period is written somewhere other than where a permission is consumed (waiting = false), or not with the current time: a delayed consumer lets two permissions fall into one period"})
				}
			}
		}
	}
	// GG3: when a permission is granted. At once (grant + Broadcast) only where the time
	// since the last permission is known to exceed the period; otherwise, in trailing
	// mode only, granted now and announced after the rest of the period.
	if fn := p.Func("gogu.(*throttler).Call"); fn != nil {
		isDelta := func(v ssa.Value) bool {
			c, ok := v.(*ssa.Call)
			if !ok {
				return false
			}
			if path.IsCallTo(c, "time", "Since") && len(c.Call.Args) == 1 {
				if u, ok := c.Call.Args[0].(*ssa.UnOp); ok && u.Op == token.MUL {
					f, ok := slotOf(u.X, "throttler")
					return ok && f == "last"
				}
			}
			return false
		}
		isField := func(v ssa.Value, field string) bool {
			u, ok := v.(*ssa.UnOp)
			if !ok || u.Op != token.MUL {
				return false
			}
			f, ok := slotOf(u.X, "throttler")
			return ok && f == field
		}
		for _, in := range path.Instrs(fn) {
			st, ok := in.(*ssa.Store)
			if !ok || isAllocBase(st.Addr) {
				continue
			}
			if f, ok := slotOf(st.Addr, "throttler"); !ok || f != "waiting" {
				continue
			}
			if b, isC := path.BoolConst(st.Val); !isC || !b {
				continue
			}
			// how is the grant announced?
			kind := ""
			var after *ssa.Call
			for _, x := range st.Block().Instrs {
				if c, ok := x.(*ssa.Call); ok {
					if callee := c.Call.StaticCallee(); callee != nil && (callee.Name() == "Broadcast" || callee.Name() == "Signal") && callee.Signature.Recv() != nil {
						kind = "now"
					}
					if path.IsCallTo(c, "time", "AfterFunc") {
						kind = "later"
						after = c
					}
				}
			}
			elapsed := guardedBy(fn, st.Block(), func(cd path.Cond, truth bool) bool {
				rel := normCmp(cd.Op, truth)
				return (rel == ">" || rel == ">=") && isDelta(cd.X) && isField(cd.Y, "duration")
			})
			within := guardedBy(fn, st.Block(), func(cd path.Cond, truth bool) bool {
				rel := normCmp(cd.Op, truth)
				return (rel == "<" || rel == "<=") && isDelta(cd.X) && isField(cd.Y, "duration")
			})
			okG := false
			why := ""
			switch kind {
			case "now":
				okG = elapsed
				why = "a permission is granted and announced at once on a path where the time since the last permission is not known to exceed the period: two permissions fall into one period"
			case "later":
				trailing := boolGuard(fn, st.Block(), func(v ssa.Value) bool { return isField(v, "trailing") }, true)
				okDelay := false
				if after != nil && len(after.Call.Args) == 2 {
					if bo, ok := after.Call.Args[0].(*ssa.BinOp); ok && bo.Op == token.SUB && isField(bo.X, "duration") && isDelta(bo.Y) {
						okDelay = true
					}
				}
				okG = within && trailing && okDelay
				why = "a deferred permission must be granted only inside the period, only in trailing mode, and announced after the rest of the period (duration - time since the last permission)"
			default:
				why = "a permission is granted without being announced (neither Broadcast nor a timer in the same step)"
			}
			r.Obligation("GG3", okG, map[string]any{"rule": "GG3", "function": "gogu.(*throttler).Call", "what": "grant " + kind, "at": p.InstrPos(st), "ok": okG})
			if !okG {
				r.Violation(core.Diag{Rule: "GG3", Func: "gogu.(*throttler).Call", Object: "grant timing (" + kind + ")", Pos: p.InstrPos(st), Reason: why})
			}
		}
	}
	// CV4: who wakes the waiters. A trailing permission is granted at Call time and
	// handed out when the period ends; that relies on no wake-up reaching a blocked
	// Next earlier. Only Call (which schedules the wake-up for the end of the period)
	// and Cancel may signal the condition variable.
	for _, g := range p.Funcs {
		top := g
		for top.Parent() != nil {
			top = top.Parent()
		}
		if top.Signature.Recv() == nil {
			continue
		}
		if n := namedOf(top.Signature.Recv().Type()); n == nil || n.Obj().Name() != "throttler" {
			continue
		}
		for _, in := range path.Instrs(g) {
			wake := false
			switch x := in.(type) {
			case *ssa.Call:
				if callee := x.Call.StaticCallee(); callee != nil && callee.Signature.Recv() != nil && strings.Contains(callee.Signature.Recv().Type().String(), "sync.Cond") && (callee.Name() == "Broadcast" || callee.Name() == "Signal") {
					wake = true
				}
			case *ssa.MakeClosure:
				if f, ok := x.Fn.(*ssa.Function); ok && (strings.HasSuffix(f.Name(), "Broadcast$bound") || strings.HasSuffix(f.Name(), "Signal$bound")) {
					wake = true
				}
			}
			if !wake {
				continue
			}
			okW := top.Name() == "Call" || top.Name() == "Cancel"
			r.Obligation("CV4", okW, map[string]any{"rule": "CV4", "function": p.FuncName(top), "what": "waiters are woken only by Call and Cancel", "at": p.InstrPos(in), "ok": okW})
			if !okW {
				r.Violation(core.Diag{Rule: "CV4", Func: p.FuncName(top), Object: "wakes the waiters", Pos: p.InstrPos(in),
					Reason: "the condition variable is signalled by a function other than Call and Cancel: a consumer blocked in Next wakes up before the period has ended and takes a permission that was only due at its end"})
			}
		}
	}
	// GG2: Next answers true only when the throttle is known not to be cancelled
	if fn := p.Func("gogu.(*throttler).Next"); fn != nil {
		for _, alt := range returnAlternatives(fn, 0) {
			okR, why := false, ""
			if bc, isC := path.BoolConst(alt.val); isC {
				if !bc {
					continue
				}
				okR = freshNotStopped(fn, alt.blk, alt.ret)
				why = "Next returns true on a path that is not dominated by a test of !stop made after the last cond.Wait: it can return true after Cancel"
			} else {
				// !t.stop read on the spot
				v := alt.val
				neg := false
				for {
					if u, ok := v.(*ssa.UnOp); ok && u.Op == token.NOT {
						neg = !neg
						v = u.X
						continue
					}
					break
				}
				if u, ok := v.(*ssa.UnOp); ok && u.Op == token.MUL && neg {
					if f, ok := slotOf(u.X, "throttler"); ok && f == "stop" && !waitBetween(fn, u, alt.ret) {
						okR = true
					}
				}
				if !okR && freshNotStopped(fn, alt.blk, alt.ret) {
					okR = true // any answer under a fresh !stop
				}
				why = "the answer of Next is neither a constant nor !stop read after the last cond.Wait"
			}
			r.Obligation("GG2", okR, map[string]any{"rule": "GG2", "function": "gogu.(*throttler).Next", "what": "true only when not cancelled", "at": p.InstrPos(alt.ret), "ok": okR})
			if !okR {
				r.Violation(core.Diag{Rule: "GG2", Func: "gogu.(*throttler).Next", Object: "answer after Cancel", Pos: p.InstrPos(alt.ret), Reason: why})
			}
		}
	}
	okStamp := stampOK >= 1
	r.Obligation("TS1", okStamp, map[string]any{"rule": "TS1", "what": "consuming a permission stamps the period start", "stamps": stampOK})
	if !okStamp {
		r.Violation(core.Diag{Rule: "TS1", Func: "gogu.(*throttler).Next", Object: "period stamp", Pos: "-",
			Reason: "no function stamps the period start when it consumes a permission"})
	}
	r.Floor("AF1", 3)
	r.Floor("SR1", 1) // add replaces the timer; cancel may or may not clear the reference after stopping it
	r.Floor("MF1", 1)
	checkThrottleGrant(p, r)
	r.Floor("GG1", 2)
	r.Floor("GG2", 2)
	r.Floor("CV4", 2)
	r.Floor("GG3", 2)
	_ = fmt.Sprint
}

// stopBeforeStore: no path from the entry of fn reaches st without passing
// (*time.Timer).Stop on a load of the timer slot or the nil edge of a
// "timer != nil" / "timer == nil" test.
func stopBeforeStore(fn *ssa.Function, st *ssa.Store) bool {
	type pos struct {
		b *ssa.BasicBlock
	}
	seen := map[*ssa.BasicBlock]bool{}
	var visit func(b *ssa.BasicBlock) bool // true = store reachable unprotected
	visit = func(b *ssa.BasicBlock) bool {
		if seen[b] {
			return false
		}
		seen[b] = true
		for _, in := range b.Instrs {
			if in == ssa.Instruction(st) {
				return true
			}
			if path.IsCallTo(in, "time", "Timer.Stop") {
				c := in.(ssa.CallInstruction)
				if len(c.Common().Args) == 1 && loadOfSlot(c.Common().Args[0], "debouncer", "timer") {
					return false // protected from here on
				}
			}
		}
		if iff := path.BlockIf(b); iff != nil {
			if cd, ok := path.CondOf(iff); ok && (cd.Op == token.EQL || cd.Op == token.NEQ) {
				x := cd.X
				if path.IsNil(x) {
					x = cd.Y
				}
				if (path.IsNil(cd.X) || path.IsNil(cd.Y)) && loadOfSlot(x, "debouncer", "timer") {
					isEq := (cd.Op == token.EQL) != cd.Neg
					nilIdx := 1
					if isEq {
						nilIdx = 0
					}
					// the nil edge is protected; follow only the non-nil edge
					return visit(b.Succs[1-nilIdx])
				}
			}
		}
		for _, s := range b.Succs {
			if visit(s) {
				return true
			}
		}
		return false
	}
	return !visit(fn.Blocks[0])
}

// freshNotStopped: block b is dominated by the edge on which a load of
// throttler.stop is false, and no path from that load to instruction at passes a
// (*sync.Cond).Wait (during which Cancel may set the flag).
func freshNotStopped(fn *ssa.Function, b *ssa.BasicBlock, at ssa.Instruction) bool {
	for _, g := range path.Guards(fn, b) {
		c := g.If.Cond
		neg := false
		for {
			if u, ok := c.(*ssa.UnOp); ok && u.Op == token.NOT {
				neg = !neg
				c = u.X
				continue
			}
			break
		}
		u, ok := c.(*ssa.UnOp)
		if !ok || u.Op != token.MUL {
			continue
		}
		f, ok := slotOf(u.X, "throttler")
		if !ok || f != "stop" {
			continue
		}
		val := g.Idx == 0
		if neg {
			val = !val
		}
		if val {
			continue
		}
		if !waitBetween(fn, u, at) {
			return true
		}
	}
	return false
}

// waitBetween: some path from instruction from to instruction to passes a call of
// (*sync.Cond).Wait.
func waitBetween(fn *ssa.Function, from, to ssa.Instruction) bool {
	isWait := func(in ssa.Instruction) bool {
		ci, ok := in.(ssa.CallInstruction)
		if !ok {
			return false
		}
		callee := ci.Common().StaticCallee()
		if callee == nil || callee.Name() != "Wait" || callee.Signature.Recv() == nil {
			return false
		}
		return strings.Contains(callee.Signature.Recv().Type().String(), "sync.Cond")
	}
	// instructions reachable from `from`
	var waits []ssa.Instruction
	seen := map[*ssa.BasicBlock]bool{}
	var fwd func(b *ssa.BasicBlock, start int)
	fwd = func(b *ssa.BasicBlock, start int) {
		for i := start; i < len(b.Instrs); i++ {
			if isWait(b.Instrs[i]) {
				waits = append(waits, b.Instrs[i])
			}
		}
		for _, s := range b.Succs {
			if !seen[s] {
				seen[s] = true
				fwd(s, 0)
			}
		}
	}
	idx := func(in ssa.Instruction) int {
		for i, x := range in.Block().Instrs {
			if x == in {
				return i
			}
		}
		return 0
	}
	fwd(from.Block(), idx(from)+1)
	for _, w := range waits {
		// can `to` be reached from w?
		seen2 := map[*ssa.BasicBlock]bool{}
		found := false
		var f2 func(b *ssa.BasicBlock, start int)
		f2 = func(b *ssa.BasicBlock, start int) {
			for i := start; i < len(b.Instrs); i++ {
				if b.Instrs[i] == from {
					return // the flag is read again on this path: not stale
				}
				if b.Instrs[i] == to {
					found = true
				}
			}
			for _, s := range b.Succs {
				if !seen2[s] {
					seen2[s] = true
					f2(s, 0)
				}
			}
		}
		f2(w.Block(), idx(w)+1)
		if found {
			return true
		}
	}
	return false
}
