package props

import (
	"fmt"
	"go/token"
	"go/types"

	"golang.org/x/tools/go/ssa"

	"gogucheck/core"
	"gogucheck/path"
)

func init() {
	register(&Check{
		ID: "C11",
		Explanation: "Provenance, placement and like-with-like rules over the set helpers of slice.go (engines E3/E4/E5): PV1 every value appended to a result is the element just read from the first input in one complete forward scan (first-occurrence order, nothing foreign); " +
			"the plain functions and the By-variants append only on the 'not yet seen' edge of a lookup in a local seen-map that is updated with the same key on the same path, or of Contains(result, element) (no repeats); " +
			"Without/Difference(By) test the element against every entry of the exclusion list in a complete scan and the equality edge leads to the next outer iteration without reaching the append; PV5 comparisons and membership tests are like with like (element with element, image with image; the result list holds elements); " +
			"Intersection(By) accept exactly when the scan j = 1..len(params) over the other inputs ran to completion, leaving it early on the first input that lacks the element; Duplicate(WithIndex) emit a key only under count > 1; ER2 Union/Flatten propagate the flattening error and malformed nesting reaches an error return; GS1/GS2 hygiene. " +
			"Decides these necessary conditions, not exact membership for concrete inputs.",
		Assumptions: []string{"go/ssa faithful to the source", "Contains is the quantifier checked by C13", "user callbacks are pure"},
		NotDecided:  []string{"exact multiset semantics of the By-variants under non-injective key functions", "Duplicate's output order (map iteration)"},
		Run:         runC11,
	})
}

// appendsOf lists the append calls of fn's own body.
func appendsOf(fn *ssa.Function) []*ssa.Call {
	var out []*ssa.Call
	for _, in := range path.Instrs(fn) {
		if call, ok := in.(*ssa.Call); ok {
			if b, ok := call.Call.Value.(*ssa.Builtin); ok && b.Name() == "append" {
				out = append(out, call)
			}
		}
	}
	return out
}

func isCallOfParam(v ssa.Value, cb *ssa.Parameter, arg ssa.Value) bool {
	call, ok := v.(*ssa.Call)
	return ok && cb != nil && call.Call.Value == ssa.Value(cb) && len(call.Call.Args) == 1 && call.Call.Args[0] == arg
}

func runC11(p *core.Program, r *core.Report) {
	c := rc{p, r}
	noAnswerBeforeTheScan(c, "gogu.Union", "gogu.Intersection", "gogu.IntersectionBy", "gogu.Difference", "gogu.DifferenceBy", "gogu.Without", "gogu.Unique", "gogu.UniqueBy", "gogu.Duplicate", "gogu.DuplicateWithIndex")
	resultUntouchedAfterTheScan(c, "gogu.Union", "gogu.Intersection", "gogu.IntersectionBy", "gogu.Difference", "gogu.DifferenceBy", "gogu.Without", "gogu.Unique", "gogu.UniqueBy", "gogu.Duplicate", "gogu.DuplicateWithIndex")
	// Intersection(By) counts occurrences against the number of lists: size is part of its statement
	positionBlind(c, "gogu.Union", "gogu.Difference", "gogu.DifferenceBy", "gogu.Without", "gogu.Unique", "gogu.UniqueBy", "gogu.Duplicate", "gogu.DuplicateWithIndex")
	hygiene(c, "slice.go")
	noSingledOutValue(c, []string{"slice.go"}, nil)
	containsFn := p.Func("gogu.Contains")

	type spec struct {
		name      string
		firstVar  bool   // first input is params[0] of a variadic parameter
		firstIdx  int    // index of the (variadic) slice parameter
		dedupe    string // "map" | "contains"
		by        bool
		dedupeKey string // "elem" | "image": what the seen-set is keyed by
		exclIdx   int    // parameter index of the exclusion list, -1 none
		intersect bool
	}
	specs := []spec{
		{name: "gogu.Unique", firstIdx: 0, dedupe: "map", dedupeKey: "elem", exclIdx: -1},
		{name: "gogu.UniqueBy", firstIdx: 0, dedupe: "map", by: true, dedupeKey: "image", exclIdx: -1},
		{name: "gogu.Without", firstIdx: 0, dedupe: "map", dedupeKey: "elem", exclIdx: 1},
		{name: "gogu.Difference", firstIdx: 0, dedupe: "map", dedupeKey: "elem", exclIdx: 1},
		{name: "gogu.DifferenceBy", firstIdx: 0, dedupe: "map", by: true, dedupeKey: "elem", exclIdx: 1},
		{name: "gogu.Intersection", firstVar: true, firstIdx: 0, dedupe: "contains", dedupeKey: "elem", exclIdx: -1, intersect: true},
		{name: "gogu.IntersectionBy", firstVar: true, firstIdx: 1, dedupe: "contains", by: true, dedupeKey: "elem", exclIdx: -1, intersect: true},
	}
	for _, s := range specs {
		fn := c.fn(s.name)
		if fn == nil {
			continue
		}
		x := newPathCtx(p)
		cb := funcParam(fn)
		if !s.by {
			cb = nil
		}
		// the first input
		isFirst := func(v ssa.Value) bool {
			if !s.firstVar {
				return v == ssa.Value(fn.Params[s.firstIdx])
			}
			u, ok := v.(*ssa.UnOp)
			if !ok || u.Op != token.MUL {
				return false
			}
			ia, ok := u.X.(*ssa.IndexAddr)
			if !ok || path.Unspill(ia.X) != ssa.Value(fn.Params[s.firstIdx]) {
				return false
			}
			k, ok := path.IntConst(ia.Index)
			return ok && k == 0
		}
		// element reads of the first input
		var outer []elemRead
		for _, in := range path.Instrs(fn) {
			u, ok := in.(*ssa.UnOp)
			if !ok || u.Op != token.MUL {
				continue
			}
			ia, ok := u.X.(*ssa.IndexAddr)
			if !ok || !isFirst(ia.X) {
				continue
			}
			outer = append(outer, elemRead{u, ia.Index})
		}
		if len(outer) != 1 {
			c.und("PT5", s.name, "scan of the first input", c.fpos(fn), fmt.Sprintf("expected exactly one element read of the first input, found %d", len(outer)))
			continue
		}
		el := outer[0]
		var first ssa.Value
		first = el.load.X.(*ssa.IndexAddr).X
		sc, okScan := classifyScan(x, fn, el.idx, first)
		c.ob("PT5", s.name, "complete forward scan of the first input", p.InstrPos(el.load), okScan && sc.dir == +1, "the first input must be scanned completely from index 0 upward: the result lists values in first-occurrence order")
		// appends
		apps := appendsOf(fn)
		c.ob("PV1", s.name, "one append site", c.fpos(fn), len(apps) == 1, fmt.Sprintf("expected exactly one site that extends the result, found %d", len(apps)))
		for _, ap := range apps {
			v, ok := singleElemSlice(ap.Call.Args[1])
			if ok {
				v = path.Unspill(v)
			}
			c.ob("PV1", s.name, "appended value is the element just read from the first input", p.InstrPos(ap), ok && v == ssa.Value(el.load),
				"the value appended to the result is not the element of the first input read in this iteration (an image under the key function, an element of another input or a constant would put a foreign value into the result)")
			// accumulator: first argument is a phi of {fresh, appends}
			okAcc := true
			for _, o := range path.Origins(ap.Call.Args[0]) {
				switch y := o.(type) {
				case *ssa.Call:
					if b, isB := y.Call.Value.(*ssa.Builtin); !isB || b.Name() != "append" {
						okAcc = false
					}
				case *ssa.Slice, *ssa.MakeSlice:
				default:
					okAcc = false
				}
			}
			c.ob("PV1", s.name, "result only grows by appends", p.InstrPos(ap), okAcc, "the accumulator is not built from a fresh slice by appends only")
			// dedupe
			switch s.dedupe {
			case "map":
				var seenMap ssa.Value
				keyShape := ""
				okD := boolGuard(fn, ap.Block(), func(cv ssa.Value) bool {
					ex, ok := cv.(*ssa.Extract)
					if !ok || ex.Index != 1 {
						return false
					}
					lk, ok := ex.Tuple.(*ssa.Lookup)
					if !ok || !lk.CommaOk {
						return false
					}
					if _, isMk := lk.X.(*ssa.MakeMap); !isMk {
						return false
					}
					switch {
					case lk.Index == ssa.Value(el.load):
						keyShape = "elem"
					case isCallOfParam(lk.Index, cb, el.load):
						keyShape = "image"
					default:
						return false
					}
					seenMap = lk.X
					return true
				}, false)
				c.ob("PT3", s.name, "append only for a value not yet seen", p.InstrPos(ap), okD && keyShape == s.dedupeKey,
					fmt.Sprintf("the append is not dominated by the 'absent' edge of a lookup of the current %s in a local seen-set: the result can repeat a value", map[string]string{"elem": "element", "image": "image fn(element)"}[s.dedupeKey]))
				// the update on the same path, same key shape
				okU := false
				if seenMap != nil {
					for _, in := range path.Instrs(fn) {
						mu, ok := in.(*ssa.MapUpdate)
						if !ok || mu.Map != seenMap {
							continue
						}
						same := (s.dedupeKey == "elem" && mu.Key == ssa.Value(el.load)) || (s.dedupeKey == "image" && isCallOfParam(mu.Key, cb, el.load))
						if same && (mu.Block() == ap.Block() || mu.Block().Dominates(ap.Block())) {
							okU = true
						}
						c.ob("PV5", s.name, "seen-set updated with the key that was looked up", p.InstrPos(mu), same, "the seen-set is updated with a different kind of key than the one it is consulted with (element vs. image)")
					}
				}
				c.ob("PT2", s.name, "seen-set updated on the appending path", p.InstrPos(ap), okU, "the path that appends does not record the value in the seen-set: a later equal value is appended again")
			case "contains":
				okD := boolGuard(fn, ap.Block(), func(cv ssa.Value) bool {
					call, ok := cv.(*ssa.Call)
					if !ok || containsFn == nil || path.StaticCallee(call) != containsFn {
						return false
					}
					a := call.Call.Args
					// result accumulator and the element itself
					isAcc := false
					for _, o := range path.Origins(a[0]) {
						if _, ok := o.(*ssa.Slice); ok {
							isAcc = true
						}
						if cl, ok := o.(*ssa.Call); ok {
							if b, ok := cl.Call.Value.(*ssa.Builtin); ok && b.Name() == "append" {
								isAcc = true
							}
						}
					}
					return isAcc && path.Unspill(a[1]) == ssa.Value(el.load)
				}, false)
				c.ob("PT3", s.name, "append only for a value not yet in the result", p.InstrPos(ap), okD, "the append is not dominated by the false edge of Contains(result, element): the result can repeat a value (or, when an image is looked up among elements, drop one)")
			}
		}
		// PV5: every Contains(result, X) probes with an element, never an image
		if containsFn != nil {
			for _, call := range callsTo(fn, containsFn) {
				a := call.Common().Args
				isRes := false
				for _, o := range path.Origins(a[0]) {
					if cl, ok := o.(*ssa.Call); ok {
						if b, ok := cl.Call.Value.(*ssa.Builtin); ok && b.Name() == "append" {
							isRes = true
						}
					}
				}
				if isRes {
					c.ob("PV5", s.name, "membership in the result is tested with an element", p.InstrPos(call), path.Unspill(a[1]) == ssa.Value(el.load), "the result holds elements of the first input; probing it with anything else (an image fn(x)) compares unlike things")
				}
			}
		}
		// exclusion list
		if s.exclIdx >= 0 && len(apps) == 1 {
			ex := ssa.Value(fn.Params[s.exclIdx])
			inner := elemReads(fn, ex)
			if len(inner) != 1 {
				c.und("PT5", s.name, "scan of the exclusion list", c.fpos(fn), fmt.Sprintf("expected exactly one element read of the exclusion list, found %d", len(inner)))
			} else {
				in := inner[0]
				isc, ok := classifyScan(x, fn, in.idx, ex)
				c.ob("PT5", s.name, "complete scan of the exclusion list", p.InstrPos(in.load), ok, "every entry of the exclusion list must be compared with the element")
				// the comparison
				nCmp := 0
				for _, b := range fn.Blocks {
					iff := path.BlockIf(b)
					if iff == nil {
						continue
					}
					cd, okc := path.CondOf(iff)
					if !okc || (cd.Op != token.EQL && cd.Op != token.NEQ) {
						continue
					}
					shape := func(v ssa.Value) string {
						switch {
						case v == ssa.Value(el.load):
							return "outer-elem"
						case v == ssa.Value(in.load):
							return "inner-elem"
						case isCallOfParam(v, cb, el.load):
							return "outer-image"
						case isCallOfParam(v, cb, in.load):
							return "inner-image"
						}
						return ""
					}
					sx, sy := shape(cd.X), shape(cd.Y)
					if sx == "" || sy == "" {
						continue
					}
					nCmp++
					want := "elem"
					if s.by {
						want = "image"
					}
					like := (sx == "outer-"+want && sy == "inner-"+want) || (sx == "inner-"+want && sy == "outer-"+want)
					c.ob("PV5", s.name, "exclusion compares like with like", p.InstrPos(iff), like, fmt.Sprintf("the exclusion test compares %s with %s; %s must compare %ss of the element and of the list entry", sx, sy, s.name, want))
					// equality edge: append unreachable before the outer header is re-entered
					truth := !cd.Neg
					eqIdx := 0
					if (cd.Op == token.EQL) != truth {
						eqIdx = 1
					}
					start := b.Succs[eqIdx]
					reach := false
					if okScan {
						reach = path.CanReachThreaded(b, start, apps[0].Block(), sc.header)
					}
					c.ob("PT3", s.name, "an excluded element is not appended", p.InstrPos(iff), !reach, "from the edge on which the element equals an entry of the exclusion list the append is reachable within the same outer iteration")
				}
				c.ob("PV5", s.name, "exclusion comparison", c.fpos(fn), nCmp == 1, "expected exactly one comparison between the element and the exclusion-list entry")
				// the append is reached only after the inner scan is exhausted
				if ok {
					viaExit := false
					// exit edge of the inner header
					inLoop := path.NaturalLoop(isc.header)
					for i, sx := range isc.header.Succs {
						if !inLoop[sx] && path.EdgeDominates(isc.header, i, apps[0].Block()) {
							viaExit = true
						}
						// through a found-flag: the edge that leaves the flag false is the exit edge
						if !inLoop[sx] {
							for _, g := range path.Guards(fn, apps[0].Block()) {
								if g.If == path.BlockIf(isc.header) && g.Idx == i {
									viaExit = true
								}
							}
						}
					}
					c.ob("PT3", s.name, "append only after the whole exclusion list was checked", p.InstrPos(apps[0]), viaExit, "the append is not dominated by the exit edge of the scan over the exclusion list")
				}
			}
		}
		// intersection structure
		if s.intersect && len(apps) == 1 {
			params := ssa.Value(fn.Params[s.firstIdx])
			// inner index j: phi (or, when captured by a closure, a local cell) with init 1, step +1, bounded by len(params)
			var jPhi *ssa.Phi
			var jCands []*ssa.Phi
			var jCell *ssa.Alloc
			for _, in := range path.Instrs(fn) {
				switch y := in.(type) {
				case *ssa.Phi:
					if phiStep(y) == +1 {
						// j from 1 (from 0 the first input is checked against itself as well)
						if k, ok := path.IntConst(phiInit(y)); ok && (k == 1 || k == 0) && y.Type().String() == "int" {
							jCands = append(jCands, y)
						}
					}
				case *ssa.Alloc:
					if y.Heap || true {
						inits, steps, other, zeros := 0, 0, 0, 0
						for _, rf := range *y.Referrers() {
							st, ok := rf.(*ssa.Store)
							if !ok || st.Addr != ssa.Value(y) {
								continue
							}
							if k, ok := path.IntConst(st.Val); ok && k == 1 {
								inits++
							} else if bo, ok := st.Val.(*ssa.BinOp); ok && bo.Op == token.ADD {
								k, okk := path.IntConst(bo.Y)
								u, oku := bo.X.(*ssa.UnOp)
								if okk && k == 1 && oku && u.X == ssa.Value(y) {
									steps++
								} else {
									other++
								}
							} else if k, ok := path.IntConst(st.Val); ok && k == 0 {
								// "var j int" zero initialisation (or a scan that starts at 0 and
								// checks the first input against itself as well)
								zeros++
							} else {
								other++
							}
						}
						if (inits == 1 || (inits == 0 && zeros >= 1)) && steps == 1 && other == 0 {
							jCell = y
						}
					}
				}
			}
			// the candidate whose loop test compares it with len(params)
			for _, cand := range jCands {
				if iff := path.BlockIf(cand.Block()); iff != nil {
					if cd, ok := path.CondOf(iff); ok && cd.X == ssa.Value(cand) {
						if x.path(cd.Y) == "len("+params.Name()+")" || isLenOfUnspilled(cd.Y, params) {
							jPhi = cand
						}
					}
				}
			}
			isJ := func(v ssa.Value) bool {
				if jPhi != nil && v == ssa.Value(jPhi) {
					return true
				}
				if jCell != nil {
					if u, ok := v.(*ssa.UnOp); ok && u.Op == token.MUL && u.X == ssa.Value(jCell) {
						return true
					}
				}
				return false
			}
			isLenParams := func(v ssa.Value) bool {
				return x.path(v) == "len("+params.Name()+")" || isLenOfUnspilled(v, params)
			}
			okJ := false
			var jHeader *ssa.BasicBlock
			for _, b := range fn.Blocks {
				iff := path.BlockIf(b)
				if iff == nil {
					continue
				}
				cd, ok := path.CondOf(iff)
				if ok && !cd.Neg && cd.Op == token.LSS && isJ(cd.X) && isLenParams(cd.Y) && len(path.NaturalLoop(b)) > 0 {
					okJ = true
					jHeader = b
				}
			}
			c.ob("PT5", s.name, "every other input is examined (j = 1 .. len(params)-1)", c.fpos(fn), okJ, "the inner scan must run j from 1, step 1, while j < len(params)")
			if okJ {
				// acceptance test j == len(params) dominating the append
				acc := guardedBy(fn, apps[0].Block(), func(cd path.Cond, truth bool) bool {
					return cd.Op == token.EQL && truth && isJ(cd.X) && isLenParams(cd.Y)
				})
				if !acc {
					// the same acceptance without the counter test: every path to the append
					// leaves the j loop through the exit edge of its header, i.e. after j
					// reached len(params) (a non-member leaves by "continue outer" instead)
					jl := path.NaturalLoop(jHeader)
					for i, sx := range jHeader.Succs {
						if !jl[sx] && path.EdgeDominates(jHeader, i, apps[0].Block()) {
							acc = true
						}
					}
				}
				c.ob("PT3", s.name, "accepted exactly when every other input was passed", p.InstrPos(apps[0]), acc, "the append must be dominated by j == len(params): the element was found in every other input")
				// membership test on params[j] with the element (or, for By, a closure comparing images)
				okMem := false
				for b := range path.NaturalLoop(jHeader) {
					iff := path.BlockIf(b)
					if iff == nil {
						continue
					}
					v, truth, _ := condEdge(b, 0)
					call, ok := v.(*ssa.Call)
					if !ok {
						continue
					}
					// which edge leaves the j-loop early?
					brk := 1
					if truth {
						brk = 1
					} else {
						brk = 0
					}
					_ = brk
					if !s.by {
						if containsFn != nil && path.StaticCallee(call) == containsFn {
							a := call.Call.Args
							if u, ok := a[0].(*ssa.UnOp); ok {
								if ia, ok := u.X.(*ssa.IndexAddr); ok && path.Unspill(ia.X) == params && isJ(ia.Index) && path.Unspill(a[1]) == ssa.Value(el.load) {
									okMem = true
								}
							}
						}
					} else {
						// has() closure: ranges over params[j] and compares fn(v) == fn(item)
						if mc, ok := call.Call.Value.(*ssa.MakeClosure); ok {
							if cl, ok := mc.Fn.(*ssa.Function); ok && closureComparesImages(cl) {
								okMem = true
							}
						}
					}
					// the "not a member" edge must leave the j loop without incrementing j
				}
				if s.by && !okMem {
					// the same scan written in line (a found-flag instead of a closure)
					var ins []ssa.Instruction
					for b := range path.NaturalLoop(jHeader) {
						ins = append(ins, b.Instrs...)
					}
					okMem = comparesImages(ins)
				}
				c.ob("PV5", s.name, "membership of the element in params[j]", c.fpos(fn), okMem, "the inner test must be membership of the element (its image, for the By variant, compared with images) in params[j]")
			}
		}
		// result
		for _, b := range fn.Blocks {
			rt, ok := b.Instrs[len(b.Instrs)-1].(*ssa.Return)
			if !ok {
				continue
			}
			okR := true
			for _, o := range path.Origins(rt.Results[0]) {
				switch y := o.(type) {
				case *ssa.Call:
					if bi, isB := y.Call.Value.(*ssa.Builtin); !isB || bi.Name() != "append" {
						okR = false
					}
				case *ssa.Slice, *ssa.MakeSlice:
				default:
					okR = false
				}
			}
			c.ob("PV1", s.name, "returns the accumulated result", p.InstrPos(rt), okR && onlyViaLoopHeader(fn, b), "the value returned is not the accumulator, or is returned before the scan is exhausted")
		}
	}

	// ---------------- Duplicate / DuplicateWithIndex: emit only under count > 1
	for _, name := range []string{"gogu.Duplicate", "gogu.DuplicateWithIndex"} {
		fn := c.fn(name)
		if fn == nil {
			continue
		}
		x := newPathCtx(p)
		sl := ssa.Value(fn.Params[0])
		reads := elemReads(fn, sl)
		okScan := len(reads) == 1
		if okScan {
			sc, ok := classifyScan(x, fn, reads[0].idx, sl)
			okScan = ok && sc.dir == +1
		}
		c.ob("PT5", name, "complete forward scan of the input", c.fpos(fn), okScan, "every element must be counted, in index order (the first index is the one recorded)")
		// emitting sites: append (Duplicate) / MapUpdate of the result map (DuplicateWithIndex) dominated by "> 1"
		var emits []ssa.Instruction
		if name == "gogu.Duplicate" {
			for _, ap := range appendsOf(fn) {
				emits = append(emits, ap)
			}
		} else {
			var resMap ssa.Value
			for _, b := range fn.Blocks {
				if rt, ok := b.Instrs[len(b.Instrs)-1].(*ssa.Return); ok {
					resMap = rt.Results[0]
				}
			}
			for _, in := range path.Instrs(fn) {
				if mu, ok := in.(*ssa.MapUpdate); ok && mu.Map == resMap {
					emits = append(emits, mu)
				}
			}
		}
		c.ob("PT3", name, "one emitting site", c.fpos(fn), len(emits) == 1, fmt.Sprintf("expected exactly one site that adds to the result, found %d", len(emits)))
		for _, e := range emits {
			gt1 := guardedBy(fn, e.Block(), func(cd path.Cond, truth bool) bool {
				rel := normCmp(cd.Op, truth)
				if k, ok := path.IntConst(cd.Y); ok {
					return (rel == ">" && k == 1) || (rel == ">=" && k == 2)
				}
				if k, ok := path.IntConst(cd.X); ok {
					return (rel == "<" && k == 1) || (rel == "<=" && k == 2)
				}
				return false
			})
			c.ob("PT3", name, "emitted only when the count exceeds one", p.InstrPos(e), gt1, "a value is added to the result on a path not dominated by count > 1")
			// the emitted key comes from the range over the counting map (each key once)
			var key ssa.Value
			switch y := e.(type) {
			case *ssa.Call:
				key, _ = singleElemSlice(y.Call.Args[1])
			case *ssa.MapUpdate:
				key = y.Key
			}
			okK := false
			if ex, ok := key.(*ssa.Extract); ok && ex.Index == 1 {
				if nx, ok := ex.Tuple.(*ssa.Next); ok {
					if rg, ok := nx.Iter.(*ssa.Range); ok {
						if _, isMk := rg.X.(*ssa.MakeMap); isMk {
							okK = true
						}
					}
				}
			}
			c.ob("PV1", name, "emitted value is a key of the counting map", p.InstrPos(e), okK, "the emitted value must be the key of the current entry of the local counting map (each distinct value once)")
		}
		// the counting map is keyed by the element just read
		nKeyed := 0
		for _, in := range path.Instrs(fn) {
			mu, ok := in.(*ssa.MapUpdate)
			if !ok {
				continue
			}
			if _, isMk := mu.Map.(*ssa.MakeMap); !isMk {
				continue
			}
			if len(reads) == 1 && mu.Key == ssa.Value(reads[0].load) {
				nKeyed++
			}
		}
		c.ob("PV1", name, "occurrences counted per element", c.fpos(fn), nKeyed >= 1, "the counting map is not keyed by the element just read")
	}

	checkFlatten(c)
	_ = types.Typ
}

// canReachBlockWithoutBlock: some path from the start of `from` reaches `to`
// without entering block `stop`.
func canReachBlockWithoutBlock(from, to, stop *ssa.BasicBlock) bool {
	seen := map[*ssa.BasicBlock]bool{}
	var rec func(b *ssa.BasicBlock) bool
	rec = func(b *ssa.BasicBlock) bool {
		if b == to {
			return true
		}
		if b == stop || seen[b] {
			return false
		}
		seen[b] = true
		for _, s := range b.Succs {
			if rec(s) {
				return true
			}
		}
		return false
	}
	return rec(from)
}

// guardedByHeader: the block of the phi ends in an If whose condition satisfies pred
// with the loop continuing on the true edge.
func guardedByHeader(ph *ssa.Phi, pred func(cd path.Cond) bool) bool {
	iff := path.BlockIf(ph.Block())
	if iff == nil {
		return false
	}
	cd, ok := path.CondOf(iff)
	return ok && !cd.Neg && pred(cd)
}

// closureComparesImages: the closure's only element comparison is between two
// calls of the same function value (images), not between raw elements.
func closureComparesImages(cl *ssa.Function) bool {
	return comparesImages(path.Instrs(cl))
}

func comparesImages(ins []ssa.Instruction) bool {
	n := 0
	ok := true
	for _, in := range ins {
		bo, isB := in.(*ssa.BinOp)
		if !isB || (bo.Op != token.EQL && bo.Op != token.NEQ) {
			continue
		}
		if _, isTP := bo.X.Type().(*types.TypeParam); !isTP {
			continue
		}
		n++
		cx, okx := bo.X.(*ssa.Call)
		cy, oky := bo.Y.(*ssa.Call)
		if !okx || !oky {
			ok = false
			continue
		}
		if cx.Call.StaticCallee() != nil || cy.Call.StaticCallee() != nil {
			ok = false
		}
	}
	return ok && n == 1
}

// isLenOfUnspilled: v = len(x) where x (through a spilled cell) is value s.
func isLenOfUnspilled(v ssa.Value, s ssa.Value) bool {
	call, ok := v.(*ssa.Call)
	if !ok {
		return false
	}
	b, ok := call.Call.Value.(*ssa.Builtin)
	return ok && b.Name() == "len" && path.Unspill(call.Call.Args[0]) == s
}

// checkFlatten: the rules about Union, Flatten and baseFlatten (shared by C11 and C12).
func checkFlatten(c rc) {
	p := c.p
	uniqueFn := p.Func("gogu.Unique")
	baseFlatten := p.Func("gogu.baseFlatten")
	// ---------------- Union / Flatten / baseFlatten
	if baseFlatten != nil {
		for _, name := range []string{"gogu.Union", "gogu.Flatten"} {
			fn := c.fn(name)
			if fn == nil {
				continue
			}
			calls := callsTo(fn, baseFlatten)
			c.ob("ER2", name, "flattening through baseFlatten", c.fpos(fn), len(calls) == 1, "expected exactly one call of baseFlatten")
			if len(calls) != 1 {
				continue
			}
			call := calls[0].(*ssa.Call)
			// fresh accumulator and the argument itself
			a := call.Call.Args
			_, fresh := a[0].(*ssa.Slice)
			c.ob("PV1", name, "flattening starts from a fresh accumulator and the caller's nesting", p.InstrPos(call), fresh && a[1] == ssa.Value(fn.Params[0]), "baseFlatten must be given a fresh empty accumulator and the argument")
			for _, b := range fn.Blocks {
				rt, ok := b.Instrs[len(b.Instrs)-1].(*ssa.Return)
				if !ok || len(rt.Results) != 2 {
					continue
				}
				errV := rt.Results[1]
				isCallErr := false
				if ex, ok := errV.(*ssa.Extract); ok && ex.Tuple == ssa.Value(call) && ex.Index == 1 {
					isCallErr = true
				}
				// which edge are we on?
				onErr := guardedBy(fn, b, func(cd path.Cond, truth bool) bool {
					v := cd.X
					if path.IsNil(v) {
						v = cd.Y
					} else if !path.IsNil(cd.Y) {
						return false
					}
					ex, ok := v.(*ssa.Extract)
					return ok && ex.Tuple == ssa.Value(call) && ex.Index == 1 && (cd.Op == token.NEQ) == truth
				})
				onOK := guardedBy(fn, b, func(cd path.Cond, truth bool) bool {
					v := cd.X
					if path.IsNil(v) {
						v = cd.Y
					} else if !path.IsNil(cd.Y) {
						return false
					}
					ex, ok := v.(*ssa.Extract)
					return ok && ex.Tuple == ssa.Value(call) && ex.Index == 1 && (cd.Op == token.EQL) == truth
				})
				switch {
				case onErr:
					c.ob("ER2", name, "flattening error returned", p.InstrPos(rt), isCallErr || (!path.IsNil(errV) && !isZeroConst(errV)), "on the error path a nil error is returned: malformed nesting yields a silent empty result")
				case onOK:
					okRes := false
					if name == "gogu.Union" {
						if uc, ok := rt.Results[0].(*ssa.Call); ok && uniqueFn != nil && path.StaticCallee(uc) == uniqueFn {
							if ex, ok := uc.Call.Args[0].(*ssa.Extract); ok && ex.Tuple == ssa.Value(call) && ex.Index == 0 {
								okRes = true
							}
						}
					} else {
						okRes = true
					}
					c.ob("PV1", name, "result derives from the flattening", p.InstrPos(rt), okRes && path.IsNil(errV), "Union must return Unique(flattening) with a nil error")
				default:
					// unconditional return of the call's results (Flatten)
					e0, ok0 := rt.Results[0].(*ssa.Extract)
					c.ob("ER2", name, "results passed through", p.InstrPos(rt), isCallErr && ok0 && e0.Tuple == ssa.Value(call) && e0.Index == 0, "the results of baseFlatten must be returned unmodified")
				}
			}
		}
		// baseFlatten: the default (unsupported shape) case returns a non-nil error; recursion errors are propagated
		fn := baseFlatten
		nErr := 0
		for _, b := range fn.Blocks {
			rt, ok := b.Instrs[len(b.Instrs)-1].(*ssa.Return)
			if !ok || len(rt.Results) != 2 {
				continue
			}
			if !path.IsNil(rt.Results[1]) {
				nErr++
				c.ob("ER2", "gogu.baseFlatten", "error returns carry no partial result", p.InstrPos(rt), path.IsNil(rt.Results[0]), "an error return must not hand back a partial result")
			}
		}
		c.ob("ER2", "gogu.baseFlatten", "malformed nesting reaches an error return", c.fpos(fn), nErr >= 2, "baseFlatten must return an error both for an unsupported value and for a failed recursion")
		// ... and only then: an error return is either the type switch's miss or the propagation of a failed recursion
		{
			var lastTA *ssa.TypeAssert
			for _, in := range path.Instrs(fn) {
				if ta, ok := in.(*ssa.TypeAssert); ok && ta.CommaOk {
					lastTA = ta
				}
			}
			for _, b := range fn.Blocks {
				rt, ok := b.Instrs[len(b.Instrs)-1].(*ssa.Return)
				if !ok || len(rt.Results) != 2 || path.IsNil(rt.Results[1]) {
					continue
				}
				miss := lastTA != nil && boolGuard(fn, b, func(v ssa.Value) bool {
					ex, ok := v.(*ssa.Extract)
					return ok && ex.Tuple == ssa.Value(lastTA) && ex.Index == 1
				}, false)
				prop := guardedBy(fn, b, func(cd path.Cond, truth bool) bool {
					v := cd.X
					if path.IsNil(v) {
						v = cd.Y
					} else if !path.IsNil(cd.Y) {
						return false
					}
					okE := false
					for _, o := range valueOrigins(v) {
						if ex, ok := o.(*ssa.Extract); ok && ex.Index == 1 {
							if call, ok := ex.Tuple.(*ssa.Call); ok && path.StaticCallee(call) == fn {
								okE = true
							}
						}
					}
					return okE && normCmp(cd.Op, truth) == "!="
				})
				c.ob("ER2", "gogu.baseFlatten", "error only for an unsupported value or a failed recursion", p.InstrPos(rt), miss || prop, "baseFlatten returns an error on a path that is neither the type switch's miss nor the propagation of a recursion's error: a well-formed nesting can be rejected")
			}
		}
		// every type-switch miss leads to an error: the block after the last failed type assertion returns an error
		var last *ssa.TypeAssert
		for _, in := range path.Instrs(fn) {
			if ta, ok := in.(*ssa.TypeAssert); ok && ta.CommaOk {
				last = ta
			}
		}
		okDef := false
		if last != nil {
			for _, rf := range *last.Referrers() {
				ex, ok := rf.(*ssa.Extract)
				if !ok || ex.Index != 1 {
					continue
				}
				for _, r2 := range *ex.Referrers() {
					if iff, ok := r2.(*ssa.If); ok {
						fb := iff.Block().Succs[1]
						if rt, ok := fb.Instrs[len(fb.Instrs)-1].(*ssa.Return); ok && len(rt.Results) == 2 && !path.IsNil(rt.Results[1]) {
							okDef = true
						}
					}
				}
			}
		}
		// a failed recursion is noticed at once: inside a loop over the children, the error
		// of THIS child's recursion is tested in the same iteration (testing the variable
		// after the loop sees the last child's error only, and the next child's recursion
		// restarts from the nil accumulator of the failed one)
		for _, call := range callsTo(fn, fn) {
			if !path.InCycle(call.Block()) {
				continue
			}
			loop := path.LoopBlocks(call.Block())
			tested := false
			for b := range loop {
				iff := path.BlockIf(b)
				if iff == nil {
					continue
				}
				cd, ok := path.CondOf(iff)
				if !ok {
					continue
				}
				v := cd.X
				if path.IsNil(v) {
					v = cd.Y
				} else if !path.IsNil(cd.Y) {
					continue
				}
				if ex, ok := path.Unspill(v).(*ssa.Extract); ok && ex.Index == 1 && ex.Tuple == call.(ssa.Value) {
					// one of the two edges leaves the loop
					for _, sc := range b.Succs {
						if !loop[sc] {
							tested = true
						}
					}
				}
			}
			c.ob("ER2", "gogu.baseFlatten", "a child's error is tested before the next child", p.InstrPos(call), tested, "the error of a recursive call made in a loop is not tested inside that loop: only the last child's error survives, and a malformed element that is not the last one is silently dropped together with everything before it")
		}
		c.ob("ER2", "gogu.baseFlatten", "unsupported value is an error", c.fpos(fn), okDef, "a value that is neither T, []T nor []any must end in an error return (not a silent skip)")
		// the accumulator only ever grows by appends (it never adopts a leaf's own storage)
		for _, b := range fn.Blocks {
			rt, ok := b.Instrs[len(b.Instrs)-1].(*ssa.Return)
			if !ok || len(rt.Results) != 2 || path.IsNil(rt.Results[0]) {
				continue
			}
			okA := true
			for _, o := range valueOrigins(rt.Results[0]) {
				switch y := o.(type) {
				case *ssa.Parameter:
					if y != fn.Params[0] {
						okA = false
					}
				case *ssa.Call:
					if bi, isB := y.Call.Value.(*ssa.Builtin); isB && bi.Name() == "append" {
						continue
					}
					okA = false
				case *ssa.Extract:
					if call, ok := y.Tuple.(*ssa.Call); ok && path.StaticCallee(call) == fn && y.Index == 0 {
						continue
					}
					okA = false
				default:
					okA = false
				}
			}
			c.ob("PV1", "gogu.baseFlatten", "accumulator grows by appends only", p.InstrPos(rt), okA, "the accumulator returned can be a leaf of the input itself instead of the accumulator extended by append: later appends then write into the caller's leaf and clobber leaves not yet read")
		}
		// leaves appended in order: the []any case scans forward and threads the accumulator
		okThread := false
		for _, call := range callsTo(fn, fn) {
			a := call.Common().Args
			// accumulator argument derives from the parameter / previous result
			for _, o := range path.Origins(a[0]) {
				if o == ssa.Value(fn.Params[0]) {
					okThread = true
				}
			}
		}
		c.ob("PT5", "gogu.baseFlatten", "accumulator threaded through the recursion", c.fpos(fn), okThread, "the recursion must continue with the accumulator built so far (leaves left to right)")
	}
}
