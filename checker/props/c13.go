package props

import (
	"fmt"
	"go/token"
	"go/types"

	"golang.org/x/tools/go/ssa"

	"gogucheck/core"
	"gogucheck/path"
)

func init() {
	register(&Check{
		ID: "C13",
		Explanation: "Scan, guard and ordering rules over slice.go/find.go/math.go/generic.go/range.go (engines E4/E6/E3): PT5 IndexOf/FindIndex/Contains/Some/Every are complete forward scans and LastIndexOf/FindLastIndex complete backward scans of their slice whose match edge returns the index (resp. the boolean) at once and whose default result is returned only through the loop's exit; " +
			"FindAll stores (index, element) of the same iteration under the predicate; the extremum functions seed the accumulator with s[0] only under len > 0 (PT6, zero value otherwise), scan forward, update on a strict comparison in the direction their name promises with the element just read, and return the accumulator (PV1); " +
			"the ByKey variants read a map value only under the comma-ok presence test of the same map and key; Sum/SumBy/Mean add each element exactly once in a complete scan; OD2 Clamp, InRange, Abs, Compare, Less and Equal are comparison-only and their decision tables over every order type of the arguments equal the defining inequalities; " +
			"GS1/GS2 the helpers use no mutable package-level state and start no goroutines. Range: everything it decides before its first iteration (rejection, which loop, start, end, amount moved) is a function of the order type of its arguments and is tabulated over representatives in [-3,3] (half units) against the definition (OD2); the loops append one value derived from the counter per iteration, unconditionally, and RangeRight passes the arguments and the error through and reverses (AG5/ER2/PV1). BD2 Nth: premise (loop-free, integers combined by + - and comparisons, forms a*len+b*nth+c with small coefficients at every comparison and index) decided on the SSA of Nth, Abs and Bound.Enclose; under it the outcome (element index, error, out-of-range index) is tabulated over len 0..8 x nth -11..11 against s[nth] / s[len+nth] / error and never a panic. The OD2 and Range tables run in half units (functions generic over floats). Numeric values (overflow, float rounding through NumToString/N) are not decided.",
		Assumptions: []string{"go/ssa faithful to the source", "user callbacks are pure"},
		NotDecided:  []string{"integer overflow of -nth / len-|nth| in Nth at the extremes of int", "numeric values of Range's elements (overflow; floats pass through NumToString/N)", "numeric values of Sum/Mean (overflow, rounding)"},
		Run:         runC13,
	})
}

// matchEdge describes the If that decides a match on the element read.
func runC13(p *core.Program, r *core.Report) {
	c := rc{p, r}
	noAnswerBeforeTheScan(c, "gogu.IndexOf", "gogu.FindIndex", "gogu.LastIndexOf", "gogu.FindLastIndex", "gogu.Contains", "gogu.Some", "gogu.Every", "gogu.FindAll", "gogu.FindMin", "gogu.FindMinBy", "gogu.FindMinByKey", "gogu.FindMax", "gogu.FindMaxBy", "gogu.FindMaxByKey", "gogu.Min", "gogu.Max", "gogu.Sum", "gogu.SumBy", "gogu.Mean")
	resultUntouchedAfterTheScan(c, "gogu.IndexOf", "gogu.FindIndex", "gogu.LastIndexOf", "gogu.FindLastIndex", "gogu.Contains", "gogu.Some", "gogu.Every", "gogu.FindAll", "gogu.FindMin", "gogu.FindMinBy", "gogu.FindMinByKey", "gogu.FindMax", "gogu.FindMaxBy", "gogu.FindMaxByKey", "gogu.Min", "gogu.Max", "gogu.Sum", "gogu.SumBy", "gogu.Mean")
	positionBlind(c, "gogu.IndexOf", "gogu.FindIndex", "gogu.LastIndexOf", "gogu.FindLastIndex", "gogu.Contains", "gogu.Some", "gogu.Every", "gogu.FindAll", "gogu.FindMin", "gogu.FindMinBy", "gogu.FindMinByKey", "gogu.FindMax", "gogu.FindMaxBy", "gogu.FindMaxByKey", "gogu.Min", "gogu.Max", "gogu.Sum", "gogu.SumBy", "gogu.Mean")
	hygiene(c, "find.go", "math.go", "generic.go", "range.go")
	// Range takes at most three arguments
	noSingledOutValue(c, []string{"find.go", "math.go", "generic.go", "range.go"}, map[int64]string{2: "a number of arguments of Range", 3: "the number of arguments Range accepts"})
	checkRange(c)
	checkNth(c)

	// ---------------- PT5 scans with first match
	type scanSpec struct {
		name    string
		dir     int
		match   string // "eq" element == val param; "pred" fn(element) true; "notpred" fn(element) false
		onMatch string // "idx" | "true" | "false"
		after   string // "-1" | "true" | "false"
	}
	for _, s := range []scanSpec{
		{"gogu.IndexOf", +1, "eq", "idx", "-1"},
		{"gogu.FindIndex", +1, "pred", "idx", "-1"},
		{"gogu.LastIndexOf", -1, "eq", "idx", "-1"},
		{"gogu.FindLastIndex", -1, "pred", "idx", "-1"},
		{"gogu.Contains", +1, "eq", "true", "false"},
		{"gogu.Some", +1, "pred", "true", "false"},
		{"gogu.Every", +1, "notpred", "false", "true"},
	} {
		fn := c.fn(s.name)
		if fn == nil {
			continue
		}
		x := newPathCtx(p)
		sl := ssa.Value(fn.Params[0])
		reads := elemReads(fn, sl)
		if len(reads) != 1 {
			c.und("PT5", s.name, "element read", c.fpos(fn), fmt.Sprintf("expected exactly one read s[i] of the scanned slice, found %d: the scan is not in an accepted form", len(reads)))
			continue
		}
		rd := reads[0]
		sc, ok := classifyScan(x, fn, rd.idx, sl)
		dirName := map[int]string{+1: "forward from index 0", -1: "backward from the last index"}[s.dir]
		c.ob("PT5", s.name, "complete scan in the promised direction", p.InstrPos(rd.load), ok && sc.dir == s.dir,
			"the slice must be scanned completely, "+dirName+", one step at a time: otherwise the smallest/largest matching index (or a match at all) can be missed")
		if !ok {
			continue
		}
		// the match test
		var matchIf *ssa.If
		matchTruth := true
		for _, b := range fn.Blocks {
			iff := path.BlockIf(b)
			if iff == nil {
				continue
			}
			v, truth, _ := condEdge(b, 0)
			switch s.match {
			case "eq":
				if bo, ok := v.(*ssa.BinOp); ok && bo.Op == token.EQL {
					val := ssa.Value(fn.Params[1])
					if (bo.X == ssa.Value(rd.load) && bo.Y == val) || (bo.Y == ssa.Value(rd.load) && bo.X == val) {
						matchIf, matchTruth = iff, truth
					}
				}
			default:
				if call, ok := v.(*ssa.Call); ok {
					if prm, ok := call.Call.Value.(*ssa.Parameter); ok && prm == funcParam(fn) && len(call.Call.Args) == 1 && call.Call.Args[0] == ssa.Value(rd.load) {
						matchIf, matchTruth = iff, truth
					}
				}
			}
		}
		if matchIf == nil {
			c.und("PT5", s.name, "match test", c.fpos(fn), "no branch on (element == value) / fn(element) of the element just read was found")
			continue
		}
		// edge on which the match holds
		mIdx := 0
		want := true
		if s.match == "notpred" {
			want = false
		}
		if matchTruth != want {
			mIdx = 1
		}
		mb := matchIf.Block().Succs[mIdx]
		ret, isRet := mb.Instrs[len(mb.Instrs)-1].(*ssa.Return)
		okM := false
		if isRet && len(mb.Preds) == 1 {
			rv := ret.Results[0]
			switch s.onMatch {
			case "idx":
				okM = rv == sc.idx
			case "true", "false":
				bc, isC := path.BoolConst(rv)
				okM = isC && bc == (s.onMatch == "true")
			}
		}
		// nothing but the stated test decides inside the scan: every element reaches it
		{
			loop := map[*ssa.BasicBlock]bool{}
			for _, h := range fn.Blocks {
				if l := path.NaturalLoop(h); l[matchIf.Block()] {
					for b := range l {
						loop[b] = true
					}
				}
			}
			var extra *ssa.If
			for b := range loop {
				if iff := path.BlockIf(b); iff != nil && iff != matchIf && len(path.NaturalLoop(b)) == 0 {
					extra = iff
				}
			}
			pos := p.InstrPos(matchIf)
			if extra != nil {
				pos = p.InstrPos(extra)
			}
			c.ob("PT5", s.name, "only the stated test decides inside the scan", pos, extra == nil, "the loop branches on something besides its own continuation and the test on the element: some elements never reach the test")
		}
		c.ob("PT5", s.name, "first match decides at once", p.InstrPos(matchIf), okM, "on a match the function must return "+s.onMatch+" immediately (the first match in scan order decides)")
		// every other return: the default, reached only through the loop's exit
		for _, b := range fn.Blocks {
			rt, ok := b.Instrs[len(b.Instrs)-1].(*ssa.Return)
			if !ok || b == mb {
				continue
			}
			rv := rt.Results[0]
			okD := false
			switch s.after {
			case "-1":
				k, isK := path.IntConst(rv)
				okD = isK && k == -1
			default:
				bc, isC := path.BoolConst(rv)
				okD = isC && bc == (s.after == "true")
			}
			c.ob("PT5", s.name, "default result only after the whole scan", p.InstrPos(rt), okD && !path.InCycle(b) && onlyViaLoopHeader(fn, b), "a result other than the match result must be the default "+s.after+", returned only when the scan is exhausted")
		}
	}

	// ---------------- FindAll
	if fn := c.fn("gogu.FindAll"); fn != nil {
		x := newPathCtx(p)
		sl := ssa.Value(fn.Params[0])
		reads := elemReads(fn, sl)
		nUpd := 0
		for _, in := range path.Instrs(fn) {
			mu, ok := in.(*ssa.MapUpdate)
			if !ok {
				continue
			}
			nUpd++
			okP := false
			for _, rd := range reads {
				if mu.Value == ssa.Value(rd.load) && mu.Key == rd.idx {
					if sc, ok := classifyScan(x, fn, rd.idx, sl); ok && sc.dir == +1 {
						okP = boolGuard(fn, mu.Block(), func(v ssa.Value) bool {
							call, ok := v.(*ssa.Call)
							return ok && call.Call.Value == ssa.Value(funcParam(fn)) && len(call.Call.Args) == 1 && call.Call.Args[0] == ssa.Value(rd.load)
						}, true)
					}
				}
			}
			c.ob("PV2", "gogu.FindAll", "stores (index, element) of one iteration under the predicate", p.InstrPos(mu), okP, "FindAll must store m[i] = s[i] exactly for the elements on which fn is true, in a complete scan")
		}
		c.ob("PV2", "gogu.FindAll", "one store site", c.fpos(fn), nUpd == 1, "FindAll must fill its result at exactly one site")
	}

	// ---------------- extremum functions over a slice
	type extSpec struct {
		name string
		min  bool
		by   bool
	}
	for _, s := range []extSpec{
		{"gogu.FindMin", true, false}, {"gogu.FindMax", false, false},
		{"gogu.FindMinBy", true, true}, {"gogu.FindMaxBy", false, true},
		{"gogu.Min", true, false}, {"gogu.Max", false, false},
	} {
		fn := c.fn(s.name)
		if fn == nil {
			continue
		}
		x := newPathCtx(p)
		sl := ssa.Value(fn.Params[0])
		reads := elemReads(fn, sl)
		var seedReads, scanReads []elemRead
		for _, rd := range reads {
			if k, ok := path.IntConst(rd.idx); ok && k == 0 {
				seedReads = append(seedReads, rd)
				continue
			}
			scanReads = append(scanReads, rd)
		}
		// PT6: constant index only under the non-empty guard
		for _, rd := range seedReads {
			c.ob("PT6", s.name, "s[0] read under a length guard", p.InstrPos(rd.load), nonEmptyFact(x, fn, rd.load.Block(), sl), "the first element is read on a path not dominated by a test that the input is non-empty: empty input panics instead of yielding the zero value")
		}
		for _, rd := range reads {
			if _, isC := path.IntConst(rd.idx); isC {
				continue
			}
			sc, ok := classifyScan(x, fn, rd.idx, sl)
			okScan := ok && sc.dir == +1
			if !okScan && len(seedReads) > 0 {
				// the seed already is s[0]: the scan may start at 1
				if ph, isPhi := rd.idx.(*ssa.Phi); isPhi && phiStep(ph) == +1 {
					if k, isK := path.IntConst(phiInit(ph)); isK && k == 1 {
						okScan = guardedByHeader(ph, func(cd path.Cond) bool {
							return cd.Op == token.LSS && cd.X == ssa.Value(ph) && isLenOfValue(x, cd.Y, sl)
						})
					}
				}
			}
			c.ob("PT5", s.name, "complete forward scan", p.InstrPos(rd.load), okScan, "every element must be examined, in index order (ties: the first extremal element wins)")
		}
		c.ob("PT5", s.name, "scan present", c.fpos(fn), len(scanReads) >= 1, "no scan of the input found")
		// the update test: strict comparison between (image of) the current element and (image of) the accumulator
		isElemOrImage := func(v ssa.Value) bool {
			for _, rd := range scanReads {
				if v == ssa.Value(rd.load) {
					return true
				}
				if call, ok := v.(*ssa.Call); ok && s.by && call.Call.Value == ssa.Value(funcParam(fn)) && len(call.Call.Args) == 1 && call.Call.Args[0] == ssa.Value(rd.load) {
					return true
				}
			}
			return false
		}
		var accPhi *ssa.Phi
		isAccOrImage := func(v ssa.Value) bool {
			if call, ok := v.(*ssa.Call); ok && s.by && call.Call.Value == ssa.Value(funcParam(fn)) && len(call.Call.Args) == 1 {
				v = call.Call.Args[0]
			}
			_, ok := v.(*ssa.Phi)
			return ok
		}
		accOf := func(v ssa.Value) *ssa.Phi {
			if call, ok := v.(*ssa.Call); ok && s.by && len(call.Call.Args) == 1 {
				v = call.Call.Args[0]
			}
			ph, _ := v.(*ssa.Phi)
			return ph
		}
		nUpd := 0
		for _, b := range fn.Blocks {
			iff := path.BlockIf(b)
			if iff == nil {
				continue
			}
			cd, ok := path.CondOf(iff)
			if !ok {
				continue
			}
			rel := normCmp(cd.Op, !cd.Neg)
			a, bb := cd.X, cd.Y
			if isAccOrImage(a) && isElemOrImage(bb) {
				a, bb, rel = bb, a, flipRel(rel)
			}
			if !(isElemOrImage(a) && isAccOrImage(bb)) {
				continue
			}
			nUpd++
			accPhi = accOf(bb)
			want := ">"
			if s.min {
				want = "<"
			}
			// where the extremum is selected by the elements themselves ties are equal values,
			// so < and <= give the same answer; under a key function the first extremal
			// element must win, which needs the strict comparison
			okRel := rel == want
			if !s.by && rel == want+"=" {
				okRel = true
			}
			c.ob("OD2", s.name, "strict update comparison", p.InstrPos(iff), okRel,
				fmt.Sprintf("the accumulator is replaced when element %s accumulator; %s must use the strict %s so that the first extremal element is kept and the right extremum is found", rel, s.name, want))
			// the true edge installs the element just read
			tb := b.Succs[0]
			okSet := false
			for _, blk := range fn.Blocks {
				for _, in := range blk.Instrs {
					ph, ok := in.(*ssa.Phi)
					if !ok {
						continue
					}
					for i, e := range ph.Edges {
						pred := blk.Preds[i]
						if path.EdgeDominates(b, 0, pred) || (pred == tb && len(tb.Preds) == 1) {
							for _, rd := range scanReads {
								if u, ok := e.(*ssa.UnOp); ok && u.Op == token.MUL {
									if ia, ok := u.X.(*ssa.IndexAddr); ok && ia.X == sl && ia.Index == rd.idx {
										okSet = true
									}
								}
								if e == ssa.Value(rd.load) {
									okSet = true
								}
							}
						}
					}
				}
			}
			c.ob("PV1", s.name, "update installs the element just read", p.InstrPos(iff), okSet, "on the update edge the accumulator must become the element of the current index")
		}
		c.ob("OD2", s.name, "update test present", c.fpos(fn), nUpd == 1, "expected exactly one comparison between the current element and the running extremum")
		// the running extremum starts as the first element: started from the zero value
		// (or from any other slot) the answer is wrong for inputs on one side of zero
		if accPhi != nil && len(path.NaturalLoop(accPhi.Block())) > 0 {
			loop := path.NaturalLoop(accPhi.Block())
			okSeed, nEntry := true, 0
			for i, e := range accPhi.Edges {
				if loop[accPhi.Block().Preds[i]] {
					continue
				}
				nEntry++
				// the first element, or the zero value on the side where the input is empty
				isSeed := false
				for _, o := range valueOrigins(e) {
					hit := false
					for _, rd := range seedReads {
						if o == ssa.Value(rd.load) {
							hit = true
							isSeed = true
						}
					}
					if !hit && !isZeroConst(o) && !zeroResult(o, accPhi.Block()) {
						okSeed = false
					}
				}
				if !isSeed {
					okSeed = false
				}
			}
			c.ob("PV1", s.name, "running extremum seeded with the first element", p.Pos(accPhi.Pos()), okSeed && nEntry >= 1, "the accumulator does not enter the scan holding s[0]: starting from the zero value (or another slot) yields a value that is not the extremum, for instance for all-negative input to a maximum")
		}
		for _, rd := range reads {
			if k, isC := path.IntConst(rd.idx); isC && k != 0 {
				c.ob("PT6", s.name, "constant slot other than the first", p.InstrPos(rd.load), false, fmt.Sprintf("the input is read at the constant index %d: a shorter input panics and the element is not the seed the scan needs", k))
			}
		}
		// result: the accumulator, whose origins are the zero value and elements of the input
		for _, b := range fn.Blocks {
			rt, ok := b.Instrs[len(b.Instrs)-1].(*ssa.Return)
			if !ok {
				continue
			}
			okR := true
			for _, o := range valueOrigins(rt.Results[0]) {
				if isZeroConst(o) {
					continue
				}
				if u, ok := o.(*ssa.UnOp); ok && u.Op == token.MUL {
					if ia, ok := u.X.(*ssa.IndexAddr); ok && ia.X == sl {
						continue
					}
				}
				okR = false
			}
			viaHeader := true
			if nonEmptyFact(x, fn, b, sl) || len(b.Preds) > 0 {
				viaHeader = !path.InCycle(b)
			}
			c.ob("PV1", s.name, "result is an element of the input (or the zero value)", p.InstrPos(rt), okR && viaHeader, "the value returned does not derive exclusively from elements of the input / the zero value, or is returned from inside the scan")
		}
		_ = accPhi
	}

	// ---------------- ByKey variants: map values only under the presence test
	for _, name := range []string{"gogu.FindMinByKey", "gogu.FindMaxByKey"} {
		fn := c.fn(name)
		if fn == nil {
			continue
		}
		x := newPathCtx(p)
		sl := ssa.Value(fn.Params[0])
		// constant index into the slice of maps only under the non-empty guard
		for _, rd := range elemReads(fn, sl) {
			if k, ok := path.IntConst(rd.idx); ok && k == 0 {
				c.ob("PT6", name, "mapSlice[0] read under a length guard", p.InstrPos(rd.load), nonEmptyFact(x, fn, rd.load.Block(), sl), "the first map is read on a path not dominated by a test that the input is non-empty")
			}
		}
		nLook := 0
		for _, in := range path.Instrs(fn) {
			lk, ok := in.(*ssa.Lookup)
			if !ok || lk.CommaOk {
				continue
			}
			if _, isMap := lk.X.Type().Underlying().(*types.Map); !isMap {
				continue
			}
			nLook++
			mp, kp := x.path(lk.X), x.path(lk.Index)
			// dominated by ok == true of a comma-ok lookup of the same map and key
			present := boolGuard(fn, lk.Block(), func(v ssa.Value) bool {
				ex, ok := v.(*ssa.Extract)
				if !ok || ex.Index != 1 {
					return false
				}
				l2, ok := ex.Tuple.(*ssa.Lookup)
				if !ok || !l2.CommaOk {
					return false
				}
				sameMap := l2.X == lk.X || (mp != "" && x.path(l2.X) == mp)
				sameKey := l2.Index == lk.Index || (kp != "" && x.path(l2.Index) == kp)
				return sameMap && sameKey
			}, true)
			c.ob("PV1", name, "map value read only when the key is present", p.InstrPos(lk), present, "a map value is read without a dominating comma-ok test of the same map and key: a map that lacks the key contributes a phantom zero value that is not an element of the input")
		}
		// the value taken from the comma-ok lookup itself (val, ok := m[key]): every
		// use of the value lies behind ok == true of that very lookup
		for _, in := range path.Instrs(fn) {
			ex, ok := in.(*ssa.Extract)
			if !ok || ex.Index != 0 {
				continue
			}
			lk, ok := ex.Tuple.(*ssa.Lookup)
			if !ok || !lk.CommaOk {
				continue
			}
			if _, isMap := lk.X.Type().Underlying().(*types.Map); !isMap {
				continue
			}
			isOk := func(v ssa.Value) bool {
				e2, ok := v.(*ssa.Extract)
				return ok && e2.Index == 1 && e2.Tuple == ex.Tuple
			}
			used := false
			present := true
			for _, rf := range *ex.Referrers() {
				switch u := rf.(type) {
				case *ssa.DebugRef:
					continue
				case *ssa.Phi:
					for k, e := range u.Edges {
						if e == ssa.Value(ex) {
							used = true
							if !boolGuard(fn, u.Block().Preds[k], isOk, true) {
								present = false
							}
						}
					}
				default:
					used = true
					if !boolGuard(fn, rf.Block(), isOk, true) {
						present = false
					}
				}
			}
			if used {
				nLook++
				c.ob("PV1", name, "map value read only when the key is present", p.InstrPos(ex), present, "the value of a comma-ok lookup is used on a path where ok is not known to be true: a map that lacks the key contributes a phantom zero value that is not an element of the input")
			}
		}
		c.ob("PV1", name, "value reads", c.fpos(fn), nLook >= 1, "no map value read found")
		// update comparisons strict in the promised direction
		for _, b := range fn.Blocks {
			iff := path.BlockIf(b)
			if iff == nil {
				continue
			}
			cd, ok := cmpOf(iff)
			if !ok || (cd.Op != token.LSS && cd.Op != token.GTR && cd.Op != token.LEQ && cd.Op != token.GEQ) {
				continue
			}
			_, xl := cd.X.(*ssa.Lookup)
			_, yl := cd.Y.(*ssa.Lookup)
			if !xl && !yl {
				continue
			}
			rel := normCmp(cd.Op, !cd.Neg)
			if yl && !xl {
				rel = flipRel(rel)
			}
			want := ">"
			if name == "gogu.FindMinByKey" {
				want = "<"
			}
			c.ob("OD2", name, "strict update comparison", p.InstrPos(iff), rel == want || rel == want+"=", "the running extremum must be replaced on the comparison "+want+" (ties are equal values, so "+want+"= is the same)")
		}
		// the running extremum: seeded with mapSlice[0][key], replaced by the value that was
		// compared; every lookup is at the caller's key; the per-map selection (FindByKey)
		// keeps exactly the entry of that key
		{
			keyP := paramByName(fn, "key")
			isKeyLookup := func(v ssa.Value, firstMap bool) bool {
				if ex, ok := v.(*ssa.Extract); ok && ex.Index == 0 {
					v = ex.Tuple
				}
				lk, ok := v.(*ssa.Lookup)
				if !ok || keyP == nil || path.Unspill(lk.Index) != ssa.Value(keyP) {
					return false
				}
				if firstMap {
					u, ok := lk.X.(*ssa.UnOp)
					if !ok {
						return false
					}
					ia, ok := u.X.(*ssa.IndexAddr)
					if !ok || ia.X != sl {
						return false
					}
					k, isK := path.IntConst(ia.Index)
					return isK && k == 0
				}
				return true
			}
			for _, in := range path.Instrs(fn) {
				if lk, ok := in.(*ssa.Lookup); ok {
					if _, isMap := lk.X.Type().Underlying().(*types.Map); isMap {
						c.ob("PV1", name, "lookups are at the caller's key", p.InstrPos(lk), keyP != nil && path.Unspill(lk.Index) == ssa.Value(keyP), "a map of the input is read at something other than the key parameter")
					}
				}
			}
			nAcc := 0
			for _, b := range fn.Blocks {
				iff := path.BlockIf(b)
				if iff == nil {
					continue
				}
				cd, ok := cmpOf(iff)
				if !ok || (cd.Op != token.LSS && cd.Op != token.GTR && cd.Op != token.LEQ && cd.Op != token.GEQ) {
					continue
				}
				cand, acc := cd.X, cd.Y
				if _, isPhi := acc.(*ssa.Phi); !isPhi {
					cand, acc = cd.Y, cd.X
				}
				ph, isPhi := acc.(*ssa.Phi)
				if !isPhi || !isKeyLookup(cand, false) || len(path.NaturalLoop(ph.Block())) == 0 {
					continue
				}
				nAcc++
				loop := path.NaturalLoop(ph.Block())
				okSeed, okUpd := true, false
				nEntry := 0
				for i, e := range ph.Edges {
					if !loop[ph.Block().Preds[i]] {
						nEntry++
						for _, o := range valueOrigins(e) {
							if !isKeyLookup(o, true) {
								okSeed = false
							}
						}
						continue
					}
					if e == ssa.Value(ph) {
						continue // unchanged on this edge
					}
					for _, o := range valueOrigins(e) {
						if o == ssa.Value(ph) {
							continue
						}
						if lk, ok := o.(*ssa.Lookup); ok && isKeyLookup(o, false) {
							// the same map the comparison looked at
							cl, _ := cand.(*ssa.Lookup)
							if ex, isEx := cand.(*ssa.Extract); isEx {
								cl, _ = ex.Tuple.(*ssa.Lookup)
							}
							if cl != nil && cl.X == lk.X {
								okUpd = true
								continue
							}
						}
						if ex, ok := o.(*ssa.Extract); ok && o == cand && ex.Index == 0 {
							okUpd = true
							continue
						}
						okSeed = false
					}
				}
				c.ob("PV1", name, "running extremum seeded with the first map's value", p.InstrPos(iff), okSeed && nEntry >= 1, "the accumulator must enter the scan holding mapSlice[0][key] (and take no other values than compared ones): started from the zero value the answer is wrong for inputs on one side of zero")
				c.ob("PV1", name, "update installs the value that was compared", p.InstrPos(iff), okUpd, "on the update edge the accumulator must become the value of the current map at key")
			}
			c.ob("PV1", name, "running extremum present", c.fpos(fn), nAcc == 1, "expected one comparison between the current map's value at key and the running extremum")
			// FindByKey's selector keeps the entry of the key
			if fbk := p.Func("gogu.FindByKey"); fbk != nil {
				for _, call := range callsTo(fn, fbk) {
					okSel := false
					if mc, ok := call.Common().Args[1].(*ssa.MakeClosure); ok {
						if cl, ok := mc.Fn.(*ssa.Function); ok && len(cl.Params) == 1 {
							for _, alt := range returnAlternatives(cl, 0) {
								bo, ok := alt.val.(*ssa.BinOp)
								if !ok || bo.Op != token.EQL {
									okSel = false
									break
								}
								isCapKey := func(v ssa.Value) bool {
									if u, ok := v.(*ssa.UnOp); ok && u.Op == token.MUL {
										v = u.X
									}
									fv, ok := v.(*ssa.FreeVar)
									if !ok {
										return false
									}
									for i, f := range cl.FreeVars {
										if f == fv && i < len(mc.Bindings) {
											b := mc.Bindings[i]
											if b == ssa.Value(keyP) {
												return true
											}
											if al, ok := b.(*ssa.Alloc); ok {
												for _, rf := range *al.Referrers() {
													if st, ok := rf.(*ssa.Store); ok && st.Addr == ssa.Value(al) && st.Val == ssa.Value(keyP) {
														return true
													}
												}
											}
										}
									}
									return false
								}
								okSel = (bo.X == ssa.Value(cl.Params[0]) && isCapKey(bo.Y)) || (bo.Y == ssa.Value(cl.Params[0]) && isCapKey(bo.X))
								if !okSel {
									break
								}
							}
						}
					}
					c.ob("PV1", name, "per-map selection keeps the entry of the key", p.InstrPos(call), okSel, "the selector handed to FindByKey must be k == key: anything else hides the value the comparison needs (the extremum silently stays at the first map's value)")
				}
			}
		}
		// every map of the input is examined: range over the slice of maps
		okRange := false
		for _, rd := range elemReads(fn, sl) {
			if sc, ok := classifyScan(x, fn, rd.idx, sl); ok && sc.dir == +1 {
				okRange = true
			}
		}
		c.ob("PT5", name, "complete scan of the maps", c.fpos(fn), okRange, "every map of the input must be examined")
	}

	// ---------------- Sum, SumBy, Mean
	for _, name := range []string{"gogu.Sum", "gogu.SumBy", "gogu.Mean"} {
		fn := c.fn(name)
		if fn == nil {
			continue
		}
		x := newPathCtx(p)
		sl := ssa.Value(fn.Params[0])
		reads := elemReads(fn, sl)
		okScan := len(reads) == 1
		var rd elemRead
		if okScan {
			rd = reads[0]
			sc, ok := classifyScan(x, fn, rd.idx, sl)
			okScan = ok && sc.dir == +1
		}
		c.ob("PT5", name, "complete scan", c.fpos(fn), okScan, "every element must be read exactly once in a complete scan")
		if !okScan {
			continue
		}
		// accumulation: acc' = acc + term, acc a phi of {zero, acc'}, term the element or fn(element)
		nAdd := 0
		var accNew *ssa.BinOp
		for _, in := range path.Instrs(fn) {
			bo, ok := in.(*ssa.BinOp)
			if !ok || bo.Op != token.ADD {
				continue
			}
			if _, isInt := bo.Type().Underlying().(*types.Basic); isInt && bo.Type().Underlying().(*types.Basic).Kind() == types.Int {
				if bo.X == rd.idx || bo == rd.idx {
					continue // the index step
				}
			}
			if bo == rd.idx {
				continue
			}
			ph, isPhi := bo.X.(*ssa.Phi)
			term := bo.Y
			if !isPhi {
				ph, isPhi = bo.Y.(*ssa.Phi)
				term = bo.X
			}
			if !isPhi || ssa.Value(ph) == rd.idx {
				continue
			}
			okTerm := term == ssa.Value(rd.load)
			if call, ok := term.(*ssa.Call); ok && call.Call.Value == ssa.Value(funcParam(fn)) && len(call.Call.Args) == 1 && call.Call.Args[0] == ssa.Value(rd.load) {
				okTerm = true
			}
			okPhi := false
			for _, e := range ph.Edges {
				if e == ssa.Value(bo) {
					okPhi = true
				}
			}
			for _, e := range ph.Edges {
				if e != ssa.Value(bo) && !isZeroConst(e) {
					okPhi = false
				}
			}
			nAdd++
			accNew = bo
			c.ob("PT1", name, "each element added once", p.InstrPos(bo), okTerm && okPhi && path.MaxCount(fn, func(i ssa.Instruction) bool { return i == ssa.Instruction(bo) }) >= path.Unbounded && !mayRepeatPerIteration(bo, rd.load),
				"the accumulator must start at zero and grow by the current element (or its image) exactly once per iteration")
		}
		c.ob("PT1", name, "one accumulation site", c.fpos(fn), nAdd == 1, "expected exactly one accumulation acc += element")
		if accNew == nil {
			continue
		}
		for _, b := range fn.Blocks {
			rt, ok := b.Instrs[len(b.Instrs)-1].(*ssa.Return)
			if !ok {
				continue
			}
			rv := rt.Results[0]
			if name == "gogu.Mean" {
				q, ok := rv.(*ssa.BinOp)
				okQ := ok && q.Op == token.QUO
				if okQ {
					okQ = false
					for _, o := range path.Origins(q.X) {
						if o == ssa.Value(accNew) {
							okQ = true
						}
					}
					var cvX ssa.Value
					switch cv := q.Y.(type) {
					case *ssa.Convert:
						cvX = cv.X
					case *ssa.MultiConvert:
						cvX = cv.X
					}
					okQ = okQ && cvX != nil && isLenOfValue(x, cvX, sl)
				}
				c.ob("PV1", name, "mean is sum / len", p.InstrPos(rt), okQ, "Mean must return the accumulated sum divided by T(len(slice))")
				continue
			}
			okS := false
			for _, o := range path.Origins(rv) {
				if o == ssa.Value(accNew) {
					okS = true
				}
			}
			c.ob("PV1", name, "returns the accumulated sum", p.InstrPos(rt), okS && onlyViaLoopHeader(fn, b), "the accumulated sum must be returned after the complete scan")
		}
	}

	// ---------------- OD2 decision tables
	num := func(n int64) od2Val { return od2Val{n: n} }
	bl := func(b bool) od2Val { return od2Val{isBool: true, b: b} }
	od2Check(c, od2Spec{name: "gogu.Clamp", nNum: 3,
		domain: func(a []int64) bool { return a[1] <= a[2] },
		want: func(a []int64, _ func(x, y int64) bool) od2Val {
			v := a[0]
			if v < a[1] {
				v = a[1]
			}
			if v > a[2] {
				v = a[2]
			}
			return num(v)
		}})
	od2Check(c, od2Spec{name: "gogu.InRange", nNum: 3,
		want: func(a []int64, _ func(x, y int64) bool) od2Val { return bl(a[1] <= a[0] && a[0] <= a[2]) }})
	od2Check(c, od2Spec{name: "gogu.Abs", nNum: 1,
		want: func(a []int64, _ func(x, y int64) bool) od2Val {
			if a[0] < 0 {
				return num(-a[0])
			}
			return num(a[0])
		}})
	od2Check(c, od2Spec{name: "gogu.Less", nNum: 2,
		want: func(a []int64, _ func(x, y int64) bool) od2Val { return bl(a[0] < a[1]) }})
	od2Check(c, od2Spec{name: "gogu.Equal", nNum: 2,
		want: func(a []int64, _ func(x, y int64) bool) od2Val { return bl(a[0] == a[1]) }})
	od2Check(c, od2Spec{name: "gogu.Compare", nNum: 2, comp: true,
		want: func(a []int64, cmp func(x, y int64) bool) od2Val {
			if cmp(a[0], a[1]) {
				return num(1)
			}
			if cmp(a[1], a[0]) {
				return num(-1)
			}
			return num(0)
		}})
}

// mayRepeatPerIteration is a placeholder for a finer count: the accumulation site
// lies in the same loop as the element read and is not nested in a deeper loop.
func mayRepeatPerIteration(acc *ssa.BinOp, load *ssa.UnOp) bool {
	la := path.LoopBlocks(acc.Block())
	lb := path.LoopBlocks(load.Block())
	if len(la) != len(lb) {
		return true
	}
	for b := range la {
		if !lb[b] {
			return true
		}
	}
	return false
}

// cmpOf decomposes the condition of a branch into a relational comparison: written in
// place, or delegated to a local two-parameter function literal whose body is just the
// comparison of its parameters (`better := func(v, best T) bool { return v < best }`;
// `if better(x, acc)`), in which case the arguments take the parameters' places.
func cmpOf(iff *ssa.If) (path.Cond, bool) {
	if cd, ok := path.CondOf(iff); ok {
		return cd, true
	}
	v := iff.Cond
	neg := false
	for {
		if u, ok := v.(*ssa.UnOp); ok && u.Op == token.NOT {
			neg = !neg
			v = u.X
			continue
		}
		break
	}
	call, ok := v.(*ssa.Call)
	if !ok || len(call.Call.Args) != 2 {
		return path.Cond{}, false
	}
	var cl *ssa.Function
	switch f := path.Unspill(call.Call.Value).(type) {
	case *ssa.MakeClosure:
		cl, _ = f.Fn.(*ssa.Function)
	case *ssa.Function:
		if f.Parent() != nil { // a function literal without captured variables
			cl = f
		}
	}
	if cl == nil || len(cl.Params) != 2 {
		return path.Cond{}, false
	}
	alts := returnAlternatives(cl, 0)
	if len(alts) != 1 {
		return path.Cond{}, false
	}
	bo, ok := alts[0].val.(*ssa.BinOp)
	if !ok {
		return path.Cond{}, false
	}
	arg := func(p ssa.Value) ssa.Value {
		switch p {
		case ssa.Value(cl.Params[0]):
			return call.Call.Args[0]
		case ssa.Value(cl.Params[1]):
			return call.Call.Args[1]
		}
		return nil
	}
	x, y := arg(bo.X), arg(bo.Y)
	if x == nil || y == nil {
		return path.Cond{}, false
	}
	switch bo.Op {
	case token.LSS, token.GTR, token.LEQ, token.GEQ, token.EQL, token.NEQ:
		return path.Cond{If: iff, Op: bo.Op, X: x, Y: y, Neg: neg}, true
	}
	return path.Cond{}, false
}
