package props

import (
	"fmt"
	"go/token"
	"strings"

	"golang.org/x/tools/go/ssa"

	"gogucheck/core"
	"gogucheck/path"
)

func init() {
	register(&Check{
		ID: "C12",
		Explanation: "Iteration, placement and permutation rules over slice.go, filter.go, shuffle.go (engines E3/E4): PT5/PT1 Map, ForEach, Reduce scan forward and ForEachRight backward, completely, and call the callback exactly once per iteration on the element just read (Map stores fn(v) at the element's index, Reduce threads the accumulator); " +
			"PV3 Filter, DropWhile, DropRightWhile and Partition append the element just read under exactly the decision the function promises (fn true / false, part 0 / part 1) - every element lands in exactly the part its predicate dictates - and mapByIndex (GroupBy) appends origSlice[i] to the group of mapSlice[i]; Reject splices s[:i]+s[i+1:] exactly under fn(s[i]) and re-examines index i; " +
			"Merge appends s, then params[0], params[1], ... in a complete forward scan onto fresh storage; Flatten's accumulator grows by appends only, is threaded through the recursion and malformed nesting is an error; PV4 Shuffle copies the whole input and then only swaps cells of the copy, Reverse and ReverseStr only swap in a two-pointer walk; " +
			"Zip/Unzip store result[a][b] = slices[b][a] resp. result[b][a] = slices[a][b] with both indices scanning completely, behind the square-shape rejections; Chunk appends only windows slice[i:..] that start at a multiple of size and are dominated by i < len(slice) (never an empty chunk) and rejects size <= 0; BD2 Drop: premise (loop-free, + - and comparisons, forms of (len, n) with small coefficients) decided on the SSA, then the window returned is tabulated over len 0..8 x n -11..11 against 'min(|n|, len) elements dropped from the front (n > 0) or the back (n < 0)', out-of-range bounds being a panic; GS1/GS2 hygiene.",
		Assumptions: []string{"go/ssa faithful to the source", "Go append/copy/re-slice semantics", "user callbacks are pure"},
		NotDecided:  []string{"Chunk's window arithmetic beyond start/non-emptiness", "uniformity of Shuffle", "involution of Reverse beyond 'only swaps, two-pointer'"},
		Run:         runC12,
	})
}

func runC12(p *core.Program, r *core.Report) {
	c := rc{p, r}
	noAnswerBeforeTheScan(c, "gogu.Map", "gogu.ForEach", "gogu.ForEachRight", "gogu.Reduce", "gogu.Reverse", "gogu.Chunk", "gogu.Partition", "gogu.Filter", "gogu.Reject", "gogu.DropWhile", "gogu.DropRightWhile", "gogu.mapByIndex", "gogu.Zip", "gogu.Unzip", "gogu.Merge", "gogu.Shuffle")
	resultUntouchedAfterTheScan(c, "gogu.Map", "gogu.ForEach", "gogu.ForEachRight", "gogu.Reduce", "gogu.Reverse", "gogu.Chunk", "gogu.Partition", "gogu.Filter", "gogu.Reject", "gogu.DropWhile", "gogu.DropRightWhile", "gogu.mapByIndex", "gogu.Zip", "gogu.Unzip", "gogu.Merge", "gogu.Shuffle")
	positionBlind(c, "gogu.Map", "gogu.ForEach", "gogu.ForEachRight", "gogu.Reduce", "gogu.Filter", "gogu.Reject", "gogu.Partition", "gogu.GroupBy", "gogu.mapByIndex")
	hygiene(c, "slice.go", "filter.go", "shuffle.go", "string.go")
	noSingledOutValue(c, []string{"filter.go", "shuffle.go"}, nil)

	// ---------------- visit once, in order
	type visitSpec struct {
		name string
		dir  int
	}
	for _, s := range []visitSpec{{"gogu.Map", +1}, {"gogu.ForEach", +1}, {"gogu.ForEachRight", -1}, {"gogu.Reduce", +1}} {
		fn := c.fn(s.name)
		if fn == nil {
			continue
		}
		x := newPathCtx(p)
		sl := ssa.Value(fn.Params[0])
		cb := funcParam(fn)
		reads := elemReads(fn, sl)
		if len(reads) != 1 {
			c.und("PT5", s.name, "element read", c.fpos(fn), fmt.Sprintf("expected exactly one read of the slice, found %d", len(reads)))
			continue
		}
		rd := reads[0]
		sc, ok := classifyScan(x, fn, rd.idx, sl)
		c.ob("PT5", s.name, "complete scan in the promised order", p.InstrPos(rd.load), ok && sc.dir == s.dir, "every element must be visited, in index order (reverse index order for ForEachRight)")
		calls := path.CallsOfValue(fn, cb, false)
		c.ob("PT1", s.name, "one callback site", c.fpos(fn), len(calls) == 1, fmt.Sprintf("expected exactly one call of the callback, found %d", len(calls)))
		if len(calls) != 1 || !ok {
			continue
		}
		call := calls[0]
		hasElem := false
		for _, a := range call.Common().Args {
			if a == ssa.Value(rd.load) {
				hasElem = true
			}
		}
		c.ob("PT1", s.name, "callback receives the element just read", p.InstrPos(call), hasElem, "the callback must be invoked on the element of the current index")
		// exactly once per iteration: in the loop, not nested deeper, no way round it
		body := sc.header.Succs[0]
		isCall := func(in ssa.Instruction) bool { return in == ssa.Instruction(call) }
		skip := canReachBlockWithout(body, sc.header, isCall)
		c.ob("PT1", s.name, "callback exactly once per element", p.InstrPos(call), !skip && loopDepth(fn, call.Block()) == 1, "an iteration can finish without calling the callback, or calls it in a nested loop: elements are skipped or visited repeatedly")
		for _, b := range fn.Blocks {
			if rt, isRt := b.Instrs[len(b.Instrs)-1].(*ssa.Return); isRt {
				c.ob("PT5", s.name, "returns only after the scan", p.InstrPos(rt), sc.header.Dominates(b) && !path.NaturalLoop(sc.header)[b], "a return is reachable that is not behind the scan over the input: some inputs take a side path that visits the elements differently")
			}
		}
		switch s.name {
		case "gogu.Map":
			okSt := false
			for _, in := range path.Instrs(fn) {
				st, isSt := in.(*ssa.Store)
				if !isSt {
					continue
				}
				ia, isIA := st.Addr.(*ssa.IndexAddr)
				if !isIA {
					continue
				}
				if _, isMk := ia.X.(*ssa.MakeSlice); isMk && ia.Index == rd.idx && st.Val == call.(ssa.Value) {
					okSt = true
				}
			}
			c.ob("PV2", s.name, "image stored at the element's index", c.fpos(fn), okSt, "Map must store fn(v) at the index of v in the fresh result")
			for _, in := range path.Instrs(fn) {
				if mk, isMk := in.(*ssa.MakeSlice); isMk {
					c.ob("PV2", s.name, "result has the input's length", p.InstrPos(mk), isLenOfValue(x, mk.Len, sl), "the result must be allocated with len(slice) cells")
				}
			}
		case "gogu.Reduce":
			// accumulator threaded: fn(v, acc) with acc = phi{initVal, call}; the final acc is returned
			okT := false
			for _, a := range call.Common().Args {
				if ph, isPhi := a.(*ssa.Phi); isPhi {
					ok1, ok2 := false, false
					for _, e := range ph.Edges {
						if e == ssa.Value(paramByName(fn, "initVal")) {
							ok1 = true
						}
						if e == call.(ssa.Value) {
							ok2 = true
						}
					}
					okT = ok1 && ok2 && len(ph.Edges) == 2
					for _, b := range fn.Blocks {
						if rt, isRt := b.Instrs[len(b.Instrs)-1].(*ssa.Return); isRt {
							c.ob("PV1", s.name, "returns the final accumulator", p.InstrPos(rt), rt.Results[0] == ssa.Value(ph) && onlyViaLoopHeader(fn, b), "Reduce must return the accumulator after the complete scan")
						}
					}
				}
			}
			c.ob("PV1", s.name, "accumulator threaded through the callback", p.InstrPos(call), okT, "each call must receive the previous call's result (initVal first)")
		}
	}

	// ---------------- placement (table over the emit descriptors)
	type want struct {
		kind, keySuffix, val, dec string
	}
	table := map[string][]want{
		"gogu.Filter":         {{"append", "", "each(slice)", "+fn(each(slice))"}},
		"gogu.DropWhile":      {{"append", "", "each(slice)", "-fn(each(slice))"}},
		"gogu.DropRightWhile": {{"append", "", "eachrev(slice)", "-fn(eachrev(slice))"}},
		"gogu.Partition":      {{"append", "[0]", "each(slice)", "+fn(each(slice))"}, {"append", "[1]", "each(slice)", "-fn(each(slice))"}},
		"gogu.mapByIndex": {{"mapupdate", "each(mapSlice)", "newslice", "-ok(newmap[each(mapSlice)])"},
			{"append", "newmap[each(mapSlice)]", "origSlice[i:mapSlice]", ""},
			{"mapupdate", "each(mapSlice)", "", ""}},
	}
	for name, ws := range table {
		fn := c.fn(name)
		if fn == nil {
			continue
		}
		ems := c14Emits(p, fn)
		used := map[int]bool{}
		for _, w := range ws {
			found := -1
			for i, e := range ems {
				if used[i] || e.kind != w.kind || e.val != w.val || !strings.HasSuffix(e.key, w.keySuffix) {
					continue
				}
				found = i
				break
			}
			obj := fmt.Sprintf("%s %s <- %s", w.kind, w.keySuffix, w.val)
			if found < 0 {
				var got []string
				for _, e := range ems {
					got = append(got, fmt.Sprintf("%s(%s <- %s)", e.kind, e.key, e.val))
				}
				c.ob("PV3", name, obj, c.fpos(fn), false, fmt.Sprintf("no site places the element as promised; found %v", got))
				continue
			}
			used[found] = true
			e := ems[found]
			c.ob("PV3", name, obj, p.InstrPos(e.in), true, "")
			wantDec := ""
			if w.dec != "" {
				wantDec = w.dec
			}
			c.ob("PV3", name, "placed exactly under "+w.dec, p.InstrPos(e.in), strings.Join(e.dec, " & ") == wantDec, fmt.Sprintf("the element is placed under the per-element decisions %v, expected [%s]: elements would land in the wrong part or be dropped", e.dec, wantDec))
			c.ob("PV3", name, "placed once per element", p.InstrPos(e.in), loopDepth(fn, e.in.Block()) == 1, "the placement is not executed exactly once per iteration of the scan")
		}
		for i, e := range ems {
			if !used[i] {
				c.ob("PV3", name, "extra "+e.kind, p.InstrPos(e.in), false, fmt.Sprintf("unexpected placement %s(%s <- %s)", e.kind, e.key, e.val))
			}
		}
		c14ReturnsAfterScan(c, fn, name, ems)
	}
	// mapByIndex's last map update stores the append result back under the same key; GroupBy = mapByIndex(slice, Map(slice, fn))
	if fn := c.fn("gogu.mapByIndex"); fn != nil {
		okBack := false
		for _, in := range path.Instrs(fn) {
			mu, ok := in.(*ssa.MapUpdate)
			if !ok {
				continue
			}
			if call, ok := mu.Value.(*ssa.Call); ok {
				if b, ok := call.Call.Value.(*ssa.Builtin); ok && b.Name() == "append" {
					if lk, ok := call.Call.Args[0].(*ssa.Lookup); ok && lk.X == mu.Map && lk.Index == mu.Key {
						okBack = true
					}
				}
			}
		}
		c.ob("PV2", "gogu.mapByIndex", "group extended in place", c.fpos(fn), okBack, "the extended group must be stored back under the key it was read from")
	}
	if fn := c.fn("gogu.GroupBy"); fn != nil {
		mbi, mp := p.Func("gogu.mapByIndex"), p.Func("gogu.Map")
		okG := false
		for _, call := range callsTo(fn, mbi) {
			a := call.Common().Args
			if a[0] == ssa.Value(fn.Params[0]) {
				if mc, ok := a[1].(*ssa.Call); ok && path.StaticCallee(mc) == mp && mc.Call.Args[0] == ssa.Value(fn.Params[0]) && mc.Call.Args[1] == ssa.Value(funcParam(fn)) {
					okG = true
				}
			}
		}
		c.ob("PV2", "gogu.GroupBy", "groups slice[i] under fn(slice[i])", c.fpos(fn), okG, "GroupBy must be mapByIndex(slice, Map(slice, fn)): element i grouped under the key of element i")
		if mbi != nil {
			okW, at := returnsCallUnmodified(fn, mbi)
			pos := c.fpos(fn)
			if at != nil {
				pos = p.InstrPos(at)
			}
			c.ob("PV2", "gogu.GroupBy", "answers with the grouping and nothing else", pos, okW, "a return of GroupBy hands back something other than the result of mapByIndex: some inputs are answered without being grouped")
		}
	}

	// ---------------- Reject
	if fn := c.fn("gogu.Reject"); fn != nil {
		cb := funcParam(fn)
		n := 0
		for _, ap := range appendsOf(fn) {
			n++
			s1, ok1 := ap.Call.Args[0].(*ssa.Slice)
			s2, ok2 := ap.Call.Args[1].(*ssa.Slice)
			okS := ok1 && ok2 && s1.X == s2.X && s1.Low == nil && s2.High == nil && s1.High != nil && s2.Low != nil
			var idx ssa.Value
			if okS {
				idx = s1.High
				bo, isB := s2.Low.(*ssa.BinOp)
				k := int64(0)
				if isB {
					k, _ = path.IntConst(bo.Y)
				}
				okS = isB && bo.Op == token.ADD && bo.X == idx && k == 1
			}
			c.ob("AG6", "gogu.Reject", "splice removes exactly the element at i", p.InstrPos(ap), okS, "the removal must be append(s[:i], s[i+1:]...): exactly one element leaves")
			if !okS {
				continue
			}
			okD := boolGuard(fn, ap.Block(), func(v ssa.Value) bool {
				call, ok := v.(*ssa.Call)
				if !ok || call.Call.Value != ssa.Value(cb) || len(call.Call.Args) != 1 {
					return false
				}
				u, ok := call.Call.Args[0].(*ssa.UnOp)
				if !ok {
					return false
				}
				ia, ok := u.X.(*ssa.IndexAddr)
				return ok && ia.X == s1.X && ia.Index == idx
			}, true)
			c.ob("AG5", "gogu.Reject", "removes where Filter keeps", p.InstrPos(ap), okD, "the splice must be decided by fn(s[i]) == true for the very element removed")
			// the index is stepped back so that the element that moved into position i is examined
			okI := false
			for _, in := range ap.Block().Instrs {
				if bo, ok := in.(*ssa.BinOp); ok && bo.Op == token.SUB && bo.X == idx {
					if k, ok := path.IntConst(bo.Y); ok && k == 1 {
						okI = true
					}
				}
			}
			c.ob("PT5", "gogu.Reject", "index re-examined after a removal", p.InstrPos(ap), okI, "after removing s[i] the next element sits at i: without i-- it is skipped")
		}
		c.ob("AG6", "gogu.Reject", "one splice site", c.fpos(fn), n == 1, "expected exactly one splice")
	}

	// ---------------- Merge
	if fn := c.fn("gogu.Merge"); fn != nil {
		x := newPathCtx(p)
		apps := appendsOf(fn)
		c.ob("PT5", "gogu.Merge", "two append sites", c.fpos(fn), len(apps) == 2, "Merge must append the first slice once and then each further slice in a loop")
		if len(apps) == 2 {
			first, loop := apps[0], apps[1]
			if path.InCycle(first.Block()) {
				first, loop = loop, first
			}
			_, fresh := first.Call.Args[0].(*ssa.MakeSlice)
			c.ob("PV1", "gogu.Merge", "starts with the first slice on fresh storage", p.InstrPos(first), fresh && first.Call.Args[1] == ssa.Value(fn.Params[0]) && !path.InCycle(first.Block()) && first.Block().Dominates(loop.Block()), "the result must start as append(fresh, s...) before the other slices are added")
			okL := false
			if u, ok := loop.Call.Args[1].(*ssa.UnOp); ok {
				if ia, ok := u.X.(*ssa.IndexAddr); ok && ia.X == ssa.Value(fn.Params[1]) {
					if sc, ok := classifyScan(x, fn, ia.Index, fn.Params[1]); ok && sc.dir == +1 {
						okL = true
					}
				}
			}
			c.ob("PT5", "gogu.Merge", "further slices appended in argument order", p.InstrPos(loop), okL && loopDepth(fn, loop.Block()) == 1, "the variadic slices must be appended whole, in a complete forward scan, once each")
			okAcc := false
			for _, o := range path.Origins(loop.Call.Args[0]) {
				if o == ssa.Value(first) {
					okAcc = true
				}
			}
			c.ob("PV1", "gogu.Merge", "one accumulator", p.InstrPos(loop), okAcc, "the loop must extend the accumulator that already holds the first slice")
		}
	}

	// ---------------- Flatten
	checkFlatten(c)

	// ---------------- Shuffle / Reverse / ReverseStr
	if fn := c.fn("gogu.Shuffle"); fn != nil {
		x := newPathCtx(p)
		src := ssa.Value(fn.Params[0])
		var dst ssa.Value
		for _, in := range path.Instrs(fn) {
			if mk, ok := in.(*ssa.MakeSlice); ok {
				dst = mk
				c.ob("PV4", "gogu.Shuffle", "copy has the input's length", p.InstrPos(mk), isLenOfValue(x, mk.Len, src), "the working copy must have len(src) cells")
			}
		}
		okCopy := false
		var copyCall *ssa.Call
		for _, in := range path.Instrs(fn) {
			if call, ok := in.(*ssa.Call); ok {
				if b, ok := call.Call.Value.(*ssa.Builtin); ok && b.Name() == "copy" && call.Call.Args[0] == dst && call.Call.Args[1] == src {
					okCopy = true
					copyCall = call
				}
			}
		}
		c.ob("PV4", "gogu.Shuffle", "whole input copied first", c.fpos(fn), okCopy && dst != nil, "Shuffle must copy(dst, src) into a fresh slice before permuting")
		// the only writes into dst afterwards: swap(&dst[i], &dst[j])
		swapFn := p.Func("gogu.swap")
		okSwaps := true
		nSw := 0
		for _, in := range path.Instrs(fn) {
			switch y := in.(type) {
			case *ssa.Store:
				if ia, ok := y.Addr.(*ssa.IndexAddr); ok && ia.X == dst {
					okSwaps = false
				}
			case *ssa.Call:
				if swapFn != nil && path.StaticCallee(y) == swapFn {
					nSw++
					a0, ok0 := y.Call.Args[0].(*ssa.IndexAddr)
					a1, ok1 := y.Call.Args[1].(*ssa.IndexAddr)
					if !ok0 || !ok1 || a0.X != dst || a1.X != dst {
						okSwaps = false
					}
					if copyCall != nil && !copyCall.Block().Dominates(y.Block()) {
						okSwaps = false
					}
				}
			}
		}
		// the two cells are inside the copy: one is the loop counter i (from len-1 or below,
		// down to 0 or 1), the other a remainder modulo i+1 (so at most i)
		for _, in := range path.Instrs(fn) {
			y, ok := in.(*ssa.Call)
			if !ok || swapFn == nil || path.StaticCallee(y) != swapFn {
				continue
			}
			a0, ok0 := y.Call.Args[0].(*ssa.IndexAddr)
			a1, ok1 := y.Call.Args[1].(*ssa.IndexAddr)
			if !ok0 || !ok1 {
				continue
			}
			inRange := func(iv, jv ssa.Value) bool {
				ph, ok := iv.(*ssa.Phi)
				if !ok || phiStep(ph) != -1 {
					return false
				}
				// start at len(src)-k, k >= 1
				isLen := func(v ssa.Value) bool { return isLenOfValue(x, v, src) || isLenOfValue(x, v, dst) }
				okStart := true
				for n := int64(1); n <= 6; n++ {
					v, ok, used := evalLenExpr(phiInit(ph), isLen, n)
					if !ok || !used || v > n-1 {
						okStart = false
					}
				}
				// runs while i >= 0 (or a larger bound)
				okStop := guardedByHeader(ph, func(cd path.Cond) bool {
					k, isK := path.IntConst(cd.Y)
					return cd.X == ssa.Value(ph) && isK && ((cd.Op == token.GEQ && k >= 0) || (cd.Op == token.GTR && k >= -1))
				})
				// j = something % (i + 1)
				okJ := false
				if rem, ok := jv.(*ssa.BinOp); ok && rem.Op == token.REM {
					if add, ok := rem.Y.(*ssa.BinOp); ok && add.Op == token.ADD && add.X == ssa.Value(ph) {
						if k, isK := path.IntConst(add.Y); isK && k == 1 {
							okJ = true
						}
					}
					if rem.Y == ssa.Value(ph) { // % i : at most i-1 (i >= 1 needed, else division by zero)
						okJ = false
					}
				}
				return okStart && okStop && okJ
			}
			c.ob("BD1", "gogu.Shuffle", "swapped cells lie inside the copy", p.InstrPos(y), inRange(a0.Index, a1.Index) || inRange(a1.Index, a0.Index),
				"the cells swapped must be i (counting down from at most len-1 to at least 0) and a remainder modulo i+1: anything else can index past the copy")
		}
		c.ob("PV4", "gogu.Shuffle", "only transpositions of the copy", c.fpos(fn), okSwaps && nSw >= 1, "after the copy the only writes must be swaps of two cells of the copy: the result is a permutation of the input")
		if swapFn != nil {
			// swap really swaps: *a = old *b, *b = old *a
			a, b := ssa.Value(swapFn.Params[0]), ssa.Value(swapFn.Params[1])
			var stA, stB *ssa.Store
			nSt := 0
			for _, in := range path.Instrs(swapFn) {
				if st, ok := in.(*ssa.Store); ok {
					nSt++
					if st.Addr == a {
						stA = st
					}
					if st.Addr == b {
						stB = st
					}
				}
			}
			okSw := nSt == 2 && stA != nil && stB != nil
			if okSw {
				la, ok1 := stB.Val.(*ssa.UnOp)
				lb, ok2 := stA.Val.(*ssa.UnOp)
				okSw = ok1 && ok2 && la.X == a && lb.X == b
				if okSw {
					// the load of *a precedes the store into *a
					seenLoad := false
					for _, in := range stA.Block().Instrs {
						if in == ssa.Instruction(la) {
							seenLoad = true
						}
						if in == ssa.Instruction(stA) && !seenLoad {
							okSw = false
						}
					}
				}
			}
			c.ob("PV4", "gogu.swap", "exchanges the two cells", c.fpos(swapFn), okSw, "swap must store the old *b into *a and the old *a into *b")
		}
		for _, bb := range fn.Blocks {
			if rt, ok := bb.Instrs[len(bb.Instrs)-1].(*ssa.Return); ok {
				c.ob("PV1", "gogu.Shuffle", "returns the permuted copy", p.InstrPos(rt), rt.Results[0] == dst, "Shuffle must return the copy")
			}
		}
	}
	if fn := c.fn("gogu.Reverse"); fn != nil {
		sl := ssa.Value(fn.Params[0])
		okSwap, okLoop := reversesInPlace(c, fn, sl)
		c.ob("PV4", "gogu.Reverse", "only transpositions", c.fpos(fn), okSwap, "the only stores must be the two crossed stores of a swap sl[i], sl[j] = sl[j], sl[i]")
		c.ob("PV4", "gogu.Reverse", "two-pointer walk over the whole slice", c.fpos(fn), okLoop, "the swap loop must run i from 0 upward and j from len-1 downward while i < j")
	}
	checkReverseStr(c)

	// ---------------- Zip / Unzip
	for _, name := range []string{"gogu.Zip", "gogu.Unzip"} {
		fn := c.fn(name)
		if fn == nil {
			continue
		}
		slices := ssa.Value(fn.Params[0])
		n := 0
		for _, in := range path.Instrs(fn) {
			st, ok := in.(*ssa.Store)
			if !ok {
				continue
			}
			// result[A][B] = slices[C][D]
			ia, ok := st.Addr.(*ssa.IndexAddr)
			if !ok {
				continue
			}
			rowLoad, ok := ia.X.(*ssa.UnOp)
			if !ok {
				continue
			}
			rowAddr, ok := rowLoad.X.(*ssa.IndexAddr)
			if !ok {
				continue
			}
			if _, isMk := rowAddr.X.(*ssa.MakeSlice); !isMk {
				continue
			}
			n++
			A, B := rowAddr.Index, ia.Index
			var C, D ssa.Value
			if vl, ok := st.Val.(*ssa.UnOp); ok {
				if va, ok := vl.X.(*ssa.IndexAddr); ok {
					D = va.Index
					if sr, ok := va.X.(*ssa.UnOp); ok {
						if sa, ok := sr.X.(*ssa.IndexAddr); ok && sa.X == slices {
							C = sa.Index
						}
					}
				}
			}
			c.ob("PV2", name, "cell written from the transposed cell", p.InstrPos(st), C != nil && A == D && B == C && A != B, "result[a][b] must be filled from slices[b][a]")
			// both indices are complete forward scans (init 0, +1)
			c.ob("PT5", name, "both indices scan completely", p.InstrPos(st), isForwardInduction(A) && isForwardInduction(B), "row and column index must both run from 0 upward one step at a time")
			// behind the shape rejections: dominated by sliceLen == len(slices)
			x := newPathCtx(p)
			okShape := guardedBy(fn, st.Block(), func(cd path.Cond, truth bool) bool {
				rel := normCmp(cd.Op, truth)
				return rel == "==" && (x.path(cd.Y) == "len(slices)" || x.path(cd.X) == "len(slices)")
			})
			c.ob("PT3", name, "square shape required", p.InstrPos(st), okShape, "the transposition runs without the test that the number of slices equals their length")
		}
		c.ob("PV2", name, "one transposing store", c.fpos(fn), n == 1, "expected exactly one store result[a][b] = slices[b][a]")
		nPanic := 0
		for _, in := range path.Instrs(fn) {
			if _, ok := in.(*ssa.Panic); ok {
				nPanic++
			}
		}
		c.ob("PT3", name, "malformed shapes rejected", c.fpos(fn), nPanic == 2, "both shape violations (count != length, ragged rows) must be rejected")
	}

	// ---------------- Chunk
	if fn := c.fn("gogu.Chunk"); fn != nil {
		x := newPathCtx(p)
		sl := ssa.Value(fn.Params[0])
		n := 0
		for _, ap := range appendsOf(fn) {
			n++
			v, ok := singleElemSlice(ap.Call.Args[1])
			win, isWin := v.(*ssa.Slice)
			okW := ok && isWin && win.X == sl && win.Low != nil
			c.ob("PV1", "gogu.Chunk", "chunk is a window of the input", p.InstrPos(ap), okW, "each chunk must be slice[i:...] of the input")
			if !okW {
				continue
			}
			// non-empty: start < len(slice) dominates
			okNE := guardedBy(fn, ap.Block(), func(cd path.Cond, truth bool) bool {
				rel := normCmp(cd.Op, truth)
				return (rel == "<" && cd.X == win.Low && isLenOfValue(x, cd.Y, sl)) || (rel == ">" && cd.Y == win.Low && isLenOfValue(x, cd.X, sl))
			})
			c.ob("PT3", "gogu.Chunk", "no empty chunk", p.InstrPos(ap), okNE, "a chunk is appended on a path not dominated by start < len(slice): an empty chunk can be produced (e.g. for an empty input)")
			// starts at a multiple of size
			okM := guardedBy(fn, ap.Block(), func(cd path.Cond, truth bool) bool {
				if normCmp(cd.Op, truth) != "==" {
					return false
				}
				bo, ok := cd.X.(*ssa.BinOp)
				k, isK := path.IntConst(cd.Y)
				return ok && isK && k == 0 && bo.Op == token.REM && bo.X == win.Low && bo.Y == ssa.Value(paramByName(fn, "size"))
			}) || isStrideInduction(win.Low, paramByName(fn, "size"))
			c.ob("PV3", "gogu.Chunk", "chunks start at multiples of size", p.InstrPos(ap), okM, "a chunk must start where i % size == 0 (or i advances by size)")
			// nothing else decides whether and how a chunk is taken: every branch the append
			// hangs on inside the loop compares only the start, size and len(slice)
			// (start % size == 0, start < len, start+size < len in either polarity)
			sizeP := ssa.Value(paramByName(fn, "size"))
			var chunkTerm func(v ssa.Value, d int) bool
			chunkTerm = func(v ssa.Value, d int) bool {
				v = path.Strip(v)
				if v == win.Low || v == sizeP || isLenOfValue(x, v, sl) {
					return true
				}
				if k, isK := path.IntConst(v); isK {
					return k == 0 || k == 1
				}
				if bo, ok := v.(*ssa.BinOp); ok && d < 4 && (bo.Op == token.ADD || bo.Op == token.SUB || bo.Op == token.REM) {
					return chunkTerm(bo.X, d+1) && chunkTerm(bo.Y, d+1)
				}
				return false
			}
			okX := true
			for _, g := range path.Guards(fn, ap.Block()) {
				if g.Synth || g.Threaded || g.If.Block() == nil || len(path.NaturalLoop(g.If.Block())) > 0 || !path.InCycle(g.If.Block()) {
					continue
				}
				cd, okC := path.CondOf(g.If)
				if !okC || !chunkTerm(cd.X, 0) || !chunkTerm(cd.Y, 0) {
					okX = false
				}
			}
			c.ob("PT3", "gogu.Chunk", "chunking decided by start, size and length only", p.InstrPos(ap), okX, "the append hangs on a branch inside the loop that compares something other than the chunk start, size and len(slice): some chunks are cut differently from the others")
			// the rest is taken open-ended only when no full chunk is left
			if win.High == nil {
				okR := guardedBy(fn, ap.Block(), func(cd path.Cond, truth bool) bool {
					rel := normCmp(cd.Op, truth)
					isEnd := func(v ssa.Value) bool {
						bo, ok := path.Strip(v).(*ssa.BinOp)
						return ok && bo.Op == token.ADD && ((bo.X == win.Low && bo.Y == sizeP) || (bo.Y == win.Low && bo.X == sizeP))
					}
					return ((rel == ">=" || rel == ">") && isEnd(cd.X) && isLenOfValue(x, cd.Y, sl)) || ((rel == "<=" || rel == "<") && isEnd(cd.Y) && isLenOfValue(x, cd.X, sl))
				})
				c.ob("PT3", "gogu.Chunk", "open-ended chunk only at the end", p.InstrPos(ap), okR, "slice[i:] is appended on a path where i+size >= len(slice) is not established: a chunk longer than size can be produced")
			}
			// full window: high = low + size under low+size < len; else open-ended
			if win.High != nil {
				hp := x.path(win.High)
				okH := false
				if bo, ok := win.High.(*ssa.BinOp); ok && bo.Op == token.ADD && bo.X == win.Low && bo.Y == ssa.Value(paramByName(fn, "size")) {
					okH = true
				}
				c.ob("PV3", "gogu.Chunk", "full chunk has length size", p.InstrPos(ap), okH, fmt.Sprintf("a bounded chunk must be slice[i:i+size] (upper bound %q)", hp))
			}
		}
		c.ob("PV1", "gogu.Chunk", "append sites", c.fpos(fn), n >= 1, "no chunk is ever appended")
		nP := 0
		for _, in := range path.Instrs(fn) {
			if pn, ok := in.(*ssa.Panic); ok {
				if hasFact(edgeFacts(x, fn, pn.Block()), "size", "<=", "0") || hasFact(edgeFacts(x, fn, pn.Block()), "size", "<", "1") {
					nP++
				}
			}
		}
		c.ob("PT3", "gogu.Chunk", "non-positive size rejected", c.fpos(fn), nP == 1, "size <= 0 must be rejected")
	}

	// ---------------- Drop
	checkDropTable(c)
}

// isStrideInduction: v is a phi whose step is +size.
func isStrideInduction(v ssa.Value, size *ssa.Parameter) bool {
	ph, ok := v.(*ssa.Phi)
	if !ok || size == nil {
		return false
	}
	for _, e := range ph.Edges {
		if bo, ok := e.(*ssa.BinOp); ok && bo.Op == token.ADD && bo.X == ssa.Value(ph) && bo.Y == ssa.Value(size) {
			return true
		}
	}
	return false
}

var _ = core.Canon

// reversesInPlace: the only stores of fn through sl are the two crossed stores of a swap
// (okSwap), made in a two-pointer walk with i from 0 upward and j from len(sl)-1
// downward while i < j (okLoop).
func reversesInPlace(c rc, fn *ssa.Function, sl ssa.Value) (okSwap, okLoop bool) {
	sw, nSt := swapOnly(fn, sl)
	okSwap = sw && nSt == 2
	x := newPathCtx(c.p)
	want := "(len(" + x.path(sl) + ")-1)"
	for _, b := range fn.Blocks {
		iff := path.BlockIf(b)
		if iff == nil {
			continue
		}
		cd, ok := path.CondOf(iff)
		// i < j (i <= j only adds the swap of the middle cell with itself)
		if !ok || (cd.Op != token.LSS && cd.Op != token.LEQ) || cd.Neg {
			continue
		}
		pi, ok1 := cd.X.(*ssa.Phi)
		pj, ok2 := cd.Y.(*ssa.Phi)
		if ok1 && ok2 && phiStep(pi) == +1 && phiStep(pj) == -1 {
			if k, ok := path.IntConst(phiInit(pi)); ok && k == 0 && x.path(phiInit(pj)) == want {
				okLoop = true
			}
		}
	}
	return okSwap, okLoop
}

// checkDropTable (rule BD2, see c13nth.go): Drop's answer is a piecewise-affine function
// of (len, n). Premise decided on the SSA (loop-free; + - unary minus and comparisons;
// forms a*len + b*n + c with |a|+|b| <= 2, |c| <= 1 at every comparison and slice bound),
// then the outcome - the window [lo:hi] of the argument that is returned, the empty
// slice, or out-of-range bounds = panic - is tabulated over len 0..8 x n -11..11 against
// the statement: n > 0 drops min(n, len) elements from the front, n < 0 drops min(|n|, len)
// from the back, n == 0 drops nothing. It replaces a rule that recognised the two
// re-slices by their spelling.
func checkDropTable(c rc) {
	p := c.p
	name := "gogu.Drop"
	fn := c.fn(name)
	if fn == nil {
		return
	}
	if len(fn.Params) != 2 || !isIntType(fn.Params[1].Type()) {
		c.und("BD2", name, "window table", c.fpos(fn), "Drop no longer takes (slice, integer)")
		return
	}
	sl, n := fn.Params[0], fn.Params[1]
	okP, why := affinePremise(p, fn, map[*ssa.Parameter]affN{n: {coef: 1, ok: true}}, 0, 2, 1)
	c.r.Obligation("BD2", true, map[string]any{"rule": "BD2", "function": name, "object": "premise: loop-free, integers combined by + - and comparisons, forms of (len, n) with small coefficients", "holds": okP})
	if !okP {
		c.und("BD2", name, "window arithmetic is piecewise affine with small coefficients", c.fpos(fn), "the table over lengths 0..8 and counts -11..11 decides Drop only when its tests and slice bounds are forms ±len ± n + c with small coefficients: "+why)
		return
	}
	c.r.Floor("BD2", 200)
	runAffTable(c, affTable{rule: "BD2", name: name, fn: fn, slice: sl, ints: []*ssa.Parameter{n}, baseL: 8, baseW: 11, capL: 24, capW: 40,
		// the statement's regions: n > 0, n < 0, |n| <= len
		stmtPlanes: [][4]int64{{0, 1, 0, 0}, {-1, 1, 0, 0}, {1, 1, 0, 0}},
		call:       func(L int64, a []int64) string { return fmt.Sprintf("Drop(slice of length %d, %d)", L, a[0]) },
		judge: func(L int64, a []int64, out miniOut, _ []int64) (bool, string, string) {
			k := a[0]
			wantLo, wantHi := int64(0), L
			switch {
			case k > 0:
				wantLo = k
				if wantLo > L {
					wantLo = L
				}
			case k < 0:
				wantHi = L + k
				if wantHi < 0 {
					wantHi = 0
				}
			}
			okV := true
			reason := ""
			switch {
			case out.panics:
				okV, reason = false, "panics ("+out.why+")"
			case len(out.results) != 1:
				okV, reason = false, "does not return one value"
			default:
				r := out.results[0]
				gotLo, gotHi := int64(0), int64(0)
				switch r.k {
				case mvSub:
					gotLo, gotHi = r.n, r.m
				case mvSlice:
					gotLo, gotHi = 0, L
				case mvNil, mvZero:
				default:
					okV, reason = false, "returns something other than a window of the argument or an empty slice"
				}
				if okV && !(gotLo == wantLo && gotHi == wantHi) && !(gotLo == gotHi && wantLo == wantHi) {
					okV = false
					reason = fmt.Sprintf("returns slice[%d:%d], the definition wants slice[%d:%d]", gotLo, gotHi, wantLo, wantHi)
				}
			}
			region := "n > len"
			switch {
			case k == 0:
				region = "n = 0"
			case k > 0 && k < L:
				region = "0 < n < len"
			case k == L:
				region = "n = len"
			case k < 0 && -k < L:
				region = "-len < n < 0"
			case k == -L:
				region = "n = -len"
			case k < -L:
				region = "n < -len"
			}
			if L == 0 {
				region = "empty slice, " + region
			}
			return okV, reason, region
		}})
}
