package props

import (
	"fmt"
	"sort"
	"strings"

	"gogucheck/core"
	"gogucheck/lockset"
)

// containerTypes are the types the documentation calls concurrent / thread safe
// (README and package comments). btree, LRUCache and list are documented as not
// thread safe and are excluded.
var containerTypes = map[string]bool{"Heap": true, "BsTree": true, "Trie": true, "Queue": true, "LQueue": true,
	"Stack": true, "LStack": true, "cache": true}

var funcTypes = map[string]bool{"debouncer": true, "throttler": true}

// guardTable is the frozen table of guarded slots (confirmed by reading). A slot
// that stops being derived as guarded fails the check.
var guardTable = map[string][]string{
	"Heap": {"data", "comp"}, "BsTree": {"root", "size"}, "Trie": {"root", "n"}, "Queue": {"items"}, "Stack": {"items"},
	"LQueue": {"n"}, "LStack": {"n"}, "cache": {"items"}, "debouncer": {"timer"}, "throttler": {"last", "waiting", "stop"},
}

var locksetCache = map[*core.Program]*lockset.Result{}

func runLockset(p *core.Program) *lockset.Result {
	if r, ok := locksetCache[p]; ok {
		return r
	}
	t := lockset.BuildTables(p)
	e := lockset.NewEngine(t)
	r := e.Run()
	locksetCache[p] = r
	return r
}

// checkGuardTable records the derived guard table in the evidence and compares it
// with the frozen one. A frozen slot that is no longer found is reported as
// information only (a renamed field is not a violation); vacuity is excluded by the
// count floors: number of lock-bearing types and of guarded slots.
func checkGuardTable(res *lockset.Result, r *core.Report, types map[string]bool) {
	found := map[string]*lockset.LockType{}
	for _, lt := range res.Tables.Lock {
		found[lt.Name] = lt
	}
	var names []string
	for n := range types {
		names = append(names, n)
	}
	sort.Strings(names)
	nTypes, nGuarded := 0, 0
	for _, n := range names {
		lt := found[n]
		if lt == nil {
			r.Info("guard table: lock-bearing type %s of the frozen table is not present in this tree", n)
			continue
		}
		nTypes++
		var imm, guarded []string
		for i := 0; i < lt.Struct.NumFields(); i++ {
			if i == lt.LockField {
				continue
			}
			if lt.Mutable[i] {
				guarded = append(guarded, lt.FieldName(i))
				nGuarded++
				r.Obligation("GT", true, map[string]any{"rule": "GT", "slot": n + "." + lt.FieldName(i), "guarded": true, "atomic": lt.Atomic[i]})
			} else {
				imm = append(imm, lt.FieldName(i))
			}
		}
		for _, slot := range guardTable[n] {
			ok := false
			for _, g := range guarded {
				if g == slot {
					ok = true
				}
			}
			if !ok {
				r.Info("guard table: frozen slot %s.%s is not derived as guarded in this tree (renamed, removed or no longer written)", n, slot)
			}
		}
		r.Info("guard table %s: lock=%s guarded=[%s] immutable=[%s]", n, lt.FieldName(lt.LockField), strings.Join(guarded, ","), strings.Join(imm, ","))
	}
	r.Extra["lock_bearing_types"] = nTypes
	r.Extra["guarded_slots"] = nGuarded
	if nTypes < len(types) {
		r.Fatal("vacuous: %d of the %d lock-bearing types of the frozen table found", nTypes, len(types))
	}
}

func emitLockset(res *lockset.Result, r *core.Report, rules map[string]bool, types map[string]bool) {
	for _, o := range res.Obligations {
		if !rules[o.Rule] || (o.LockType != "" && !types[o.LockType]) {
			continue
		}
		r.Obligation(o.Rule, o.OK, o.Sample)
	}
	for _, f := range res.Findings {
		if !rules[f.Rule] && f.Rule != "LK0" {
			continue
		}
		if f.LockType != "" && !types[f.LockType] {
			continue
		}
		d := core.Diag{Rule: f.Rule, Func: f.Func, Object: f.Object, Pos: f.Pos, Reason: f.Reason, Path: f.Path}
		if f.Undecided {
			r.Undecided(d)
		} else {
			r.Violation(d)
		}
	}
	for fn := range res.Functions {
		r.Functions[fn] = true
	}
	for _, e := range res.Entries {
		r.EntryPoints[e] = true
	}
	r.Extra["contexts"] = res.Contexts
	r.Extra["lock_order_edges"] = res.OrderEdges
	r.Extra["spawned_roots"] = res.Spawned
	if len(res.Exceptions) > 0 {
		r.Extra["validated_exceptions"] = res.Exceptions
	}
}

func init() {
	register(&Check{
		ID: "C01",
		Explanation: "Thread-modular lockset/ownership analysis (engine E1) over every API entry point of the eight lock-guarded container types: " +
			"LK1 every access to a guarded slot or to memory reachable from it holds the instance lock in the needed mode (R for reads, W for writes) on every path and in every calling context; " +
			"LK2 no re-acquisition of a held lock; LK3 lock/unlock balanced and mode-matched on every path; LK4 no reference to guarded storage escapes to the caller; " +
			"LK5 the lock-order graph is acyclic; AT1 no operation acts under one critical section on what it checked in an earlier one (the structural cause of interleaving-dependent index panics). These are sufficient for absence of data races and of lock-induced deadlock for every schedule (Eraser discipline, argued in DESIGN.md §3 E1). " +
			"Not decided: sequential panics, re-entrant user callbacks, liveness of the janitor goroutine.",
		Assumptions: []string{"go/ssa of x/tools v0.29.0 is faithful to the source", "sync.RWMutex/Mutex contracts", "user callbacks and comparators do not touch the container they are passed to",
			"guarded state is reachable only through unexported fields (enforced by LK4)"},
		NotDecided: []string{"panics of the sequential algorithms", "deadlock through re-entrant user callbacks (listed as LK6 information)", "janitor liveness"},
		Run: func(p *core.Program, r *core.Report) {
			res := runLockset(p)
			checkGuardTable(res, r, containerTypes)
			emitLockset(res, r, map[string]bool{"LK1": true, "LK2": true, "LK3": true, "LK4": true, "LK5": true, "AT1": true, "AT3": true}, containerTypes)
			for _, s := range res.Info {
				r.Info("%s", s)
			}
			n := 0
			for _, e := range res.Entries {
				_ = e
				n++
			}
			r.Extra["entry_point_list"] = res.Entries
			r.Floor("LK1", 150)
			r.Floor("LK2", 40)
			if n < 57 {
				r.Fatal("vacuous: %d entry points found, floor is 57", n)
			}
			_ = fmt.Sprint
		},
	})
}
