package props

import (
	"fmt"
	"go/token"
	"go/types"
	"strings"

	"golang.org/x/tools/go/ssa"

	"gogucheck/core"
	"gogucheck/path"
)

func init() {
	register(&Check{
		ID: "C07",
		Explanation: "Agreement and who-may-call rules over cache/lrucache.go (engine E7 with E4 path rules): AG1 the exported methods that reach the list's move primitive are exactly Add, Get and GetOldest, each moving the entry it found; " +
			"AG7 in every remover the key deleted from the map, the node unlinked from the list and the key/value returned derive from one origin (access paths with accessors inlined: last()=root.prev, first()=root.next), " +
			"oldest designates root.prev and youngest root.next, insertions and promotions go to &root (front); map and list change together (every map delete is paired with an unlink, every addFront result is stored under the caller's key); " +
			"PT2 every path of Add after the insertion reaches the test Count() > size whose true edge evicts through RemoveOldest and returns its results; PT3 NewLRU allocates only on size > 0 and size is never written again; " +
			"AG4 the list length is incremented once per link and decremented once per unlink; SH1 local shape rule: each list primitive re-establishes x.next.prev == x == x.prev.next for every node it touches, for every aliasing of the nodes involved. " +
			"Decides the structure that ties map, list and return values together, not the recency order of a concrete history.",
		Assumptions: []string{"go/ssa faithful to the source", "nodes reach the list only through addAfter (who-may-call checked)", "LRUCache is single-threaded as documented"},
		NotDecided:  []string{"the recency order produced by a concrete access history", "values returned for concrete key sequences"},
		Run:         runC07,
	})
}

// unlinkTargets returns the access paths (in the caller's frame) of the node
// handed to target's parameter argIdx by call, following in-module wrappers.
func wrapperArgPaths(pc *pathCtx, call ssa.CallInstruction, target *ssa.Function, argIdx, depth int) []string {
	callee := path.StaticCallee(call)
	if callee == nil {
		return nil
	}
	if callee == target {
		if argIdx < len(call.Common().Args) {
			return []string{pc.path(call.Common().Args[argIdx])}
		}
		return nil
	}
	if depth >= 3 || !pc.p.InModule(callee) || len(callee.Blocks) == 0 {
		return nil
	}
	sub := &pathCtx{p: pc.p, subst: map[ssa.Value]string{}, depth: pc.depth + 1, memo: map[ssa.Value]string{}}
	for i, prm := range callee.Params {
		if i < len(call.Common().Args) {
			sub.subst[prm] = pc.path(call.Common().Args[i])
		}
	}
	var out []string
	for _, in := range path.Instrs(callee) {
		if ci, ok := in.(ssa.CallInstruction); ok {
			out = append(out, wrapperArgPaths(sub, ci, target, argIdx, depth+1)...)
		}
	}
	return out
}

// frontOp is one call in fn that reaches the list primitive prim (moveAfter / addAfter)
// - directly or through a thin wrapper (moveFront / addFront) - with the sentinel
// &...root as its anchor; args are the caller-side access paths of the requested
// arguments of the primitive.
type frontOp struct {
	call ssa.CallInstruction
	args []string
}

func frontOps(x *pathCtx, fn, prim *ssa.Function, argIdx ...int) []frontOp {
	var out []frontOp
	for _, in := range path.Instrs(fn) {
		call, ok := in.(ssa.CallInstruction)
		if !ok {
			continue
		}
		anchors := wrapperArgPaths(x, call, prim, 1, 0)
		if len(anchors) != 1 || !strings.HasPrefix(anchors[0], "&") || !strings.HasSuffix(anchors[0], ".root") {
			continue
		}
		fo := frontOp{call: call}
		okA := true
		for _, i := range argIdx {
			a := wrapperArgPaths(x, call, prim, i, 0)
			if len(a) != 1 {
				okA = false
				break
			}
			fo.args = append(fo.args, a[0])
		}
		if okA {
			out = append(out, fo)
		}
	}
	return out
}

func callsToOpt(fn, callee *ssa.Function) []ssa.CallInstruction {
	if fn == nil {
		return nil
	}
	return callsTo(fn, callee)
}

func runC07(p *core.Program, r *core.Report) {
	c := rc{p, r}
	noSingledOutValue(c, []string{"cache/lrucache.go"}, nil)
	workOnEveryPath(c, "cache.(*LRUCache).Flush", "map and list reset on every path", "LRUCache", "items", nil, "Flush returns on a path that resets nothing")
	workOnEveryPath(c, "cache.(*LRUCache).Add", "entry stored on every path", "node", "value", []string{"addFront", "addAfter"}, "Add returns on a path that neither inserts the key nor overwrites its value: the pair is dropped")
	const T = "cache.(*LRUCache)."
	const L = "cache.(*lruList)."
	names := []string{"Add", "Count", "GetOldest", "Get", "GetYoungest", "RemoveOldest", "Remove", "RemoveYoungest", "Flush"}
	m := map[string]*ssa.Function{}
	for _, n := range names {
		m[n] = c.fn(T + n)
	}
	newLRU := c.fn("cache.NewLRU")
	lf := map[string]*ssa.Function{}
	for _, n := range []string{"moveAfter", "addAfter", "last", "first", "remove"} {
		lf[n] = c.fn(L + n)
	}
	// thin wrappers: may have been inlined into their callers (the rules about callers
	// look through them either way)
	optional := map[string]bool{"moveFront": true, "addFront": true, "removeLast": true}
	for n := range optional {
		lf[n] = p.Func(L + n)
	}
	newList := c.fn("cache.newLRUList")
	for _, f := range m {
		if f == nil {
			return
		}
	}
	for n, f := range lf {
		if f == nil && !optional[n] {
			return
		}
	}
	if newLRU == nil || newList == nil {
		return
	}
	// every function of lrucache.go, for the who-writes rules
	all := p.FuncsInFiles("cache/lrucache.go")
	for _, f := range all {
		r.Functions[p.FuncName(f)] = true
	}
	stateInventory(c, "cache", "LRUCache", []string{"items", "evictList", "size"}, all)
	stateInventory(c, "cache", "lruList", []string{"root", "len"}, all)
	stateInventory(c, "cache", "node", []string{"next", "prev", "list", "key", "value"}, all)

	// ---- AG1: who refreshes recency
	wantRefresh := map[string]bool{"Add": true, "Get": true, "GetOldest": true}
	for _, f := range all {
		if !core.ExportedAPI(f) && f != newLRU {
			continue
		}
		n := f.Name()
		got := reaches(f)[lf["moveAfter"]]
		want := wantRefresh[n] && f.Signature.Recv() != nil
		ok := got == want
		reason := "recency is refreshed (the list's move primitive is reached) by a method other than Add, Get and GetOldest"
		if want && !got {
			reason = "the method no longer moves the entry it touched to the front: recency is not refreshed"
		}
		c.ob("AG1", p.FuncName(f), "refreshes recency", c.fpos(f), ok, reason)
	}
	// the only writers of next/prev are the three list primitives and the list constructor
	writers := map[string]bool{}
	for _, f := range all {
		for _, in := range path.Instrs(f) {
			if st, ok := in.(*ssa.Store); ok {
				if fa, ok := st.Addr.(*ssa.FieldAddr); ok && (isFieldOf(fa, "node", "next") || isFieldOf(fa, "node", "prev")) {
					writers[f.Name()] = true
				}
			}
		}
	}
	// callers inside the file
	callers := map[string]map[string]bool{}
	for _, f := range all {
		for _, in := range path.Instrs(f) {
			if call, ok := in.(ssa.CallInstruction); ok {
				if cal := path.StaticCallee(call); cal != nil {
					if callers[cal.Name()] == nil {
						callers[cal.Name()] = map[string]bool{}
					}
					callers[cal.Name()][f.Name()] = true
				}
			}
		}
	}
	prim := map[string]bool{"moveAfter": true, "addAfter": true, "remove": true, "newLRUList": true}
	var onlyFromPrims func(w string, seen map[string]bool) bool
	onlyFromPrims = func(w string, seen map[string]bool) bool {
		if prim[w] {
			return true
		}
		if seen[w] || len(callers[w]) == 0 {
			return false
		}
		seen[w] = true
		for cl := range callers[w] {
			if !onlyFromPrims(cl, seen) {
				return false
			}
		}
		return true
	}
	for w := range writers {
		ok := onlyFromPrims(w, map[string]bool{})
		c.ob("AG1", "cache."+w, "writes node links", "-", ok, "next/prev links are written by a function that is neither a list primitive (moveAfter, addAfter, remove, newLRUList) nor a helper called only from them (the shape rule SH1 covers exactly those)")
	}

	// who writes a node's key and value: the key only where the node is created, the
	// value there and in Add's overwrite of an existing entry
	for _, f := range all {
		for _, st := range fieldStores([]*ssa.Function{f}, "node", "key") {
			c.ob("AG1", p.FuncName(f), "writes node.key", p.InstrPos(st), f == lf["addAfter"], "a node's key is written outside addAfter: the map entry and the list node no longer agree on the key")
		}
		for _, st := range fieldStores([]*ssa.Function{f}, "node", "value") {
			c.ob("AG1", p.FuncName(f), "writes node.value", p.InstrPos(st), f == lf["addAfter"] || f == m["Add"], "a node's value is written outside addAfter and Add")
		}
	}

	// ---- accessor ends (AG7 table)
	pc := func() *pathCtx { return newPathCtx(p) }
	endOf := func(fn *ssa.Function, want string) {
		ret := accessorReturn(fn)
		got := ""
		if ret != nil {
			got = newPathCtx(p).path(ret)
		}
		c.ob("AG7", p.FuncName(fn), "designated end", c.fpos(fn), got == want, fmt.Sprintf("accessor designates %q, expected %q (front = root.next = most recent, back = root.prev = eviction victim)", got, want))
	}
	endOf(lf["last"], "l.root.prev")
	endOf(lf["first"], "l.root.next")
	// moveFront/addFront insert behind &root
	for _, pr := range [][2]string{{"moveFront", "moveAfter"}, {"addFront", "addAfter"}} {
		w, prim := lf[pr[0]], lf[pr[1]]
		if w == nil {
			continue
		}
		calls := callsTo(w, prim)
		ok := len(calls) == 1
		got := ""
		if ok {
			got = newPathCtx(p).path(calls[0].Common().Args[1])
			ok = got == "&l.root"
		}
		c.ob("AG7", p.FuncName(w), "front anchor", c.fpos(w), ok, fmt.Sprintf("the front operation must place the node directly behind &l.root (got anchor %q)", got))
	}
	// moveFront forwards its node unchanged; addFront forwards key and value and returns the new node
	{
		w := lf["moveFront"]
		if w != nil {
			for _, call := range callsTo(w, lf["moveAfter"]) {
				got := newPathCtx(p).path(call.Common().Args[2])
				c.ob("AG7", p.FuncName(w), "moved node", p.InstrPos(call), got == "nd" || got == w.Params[1].Name(), "moveFront must move the node it was given")
			}
		}
		w = lf["addFront"]
		for _, call := range callsToOpt(w, lf["addAfter"]) {
			a := call.Common().Args
			okA := len(a) == 4 && a[2] == ssa.Value(w.Params[1]) && a[3] == ssa.Value(w.Params[2])
			c.ob("PV2", p.FuncName(w), "key/value forwarded", p.InstrPos(call), okA, "addFront must pass its key and value, in this order, to addAfter")
			okR := false
			for _, in := range path.Instrs(w) {
				if ret, ok := in.(*ssa.Return); ok && len(ret.Results) == 1 {
					for _, o := range path.Origins(ret.Results[0]) {
						if o == call.(ssa.Value) {
							okR = true
						}
					}
				}
			}
			c.ob("PV2", p.FuncName(w), "returns new node", p.InstrPos(call), okR, "addFront must return the node addAfter created")
		}
	}

	// ---- oldest/youngest designation and remover agreement
	type spec struct {
		name, origin string
		remover      bool
	}
	for _, s := range []spec{
		{"GetOldest", "c.evictList.root.prev", false},
		{"GetYoungest", "c.evictList.root.next", false},
		{"RemoveOldest", "c.evictList.root.prev", true},
		{"RemoveYoungest", "c.evictList.root.next", true},
		{"Remove", "c.items[key]", true},
		{"Get", "c.items[key]", false},
	} {
		fn := m[s.name]
		fname := p.FuncName(fn)
		x := pc()
		// success returns: those whose last result is not the constant false
		for _, b := range fn.Blocks {
			ret, ok := b.Instrs[len(b.Instrs)-1].(*ssa.Return)
			if !ok {
				continue
			}
			res := ret.Results
			if len(res) == 0 {
				continue
			}
			if bc, isC := path.BoolConst(res[len(res)-1]); isC && !bc {
				// failure return: everything else must be zero values
				for i := 0; i < len(res)-1; i++ {
					cst, isConst := res[i].(*ssa.Const)
					okz := isConst && (cst.Value == nil || cst.IsNil())
					if isConst && cst.Value != nil {
						okz = false
					}
					c.ob("AG7", fname, fmt.Sprintf("miss result #%d", i), p.InstrPos(ret), okz || isZeroConst(res[i]), "the not-found path must return zero values")
				}
				// ... and the not-found answer is given only where the designated entry is
				// known not to exist (every way into the return carries the failed map
				// lookup resp. the sentinel test)
				absent := func(blk *ssa.BasicBlock) bool {
					if strings.HasPrefix(s.origin, "c.items[") {
						return boolGuard(fn, blk, func(v ssa.Value) bool { return x.path(v) == "ok("+s.origin+")" }, false)
					}
					return hasFact(edgeFacts(x, fn, blk), s.origin, "==", "&c.evictList.root")
				}
				absentEdge := func(from, to *ssa.BasicBlock) bool {
					if absent(from) {
						return true
					}
					iff := path.BlockIf(from)
					if iff == nil || len(from.Succs) != 2 {
						return false
					}
					v, truth, _ := condEdge(from, 0)
					if from.Succs[1] == to {
						truth = !truth
					}
					if strings.HasPrefix(s.origin, "c.items[") {
						return x.path(v) == "ok("+s.origin+")" && !truth
					}
					for _, f := range edgeFactsInto(x, fn, from, to) {
						if (f.X == s.origin && f.Rel == "==" && f.Y == "&c.evictList.root") || (f.Y == s.origin && f.Rel == "==" && f.X == "&c.evictList.root") {
							return true
						}
					}
					return false
				}
				okAbs := absent(b)
				if !okAbs && len(b.Preds) > 0 {
					okAbs = true
					for _, pr := range b.Preds {
						if !absentEdge(pr, b) {
							okAbs = false
						}
					}
				}
				c.ob("PT3", fname, "not-found only for an absent entry", p.InstrPos(ret), okAbs, "the not-found answer is reachable on a path where the designated entry was not looked up and found missing: an entry that is held can be reported as absent")
				continue
			}
			// success return
			want := []string{}
			switch len(res) {
			case 3:
				want = []string{s.origin + ".key", s.origin + ".value"}
			case 2:
				want = []string{s.origin + ".value"}
			}
			for i, w := range want {
				got := x.path(res[i])
				c.ob("AG7", fname, fmt.Sprintf("returned #%d origin", i), p.InstrPos(ret), got == w,
					fmt.Sprintf("the value returned is %q, expected %q: the method must report the entry it designates", got, w))
			}
			// the success return is dominated by "entry exists"
			exists := false
			fs := edgeFacts(x, fn, b)
			if strings.HasPrefix(s.origin, "c.items[") {
				exists = boolGuard(fn, b, func(v ssa.Value) bool { return x.path(v) == "ok("+s.origin+")" }, true)
			} else {
				exists = hasFact(fs, s.origin, "!=", "&c.evictList.root")
			}
			c.ob("PT3", fname, "success guarded by presence", p.InstrPos(ret), exists, "the success return is not dominated by the test that the designated entry exists (sentinel / map hit)")
			if !s.remover {
				// Get, GetOldest: the move (if any) targets the designated entry and dominates the return
				if wantRefresh[s.name] {
					okMv := false
					for _, fo := range frontOps(x, fn, lf["moveAfter"], 2) {
						call, tgt := fo.call, fo.args[0]
						if tgt == s.origin && call.Block().Dominates(b) {
							okMv = true
						}
						c.ob("AG7", fname, "promoted node", p.InstrPos(call), tgt == s.origin, fmt.Sprintf("moveFront is applied to %q, expected the entry found (%q)", tgt, s.origin))
					}
					// a hit may skip the move only where the entry is known to be the front one already
					if !okMv && hasFact(fs, s.origin, "==", "c.evictList.root.next") {
						okMv = true
					}
					c.ob("PT2", fname, "promotion on every hit", p.InstrPos(ret), okMv, "a successful lookup can return without moving the entry to the front")
				}
				// values are read after the move of pointers only: value fields are not written by the list, fine
				continue
			}
			// remover: map delete with the origin's key, unlink of the origin, both dominating the return
			okDel, okUnl := false, false
			nUnl := 0
			for _, in := range path.Instrs(fn) {
				call, ok := in.(ssa.CallInstruction)
				if !ok {
					continue
				}
				if bi, ok := call.Common().Value.(*ssa.Builtin); ok && bi.Name() == "delete" {
					mp, k := x.path(call.Common().Args[0]), x.path(call.Common().Args[1])
					good := mp == "c.items" && (k == s.origin+".key" || (s.name == "Remove" && k == "key"))
					c.ob("AG7", fname, "map key deleted", p.InstrPos(in), good, fmt.Sprintf("delete(%s, %s): expected the key of the designated entry %s.key", mp, k, s.origin))
					if good && in.Block().Dominates(b) {
						okDel = true
					}
					continue
				}
				tg := wrapperArgPaths(x, call, lf["remove"], 1, 0)
				for _, t := range tg {
					nUnl++
					good := t == s.origin
					c.ob("AG7", fname, "node unlinked", p.InstrPos(in), good, fmt.Sprintf("the list unlinks %q but the method designates and returns %q", t, s.origin))
					if good && in.Block().Dominates(b) {
						okUnl = true
					}
				}
			}
			c.ob("AG7", fname, "map delete on success path", p.InstrPos(ret), okDel, "the success path does not delete the designated entry's key from the map")
			c.ob("AG7", fname, "unlink on success path", p.InstrPos(ret), okUnl && nUnl == 1, "the success path does not unlink exactly the designated node from the list")
			// no other list mutation in a remover
			mut := 0
			for _, in := range path.Instrs(fn) {
				if call, ok := in.(ssa.CallInstruction); ok {
					if cal := path.StaticCallee(call); cal != nil {
						rs := reaches(cal)
						if rs[lf["moveAfter"]] || rs[lf["addAfter"]] {
							mut++
						}
					}
				}
			}
			c.ob("AG7", fname, "no other list write", c.fpos(fn), mut == 0, "a remover also moves or adds list nodes; the designated origin is no longer stable between lookup, delete and unlink")
		}
	}

	// ---- Add
	{
		fn := m["Add"]
		fname := p.FuncName(fn)
		x := pc()
		keyP, valP := paramByName(fn, "key"), paramByName(fn, "value")
		// existing-key path: moveFront(c.items[key]) and value overwrite, both under ok
		nMove := 0
		for _, fo := range frontOps(x, fn, lf["moveAfter"], 2) {
			call := fo.call
			nMove++
			tgt := fo.args[0]
			okG := boolGuard(fn, call.Block(), func(v ssa.Value) bool { return x.path(v) == "ok(c.items[key])" }, true)
			c.ob("AG7", fname, "promoted node", p.InstrPos(call), tgt == "c.items[key]" && okG, fmt.Sprintf("Add must promote the existing entry of its key under the map-hit edge (target %q)", tgt))
		}
		c.ob("AG7", fname, "promotion of existing key", c.fpos(fn), nMove == 1, "Add(existing key) must move the entry to the front exactly once")
		nVal := 0
		for _, st := range fieldStores([]*ssa.Function{fn}, "node", "value") {
			nVal++
			at := x.path(st.Addr)
			okS := at == "&c.items[key].value" && st.Val == ssa.Value(valP)
			c.ob("PV2", fname, "value overwrite", p.InstrPos(st), okS, fmt.Sprintf("Add(existing key) must store its value parameter into the found entry (stores into %q)", at))
		}
		c.ob("PV2", fname, "latest value kept", c.fpos(fn), nVal == 1, "Add(existing key) must overwrite the entry's value exactly once")
		// every return of the existing-key branch comes after the overwrite and after the promotion
		isHit := func(v ssa.Value) bool { return x.path(v) == "ok(c.items[key])" }
		for _, b := range fn.Blocks {
			ret, ok := b.Instrs[len(b.Instrs)-1].(*ssa.Return)
			if !ok || !boolGuard(fn, b, isHit, true) {
				continue
			}
			stored, moved := false, false
			for _, st := range fieldStores([]*ssa.Function{fn}, "node", "value") {
				if st.Block() == b || st.Block().Dominates(b) {
					stored = true
				}
			}
			for _, fo := range frontOps(x, fn, lf["moveAfter"], 2) {
				if fo.call.Block() == b || fo.call.Block().Dominates(b) {
					moved = true
				}
			}
			fs := edgeFacts(x, fn, b)
			if !moved && hasFact(fs, "c.items[key]", "==", "c.evictList.root.next") {
				moved = true
			}
			c.ob("PV2", fname, "overwrite on every existing-key path", p.InstrPos(ret), stored, "Add(existing key) can return without storing the new value: a later lookup returns a stale value")
			c.ob("PT2", fname, "promotion on every existing-key path", p.InstrPos(ret), moved, "Add(existing key) can return without moving the entry to the front")
		}
		// new-key path
		var ins *ssa.MapUpdate
		nIns := 0
		for _, in := range path.Instrs(fn) {
			if mu, ok := in.(*ssa.MapUpdate); ok {
				nIns++
				ins = mu
			}
		}
		c.ob("PV2", fname, "one map insertion", c.fpos(fn), nIns == 1, "Add must insert into the map exactly once")
		if ins != nil {
			okK := ins.Key == ssa.Value(keyP) && x.path(ins.Map) == "c.items"
			c.ob("PV2", fname, "inserted under caller's key", p.InstrPos(ins), okK, "the new node is not stored under the key parameter in c.items")
			okV := false
			var af *ssa.Call
			for _, o := range path.Origins(ins.Value) {
				if call, ok := o.(*ssa.Call); ok {
					for _, fo := range frontOps(x, fn, lf["addAfter"], 2, 3) {
						if fo.call == ssa.CallInstruction(call) && keyP != nil && valP != nil && fo.args[0] == keyP.Name() && fo.args[1] == valP.Name() {
							okV = true
							af = call
						}
					}
				}
			}
			c.ob("PV2", fname, "inserted node is the new front node", p.InstrPos(ins), okV, "the node stored in the map is not the result of evictList.addFront(key, value)")
			if af != nil {
				okMiss := boolGuard(fn, af.Block(), func(v ssa.Value) bool { return x.path(v) == "ok(c.items[key])" }, false)
				c.ob("PT3", fname, "insertion only for a new key", p.InstrPos(af), okMiss, "addFront is reachable although the key is already present: a key would own two list nodes")
			}
			// capacity test
			var capIf *ssa.If
			for _, b := range fn.Blocks {
				iff := path.BlockIf(b)
				if iff == nil {
					continue
				}
				cd, ok := path.CondOf(iff)
				if !ok {
					continue
				}
				xs, ys := x.path(cd.X), x.path(cd.Y)
				isCnt := func(s string) bool { return s == "c.evictList.len" || s == "len(c.items)" }
				rel := normCmp(cd.Op, !cd.Neg)
				if isCnt(ys) && xs == "c.size" {
					xs, ys, rel = ys, xs, flipRel(rel)
				}
				if isCnt(xs) && ys == "c.size" {
					capIf = iff
					c.ob("PT3", fname, "capacity comparison", p.InstrPos(iff), rel == ">", fmt.Sprintf("the eviction test is count %s size; after one insertion into a cache holding at most size entries it must be count > size", rel))
				}
			}
			c.ob("PT2", fname, "capacity test present", p.InstrPos(ins), capIf != nil, "Add has no test of the entry count against the capacity after inserting")
			if capIf != nil {
				skip := path.CanReachWithout(ins, path.IsReturn, func(in ssa.Instruction) bool { return in == ssa.Instruction(capIf) })
				c.ob("PT2", fname, "capacity test on every insertion path", p.InstrPos(ins), !skip, "a path from the insertion to a return bypasses the capacity test: Count can exceed the capacity")
				// true edge: RemoveOldest called, results returned
				tb := capIf.Block().Succs[0]
				evicted := false
				for _, call := range callsTo(fn, m["RemoveOldest"]) {
					extra := unaccountedGuard(fn, call.Block(), func(v ssa.Value) bool {
						if v == capIf.Cond {
							return true
						}
						if u, ok := capIf.Cond.(*ssa.UnOp); ok && u.X == v {
							return true
						}
						_, isOk := v.(*ssa.Extract) // the miss edge of the lookup
						return isOk
					})
					c.ob("PT3", fname, "eviction hangs on the capacity test alone", p.InstrPos(call), extra == nil, "the eviction is guarded by a further branch besides count > size: for some capacities or states the cache grows past its capacity")
					if tb.Dominates(call.Block()) && x.path(call.Common().Args[0]) == "c" {
						// all returns dominated by tb return the call's results
						good := true
						for _, b := range fn.Blocks {
							ret, ok := b.Instrs[len(b.Instrs)-1].(*ssa.Return)
							if !ok || !tb.Dominates(b) {
								continue
							}
							for i, rv := range ret.Results {
								ex, ok := rv.(*ssa.Extract)
								if !ok || ex.Tuple != call.(ssa.Value) || ex.Index != i {
									good = false
								}
							}
							if !call.Block().Dominates(b) {
								good = false
							}
						}
						evicted = good
					}
				}
				c.ob("PT2", fname, "eviction through RemoveOldest", p.InstrPos(capIf), evicted, "on count > size Add must call RemoveOldest and return exactly its results (the evicted entry)")
			}
		}
	}

	// ---- Count derives from the list length (or the map)
	{
		ret := accessorReturn(m["Count"])
		got := ""
		if ret != nil {
			got = newPathCtx(p).path(ret)
		}
		c.ob("CM1", p.FuncName(m["Count"]), "count source", c.fpos(m["Count"]), got == "c.evictList.len" || got == "len(c.items)", fmt.Sprintf("Count returns %q, expected the list length or the map size", got))
	}

	// ---- NewLRU: capacity guard, size immutable
	{
		fn := newLRU
		fname := p.FuncName(fn)
		x := pc()
		sz := paramByName(fn, "size")
		nAlloc := 0
		for _, in := range path.Instrs(fn) {
			al, ok := in.(*ssa.Alloc)
			if !ok || !al.Heap {
				continue
			}
			if n := namedOf(al.Type()); n == nil || n.Obj().Name() != "LRUCache" {
				continue
			}
			nAlloc++
			fs := edgeFacts(x, fn, al.Block())
			okG := hasFact(fs, "size", ">", "0") || hasFact(fs, "size", ">=", "1")
			c.ob("PT3", fname, "capacity guard", p.InstrPos(al), okG, "the cache is allocated on a path that is not dominated by size > 0: a non-positive capacity is accepted")
		}
		c.ob("PT3", fname, "allocation found", c.fpos(fn), nAlloc == 1, "NewLRU does not allocate exactly one LRUCache")
		// rejecting path returns nil + error
		for _, b := range fn.Blocks {
			ret, ok := b.Instrs[len(b.Instrs)-1].(*ssa.Return)
			if !ok || len(ret.Results) != 2 {
				continue
			}
			fs := edgeFacts(x, fn, b)
			if hasFact(fs, "size", "<=", "0") || hasFact(fs, "size", "<", "1") {
				okE := path.IsNil(ret.Results[0]) && !path.IsNil(ret.Results[1])
				c.ob("ER2", fname, "rejection reported", p.InstrPos(ret), okE, "the non-positive-capacity path must return (nil, error)")
			}
		}
		sts := fieldStores(all, "LRUCache", "size")
		for _, st := range sts {
			okS := st.Parent() == fn && st.Val == ssa.Value(sz)
			c.ob("PT3", p.FuncName(st.Parent()), "size slot written", p.InstrPos(st), okS, "LRUCache.size must be written only by NewLRU, from its size parameter")
		}
		c.ob("PT3", fname, "size initialised", c.fpos(fn), len(sts) >= 1, "NewLRU does not store the capacity")
	}

	// ---- Flush resets map and list together with fresh storage
	{
		fn := m["Flush"]
		fname := p.FuncName(fn)
		okM, okL := false, false
		for _, in := range path.Instrs(fn) {
			st, ok := in.(*ssa.Store)
			if !ok {
				continue
			}
			fa, ok := st.Addr.(*ssa.FieldAddr)
			if !ok {
				continue
			}
			if isFieldOf(fa, "LRUCache", "items") {
				if _, ok := st.Val.(*ssa.MakeMap); ok {
					okM = true
				}
			}
			if isFieldOf(fa, "LRUCache", "evictList") {
				if call, ok := st.Val.(*ssa.Call); ok && path.StaticCallee(call) == newList {
					okL = true
				}
			}
		}
		c.ob("AG7", fname, "map and list reset together", c.fpos(fn), okM && okL, "Flush must replace both the map (fresh map) and the list (newLRUList); resetting one leaves map and list holding different nodes")
	}

	// ---- who writes the map / reaches the list removers: map and list change together
	for _, f := range all {
		fname := p.FuncName(f)
		del, upd, unl, add := 0, 0, 0, 0
		for _, in := range path.Instrs(f) {
			switch x := in.(type) {
			case *ssa.MapUpdate:
				if isLoadOfField(x.Map, "LRUCache", "items") {
					upd++
				}
			case ssa.CallInstruction:
				if bi, ok := x.Common().Value.(*ssa.Builtin); ok && bi.Name() == "delete" && isLoadOfField(x.Common().Args[0], "LRUCache", "items") {
					del++
				}
				cal := path.StaticCallee(x)
				if f.Signature.Recv() != nil && namedOf(f.Signature.Recv().Type()) != nil && namedOf(f.Signature.Recv().Type()).Obj().Name() == "LRUCache" {
					if cal != nil && (cal == lf["remove"] || cal == lf["removeLast"]) {
						unl++
					}
					if cal != nil && (cal == lf["addFront"] || cal == lf["addAfter"]) {
						add++
					}
				}
			}
		}
		if del+upd+unl+add == 0 {
			continue
		}
		c.ob("AG7", fname, "map and list change together", c.fpos(f), del == unl && upd == add, fmt.Sprintf("map deletes=%d list unlinks=%d, map inserts=%d list links=%d: the map and the eviction list must change in pairs", del, unl, upd, add))
	}

	// ---- AG4: list length bookkeeping
	{
		sts := fieldStores(all, "lruList", "len")
		for _, st := range sts {
			fn := st.Parent()
			fname := p.FuncName(fn)
			step := ""
			if bo, ok := st.Val.(*ssa.BinOp); ok && isLoadOfField(bo.X, "lruList", "len") {
				if k, ok := path.IntConst(bo.Y); ok && k == 1 {
					step = bo.Op.String()
				}
			}
			switch fn {
			case lf["addAfter"]:
				c.ob("AG4", fname, "len step", p.InstrPos(st), step == "+", "addAfter must increment the length by one")
			case lf["remove"]:
				x := pc()
				fs := edgeFacts(x, fn, st.Block())
				c.ob("AG4", fname, "len step", p.InstrPos(st), step == "-" && hasFact(fs, fn.Params[1].Name(), "!=", "&l.root"), "remove must decrement the length by one, only when the node is not the sentinel")
			case newList:
				// composite literal initialisation
				k, ok := path.IntConst(st.Val)
				c.ob("AG4", fname, "len init", p.InstrPos(st), ok && k == 0, "a new list starts with length 0")
			default:
				c.ob("AG4", fname, "len written elsewhere", p.InstrPos(st), false, "the list length is written outside addAfter/remove/newLRUList")
			}
		}
		for _, nm := range []string{"addAfter", "remove"} {
			fn := lf[nm]
			isLen := func(in ssa.Instruction) bool {
				st, ok := in.(*ssa.Store)
				if !ok {
					return false
				}
				fa, ok := st.Addr.(*ssa.FieldAddr)
				return ok && isFieldOf(fa, "lruList", "len")
			}
			mx := path.MaxCount(fn, isLen)
			c.ob("AG4", p.FuncName(fn), "len stored at most once", c.fpos(fn), mx == 1, "the length must change exactly once per link/unlink")
		}
		// remove reports success exactly when it unlinked
		fn := lf["remove"]
		x := pc()
		for _, b := range fn.Blocks {
			ret, ok := b.Instrs[len(b.Instrs)-1].(*ssa.Return)
			if !ok || len(ret.Results) != 1 {
				continue
			}
			bc, isC := path.BoolConst(ret.Results[0])
			if !isC {
				c.und("AG4", p.FuncName(fn), "result", p.InstrPos(ret), "remove's result is not a constant per path")
				continue
			}
			fs := edgeFacts(x, fn, b)
			notRoot := hasFact(fs, fn.Params[1].Name(), "!=", "&l.root")
			c.ob("AG4", p.FuncName(fn), "result reflects unlink", p.InstrPos(ret), bc == notRoot, "remove must return true exactly on the path that unlinked a real node")
		}
	}

	// ---- SH1: local shape rule for the three list primitives
	shapeLRU(c, lf, newList)

	_ = types.Typ
	_ = token.ADD
}

func isZeroConst(v ssa.Value) bool {
	switch x := v.(type) {
	case *ssa.Const:
		if x.Value == nil {
			return true
		}
		s := x.Value.ExactString()
		return s == "0" || s == "false" || s == `""`
	case *ssa.UnOp:
		// *new(T) : zero value of a type parameter
		if x.Op == token.MUL {
			if al, ok := x.X.(*ssa.Alloc); ok {
				for _, r := range *al.Referrers() {
					if _, isSt := r.(*ssa.Store); isSt {
						return false
					}
				}
				return true
			}
		}
	}
	return false
}
