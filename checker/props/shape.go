package props

import "golang.org/x/tools/go/ssa"

// shapeLRU is filled in by the local shape engine (see shape_lru.go) when built.
var shapeLRUImpl func(c rc, lf map[string]*ssa.Function, newList *ssa.Function)

func shapeLRU(c rc, lf map[string]*ssa.Function, newList *ssa.Function) {
	if shapeLRUImpl != nil {
		shapeLRUImpl(c, lf, newList)
	}
}
