package props

import (
	"fmt"
	"go/constant"
	"go/token"
	"go/types"

	"golang.org/x/tools/go/ssa"

	"gogucheck/core"
	"gogucheck/path"
)

// A small evaluator of integer-and-branch code on the SSA form, used to tabulate
// functions whose behaviour is a piecewise-affine function of a few integers (the
// length of a slice argument, integer arguments) over representatives of every cell of
// the arrangement of their branch conditions (see affineCheck). It knows integers,
// booleans, local structs and cells, reads of elements of ONE slice argument (recorded,
// bounds-checked), errors as nil / non-nil, and in-module helper calls (evaluated in
// turn). Anything else makes the evaluation fail with a reason (the rule using it then
// reports the function as undecided).

type mvKind int

const (
	mvInt mvKind = iota
	mvBool
	mvStruct
	mvErr    // a non-nil error
	mvNil    // nil (error, pointer, slice)
	mvElem   // the element read from the slice argument at index n
	mvZero   // the zero value of an opaque type
	mvOpaque // something the table does not look at
	mvSlice  // the slice argument itself
	mvSub    // the sub-string / sub-slice [n:m] of the argument
)

type mv struct {
	k      mvKind
	n      int64
	m      int64
	b      bool
	fields map[int]mv
}

func (v mv) clone() mv {
	if v.k != mvStruct {
		return v
	}
	c := mv{k: mvStruct, fields: map[int]mv{}}
	for i, f := range v.fields {
		c.fields[i] = f.clone()
	}
	return c
}

func mvZeroOf(t types.Type) mv {
	switch u := t.Underlying().(type) {
	case *types.Basic:
		if u.Info()&types.IsBoolean != 0 {
			return mv{k: mvBool}
		}
		if u.Info()&types.IsInteger != 0 {
			return mv{k: mvInt}
		}
	case *types.Struct:
		v := mv{k: mvStruct, fields: map[int]mv{}}
		for i := 0; i < u.NumFields(); i++ {
			v.fields[i] = mvZeroOf(u.Field(i).Type())
		}
		return v
	case *types.Interface:
		if tp, ok := t.(*types.TypeParam); ok {
			// an integer-constrained type parameter behaves like an int here
			if isIntegerConstraint(tp) {
				return mv{k: mvInt}
			}
			return mv{k: mvZero}
		}
		return mv{k: mvNil}
	case *types.Pointer, *types.Slice, *types.Map, *types.Signature, *types.Chan:
		return mv{k: mvNil}
	}
	return mv{k: mvZero}
}

func isIntegerConstraint(tp *types.TypeParam) bool {
	s := tp.Constraint().String()
	return s == "golang.org/x/exp/constraints.Signed" || s == "golang.org/x/exp/constraints.Integer" || s == "github.com/esimov/gogu.Number" || s == "golang.org/x/exp/constraints.Ordered"
}

type miniEnv struct {
	p      *core.Program
	slice  *ssa.Parameter // the slice (or string) argument whose elements are read
	length int64
	depth  int
	// reads records the indices read from the slice argument, in order
	reads *[]int64
}

type miniOut struct {
	panics  bool
	why     string
	results []mv
}

func miniEval(fn *ssa.Function, args map[*ssa.Parameter]mv, env miniEnv) (miniOut, bool, string) {
	if env.depth > 4 || len(fn.Blocks) == 0 {
		return miniOut{}, false, "call depth"
	}
	vals := map[ssa.Value]mv{}
	cells := map[*ssa.Alloc]*mv{}
	type fptr struct {
		al  *ssa.Alloc
		idx int
	}
	fptrs := map[ssa.Value]fptr{}
	elemPtr := map[ssa.Value]int64{}
	opaquePtr := map[ssa.Value]bool{}
	get := func(v ssa.Value) (mv, bool) {
		switch x := v.(type) {
		case *ssa.Parameter:
			if a, ok := args[x]; ok {
				return a, true
			}
			if x == env.slice {
				return mv{k: mvSlice}, true
			}
			return mv{k: mvOpaque}, true
		case *ssa.Const:
			if x.Value == nil {
				if _, isIface := x.Type().Underlying().(*types.Interface); isIface {
					if _, isTP := x.Type().(*types.TypeParam); isTP {
						return mvZeroOf(x.Type()), true
					}
					return mv{k: mvNil}, true
				}
				return mvZeroOf(x.Type()), true
			}
			switch x.Value.Kind() {
			case constant.Int:
				n, exact := constant.Int64Val(x.Value)
				return mv{k: mvInt, n: n}, exact
			case constant.Bool:
				return mv{k: mvBool, b: constant.BoolVal(x.Value)}, true
			}
			return mv{k: mvOpaque}, true
		case *ssa.Function, *ssa.Global, *ssa.Builtin:
			return mv{k: mvOpaque}, true
		}
		r, ok := vals[v]
		return r, ok
	}
	b := fn.Blocks[0]
	var prev *ssa.BasicBlock
	for steps := 0; steps < 2000; steps++ {
		moved := false
		for _, in := range b.Instrs {
			switch x := in.(type) {
			case *ssa.DebugRef:
			case *ssa.Phi:
				for i, p := range b.Preds {
					if p == prev {
						v, ok := get(x.Edges[i])
						if !ok {
							return miniOut{}, false, "phi operand"
						}
						vals[x] = v
					}
				}
			case *ssa.Alloc:
				z := mvZeroOf(x.Type().(*types.Pointer).Elem())
				if _, isArr := x.Type().(*types.Pointer).Elem().Underlying().(*types.Array); isArr {
					opaquePtr[x] = true
					continue
				}
				cells[x] = &z
			case *ssa.FieldAddr:
				al, ok := x.X.(*ssa.Alloc)
				if !ok || cells[al] == nil || cells[al].k != mvStruct {
					return miniOut{}, false, "field of something other than a local struct"
				}
				fptrs[x] = fptr{al, x.Field}
			case *ssa.Field:
				sv, ok := get(x.X)
				if !ok || sv.k != mvStruct {
					return miniOut{}, false, "field of a non-struct value"
				}
				vals[x] = sv.fields[x.Field].clone()
			case *ssa.IndexAddr:
				if opaquePtr[x.X] {
					opaquePtr[x] = true
					continue
				}
				if x.X != ssa.Value(env.slice) {
					return miniOut{}, false, "indexing something other than the slice argument"
				}
				iv, ok := get(x.Index)
				if !ok || iv.k != mvInt {
					return miniOut{}, false, "index is not an integer the table knows"
				}
				if iv.n < 0 || iv.n >= env.length {
					return miniOut{panics: true, why: fmt.Sprintf("index %d with length %d", iv.n, env.length)}, true, ""
				}
				elemPtr[x] = iv.n
			case *ssa.Index:
				// string indexing s[i]
				if x.X != ssa.Value(env.slice) {
					return miniOut{}, false, "indexing something other than the argument"
				}
				iv, ok := get(x.Index)
				if !ok || iv.k != mvInt {
					return miniOut{}, false, "index is not an integer the table knows"
				}
				if iv.n < 0 || iv.n >= env.length {
					return miniOut{panics: true, why: fmt.Sprintf("index %d with length %d", iv.n, env.length)}, true, ""
				}
				vals[x] = mv{k: mvElem, n: iv.n}
			case *ssa.Store:
				if opaquePtr[x.Addr] {
					continue
				}
				v, ok := get(x.Val)
				if !ok {
					return miniOut{}, false, "stored value"
				}
				if al, ok := x.Addr.(*ssa.Alloc); ok && cells[al] != nil {
					c := v.clone()
					cells[al] = &c
				} else if fp, ok := fptrs[x.Addr]; ok {
					cells[fp.al].fields[fp.idx] = v.clone()
				} else {
					return miniOut{}, false, "store outside the local variables"
				}
			case *ssa.UnOp:
				switch x.Op {
				case token.MUL:
					if al, ok := x.X.(*ssa.Alloc); ok && cells[al] != nil {
						vals[x] = cells[al].clone()
					} else if fp, ok := fptrs[x.X]; ok {
						vals[x] = cells[fp.al].fields[fp.idx].clone()
					} else if k, ok := elemPtr[x.X]; ok {
						if env.reads != nil {
							*env.reads = append(*env.reads, k)
						}
						vals[x] = mv{k: mvElem, n: k}
					} else if _, ok := x.X.(*ssa.Global); ok {
						vals[x] = mv{k: mvErr} // package-level error values
					} else {
						return miniOut{}, false, "load outside the local variables"
					}
				case token.NOT:
					o, ok := get(x.X)
					if !ok || o.k != mvBool {
						return miniOut{}, false, "negation"
					}
					vals[x] = mv{k: mvBool, b: !o.b}
				case token.SUB:
					o, ok := get(x.X)
					if !ok || o.k != mvInt {
						return miniOut{}, false, "unary minus"
					}
					vals[x] = mv{k: mvInt, n: -o.n}
				default:
					return miniOut{}, false, "unary " + x.Op.String()
				}
			case *ssa.BinOp:
				l, ok1 := get(x.X)
				r, ok2 := get(x.Y)
				if !ok1 || !ok2 {
					return miniOut{}, false, "operand of " + x.Op.String()
				}
				if l.k == mvInt && r.k == mvInt {
					switch x.Op {
					case token.ADD:
						vals[x] = mv{k: mvInt, n: l.n + r.n}
					case token.SUB:
						vals[x] = mv{k: mvInt, n: l.n - r.n}
					case token.LSS:
						vals[x] = mv{k: mvBool, b: l.n < r.n}
					case token.LEQ:
						vals[x] = mv{k: mvBool, b: l.n <= r.n}
					case token.GTR:
						vals[x] = mv{k: mvBool, b: l.n > r.n}
					case token.GEQ:
						vals[x] = mv{k: mvBool, b: l.n >= r.n}
					case token.EQL:
						vals[x] = mv{k: mvBool, b: l.n == r.n}
					case token.NEQ:
						vals[x] = mv{k: mvBool, b: l.n != r.n}
					default:
						return miniOut{}, false, "arithmetic " + x.Op.String() + " (the table covers +, - and comparisons only)"
					}
					continue
				}
				// nil tests of errors
				isNilish := func(v mv) bool { return v.k == mvNil || v.k == mvErr }
				if (x.Op == token.EQL || x.Op == token.NEQ) && isNilish(l) && isNilish(r) {
					eq := l.k == mvNil && r.k == mvNil
					vals[x] = mv{k: mvBool, b: eq == (x.Op == token.EQL)}
					continue
				}
				return miniOut{}, false, "operands of " + x.Op.String() + " are not integers"
			case *ssa.Convert:
				v, ok := get(x.X)
				if !ok {
					return miniOut{}, false, "conversion"
				}
				vals[x] = v
			case *ssa.ChangeType:
				v, ok := get(x.X)
				if !ok {
					return miniOut{}, false, "conversion"
				}
				vals[x] = v
			case *ssa.MultiConvert:
				v, ok := get(x.X)
				if !ok {
					return miniOut{}, false, "conversion"
				}
				vals[x] = v
			case *ssa.MakeInterface:
				vals[x] = mv{k: mvOpaque}
			case *ssa.Slice:
				if opaquePtr[x.X] {
					// []T{}: a slice of a fresh array of length 0 is the empty result
					if al, ok := x.X.(*ssa.Alloc); ok {
						if arr, ok := al.Type().(*types.Pointer).Elem().Underlying().(*types.Array); ok && arr.Len() == 0 {
							vals[x] = mv{k: mvSub}
							continue
						}
					}
					vals[x] = mv{k: mvOpaque}
					continue
				}
				if x.X != ssa.Value(env.slice) || x.Max != nil {
					return miniOut{}, false, "re-slicing something other than the argument"
				}
				lo, hi := int64(0), env.length
				if x.Low != nil {
					v, ok := get(x.Low)
					if !ok || v.k != mvInt {
						return miniOut{}, false, "slice bound is not an integer the table knows"
					}
					lo = v.n
				}
				if x.High != nil {
					v, ok := get(x.High)
					if !ok || v.k != mvInt {
						return miniOut{}, false, "slice bound is not an integer the table knows"
					}
					hi = v.n
				}
				if lo < 0 || hi < lo || hi > env.length {
					return miniOut{panics: true, why: fmt.Sprintf("slice bounds [%d:%d] with length %d", lo, hi, env.length)}, true, ""
				}
				vals[x] = mv{k: mvSub, n: lo, m: hi}
			case *ssa.Extract:
				tv, ok := vals[x.Tuple]
				if !ok || tv.k != mvStruct {
					return miniOut{}, false, "tuple"
				}
				vals[x] = tv.fields[x.Index].clone()
			case *ssa.Call:
				if bi, ok := x.Call.Value.(*ssa.Builtin); ok {
					if bi.Name() == "len" && len(x.Call.Args) == 1 && x.Call.Args[0] == ssa.Value(env.slice) {
						vals[x] = mv{k: mvInt, n: env.length}
						continue
					}
					return miniOut{}, false, "builtin " + bi.Name()
				}
				if path.IsCallTo(x, "fmt", "Errorf") || path.IsCallTo(x, "errors", "New") {
					vals[x] = mv{k: mvErr}
					continue
				}
				callee := path.StaticCallee(x)
				if callee == nil || !env.p.InModule(callee) {
					// a function outside the module (formatting, ...): its results are
					// opaque; the table fails later if a branch or an index needs one
					if n := x.Call.Signature().Results().Len(); n > 1 {
						t := mv{k: mvStruct, fields: map[int]mv{}}
						for i := 0; i < n; i++ {
							t.fields[i] = mv{k: mvOpaque}
						}
						vals[x] = t
					} else {
						vals[x] = mv{k: mvOpaque}
					}
					continue
				}
				sub := map[*ssa.Parameter]mv{}
				subEnv := env
				subEnv.depth++
				subEnv.slice = nil
				for i, a := range x.Call.Args {
					if i >= len(callee.Params) {
						break
					}
					if a == ssa.Value(env.slice) {
						subEnv.slice = callee.Params[i]
						continue
					}
					v, ok := get(a)
					if !ok {
						return miniOut{}, false, "argument of " + callee.Name()
					}
					sub[callee.Params[i]] = v
				}
				out, ok, why := miniEval(callee, sub, subEnv)
				if !ok {
					return miniOut{}, false, callee.Name() + ": " + why
				}
				if out.panics {
					return out, true, ""
				}
				switch len(out.results) {
				case 0:
				case 1:
					vals[x] = out.results[0]
				default:
					t := mv{k: mvStruct, fields: map[int]mv{}}
					for i, r := range out.results {
						t.fields[i] = r
					}
					vals[x] = t
				}
			case *ssa.If:
				cv, ok := get(x.Cond)
				if !ok || cv.k != mvBool {
					return miniOut{}, false, "branch condition"
				}
				prev = b
				if cv.b {
					b = b.Succs[0]
				} else {
					b = b.Succs[1]
				}
				moved = true
			case *ssa.Jump:
				prev = b
				b = b.Succs[0]
				moved = true
			case *ssa.Return:
				var out miniOut
				for _, r := range path.ReturnValues(x) {
					v, ok := get(r)
					if !ok {
						return miniOut{}, false, "returned value"
					}
					out.results = append(out.results, v)
				}
				return out, true, ""
			case *ssa.Panic:
				return miniOut{panics: true, why: "explicit panic"}, true, ""
			case *ssa.RunDefers:
			default:
				return miniOut{}, false, fmt.Sprintf("instruction %T", in)
			}
			if moved {
				break
			}
		}
		if !moved {
			return miniOut{}, false, "block without a terminator"
		}
	}
	return miniOut{}, false, "did not terminate"
}
