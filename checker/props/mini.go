package props

import (
	"fmt"
	"go/constant"
	"go/token"
	"go/types"

	"golang.org/x/tools/go/ssa"

	"gogucheck/core"
	"gogucheck/path"
)

// A small evaluator of integer-and-branch code on the SSA form, used to tabulate
// functions whose behaviour is a piecewise-affine function of a few integers (the
// length of a slice argument, integer arguments) over representatives of every cell of
// the arrangement of their branch conditions (see affineCheck). It knows integers,
// booleans, local structs and cells, reads of elements of ONE slice argument (recorded,
// bounds-checked), errors as nil / non-nil, and in-module helper calls (evaluated in
// turn). Anything else makes the evaluation fail with a reason (the rule using it then
// reports the function as undecided).

type mvKind int

const (
	mvInt mvKind = iota
	mvBool
	mvStruct
	mvErr    // a non-nil error
	mvNil    // nil (error, pointer, slice)
	mvElem   // the element read from the slice argument at index n
	mvZero   // the zero value of an opaque type
	mvOpaque // something the table does not look at
	mvSlice  // the slice argument itself
	mvSub    // the sub-string / sub-slice [n:m] of the argument
)

// affForm: an integer as an affine form co[0]*len + co[1]*arg1 + co[2]*arg2 + c0 of the
// table's variables, valid along the path being followed (Abs and other branches are
// resolved by the concrete values, so the form is the one of the executed path).
type affForm struct {
	ok bool
	co [3]int64
	c0 int64
}

func (a affForm) add(b affForm, sign int64) affForm {
	if !a.ok || !b.ok {
		return affForm{}
	}
	r := affForm{ok: true, c0: a.c0 + sign*b.c0}
	for i := range r.co {
		r.co[i] = a.co[i] + sign*b.co[i]
	}
	return r
}

type mv struct {
	k      mvKind
	n      int64
	m      int64
	af     affForm
	b      bool
	fields map[int]mv
}

func (v mv) clone() mv {
	if v.k != mvStruct {
		return v
	}
	c := mv{k: mvStruct, fields: map[int]mv{}}
	for i, f := range v.fields {
		c.fields[i] = f.clone()
	}
	return c
}

func mvZeroOf(t types.Type) mv {
	switch u := t.Underlying().(type) {
	case *types.Basic:
		if u.Info()&types.IsBoolean != 0 {
			return mv{k: mvBool}
		}
		if u.Info()&types.IsInteger != 0 {
			return mv{k: mvInt}
		}
	case *types.Struct:
		v := mv{k: mvStruct, fields: map[int]mv{}}
		for i := 0; i < u.NumFields(); i++ {
			v.fields[i] = mvZeroOf(u.Field(i).Type())
		}
		return v
	case *types.Interface:
		if tp, ok := t.(*types.TypeParam); ok {
			// an integer-constrained type parameter behaves like an int here
			if isIntegerConstraint(tp) {
				return mv{k: mvInt}
			}
			return mv{k: mvZero}
		}
		return mv{k: mvNil}
	case *types.Pointer, *types.Slice, *types.Map, *types.Signature, *types.Chan:
		return mv{k: mvNil}
	}
	return mv{k: mvZero}
}

func isIntegerConstraint(tp *types.TypeParam) bool {
	s := tp.Constraint().String()
	return s == "golang.org/x/exp/constraints.Signed" || s == "golang.org/x/exp/constraints.Integer" || s == "github.com/esimov/gogu.Number" || s == "golang.org/x/exp/constraints.Ordered"
}

type miniEnv struct {
	p      *core.Program
	slice  *ssa.Parameter // the slice (or string) argument whose elements are read
	length int64
	depth  int
	// reads records the indices read from the slice argument, in order
	reads *[]int64
	// forms, when set, records the half-planes the run decided by: for every integer
	// comparison, index and slice bound whose operands are affine in the table's
	// variables, the normal (difference of the operands' coefficients) and the constant
	forms map[[4]int64]bool
}

func (e miniEnv) record(l, r affForm) {
	if e.forms == nil || !l.ok || !r.ok {
		return
	}
	d := l.add(r, -1)
	e.forms[[4]int64{d.co[0], d.co[1], d.co[2], d.c0}] = true
}

type miniOut struct {
	panics  bool
	why     string
	results []mv
}

func miniEval(fn *ssa.Function, args map[*ssa.Parameter]mv, env miniEnv) (miniOut, bool, string) {
	if env.depth > 4 || len(fn.Blocks) == 0 {
		return miniOut{}, false, "call depth"
	}
	vals := map[ssa.Value]mv{}
	cells := map[*ssa.Alloc]*mv{}
	type fptr struct {
		al  *ssa.Alloc
		idx int
	}
	fptrs := map[ssa.Value]fptr{}
	elemPtr := map[ssa.Value]int64{}
	opaquePtr := map[ssa.Value]bool{}
	get := func(v ssa.Value) (mv, bool) {
		switch x := v.(type) {
		case *ssa.Parameter:
			if a, ok := args[x]; ok {
				return a, true
			}
			if x == env.slice {
				return mv{k: mvSlice}, true
			}
			return mv{k: mvOpaque}, true
		case *ssa.Const:
			if x.Value == nil {
				if _, isIface := x.Type().Underlying().(*types.Interface); isIface {
					if _, isTP := x.Type().(*types.TypeParam); isTP {
						return mvZeroOf(x.Type()), true
					}
					return mv{k: mvNil}, true
				}
				return mvZeroOf(x.Type()), true
			}
			switch x.Value.Kind() {
			case constant.Int:
				n, exact := constant.Int64Val(x.Value)
				return mv{k: mvInt, n: n, af: affForm{ok: true, c0: n}}, exact
			case constant.Bool:
				return mv{k: mvBool, b: constant.BoolVal(x.Value)}, true
			}
			return mv{k: mvOpaque}, true
		case *ssa.Function, *ssa.Global, *ssa.Builtin:
			return mv{k: mvOpaque}, true
		}
		r, ok := vals[v]
		return r, ok
	}
	b := fn.Blocks[0]
	var prev *ssa.BasicBlock
	for steps := 0; steps < 2000; steps++ {
		moved := false
		for _, in := range b.Instrs {
			switch x := in.(type) {
			case *ssa.DebugRef:
			case *ssa.Phi:
				for i, p := range b.Preds {
					if p == prev {
						v, ok := get(x.Edges[i])
						if !ok {
							return miniOut{}, false, "phi operand"
						}
						vals[x] = v
					}
				}
			case *ssa.Alloc:
				z := mvZeroOf(x.Type().(*types.Pointer).Elem())
				if _, isArr := x.Type().(*types.Pointer).Elem().Underlying().(*types.Array); isArr {
					opaquePtr[x] = true
					continue
				}
				cells[x] = &z
			case *ssa.FieldAddr:
				al, ok := x.X.(*ssa.Alloc)
				if !ok || cells[al] == nil || cells[al].k != mvStruct {
					return miniOut{}, false, "field of something other than a local struct"
				}
				fptrs[x] = fptr{al, x.Field}
			case *ssa.Field:
				sv, ok := get(x.X)
				if !ok || sv.k != mvStruct {
					return miniOut{}, false, "field of a non-struct value"
				}
				vals[x] = sv.fields[x.Field].clone()
			case *ssa.IndexAddr:
				if opaquePtr[x.X] {
					opaquePtr[x] = true
					continue
				}
				if x.X != ssa.Value(env.slice) {
					return miniOut{}, false, "indexing something other than the slice argument"
				}
				iv, ok := get(x.Index)
				if !ok || iv.k != mvInt {
					return miniOut{}, false, "index is not an integer the table knows"
				}
				env.record(iv.af, affForm{ok: true})
				env.record(iv.af, affForm{ok: true, co: [3]int64{1, 0, 0}})
				if iv.n < 0 || iv.n >= env.length {
					return miniOut{panics: true, why: fmt.Sprintf("index %d with length %d", iv.n, env.length)}, true, ""
				}
				elemPtr[x] = iv.n
			case *ssa.Index:
				// string indexing s[i]
				if x.X != ssa.Value(env.slice) {
					return miniOut{}, false, "indexing something other than the argument"
				}
				iv, ok := get(x.Index)
				if !ok || iv.k != mvInt {
					return miniOut{}, false, "index is not an integer the table knows"
				}
				if iv.n < 0 || iv.n >= env.length {
					return miniOut{panics: true, why: fmt.Sprintf("index %d with length %d", iv.n, env.length)}, true, ""
				}
				vals[x] = mv{k: mvElem, n: iv.n}
			case *ssa.Store:
				if opaquePtr[x.Addr] {
					continue
				}
				v, ok := get(x.Val)
				if !ok {
					return miniOut{}, false, "stored value"
				}
				if al, ok := x.Addr.(*ssa.Alloc); ok && cells[al] != nil {
					c := v.clone()
					cells[al] = &c
				} else if fp, ok := fptrs[x.Addr]; ok {
					cells[fp.al].fields[fp.idx] = v.clone()
				} else {
					return miniOut{}, false, "store outside the local variables"
				}
			case *ssa.UnOp:
				switch x.Op {
				case token.MUL:
					if al, ok := x.X.(*ssa.Alloc); ok && cells[al] != nil {
						vals[x] = cells[al].clone()
					} else if fp, ok := fptrs[x.X]; ok {
						vals[x] = cells[fp.al].fields[fp.idx].clone()
					} else if k, ok := elemPtr[x.X]; ok {
						if env.reads != nil {
							*env.reads = append(*env.reads, k)
						}
						vals[x] = mv{k: mvElem, n: k}
					} else if _, ok := x.X.(*ssa.Global); ok {
						vals[x] = mv{k: mvErr} // package-level error values
					} else {
						return miniOut{}, false, "load outside the local variables"
					}
				case token.NOT:
					o, ok := get(x.X)
					if !ok || o.k != mvBool {
						return miniOut{}, false, "negation"
					}
					vals[x] = mv{k: mvBool, b: !o.b}
				case token.SUB:
					o, ok := get(x.X)
					if !ok || o.k != mvInt {
						return miniOut{}, false, "unary minus"
					}
					vals[x] = mv{k: mvInt, n: -o.n, af: affForm{ok: true}.add(o.af, -1)}
				default:
					return miniOut{}, false, "unary " + x.Op.String()
				}
			case *ssa.BinOp:
				l, ok1 := get(x.X)
				r, ok2 := get(x.Y)
				if !ok1 || !ok2 {
					return miniOut{}, false, "operand of " + x.Op.String()
				}
				if l.k == mvInt && r.k == mvInt {
					switch x.Op {
					case token.ADD:
						vals[x] = mv{k: mvInt, n: l.n + r.n, af: l.af.add(r.af, 1)}
					case token.SUB:
						vals[x] = mv{k: mvInt, n: l.n - r.n, af: l.af.add(r.af, -1)}
					case token.LSS:
						env.record(l.af, r.af)
						vals[x] = mv{k: mvBool, b: l.n < r.n}
					case token.LEQ:
						env.record(l.af, r.af)
						vals[x] = mv{k: mvBool, b: l.n <= r.n}
					case token.GTR:
						env.record(l.af, r.af)
						vals[x] = mv{k: mvBool, b: l.n > r.n}
					case token.GEQ:
						env.record(l.af, r.af)
						vals[x] = mv{k: mvBool, b: l.n >= r.n}
					case token.EQL:
						env.record(l.af, r.af)
						vals[x] = mv{k: mvBool, b: l.n == r.n}
					case token.NEQ:
						env.record(l.af, r.af)
						vals[x] = mv{k: mvBool, b: l.n != r.n}
					default:
						return miniOut{}, false, "arithmetic " + x.Op.String() + " (the table covers +, - and comparisons only)"
					}
					continue
				}
				// nil tests of errors
				isNilish := func(v mv) bool { return v.k == mvNil || v.k == mvErr }
				if (x.Op == token.EQL || x.Op == token.NEQ) && isNilish(l) && isNilish(r) {
					eq := l.k == mvNil && r.k == mvNil
					vals[x] = mv{k: mvBool, b: eq == (x.Op == token.EQL)}
					continue
				}
				return miniOut{}, false, "operands of " + x.Op.String() + " are not integers"
			case *ssa.Convert:
				v, ok := get(x.X)
				if !ok {
					return miniOut{}, false, "conversion"
				}
				vals[x] = v
			case *ssa.ChangeType:
				v, ok := get(x.X)
				if !ok {
					return miniOut{}, false, "conversion"
				}
				vals[x] = v
			case *ssa.MultiConvert:
				v, ok := get(x.X)
				if !ok {
					return miniOut{}, false, "conversion"
				}
				vals[x] = v
			case *ssa.MakeInterface:
				vals[x] = mv{k: mvOpaque}
			case *ssa.Slice:
				if opaquePtr[x.X] {
					// []T{}: a slice of a fresh array of length 0 is the empty result
					if al, ok := x.X.(*ssa.Alloc); ok {
						if arr, ok := al.Type().(*types.Pointer).Elem().Underlying().(*types.Array); ok && arr.Len() == 0 {
							vals[x] = mv{k: mvSub}
							continue
						}
					}
					vals[x] = mv{k: mvOpaque}
					continue
				}
				if x.X != ssa.Value(env.slice) || x.Max != nil {
					return miniOut{}, false, "re-slicing something other than the argument"
				}
				lo, hi := int64(0), env.length
				if x.Low != nil {
					v, ok := get(x.Low)
					if !ok || v.k != mvInt {
						return miniOut{}, false, "slice bound is not an integer the table knows"
					}
					lo = v.n
					env.record(v.af, affForm{ok: true})
					env.record(v.af, affForm{ok: true, co: [3]int64{1, 0, 0}})
				}
				if x.High != nil {
					v, ok := get(x.High)
					if !ok || v.k != mvInt {
						return miniOut{}, false, "slice bound is not an integer the table knows"
					}
					hi = v.n
					env.record(v.af, affForm{ok: true})
					env.record(v.af, affForm{ok: true, co: [3]int64{1, 0, 0}})
				}
				if lo < 0 || hi < lo || hi > env.length {
					return miniOut{panics: true, why: fmt.Sprintf("slice bounds [%d:%d] with length %d", lo, hi, env.length)}, true, ""
				}
				vals[x] = mv{k: mvSub, n: lo, m: hi}
			case *ssa.Extract:
				tv, ok := vals[x.Tuple]
				if !ok || tv.k != mvStruct {
					return miniOut{}, false, "tuple"
				}
				vals[x] = tv.fields[x.Index].clone()
			case *ssa.Call:
				if bi, ok := x.Call.Value.(*ssa.Builtin); ok {
					if bi.Name() == "len" && len(x.Call.Args) == 1 && x.Call.Args[0] == ssa.Value(env.slice) {
						vals[x] = mv{k: mvInt, n: env.length, af: affForm{ok: true, co: [3]int64{1, 0, 0}}}
						continue
					}
					return miniOut{}, false, "builtin " + bi.Name()
				}
				if path.IsCallTo(x, "fmt", "Errorf") || path.IsCallTo(x, "errors", "New") {
					vals[x] = mv{k: mvErr}
					continue
				}
				callee := path.StaticCallee(x)
				if callee == nil || !env.p.InModule(callee) {
					// a function outside the module (formatting, ...): its results are
					// opaque; the table fails later if a branch or an index needs one
					if n := x.Call.Signature().Results().Len(); n > 1 {
						t := mv{k: mvStruct, fields: map[int]mv{}}
						for i := 0; i < n; i++ {
							t.fields[i] = mv{k: mvOpaque}
						}
						vals[x] = t
					} else {
						vals[x] = mv{k: mvOpaque}
					}
					continue
				}
				sub := map[*ssa.Parameter]mv{}
				subEnv := env
				subEnv.depth++
				subEnv.slice = nil
				for i, a := range x.Call.Args {
					if i >= len(callee.Params) {
						break
					}
					if a == ssa.Value(env.slice) {
						subEnv.slice = callee.Params[i]
						continue
					}
					v, ok := get(a)
					if !ok {
						return miniOut{}, false, "argument of " + callee.Name()
					}
					sub[callee.Params[i]] = v
				}
				out, ok, why := miniEval(callee, sub, subEnv)
				if !ok {
					return miniOut{}, false, callee.Name() + ": " + why
				}
				if out.panics {
					return out, true, ""
				}
				switch len(out.results) {
				case 0:
				case 1:
					vals[x] = out.results[0]
				default:
					t := mv{k: mvStruct, fields: map[int]mv{}}
					for i, r := range out.results {
						t.fields[i] = r
					}
					vals[x] = t
				}
			case *ssa.If:
				cv, ok := get(x.Cond)
				if !ok || cv.k != mvBool {
					return miniOut{}, false, "branch condition"
				}
				prev = b
				if cv.b {
					b = b.Succs[0]
				} else {
					b = b.Succs[1]
				}
				moved = true
			case *ssa.Jump:
				prev = b
				b = b.Succs[0]
				moved = true
			case *ssa.Return:
				var out miniOut
				for _, r := range path.ReturnValues(x) {
					v, ok := get(r)
					if !ok {
						return miniOut{}, false, "returned value"
					}
					out.results = append(out.results, v)
				}
				return out, true, ""
			case *ssa.Panic:
				return miniOut{panics: true, why: "explicit panic"}, true, ""
			case *ssa.RunDefers:
			default:
				return miniOut{}, false, fmt.Sprintf("instruction %T", in)
			}
			if moved {
				break
			}
		}
		if !moved {
			return miniOut{}, false, "block without a terminator"
		}
	}
	return miniOut{}, false, "did not terminate"
}

// boxNeeded: how large the table's box has to be for the half-planes the function (and
// the statement) actually decide by. The planes a.x + c = 0 recorded during a first pass
// form an arrangement; the statement and the implementation are affine on each of its
// faces. Every face that contains an integer point is the sum of a bounded part spanned
// by vertices of the arrangement and a cone spanned by directions of its lines of
// intersection; V bounds the vertex coordinates, G the entries of the (primitive)
// direction vectors, computed exactly from the recorded planes. A box that reaches
// V + dims*G + 2 in every coordinate contains, for every face, a vertex-near integer
// point plus one step along each of up to dims independent directions - enough integer
// points to pin an affine function down on the face. (Still an argument rather than a
// machine-checked proof - but its parameters are computed from the code, not assumed.)
func boxNeeded(forms map[[4]int64]bool, dims int) (needL, needW int64) {
	type plane struct {
		n [3]int64
		c int64
	}
	var ps []plane
	for f := range forms {
		if f[0] == 0 && f[1] == 0 && f[2] == 0 {
			continue
		}
		ps = append(ps, plane{[3]int64{f[0], f[1], f[2]}, f[3]})
	}
	abs := func(x int64) int64 {
		if x < 0 {
			return -x
		}
		return x
	}
	gcd := func(a, b int64) int64 {
		a, b = abs(a), abs(b)
		for b != 0 {
			a, b = b, a%b
		}
		return a
	}
	var vL, vW, gL, gW int64
	bump := func(dst *int64, v int64) {
		if v > *dst {
			*dst = v
		}
	}
	ceilDiv := func(num, den int64) int64 { // ceil(|num/den|)
		num, den = abs(num), abs(den)
		return (num + den - 1) / den
	}
	if dims == 2 {
		for i := range ps {
			a, b := ps[i].n[0], ps[i].n[1]
			if g := gcd(a, b); g > 0 {
				bump(&gL, abs(b)/g)
				bump(&gW, abs(a)/g)
			}
			for j := i + 1; j < len(ps); j++ {
				c, d := ps[j].n[0], ps[j].n[1]
				det := a*d - b*c
				if det == 0 {
					continue
				}
				// a x + b y = -c1 ; c x + d y = -c2
				r1, r2 := -ps[i].c, -ps[j].c
				bump(&vL, ceilDiv(r1*d-b*r2, det))
				bump(&vW, ceilDiv(a*r2-r1*c, det))
			}
		}
		return vL + 2*gL + 2, vW + 2*gW + 2
	}
	cross := func(u, v [3]int64) [3]int64 {
		return [3]int64{u[1]*v[2] - u[2]*v[1], u[2]*v[0] - u[0]*v[2], u[0]*v[1] - u[1]*v[0]}
	}
	for i := range ps {
		for j := i + 1; j < len(ps); j++ {
			d := cross(ps[i].n, ps[j].n)
			g := gcd(gcd(d[0], d[1]), d[2])
			if g == 0 {
				continue
			}
			bump(&gL, abs(d[0])/g)
			bump(&gW, abs(d[1])/g)
			bump(&gW, abs(d[2])/g)
			for k := j + 1; k < len(ps); k++ {
				n3 := ps[k].n
				det := d[0]*n3[0] + d[1]*n3[1] + d[2]*n3[2]
				if det == 0 {
					continue
				}
				// Cramer: x = (r1 (n2 x n3) + r2 (n3 x n1) + r3 (n1 x n2)) / det
				r := [3]int64{-ps[i].c, -ps[j].c, -ps[k].c}
				c23, c31 := cross(ps[j].n, n3), cross(n3, ps[i].n)
				for q := 0; q < 3; q++ {
					num := r[0]*c23[q] + r[1]*c31[q] + r[2]*d[q]
					if q == 0 {
						bump(&vL, ceilDiv(num, det))
					} else {
						bump(&vW, ceilDiv(num, det))
					}
				}
			}
		}
	}
	return vL + 3*gL + 2, vW + 3*gW + 2
}

// affTable: the common driver of the BD2 rules. It follows fn over a box of (len, int
// arguments), first on the base box to learn which half-planes the code decides by
// (recorded together with the statement's own planes), then - if boxNeeded asks for
// more - on a box of the size those planes require. judge compares one outcome with the
// statement and names the region of a disagreement.
type affTable struct {
	rule, name   string
	fn           *ssa.Function
	slice        *ssa.Parameter
	ints         []*ssa.Parameter // one or two integer parameters
	baseL, baseW int64
	capL, capW   int64
	stmtPlanes   [][4]int64
	judge        func(L int64, a []int64, out miniOut, reads []int64) (ok bool, reason, region string)
	call         func(L int64, a []int64) string // how to print the call
}

func runAffTable(c rc, t affTable) {
	p := c.p
	dims := 1 + len(t.ints)
	eval := func(L int64, a []int64, forms map[[4]int64]bool) (miniOut, []int64, bool, string) {
		args := map[*ssa.Parameter]mv{}
		for i, prm := range t.ints {
			af := affForm{ok: true}
			af.co[1+i] = 1
			args[prm] = mv{k: mvInt, n: a[i], af: af}
		}
		var reads []int64
		out, ok, why := miniEval(t.fn, args, miniEnv{p: p, slice: t.slice, length: L, reads: &reads, forms: forms})
		return out, reads, ok, why
	}
	sweep := func(maxL, w int64, visit func(L int64, a []int64) bool) bool {
		a := make([]int64, len(t.ints))
		var rec func(i int, L int64) bool
		rec = func(i int, L int64) bool {
			if i == len(t.ints) {
				return visit(L, a)
			}
			for v := -w; v <= w; v++ {
				a[i] = v
				if !rec(i+1, L) {
					return false
				}
			}
			return true
		}
		for L := int64(0); L <= maxL; L++ {
			if !rec(0, L) {
				return false
			}
		}
		return true
	}
	// pass 1: learn the planes
	forms := map[[4]int64]bool{}
	for _, pl := range t.stmtPlanes {
		forms[pl] = true
	}
	undecided := ""
	sweep(t.baseL, t.baseW, func(L int64, a []int64) bool {
		_, _, ok, why := eval(L, a, forms)
		if !ok {
			undecided = why
			return false
		}
		return true
	})
	if undecided != "" {
		c.und(t.rule, t.name, "table", c.fpos(t.fn), t.name+" cannot be followed by the table's evaluator ("+undecided+")")
		return
	}
	needL, needW := boxNeeded(forms, dims)
	maxL, w := t.baseL, t.baseW
	if needL > maxL {
		maxL = needL
	}
	if needW > w {
		w = needW
	}
	c.r.Obligation(t.rule, true, map[string]any{"rule": t.rule, "function": t.name, "object": "box sized from the half-planes the code and the statement decide by", "half_planes": len(forms), "box_len": maxL, "box_args": w})
	if maxL > t.capL || w > t.capW {
		c.und(t.rule, t.name, "table size", c.fpos(t.fn), fmt.Sprintf("the half-planes %s decides by need a table up to length %d and arguments up to %d in magnitude, more than this rule tabulates (%d, %d)", t.name, needL, needW, t.capL, t.capW))
		return
	}
	reported := map[string]bool{}
	sweep(maxL, w, func(L int64, a []int64) bool {
		out, reads, ok, why := eval(L, a, nil)
		if !ok {
			c.und(t.rule, t.name, "table", c.fpos(t.fn), t.name+" cannot be followed by the table's evaluator ("+why+")")
			return false
		}
		okV, reason, region := t.judge(L, a, out, reads)
		smp := map[string]any{"rule": t.rule, "function": t.name, "len": L, "ok": okV}
		for i := range a {
			smp[fmt.Sprintf("arg%d", i+1)] = a[i]
		}
		c.r.Obligation(t.rule, okV, smp)
		if !okV && !reported[region] && len(reported) < 8 {
			reported[region] = true
			c.r.Violation(coreDiag(t.rule, t.name, region, c.fpos(t.fn), t.call(L, a)+" "+reason))
		}
		return true
	})
}
