package props

import (
	"go/token"

	"golang.org/x/tools/go/ssa"

	"gogucheck/core"
	"gogucheck/path"
)

// GG4 (C20): "at most one permission per period regardless of how triggers interleave
// with Next". A permission is consumed in Next (waiting = false, last = now). It is
// granted in Call by setting waiting = true - at once where the time since the last
// permission exceeds the period, or, in trailing mode, inside the period with a wake-up
// scheduled for its end. A Next that is BLOCKED stays blocked until that wake-up (CV4),
// but a Next that ARRIVES after such a deferred grant finds waiting == true and takes
// the permission at once, inside the period: Call, Next, Call, Next hands out two
// permissions in one period. One of two structural conditions is necessary:
//
//	(A) Next consumes only where the period is known to have elapsed: on every way from
//	    the function entry or from a return of cond.Wait to the store waiting = false,
//	    the three facts stop / waiting / time.Since(last) > duration - evaluated over all
//	    eight combinations, each field read standing for one value between two waits (the
//	    lock is held) - include "elapsed"; or
//	(B) Call never sets waiting = true on a path that has not established that the period
//	    elapsed (the deferred grant is made by the timer's function, not when it is
//	    scheduled).
type gAtoms struct{ stop, waiting, elapsed bool }

func throttleAtom(v ssa.Value) (string, bool, bool) { // atom, negated, ok
	switch x := v.(type) {
	case *ssa.UnOp:
		if x.Op == token.NOT {
			a, n, ok := throttleAtom(x.X)
			return a, !n, ok
		}
		if x.Op == token.MUL {
			if f, ok := slotOf(x.X, "throttler"); ok && (f == "stop" || f == "waiting") {
				return f, false, true
			}
		}
	case *ssa.BinOp:
		isDelta := func(v ssa.Value) bool {
			c, ok := v.(*ssa.Call)
			if !ok || !path.IsCallTo(c, "time", "Since") || len(c.Call.Args) != 1 {
				return false
			}
			u, ok := c.Call.Args[0].(*ssa.UnOp)
			if !ok || u.Op != token.MUL {
				return false
			}
			f, ok := slotOf(u.X, "throttler")
			return ok && f == "last"
		}
		isDur := func(v ssa.Value) bool {
			u, ok := v.(*ssa.UnOp)
			if !ok || u.Op != token.MUL {
				return false
			}
			f, ok := slotOf(u.X, "throttler")
			return ok && f == "duration"
		}
		op := x.Op
		l, r := x.X, x.Y
		if isDur(l) && isDelta(r) {
			l, r = r, l
			switch op {
			case token.LSS:
				op = token.GTR
			case token.LEQ:
				op = token.GEQ
			case token.GTR:
				op = token.LSS
			case token.GEQ:
				op = token.LEQ
			}
		}
		if isDelta(l) && isDur(r) {
			switch op {
			case token.GTR, token.GEQ:
				return "elapsed", false, true
			case token.LSS, token.LEQ:
				return "elapsed", true, true
			}
		}
	}
	return "", false, false
}

// gWalk follows fn from instruction index i of block b under the assignment a until a
// return or a cond.Wait; it reports whether the consuming store can be executed. A
// branch on anything other than the three facts is followed both ways.
func gWalk(b *ssa.BasicBlock, i int, a gAtoms, consume func(ssa.Instruction) bool) (consumed bool, decided bool) {
	type state struct {
		b    *ssa.BasicBlock
		i    int
		prev *ssa.BasicBlock
	}
	seen := map[state]bool{}
	decided = true
	var walk func(st state, phis map[ssa.Value]bool, depth int)
	walk = func(st state, phis map[ssa.Value]bool, depth int) {
		if depth > 64 || seen[st] {
			if depth > 64 {
				decided = false
			}
			return
		}
		seen[st] = true
		var eval func(v ssa.Value) (bool, bool)
		eval = func(v ssa.Value) (bool, bool) {
			if c, ok := path.BoolConst(v); ok {
				return c, true
			}
			if r, ok := phis[v]; ok {
				return r, true
			}
			if u, ok := v.(*ssa.UnOp); ok && u.Op == token.NOT {
				r, ok := eval(u.X)
				return !r, ok
			}
			atom, neg, ok := throttleAtom(v)
			if !ok {
				return false, false
			}
			var r bool
			switch atom {
			case "stop":
				r = a.stop
			case "waiting":
				r = a.waiting
			case "elapsed":
				r = a.elapsed
			}
			return r != neg, true
		}
		b, prev := st.b, st.prev
		for k := st.i; k < len(b.Instrs); k++ {
			in := b.Instrs[k]
			if consume(in) {
				consumed = true
			}
			switch x := in.(type) {
			case *ssa.Phi:
				for e, p := range b.Preds {
					if p == prev {
						if r, ok := eval(x.Edges[e]); ok {
							phis[x] = r
						} else {
							delete(phis, x)
						}
					}
				}
			case *ssa.Call:
				if callee := x.Call.StaticCallee(); callee != nil && callee.Name() == "Wait" && callee.Signature.Recv() != nil {
					return
				}
			case *ssa.If:
				r, ok := eval(x.Cond)
				for idx, sc := range b.Succs {
					if ok && (idx == 0) != r {
						continue
					}
					cp := map[ssa.Value]bool{}
					for kk, vv := range phis {
						cp[kk] = vv
					}
					walk(state{sc, 0, b}, cp, depth+1)
				}
				return
			case *ssa.Jump:
				walk(state{b.Succs[0], 0, b}, phis, depth+1)
				return
			case *ssa.Return:
				return
			}
		}
	}
	walk(state{b, i, nil}, map[ssa.Value]bool{}, 0)
	return consumed, decided
}

func checkThrottleGrant(p *core.Program, r *core.Report) {
	next, call := p.Func("gogu.(*throttler).Next"), p.Func("gogu.(*throttler).Call")
	if next == nil || call == nil {
		return
	}
	isConsume := func(in ssa.Instruction) bool {
		st, ok := in.(*ssa.Store)
		if !ok {
			return false
		}
		f, ok := slotOf(st.Addr, "throttler")
		if !ok || f != "waiting" {
			return false
		}
		b, isC := path.BoolConst(st.Val)
		return isC && !b
	}
	// (A)
	type start struct {
		b *ssa.BasicBlock
		i int
	}
	starts := []start{{next.Blocks[0], 0}}
	for _, b := range next.Blocks {
		for i, in := range b.Instrs {
			if c, ok := in.(*ssa.Call); ok {
				if callee := c.Call.StaticCallee(); callee != nil && callee.Name() == "Wait" && callee.Signature.Recv() != nil {
					starts = append(starts, start{b, i + 1})
				}
			}
		}
	}
	okA, decidedA := true, true
	for _, s := range starts {
		for m := 0; m < 8; m++ {
			a := gAtoms{stop: m&1 != 0, waiting: m&2 != 0, elapsed: m&4 != 0}
			consumed, decided := gWalk(s.b, s.i, a, isConsume)
			if !decided {
				decidedA = false
			}
			if consumed && !a.elapsed {
				okA = false
			}
		}
	}
	// (B)
	okB := true
	for _, in := range path.Instrs(call) {
		st, ok := in.(*ssa.Store)
		if !ok || isAllocBase(st.Addr) {
			continue
		}
		if f, ok := slotOf(st.Addr, "throttler"); !ok || f != "waiting" {
			continue
		}
		if b, isC := path.BoolConst(st.Val); !isC || !b {
			continue
		}
		elapsed := false
		for _, g := range path.Guards(call, st.Block()) {
			atom, neg, ok := throttleAtom(g.If.Cond)
			if ok && atom == "elapsed" && (g.Idx == 0) != neg {
				elapsed = true
			}
		}
		if !elapsed {
			okB = false
		}
	}
	ok := (okA && decidedA) || okB
	r.Obligation("GG4", ok, map[string]any{"rule": "GG4", "function": "gogu.(*throttler).Next", "what": "a permission is consumed only after the period (tested in Next), or never granted before it (in Call)", "next_tests_elapsed": okA && decidedA, "call_grants_only_elapsed": okB, "ok": ok})
	if !ok {
		pos := p.Pos(next.Pos())
		r.Violation(core.Diag{Rule: "GG4", Func: "gogu.(*throttler).Next", Object: "one permission per period", Pos: pos,
			Reason: "in trailing mode Call sets waiting = true inside the period (and only schedules the wake-up for its end), and Next consumes whenever it finds waiting set without testing time.Since(last) > duration: a Next that arrives after such a Call - Call, Next, Call, Next in quick succession - returns true twice inside one period"})
	}
}
