package props

import (
	"fmt"
	"go/token"
	"go/types"
	"sort"

	"golang.org/x/tools/go/ssa"

	"gogucheck/path"
)

// SH1: local shape rule for the three primitives of the LRU's circular doubly
// linked list (and its constructor).
//
// Abstract domain: a symbolic heap of node symbols with lazily materialised
// next/prev fields. The initial heap is any well-formed circular list
// (x.next.prev == x == x.prev.next for every node, the sentinel &l.root among
// them). Reading a field that is not yet materialised forks the state over every
// consistent choice: one of the symbols already present, or a fresh node - so all
// aliasing situations between the parameters, their neighbours and the sentinel
// are enumerated exhaustively (a finite set: the primitives touch at most six
// nodes). Stores are strong updates (symbols denote distinct concrete nodes within
// one alias case). At every return the current heap is compared with the splice
// the primitive promises, expressed over the *initial* neighbours. No value is ever
// computed and nothing is executed; an instruction outside the interpreted subset
// makes the rule undecided.

type shSym int

const shNil shSym = 0

type shHeap struct {
	initNext, initPrev map[shSym]shSym // materialised initial fields
	curNext, curPrev   map[shSym]shSym // fields written by the function
	fresh              map[shSym]bool  // allocated by the function
	tmp                map[shSym]bool  // local (non-escaping) node records
	inList             map[shSym]bool
	n                  int
	lenDelta           int
	lenWrites          int
	keyOf, valOf       map[shSym]ssa.Value
	trace              []string
}

func (h *shHeap) clone() *shHeap {
	c := &shHeap{n: h.n, lenDelta: h.lenDelta, lenWrites: h.lenWrites}
	cp := func(m map[shSym]shSym) map[shSym]shSym {
		o := make(map[shSym]shSym, len(m))
		for k, v := range m {
			o[k] = v
		}
		return o
	}
	cb := func(m map[shSym]bool) map[shSym]bool {
		o := make(map[shSym]bool, len(m))
		for k, v := range m {
			o[k] = v
		}
		return o
	}
	c.initNext, c.initPrev, c.curNext, c.curPrev = cp(h.initNext), cp(h.initPrev), cp(h.curNext), cp(h.curPrev)
	c.fresh, c.tmp, c.inList = cb(h.fresh), cb(h.tmp), cb(h.inList)
	c.keyOf, c.valOf = map[shSym]ssa.Value{}, map[shSym]ssa.Value{}
	for k, v := range h.keyOf {
		c.keyOf[k] = v
	}
	for k, v := range h.valOf {
		c.valOf[k] = v
	}
	c.trace = append([]string(nil), h.trace...)
	return c
}

func newShHeap() *shHeap {
	return &shHeap{initNext: map[shSym]shSym{}, initPrev: map[shSym]shSym{}, curNext: map[shSym]shSym{}, curPrev: map[shSym]shSym{},
		fresh: map[shSym]bool{}, tmp: map[shSym]bool{}, inList: map[shSym]bool{}, keyOf: map[shSym]ssa.Value{}, valOf: map[shSym]ssa.Value{}}
}

func (h *shHeap) newSym(inList bool) shSym {
	h.n++
	s := shSym(h.n)
	if inList {
		h.inList[s] = true
	}
	return s
}

// materialise returns the states in which the initial value of x.field is known.
func (h *shHeap) materialise(x shSym, field string) []*shHeap {
	fw, bw := h.initNext, h.initPrev
	if field == "prev" {
		fw, bw = h.initPrev, h.initNext
	}
	if _, ok := fw[x]; ok {
		return []*shHeap{h}
	}
	var out []*shHeap
	var cands []shSym
	for s := range h.inList {
		cands = append(cands, s)
	}
	sort.Slice(cands, func(i, j int) bool { return cands[i] < cands[j] })
	for _, s := range cands {
		// consistent: s's back field is unknown or x, and no other y has forward field s
		if b, ok := bw[s]; ok && b != x {
			continue
		}
		taken := false
		for y, t := range fw {
			if t == s && y != x {
				taken = true
			}
		}
		if taken {
			continue
		}
		c := h.clone()
		if field == "prev" {
			c.initPrev[x] = s
			c.initNext[s] = x
		} else {
			c.initNext[x] = s
			c.initPrev[s] = x
		}
		out = append(out, c)
	}
	c := h.clone()
	f := c.newSym(true)
	if field == "prev" {
		c.initPrev[x] = f
		c.initNext[f] = x
	} else {
		c.initNext[x] = f
		c.initPrev[f] = x
	}
	out = append(out, c)
	return out
}

func (h *shHeap) get(x shSym, field string) (shSym, bool) {
	cur, ini := h.curNext, h.initNext
	if field == "prev" {
		cur, ini = h.curPrev, h.initPrev
	}
	if v, ok := cur[x]; ok {
		return v, true
	}
	if h.fresh[x] || h.tmp[x] {
		return shNil, true // zero value of a new node
	}
	v, ok := ini[x]
	return v, ok
}

func (h *shHeap) set(x shSym, field string, v shSym) {
	if field == "prev" {
		h.curPrev[x] = v
	} else {
		h.curNext[x] = v
	}
}

// abstract values
type shVal struct {
	kind  string // "ptr", "addr", "rec", "bool", "len", "lenaddr", "other"
	sym   shSym
	field string
	b     bool
	k     int
}

type shResult struct {
	h   *shHeap
	ret []shVal
}

type shFrame struct {
	params map[*ssa.Parameter]shVal
	k      func(h *shHeap, rets []shVal)
	depth  int
}

type shInterp struct {
	inModule func(*ssa.Function) bool
	fn       *ssa.Function
	root     shSym
	und      string
	results  []shResult
	steps    int
}

func (it *shInterp) run(h *shHeap, b *ssa.BasicBlock, idx int, env map[ssa.Value]shVal, prev *ssa.BasicBlock, fr *shFrame) {
	if it.und != "" {
		return
	}
	it.steps++
	if it.steps > 20000 {
		it.und = "state space too large"
		return
	}
	val := func(v ssa.Value) (shVal, bool) {
		switch x := v.(type) {
		case *ssa.Parameter:
			r, ok := fr.params[x]
			return r, ok
		case *ssa.Const:
			if x.Value == nil {
				return shVal{kind: "ptr", sym: shNil}, true
			}
			if k, ok := path.IntConst(x); ok {
				return shVal{kind: "len", k: int(k), field: "const"}, true
			}
			if bv, ok := path.BoolConst(x); ok {
				return shVal{kind: "bool", b: bv}, true
			}
			return shVal{kind: "other"}, true
		}
		r, ok := env[v]
		return r, ok
	}
	for i := idx; i < len(b.Instrs); i++ {
		in := b.Instrs[i]
		switch x := in.(type) {
		case *ssa.Phi:
			for k, p := range b.Preds {
				if p == prev {
					if r, ok := val(x.Edges[k]); ok {
						env[x] = r
					}
				}
			}
		case *ssa.DebugRef:
		case *ssa.ChangeType:
			if r, ok := val(x.X); ok {
				env[x] = r
			}
		case *ssa.Alloc:
			n := namedOf(x.Type())
			if n != nil && n.Obj().Name() == "node" {
				s := h.newSym(false)
				if x.Heap {
					h.fresh[s] = true
				} else {
					h.tmp[s] = true
				}
				env[x] = shVal{kind: "ptr", sym: s}
			} else if n != nil && n.Obj().Name() == "lruList" {
				// a new list: its root is a fresh node symbol
				s := h.newSym(false)
				h.fresh[s] = true
				env[x] = shVal{kind: "list", sym: s}
			} else {
				env[x] = shVal{kind: "other"}
			}
		case *ssa.FieldAddr:
			base, ok := val(x.X)
			if !ok {
				it.und = "address of an untracked value"
				return
			}
			fname := fieldName(x.X.Type(), x.Field)
			switch {
			case base.kind == "list" || (base.kind == "other" && namedOf(x.X.Type()) != nil && namedOf(x.X.Type()).Obj().Name() == "lruList"):
				if fname == "root" {
					s := it.root
					if base.kind == "list" {
						s = base.sym
					}
					env[x] = shVal{kind: "ptr", sym: s}
				} else {
					env[x] = shVal{kind: "lenaddr"}
				}
			case base.kind == "ptr":
				if base.sym == shNil {
					it.und = "field of nil"
					return
				}
				env[x] = shVal{kind: "addr", sym: base.sym, field: fname}
			default:
				env[x] = shVal{kind: "other"}
			}
		case *ssa.UnOp:
			if x.Op != token.MUL {
				a, ok := val(x.X)
				if ok && x.Op == token.NOT && a.kind == "bool" {
					env[x] = shVal{kind: "bool", b: !a.b}
					continue
				}
				it.und = "unary " + x.Op.String()
				return
			}
			a, ok := val(x.X)
			if !ok {
				it.und = "load of an untracked address"
				return
			}
			switch a.kind {
			case "addr":
				if a.field == "next" || a.field == "prev" {
					if _, known := h.get(a.sym, a.field); !known {
						for _, c := range h.materialise(a.sym, a.field) {
							e2 := map[ssa.Value]shVal{}
							for k, v := range env {
								e2[k] = v
							}
							it.run(c, b, i, e2, prev, fr)
						}
						return
					}
					v, _ := h.get(a.sym, a.field)
					env[x] = shVal{kind: "ptr", sym: v}
				} else {
					env[x] = shVal{kind: "other"}
				}
			case "ptr":
				// load of a whole node record (copy)
				env[x] = shVal{kind: "rec", sym: a.sym}
			case "lenaddr":
				env[x] = shVal{kind: "len", k: h.lenDelta}
			case "list":
				env[x] = shVal{kind: "listrec", sym: a.sym}
			default:
				env[x] = shVal{kind: "other"}
			}
		case *ssa.Store:
			a, ok := val(x.Addr)
			if !ok {
				it.und = "store through an untracked address"
				return
			}
			v, okv := val(x.Val)
			switch a.kind {
			case "addr":
				switch a.field {
				case "next", "prev":
					if !okv || v.kind != "ptr" {
						it.und = "a link receives an untracked value"
						return
					}
					h.set(a.sym, a.field, v.sym)
				case "key":
					h.keyOf[a.sym] = x.Val
				case "value":
					h.valOf[a.sym] = x.Val
				}
			case "ptr":
				// whole-record store *dst = rec
				if okv && v.kind == "rec" {
					for _, f := range []string{"next", "prev"} {
						if t, known := h.get(v.sym, f); known {
							h.set(a.sym, f, t)
						}
					}
					h.keyOf[a.sym], h.valOf[a.sym] = h.keyOf[v.sym], h.valOf[v.sym]
				} else if okv && v.kind == "other" {
					// zero literal node[K,V]{}
					h.set(a.sym, "next", shNil)
					h.set(a.sym, "prev", shNil)
				} else {
					it.und = "whole-node store of an untracked value"
					return
				}
			case "lenaddr":
				if okv && v.kind == "len" {
					h.lenDelta = v.k
					h.lenWrites++
				} else {
					it.und = "len receives an untracked value"
					return
				}
			case "list":
				// *newlist = literal copy: nothing to track beyond the root symbol
			}
		case *ssa.BinOp:
			l, ok1 := val(x.X)
			r, ok2 := val(x.Y)
			if !ok1 || !ok2 {
				it.und = "operand of " + x.Op.String() + " untracked"
				return
			}
			switch {
			case (x.Op == token.EQL || x.Op == token.NEQ) && l.kind == "ptr" && r.kind == "ptr":
				env[x] = shVal{kind: "bool", b: (l.sym == r.sym) == (x.Op == token.EQL)}
			case (x.Op == token.ADD || x.Op == token.SUB) && l.kind == "len" && r.kind == "len" && r.field == "const":
				k := r.k
				if x.Op == token.SUB {
					k = -k
				}
				env[x] = shVal{kind: "len", k: l.k + k}
			default:
				it.und = "binary " + x.Op.String() + " outside the interpreted subset"
				return
			}
		case *ssa.If:
			cv, ok := val(x.Cond)
			if !ok || cv.kind != "bool" {
				it.und = "branch on an untracked condition"
				return
			}
			nb := b.Succs[1]
			if cv.b {
				nb = b.Succs[0]
			}
			it.run(h, nb, 0, env, b, fr)
			return
		case *ssa.Jump:
			it.run(h, b.Succs[0], 0, env, b, fr)
			return
		case *ssa.Return:
			var rv []shVal
			for _, r := range x.Results {
				v, ok := val(r)
				if !ok {
					v = shVal{kind: "other"}
				}
				rv = append(rv, v)
			}
			fr.k(h, rv)
			return
		case *ssa.Call:
			callee := path.StaticCallee(x)
			if callee == nil || len(callee.Blocks) == 0 || fr.depth >= 4 || !it.inModule(callee) {
				it.und = "call outside the interpreted subset"
				return
			}
			nf := &shFrame{params: map[*ssa.Parameter]shVal{}, depth: fr.depth + 1}
			for ai, prm := range callee.Params {
				if ai < len(x.Call.Args) {
					if av, ok := val(x.Call.Args[ai]); ok {
						nf.params[prm] = av
					} else {
						nf.params[prm] = shVal{kind: "other"}
					}
				}
			}
			cont := i + 1
			callV := x
			nf.k = func(h2 *shHeap, rets []shVal) {
				e2 := map[ssa.Value]shVal{}
				for k, v := range env {
					e2[k] = v
				}
				if len(rets) == 1 {
					e2[callV] = rets[0]
				} else {
					e2[callV] = shVal{kind: "other"}
				}
				it.run(h2, b, cont, e2, prev, fr)
			}
			it.run(h, callee.Blocks[0], 0, map[ssa.Value]shVal{}, nil, nf)
			return
		default:
			it.und = fmt.Sprintf("instruction %T outside the interpreted subset", in)
			return
		}
	}
}

// shRef is the reference heap: the initial (materialised) links, on which the
// promised splice is applied as plain sequential assignments.
type shRef struct{ next, prev map[shSym]shSym }

func (h *shHeap) ref() *shRef {
	r := &shRef{map[shSym]shSym{}, map[shSym]shSym{}}
	for k, v := range h.initNext {
		r.next[k] = v
	}
	for k, v := range h.initPrev {
		r.prev[k] = v
	}
	return r
}

// shCompare: every materialised link of every list node (and of the nodes in
// extra) must equal the reference; skip lists nodes whose links are irrelevant.
func shCompare(h *shHeap, r *shRef, extra []shSym, skip map[shSym]bool) string {
	syms := map[shSym]bool{}
	for s := range h.inList {
		syms[s] = true
	}
	for _, s := range extra {
		syms[s] = true
	}
	var order []shSym
	for s := range syms {
		order = append(order, s)
	}
	sort.Slice(order, func(i, j int) bool { return order[i] < order[j] })
	for _, s := range order {
		if skip[s] || h.tmp[s] {
			continue
		}
		for _, f := range []string{"next", "prev"} {
			want, wok := r.next[s], true
			if f == "prev" {
				want, wok = r.prev[s], true
			}
			if f == "next" {
				_, wok = r.next[s]
			} else {
				_, wok = r.prev[s]
			}
			got, gok := h.get(s, f)
			if !wok && !gok {
				continue // never looked at, never written
			}
			if wok && !gok {
				continue // reference knows it, function never touched it: unchanged initial value is what the reference holds only if unwritten there too
			}
			if !wok && gok {
				return fmt.Sprintf("node n%d.%s is written (n%d) although the operation must leave it alone", s, f, got)
			}
			if got != want {
				return fmt.Sprintf("node n%d.%s ends as n%d, the promised splice gives n%d", s, f, got, want)
			}
		}
	}
	return ""
}

func init() {
	shapeLRUImpl = func(c rc, lf map[string]*ssa.Function, newList *ssa.Function) {
		p := c.p
		runCases := func(fn *ssa.Function, nodeParams []int, setup func(h *shHeap, syms []shSym) []*shHeap,
			check func(h *shHeap, syms []shSym, ret []shVal) string) {
			fname := p.FuncName(fn)
			// alias cases between the sentinel and the node parameters: all partitions
			n := len(nodeParams) + 1
			var parts [][]int
			var gen func(i int, cur []int, max int)
			gen = func(i int, cur []int, max int) {
				if i == n {
					parts = append(parts, append([]int(nil), cur...))
					return
				}
				for g := 0; g <= max+1; g++ {
					m := max
					if g > max {
						m = g
					}
					gen(i+1, append(cur, g), m)
				}
			}
			gen(1, []int{0}, 0)
			cases, bad := 0, 0
			first := ""
			for _, part := range parts {
				h0 := newShHeap()
				group := map[int]shSym{}
				syms := make([]shSym, n) // syms[0] = sentinel
				for i, g := range part {
					if _, ok := group[g]; !ok {
						group[g] = h0.newSym(true)
					}
					syms[i] = group[g]
				}
				for _, h := range setup(h0, syms) {
					it := &shInterp{fn: fn, root: syms[0], inModule: p.InModule}
					fr := &shFrame{params: map[*ssa.Parameter]shVal{}}
					fr.k = func(h2 *shHeap, rets []shVal) { it.results = append(it.results, shResult{h2, rets}) }
					fr.params[fn.Params[0]] = shVal{kind: "other"}
					for i, pi := range nodeParams {
						fr.params[fn.Params[pi]] = shVal{kind: "ptr", sym: syms[i+1]}
					}
					for i, prm := range fn.Params {
						if _, ok := fr.params[prm]; !ok && i > 0 {
							fr.params[prm] = shVal{kind: "other"}
						}
					}
					it.run(h, fn.Blocks[0], 0, map[ssa.Value]shVal{}, nil, fr)
					if it.und != "" {
						c.und("SH1", fname, "interpretable form", c.fpos(fn), "the primitive left the subset the local shape rule interprets ("+it.und+")")
						return
					}
					for _, res := range it.results {
						cases++
						if msg := check(res.h, syms, res.ret); msg != "" {
							bad++
							if first == "" {
								first = fmt.Sprintf("alias case %v: %s", part, msg)
							}
						}
					}
				}
			}
			c.r.Obligation("SH1", bad == 0, map[string]any{"rule": "SH1", "function": fname, "alias_and_neighbour_cases": cases, "violating": bad})
			c.r.Count("SH1", cases-1)
			if bad > 0 {
				c.r.Violation(coreDiag("SH1", fname, "list splice", c.fpos(fn), fmt.Sprintf("in %d of %d aliasing/neighbour situations the links after the call are not the promised splice; %s", bad, cases, first)))
			}
		}
		// ---- moveAfter(current, nd): nd != sentinel is a precondition (callers pass entries)
		if fn := lf["moveAfter"]; fn != nil {
			runCases(fn, []int{1, 2},
				func(h *shHeap, s []shSym) []*shHeap {
					if s[2] == s[0] {
						return nil // nd is never the sentinel
					}
					var out []*shHeap
					for _, a := range h.materialise(s[2], "prev") {
						for _, b := range a.materialise(s[2], "next") {
							out = append(out, b.materialise(s[1], "next")...)
						}
					}
					return out
				},
				func(h *shHeap, s []shSym, _ []shVal) string {
					cur, nd := s[1], s[2]
					r := h.ref()
					if cur != nd {
						// unlink nd ...
						P, N := r.prev[nd], r.next[nd]
						r.next[P] = N
						r.prev[N] = P
						// ... and link it directly behind cur
						C := r.next[cur]
						r.next[cur] = nd
						r.prev[nd] = cur
						r.next[nd] = C
						r.prev[C] = nd
					}
					return shCompare(h, r, nil, nil)
				})
		}
		// ---- addAfter(current, key, value)
		if fn := lf["addAfter"]; fn != nil {
			runCases(fn, []int{1},
				func(h *shHeap, s []shSym) []*shHeap { return h.materialise(s[1], "next") },
				func(h *shHeap, s []shSym, ret []shVal) string {
					cur := s[1]
					C := h.initNext[cur]
					if len(ret) != 1 || ret[0].kind != "ptr" || !h.fresh[ret[0].sym] {
						return "the function does not return a freshly allocated node"
					}
					X := ret[0].sym
					r := h.ref()
					r.prev[X] = cur
					r.next[X] = C
					r.prev[C] = X
					r.next[cur] = X
					if msg := shCompare(h, r, []shSym{X}, nil); msg != "" {
						return msg
					}
					if h.lenDelta != 1 || h.lenWrites != 1 {
						return fmt.Sprintf("len changes by %d in %d stores, expected +1 once", h.lenDelta, h.lenWrites)
					}
					if h.keyOf[X] != ssa.Value(fn.Params[2]) || h.valOf[X] != ssa.Value(fn.Params[3]) {
						return "the new node does not carry the key and value parameters"
					}
					return ""
				})
		}
		// ---- remove(node)
		if fn := lf["remove"]; fn != nil {
			runCases(fn, []int{1},
				func(h *shHeap, s []shSym) []*shHeap {
					var out []*shHeap
					for _, a := range h.materialise(s[1], "prev") {
						out = append(out, a.materialise(s[1], "next")...)
					}
					return out
				},
				func(h *shHeap, s []shSym, ret []shVal) string {
					node := s[1]
					if len(ret) != 1 || ret[0].kind != "bool" {
						return "remove must return a boolean"
					}
					if node == s[0] {
						if ret[0].b {
							return "removing the sentinel reports success"
						}
						if h.lenWrites != 0 {
							return "len changes although nothing was removed"
						}
						return shCompare(h, h.ref(), nil, nil)
					}
					P, N := h.initPrev[node], h.initNext[node]
					r := h.ref()
					r.next[P] = N
					r.prev[N] = P
					if msg := shCompare(h, r, nil, map[shSym]bool{node: true}); msg != "" {
						return msg
					}
					if !ret[0].b {
						return "a real node was unlinked but false is returned"
					}
					if h.lenDelta != -1 || h.lenWrites != 1 {
						return fmt.Sprintf("len changes by %d in %d stores, expected -1 once", h.lenDelta, h.lenWrites)
					}
					return ""
				})
		}
		// ---- newLRUList: the sentinel points at itself both ways
		if newList != nil {
			h := newShHeap()
			it := &shInterp{fn: newList, inModule: p.InModule}
			fr := &shFrame{params: map[*ssa.Parameter]shVal{}}
			fr.k = func(h2 *shHeap, rets []shVal) { it.results = append(it.results, shResult{h2, rets}) }
			it.run(h, newList.Blocks[0], 0, map[ssa.Value]shVal{}, nil, fr)
			fname := p.FuncName(newList)
			if it.und != "" || len(it.results) != 1 {
				c.und("SH1", fname, "interpretable form", c.fpos(newList), "the constructor left the subset the local shape rule interprets ("+it.und+")")
			} else {
				res := it.results[0]
				ok := false
				if len(res.ret) == 1 && res.ret[0].kind == "list" {
					r := res.ret[0].sym
					nx, ok1 := res.h.get(r, "next")
					pv, ok2 := res.h.get(r, "prev")
					ok = ok1 && ok2 && nx == r && pv == r
				}
				c.ob("SH1", fname, "empty list is the sentinel linked to itself", c.fpos(newList), ok, "a new list must have root.next == root.prev == &root")
			}
		}
		_ = types.Typ
	}
}
